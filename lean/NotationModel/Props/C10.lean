/-
C10 - Registry verification stops at the first good signature, within the limit.
Property theorems only; the model is in `Model/C10.lean`.
-/
import NotationModel.Model.C10
import NotationModel.Generated.SrcVerify

namespace NotationModel.C10

/-! ### helper lemmas about the loop -/

/-- outcome of the listing as `run` sees it: `ok` and `exceeded` are both "no success" -/
def norm : (Except Stop Nat) × Log → (Option Stop) × Log
  | (.error (.done j), l) => (some (.done j), l)
  | (.error (.fetchErr j), l) => (some (.fetchErr j), l)
  | (.error .exceeded, l) => (none, l)
  | (.ok _, l) => (none, l)

theorem page_ok_count (max : Nat) : ∀ (p : List Sig) (i n : Nat) (log log' : Log) (n' : Nat),
    page max p i n log = (.ok n', log') → n' = n + p.length ∧ n' < max := by
  intro p
  induction p with
  | nil =>
    intro i n log log' n' h
    simp only [page] at h
    split at h <;> simp_all <;> omega
  | cons s r ih =>
    intro i n log log' n' h
    simp only [page] at h
    split at h
    · simp at h
    · cases s <;> simp at h
      have := ih _ _ _ _ _ h
      simp only [List.length_cons]; omega

/-- a page that stopped with `exceeded` stops the same way, with the same log, whatever follows -/
theorem page_append (max : Nat) : ∀ (p q : List Sig) (i n : Nat) (log : Log),
    norm (page max (p ++ q) i n log) =
      match page max p i n log with
      | (.ok n', log') => norm (page max q (i + p.length) n' log')
      | (.error .exceeded, log') => (none, log')
      | r => norm r := by
  intro p
  induction p with
  | nil =>
    intro q i n log
    simp only [List.nil_append, page, List.length_nil, Nat.add_zero]
    by_cases h : n ≥ max
    · simp only [h, if_true]
      cases q with
      | nil => simp [page, h, norm]
      | cons s r => simp [page, h, norm]
    · simp [h]
  | cons s r ih =>
    intro q i n log
    simp only [List.cons_append, page]
    by_cases h : n ≥ max
    · simp [h, norm]
    · simp only [h, if_false]
      cases s with
      | unfetchable => simp [norm]
      | good => simp [norm]
      | bad =>
        simp only []
        rw [ih]
        have : i + 1 + r.length = i + (r.length + 1) := by omega
        simp only [List.length_cons, this]

/-- paging does not matter: the paged loop is the loop over the flattened listing -/
theorem pages_flatten (max : Nat) : ∀ (ps : List (List Sig)) (i n : Nat) (log : Log),
    norm (pages max ps i n log) = norm (page max ps.flatten i n log) := by
  intro ps
  induction ps with
  | nil =>
    intro i n log
    simp only [pages, List.flatten_nil, page]
    by_cases h : n ≥ max <;> simp [h, norm]
  | cons p ps ih =>
    intro i n log
    simp only [pages, List.flatten_cons]
    rw [page_append]
    cases hp : page max p i n log with
    | mk r log' =>
      cases r with
      | ok n' => simp only []; exact ih _ _ _
      | error e => cases e <;> simp [norm]

/-- what one pass over a (flat) listing does, from a state where `n = i` signatures have been
processed and all of them were fetched and verified -/
theorem page_post (max : Nat) : ∀ (L : List Sig) (i : Nat) (log : Log),
    log.fetched = List.range i → log.verified = List.range i →
    match norm (page max L i i log) with
    | (some (.done j), log') =>
        specFind (L.take (max - i)) i = some j ∧ i ≤ j ∧ j < max ∧
        log'.fetched = List.range (j+1) ∧ log'.verified = List.range (j+1) ∧
        (∀ k, i ≤ k → k ≤ j → L[k - i]? ≠ some .unfetchable)
    | (some (.fetchErr j), log') =>
        specFind (L.take (max - i)) i = none ∧ i ≤ j ∧ j < max ∧
        log'.fetched = List.range (j+1) ∧ log'.verified = List.range j ∧
        (∀ k, i ≤ k → k < j → L[k - i]? ≠ some .unfetchable) ∧ L[j - i]? = some .unfetchable
    | (some .exceeded, _) => False
    | (none, log') =>
        specFind (L.take (max - i)) i = none ∧
        ∃ m, i ≤ m ∧ (m ≤ max ∨ m = i) ∧ log'.fetched = List.range m ∧ log'.verified = List.range m ∧
        (∀ k, i ≤ k → k < m → L[k - i]? ≠ some .unfetchable) := by
  intro L
  induction L with
  | nil =>
    intro i log hf hv
    simp only [page]
    by_cases h : i ≥ max
    · simp only [h, if_true, norm]
      exact ⟨by simp [specFind], i, Nat.le_refl _, Or.inr rfl, hf, hv, by intro k h1 h2; omega⟩
    · simp only [h, if_false, norm]
      exact ⟨by simp [specFind], i, Nat.le_refl _, Or.inr rfl, hf, hv, by intro k h1 h2; omega⟩
  | cons s r ih =>
    intro i log hf hv
    simp only [page]
    by_cases h : i ≥ max
    · simp only [h, if_true, norm]
      have : max - i = 0 := by omega
      exact ⟨by simp [this, specFind], i, Nat.le_refl _, Or.inr rfl, hf, hv, by intro k h1 h2; omega⟩
    · simp only [h, if_false]
      have hm : max - i = (max - (i+1)) + 1 := by omega
      cases s with
      | unfetchable =>
        simp only [norm]
        refine ⟨by simp [hm, List.take_succ_cons, specFind], Nat.le_refl _, by omega, ?_, hv, ?_, by simp⟩
        · simp [hf, List.range_succ]
        · intro k h1 h2; omega
      | good =>
        simp only [norm]
        refine ⟨by simp [hm, List.take_succ_cons, specFind], Nat.le_refl _, by omega, ?_, ?_, ?_⟩
        · simp [hf, List.range_succ]
        · simp [hv, List.range_succ]
        · intro k h1 h2
          have : k - i = 0 := by omega
          simp [this]
      | bad =>
        have := ih (i+1) { fetched := log.fetched ++ [i], verified := log.verified ++ [i] }
          (by simp [hf, List.range_succ]) (by simp [hv, List.range_succ])
        simp only [hm, List.take_succ_cons, specFind]
        have hidx : ∀ k, i + 1 ≤ k → (Sig.bad :: r)[k - i]? = r[k - (i+1)]? := by
          intro k hk
          have : k - i = (k - (i+1)) + 1 := by omega
          rw [this]; simp
        have h0 : (Sig.bad :: r)[i - i]? ≠ some .unfetchable := by simp
        generalize norm (page max r (i+1) (i+1) _) = res at this ⊢
        match res, this with
        | (some (.done j), log'), ⟨h1, h2, h3, h4, h5, h6⟩ =>
          refine ⟨h1, by omega, h3, h4, h5, ?_⟩
          intro k hk1 hk2
          by_cases hk : k = i
          · subst hk; exact h0
          · rw [hidx k (by omega)]; exact h6 k (by omega) hk2
        | (some (.fetchErr j), log'), ⟨h1, h2, h3, h4, h5, h6, h7⟩ =>
          refine ⟨h1, by omega, h3, h4, h5, ?_, ?_⟩
          · intro k hk1 hk2
            by_cases hk : k = i
            · subst hk; exact h0
            · rw [hidx k (by omega)]; exact h6 k (by omega) hk2
          · rw [hidx j (by omega)]; exact h7
        | (none, log'), ⟨h1, m, h2, h3, h4, h5, h6⟩ =>
          refine ⟨h1, m, by omega, ?_, h4, h5, ?_⟩
          · rcases h3 with h3 | h3
            · exact Or.inl h3
            · exact Or.inl (by omega)
          · intro k hk1 hk2
            by_cases hk : k = i
            · subst hk; exact h0
            · rw [hidx k (by omega)]; exact h6 k (by omega) hk2

end NotationModel.C10

namespace NotationModel.C10

/-- outcome of the whole loop as `run` uses it -/
theorem loop_post (max : Nat) (ps : List (List Sig)) :
    match norm (pages max ps 0 0 {}) with
    | (some (.done j), log') =>
        specFind (ps.flatten.take max) 0 = some j ∧ j < max ∧
        log'.fetched = List.range (j+1) ∧ log'.verified = List.range (j+1) ∧
        (∀ k, k ≤ j → ps.flatten[k]? ≠ some .unfetchable)
    | (some (.fetchErr j), log') =>
        specFind (ps.flatten.take max) 0 = none ∧ j < max ∧
        log'.fetched = List.range (j+1) ∧ log'.verified = List.range j ∧
        (∀ k, k < j → ps.flatten[k]? ≠ some .unfetchable) ∧ ps.flatten[j]? = some .unfetchable
    | (some .exceeded, _) => False
    | (none, log') =>
        specFind (ps.flatten.take max) 0 = none ∧
        ∃ m, m ≤ max ∧ log'.fetched = List.range m ∧ log'.verified = List.range m ∧
        (∀ k, k < m → ps.flatten[k]? ≠ some .unfetchable) := by
  rw [pages_flatten]
  have := page_post max ps.flatten 0 {} rfl rfl
  generalize norm (page max ps.flatten 0 0 {}) = res at this ⊢
  match res, this with
  | (some (.done j), log'), ⟨h1, _, h3, h4, h5, h6⟩ =>
    exact ⟨by simpa using h1, h3, h4, h5, fun k hk => by simpa using h6 k (Nat.zero_le _) hk⟩
  | (some (.fetchErr j), log'), ⟨h1, _, h3, h4, h5, h6, h7⟩ =>
    exact ⟨by simpa using h1, h3, h4, h5, fun k hk => by simpa using h6 k (Nat.zero_le _) hk, by simpa using h7⟩
  | (none, log'), ⟨h1, m, _, h3, h4, h5, h6⟩ =>
    refine ⟨by simpa using h1, m, ?_, h4, h5, fun k hk => by simpa using h6 k (Nat.zero_le _) hk⟩
    rcases h3 with h3 | h3 <;> omega

theorem filter_range_all (L : List Sig) (m : Nat)
    (h : ∀ k, k < m → L[k]? ≠ some .unfetchable) :
    (List.range m).filter (fun k => L[k]? != some .unfetchable) = List.range m := by
  apply List.filter_eq_self.2
  intro k hk
  have := h k (by simpa using hk)
  simpa using this

/-! ### property theorems -/

/-- **C10, loop refinement.** For a positive limit, a usable reference and a non-skip policy the
success index returned is the first good signature among the first `max` of the flattened
listing with nothing unfetchable before it - for listings of any length, any paging, any limit. -/
theorem verify_refines_spec (i : Input) : (run i).success = expected i := by
  unfold run expected
  by_cases hmax : i.max ≤ 0
  · simp [hmax, errObs]
  · by_cases hs : i.skip
    · simp [hmax, hs]
    · have hl : limit i = i.max.toNat := by simp [limit, hmax]
      cases href : i.ref <;> simp [hmax, hs, errObs, refOk, hl]
      all_goals
        have := loop_post i.max.toNat i.pages
        generalize hres : pages i.max.toNat i.pages 0 0 {} = res at this ⊢
        match res, this with
        | (.error (.done j), log'), h =>
          simp [norm] at h
          cases hle : i.listErr <;> simp [tail, listRet, errObs, h.1]
        | (.error (.fetchErr j), log'), h =>
          simp [norm] at h
          cases hle : i.listErr <;> simp [tail, listRet, errObs, h.1]
        | (.error .exceeded, log'), h =>
          simp [norm] at h
          cases hle : i.listErr <;> simp [tail, listRet, errObs, h.1]
        | (.ok n, log'), h =>
          simp [norm] at h
          cases hle : i.listErr <;> simp [tail, listRet, errObs, h.1]

/-- **C10, paging independence**: two pagings of the same listing give the same result. -/
theorem paging_independent (i₁ i₂ : Input) (hm : i₁.max = i₂.max) (hr : i₁.ref = i₂.ref)
    (hs : i₁.skip = i₂.skip) (hl : i₁.listErr = i₂.listErr) (hp : i₁.pages.flatten = i₂.pages.flatten) :
    (run i₁).success = (run i₂).success := by
  rw [verify_refines_spec, verify_refines_spec]
  simp [expected, limit, hm, hr, hs, hl, hp]

/-- **C10, the whole property**: every clause of `Holds` is true of the model's behaviour. -/
theorem model_holds (i : Input) : Holds i (run i) = true := by
  have hsucc : ((run i).success == expected i) = true := by simp [verify_refines_spec i]
  unfold Holds clauses
  simp only [Clauses.holds_cons, Clauses.holds_nil, Bool.and_true, hsucc, Bool.true_and]
  unfold run
  by_cases hmax : i.max ≤ 0
  · have : ¬ (0 < i.max) := by omega
    simp [hmax, errObs, this, limit]
  · have hpos : 0 < i.max := by omega
    have hl : limit i = i.max.toNat := by simp [limit, hmax]
    by_cases hs : i.skip
    · simp [hmax, hs, hpos]
    · cases href : i.ref <;> simp [hmax, hs, errObs, refOk, hl]
      all_goals
        have := loop_post i.max.toNat i.pages
        generalize hres : pages i.max.toNat i.pages 0 0 {} = res at this ⊢
        match res, this with
        | (.error (.done j), log'), h =>
          simp [norm] at h
          obtain ⟨h1, h2, h3, h4, h5⟩ := h
          have hf := (filter_range_all i.pages.flatten (j+1) (fun k hk => h5 k (by omega))).symm
          cases hle : i.listErr <;> simp [tail, listRet, errObs, h3, h4, kindAt] <;>
            exact ⟨by omega, hf⟩
        | (.error (.fetchErr j), log'), h =>
          simp [norm] at h
          obtain ⟨h1, h2, h3, h4, h5, h6⟩ := h
          have hf : List.range j = List.filter (fun k => i.pages.flatten[k]? != some Sig.unfetchable) (List.range (j + 1)) := by
            rw [List.range_succ, List.filter_append]
            simp [h6]
            exact (filter_range_all _ _ h5).symm
          cases hle : i.listErr <;> simp [tail, listRet, errObs, h3, h4, kindAt] <;>
            exact ⟨by omega, hf⟩
        | (.error .exceeded, log'), h =>
          simp [norm] at h
          obtain ⟨h1, m, h2, h3, h4, h5⟩ := h
          cases hle : i.listErr <;> simp [tail, listRet, errObs, h3, h4, kindAt] <;>
            exact ⟨h2, (filter_range_all _ _ h5).symm⟩
        | (.ok n, log'), h =>
          simp [norm] at h
          obtain ⟨h1, m, h2, h3, h4, h5⟩ := h
          cases hle : i.listErr <;> simp [tail, listRet, errObs, h3, h4, kindAt] <;>
            exact ⟨h2, (filter_range_all _ _ h5).symm⟩

/-- readable consequences of `model_holds` -/
theorem skip_touches_nothing (i : Input) (hs : i.skip = true) (hm : 0 < i.max) :
    (run i).skipped = true ∧ (run i).resolved = false ∧ (run i).listed = false ∧
    (run i).fetched = [] ∧ (run i).verified = [] := by
  have : ¬ i.max ≤ 0 := by omega
  simp [run, this, hs]

theorem never_more_than_limit (i : Input) : (run i).fetched.length ≤ limit i := by
  have := model_holds i
  simp [Holds, clauses, Clauses.holds] at this
  exact this.2.2.2.2.1

theorem nothing_after_success (i : Input) (j : Nat) (h : (run i).success = some j) :
    (run i).fetched = List.range (j+1) ∧ (run i).descOk = true := by
  have := model_holds i
  simp [Holds, clauses, Clauses.holds, h] at this
  obtain ⟨_, _, _, h4, _, _, _, _, h8, h9⟩ := this
  exact ⟨by rw [h4, h8], h9⟩

theorem errors (i : Input)
    (h : i.max ≤ 0 ∨ i.ref = .noRef ∨ i.ref = .digestMismatch ∨ i.pages.flatten = [] ∨ i.listErr = .replace) :
    (run i).success = none := by
  rw [verify_refines_spec]
  unfold expected
  rcases h with h | h | h | h | h
  · simp [h]
  · simp [h, refOk]
  · simp [h, refOk]
  · simp [h, specFind]
  · simp [h]

/-- **C10, the repository's handling of the stop request.** A repository that swallows the error by which
the callback stopped the listing (returns nil) is observed exactly like one that hands it back: the decision
rests on what the callback recorded, not on the error that comes back. -/
theorem swallowed_stop_changes_nothing (i : Input) :
    run { i with listErr := .swallow } = run { i with listErr := .forward } := by
  unfold run
  by_cases hmax : i.max ≤ 0
  · simp [hmax]
  · by_cases hs : i.skip
    · simp [hmax, hs]
    · cases href : i.ref <;> simp [hmax, hs]
      all_goals
        generalize pages i.max.toNat i.pages 0 0 {} = res
        match res with
        | (.error (.done j), log') => simp [tail, listRet]
        | (.error (.fetchErr j), log') => simp [tail, listRet]
        | (.error .exceeded, log') => simp [tail, listRet]
        | (.ok n, log') => simp [tail, listRet]

/-- ... and what a repository does on a stop request can only matter when there is one: a listing that the
callback never stops (nothing verified, limit not reached) is observed identically for all three. -/
theorem no_stop_no_difference (i : Input) (m : ListErr) (n : Nat) (log : Log)
    (h : pages i.max.toNat i.pages 0 0 {} = (.ok n, log)) :
    run { i with listErr := m } = run i := by
  unfold run
  by_cases hmax : i.max ≤ 0
  · simp [hmax]
  · by_cases hs : i.skip
    · simp [hmax, hs]
    · cases href : i.ref <;> simp [hmax, hs, h, tail, listRet]

/-- non-vacuity: a concrete run that succeeds on the second page within the limit -/
example : run { max := 3, pages := [[.bad], [.good, .bad]], ref := .tag, skip := false, listErr := .forward, refVariant := "", flavors := [], sameAs := [], wrap := 0, verifier := "skipper", policy := 0, userMetadata := 0, pluginConfig := 0 } =
    { success := some 1, skipped := false, resolved := true, listed := true,
      fetched := [0, 1], verified := [0, 1], descOk := true } := by decide

example : Holds { max := 3, pages := [[.bad], [.good, .bad]], ref := .tag, skip := false, listErr := .forward, refVariant := "", flavors := [], sameAs := [], wrap := 0, verifier := "skipper", policy := 0, userMetadata := 0, pluginConfig := 0 }
    { success := some 0, skipped := false, resolved := true, listed := true,
      fetched := [0], verified := [0], descOk := true } = false := by decide

/-- the same listing behind a repository that swallows the stop request succeeds alike; behind one that reports
the listing as failed it is an error, after the same two fetches -/
example : run { max := 3, pages := [[.bad], [.good, .bad]], ref := .tag, skip := false, listErr := .swallow, refVariant := "", flavors := [], sameAs := [], wrap := 0, verifier := "stub", policy := 0, userMetadata := 0, pluginConfig := 0 } =
    { success := some 1, skipped := false, resolved := true, listed := true,
      fetched := [0, 1], verified := [0, 1], descOk := true } := by decide

example : run { max := 3, pages := [[.bad], [.good, .bad]], ref := .tag, skip := false, listErr := .replace, refVariant := "", flavors := [], sameAs := [], wrap := 1, verifier := "stub", policy := 0, userMetadata := 0, pluginConfig := 0 } =
    { success := none, skipped := false, resolved := true, listed := true,
      fetched := [0, 1], verified := [0, 1], descOk := false } := by decide

/-- a failure reported although a signature verified (what a repository adding context to the "done" sentinel
gets from an identity comparison) is rejected by `Holds` -/
example : Holds { max := 3, pages := [[.good]], ref := .tag, skip := false, listErr := .forward, refVariant := "", flavors := [], sameAs := [], wrap := 1, verifier := "stub", policy := 0, userMetadata := 0, pluginConfig := 0 }
    { success := none, skipped := false, resolved := true, listed := true,
      fetched := [0], verified := [0], descOk := false } = false := by decide

/-- a skip-level statement under which the repository was accessed all the same (what a verifier that no
longer satisfies the optional skip interface gets) is rejected by `Holds` -/
example : Holds { max := 3, pages := [], ref := .digestMatch, skip := true, listErr := .forward, refVariant := "", flavors := [], sameAs := [], wrap := 0, verifier := "realNew", policy := 1, userMetadata := 2, pluginConfig := 2 }
    { success := none, skipped := false, resolved := true, listed := true,
      fetched := [], verified := [], descOk := false } = false := by decide

/-- how the reference is spelled, which error values failing attempts return, which context a forwarding
repository adds to the callback's error, which Verifier implementation decides, how its policy document is
laid out and which further options the caller passes (required user metadata, plugin configuration) are not
inputs of the decision - in particular a skip level is honoured whatever those options are: two inputs that differ only there are observed identically -/
theorem concretisation_irrelevant (i : Input) (v : String) (f : List Nat) (sa : List Int) (w : Nat)
    (vk : String) (pol um pc : Nat) :
    run { i with refVariant := v, flavors := f, sameAs := sa, wrap := w, verifier := vk, policy := pol,
                 userMetadata := um, pluginConfig := pc } = run i := by
  simp [run, errObs]

/-- **C10, skip is unconditional**: under a skip level and a positive limit nothing is touched, whatever user
metadata / plugin configuration the caller asks for, whatever the reference, the listing and the repository -/
theorem skip_whatever_the_options (i : Input) (um pc : Nat) (hs : i.skip = true) (hm : 0 < i.max) :
    run { i with userMetadata := um, pluginConfig := pc } =
      { success := none, skipped := true, resolved := false, listed := false, fetched := [], verified := [], descOk := false } := by
  have : ¬ i.max ≤ 0 := by omega
  simp [run, this, hs]

/-- ... and the property asks the same of them -/
theorem concretisation_irrelevant_spec (i : Input) (o : Obs) (v : String) (f : List Nat) (sa : List Int) (w : Nat)
    (vk : String) (pol um pc : Nat) :
    Holds { i with refVariant := v, flavors := f, sameAs := sa, wrap := w, verifier := vk, policy := pol,
                   userMetadata := um, pluginConfig := pc } o = Holds i o := by
  rfl

/-! ### tie to the translated source -/

namespace Tie
open NotationModel.Src NotationModel.Src.«notation»

/-- the oracles of one `notation.Verify` call: what the repository and the verifier answer -/
structure World where
  fetch : ocispec.Descriptor → SigBlob × ocispec.Descriptor × Option GoLite.Err
  verify : ocispec.Descriptor → SigBlob → VerifierVerifyOptions → Option VerificationOutcome × Option GoLite.Err
  art : ocispec.Descriptor
  ar : String                 -- opts.ArtifactReference, constant over the call

/-- the options the verifier sees for signature `d`: the media type fetched from the registry -/
def World.optsFor (w : World) (d : ocispec.Descriptor) : VerifierVerifyOptions :=
  { ArtifactReference := w.ar, SignatureMediaType := (w.fetch d).2.1.MediaType }

def World.answer (w : World) (d : ocispec.Descriptor) := w.verify w.art (w.fetch d).1 (w.optsFor d)

/-- the model's classification of a listed signature, read off the oracles -/
def World.kind (w : World) (d : ocispec.Descriptor) : Sig :=
  if (w.fetch d).2.2.isSome then .unfetchable
  else if (w.answer d).2.isNone then .good else .bad

/-- result of the callback on one page, abstractly -/
inductive PR
  | cont (n : Nat) (errs : List (Option GoLite.Err)) (smt : String)
  | done (n : Nat) (d : ocispec.Descriptor) (errs : List (Option GoLite.Err))
  | fetchErr (n : Nat) (errs : List (Option GoLite.Err)) (smt : String)
  | verifierBroken (n : Nat) (d : ocispec.Descriptor) (errs : List (Option GoLite.Err))  -- error with a nil outcome
  | exceeded (n : Nat) (errs : List (Option GoLite.Err)) (smt : String)

def pageSpec (w : World) (M : Nat) : List ocispec.Descriptor → Nat → List (Option GoLite.Err) → String → PR
  | [], n, errs, smt => if n ≥ M then .exceeded n errs smt else .cont n errs smt
  | d :: p, n, errs, smt =>
    if n ≥ M then .exceeded n errs smt
    else if (w.fetch d).2.2.isSome then .fetchErr (n + 1) errs smt
    else if (w.answer d).2.isSome then
      if (w.answer d).1.isNone then .verifierBroken (n + 1) d errs
      else pageSpec w M p (n + 1) (errs ++ [(GoLite.deref (w.answer d).1).Error]) (w.fetch d).2.1.MediaType
    else .done (n + 1) d errs

abbrev Res := Option GoLite.Err × Int × Bool × List (Option VerificationOutcome) × List (Option GoLite.Err) × VerifierVerifyOptions

def PR.toRes (w : World) (outs0 : List (Option VerificationOutcome)) (errExc : GoLite.Err) : PR → Res
  | .cont n errs smt => (none, n, false, outs0, errs, ⟨w.ar, smt⟩)
  | .done n d errs => (some errDoneVerification, n, true, [(w.answer d).1], errs, w.optsFor d)
  | .fetchErr n errs smt => (some (GoLite.errT "ErrorSignatureRetrievalFailed" ""), n, false, outs0, errs, ⟨w.ar, smt⟩)
  | .verifierBroken n d errs => ((w.answer d).2, n, false, outs0, errs, w.optsFor d)
  | .exceeded n errs smt => (some errExc, n, false, outs0, errs, ⟨w.ar, smt⟩)

abbrev St := Nat × List (Option GoLite.Err) × String

def step (w : World) (M : Nat) (t : St) (d : ocispec.Descriptor) : Except PR St :=
  if t.1 ≥ M then .error (.exceeded t.1 t.2.1 t.2.2)
  else if (w.fetch d).2.2.isSome then .error (.fetchErr (t.1 + 1) t.2.1 t.2.2)
  else if (w.answer d).2.isSome then
    if (w.answer d).1.isNone then .error (.verifierBroken (t.1 + 1) d t.2.1)
    else .ok (t.1 + 1, t.2.1 ++ [(GoLite.deref (w.answer d).1).Error], (w.fetch d).2.1.MediaType)
  else .error (.done (t.1 + 1) d t.2.1)

abbrev LoopSt := Option Res × Int × Bool × List (Option VerificationOutcome) × List (Option GoLite.Err) × VerifierVerifyOptions

abbrev absSt (w : World) (outs0 : List (Option VerificationOutcome)) (t : St) : LoopSt :=
  (none, (t.1 : Int), false, outs0, t.2.1, ⟨w.ar, t.2.2⟩)

def stopSt (w : World) (outs0 : List (Option VerificationOutcome)) (errExc : GoLite.Err) (t : St) (e : PR) : LoopSt :=
  match e with
  | .exceeded _ _ _ => absSt w outs0 t
  | e => (some (e.toRes w outs0 errExc), (e.toRes w outs0 errExc).2)

/-- what follows the loop in the callback -/
def post (M : Nat) (errExc : GoLite.Err) (s : LoopSt) : Res :=
  match s.1 with
  | some r => r
  | none => if s.2.1 ≥ (M : Int) then (some errExc, s.2) else (none, s.2)

theorem post_foldE (w : World) (M : Nat) (errExc : GoLite.Err) (outs0 : List (Option VerificationOutcome))
    (p : List ocispec.Descriptor) (t : St) :
    post M errExc (match GoLite.foldE (step w M) p t with
      | .ok t' => absSt w outs0 t'
      | .error (t', e) => stopSt w outs0 errExc t' e) =
      (pageSpec w M p t.1 t.2.1 t.2.2).toRes w outs0 errExc := by
  induction p generalizing t with
  | nil =>
    simp only [GoLite.foldE, pageSpec, post, absSt]
    by_cases h : t.1 ≥ M
    · have : ((t.1 : Int) ≥ (M : Int)) := by omega
      simp [h, this, PR.toRes]
    · have : ¬ ((t.1 : Int) ≥ (M : Int)) := by omega
      simp [h, this, PR.toRes]
  | cons d p ih =>
    simp only [GoLite.foldE, pageSpec, step]
    by_cases h : t.1 ≥ M
    · have : ((t.1 : Int) ≥ (M : Int)) := by omega
      simp [h, this, post, stopSt, absSt, PR.toRes]
    · by_cases hf : (w.fetch d).2.2.isSome = true
      · simp [h, hf, post, stopSt, PR.toRes]
      · by_cases hv : (w.answer d).2.isSome = true
        · by_cases ho : (w.answer d).1.isNone = true
          · simp [h, hf, hv, ho, post, stopSt, PR.toRes]
          · simp only [h, hf, hv, ho, if_false, if_true, Bool.false_eq_true]
            exact ih (t.1 + 1, t.2.1 ++ [(GoLite.deref (w.answer d).1).Error], (w.fetch d).2.1.MediaType)
        · simp [h, hf, hv, post, stopSt, PR.toRes]

/-- TIE (translated source): the callback `notation.Verify` hands to `ListSignatures`, translated from
notation.go on every run (`Generated/SrcVerify.lean`, with the variables it shares with the
enclosing function as explicit state and the repository / verifier as oracles), computes on EVERY
page, from every state, exactly the abstract page result `pageSpec`: attempts counted against the
limit before each fetch, unfetchable -> retrieval error, verified -> done with exactly that outcome,
failed -> next, limit reached -> exceeded. `pageSpec_is_model_page` below identifies `pageSpec`
with the model's `page`. -/
theorem source_Verify_callback_refines_model (w : World) (M : Nat) (errExc : GoLite.Err) (outs0 : List (Option VerificationOutcome))
    (p : List ocispec.Descriptor) (n : Nat) (errs : List (Option GoLite.Err)) (smt : String) :
    verifyPage (M : Int) w.fetch w.verify w.art errExc (n : Int) false outs0 errs ⟨w.ar, smt⟩ p =
      (pageSpec w M p n errs smt).toRes w outs0 errExc := by
  unfold verifyPage
  simp only [Id.run]
  rw [GoLite.forIn_eq_foldE' _ (step w M) (absSt w outs0) (stopSt w outs0 errExc) ?h _ _ (n, errs, smt) rfl]
  case h =>
    intro d t
    by_cases h : t.1 ≥ M
    · have hd : decide ((t.1 : Int) ≥ (M : Int)) = true := by simp; omega
      simp [hd, h, step, stopSt, absSt]
    · have hd : decide ((t.1 : Int) ≥ (M : Int)) = false := by simp; omega
      by_cases hf : (w.fetch d).2.2.isSome = true
      · simp [hd, h, hf, step, stopSt, absSt, PR.toRes]
      · by_cases hv : (w.answer d).2.isSome = true
        · by_cases ho : (w.answer d).1.isNone = true
          · have hv' := hv; have ho' := ho
            simp only [World.answer, World.optsFor] at hv' ho'
            simp [hd, h, hf, hv, ho, hv', ho', step, stopSt, absSt, PR.toRes, World.answer, World.optsFor]
          · have hv' := hv; have ho' := ho
            simp only [World.answer, World.optsFor] at hv' ho'
            simp [hd, h, hf, hv, ho, hv', ho', step, stopSt, absSt, PR.toRes, World.answer, World.optsFor]
        · have hv' := hv
          simp only [World.answer, World.optsFor] at hv'
          simp [hd, h, hf, hv, hv', step, stopSt, absSt, PR.toRes, World.answer, World.optsFor]
  have := post_foldE w M errExc outs0 p (n, errs, smt)
  simp only [pure_bind]
  cases hfe : GoLite.foldE (step w M) p (n, errs, smt) with
  | ok t' =>
    rw [hfe] at this
    simp only [post, absSt] at this ⊢
    rw [← this]
    by_cases hge : (t'.1 : Int) ≥ (M : Int)
    · simp [hge]; rfl
    · simp [hge]; rfl
  | error pe =>
    obtain ⟨t', e⟩ := pe
    rw [hfe] at this
    cases e with
    | exceeded a b c =>
      simp only [post, stopSt, absSt] at this ⊢
      rw [← this]
      by_cases hge : (t'.1 : Int) ≥ (M : Int)
      · simp [hge]; rfl
      · simp [hge]; rfl
    | cont a b c => simp only [post, stopSt] at this ⊢; rw [← this]; rfl
    | done a b c => simp only [post, stopSt] at this ⊢; rw [← this]; rfl
    | fetchErr a b c => simp only [post, stopSt] at this ⊢; rw [← this]; rfl
    | verifierBroken a b c => simp only [post, stopSt] at this ⊢; rw [← this]; rfl

/-! #### the abstract page result is the model's `page` -/

inductive K | cont (n : Nat) | done | fetchErr | exceeded | verifierBroken
  deriving DecidableEq, Repr

def PR.k : PR → K
  | .cont n _ _ => .cont n
  | .done _ _ _ => .done
  | .fetchErr _ _ _ => .fetchErr
  | .verifierBroken _ _ _ => .verifierBroken
  | .exceeded _ _ _ => .exceeded

def kOf : Except Stop Nat → K
  | .ok n => .cont n
  | .error (.done _) => .done
  | .error (.fetchErr _) => .fetchErr
  | .error .exceeded => .exceeded

theorem pageSpec_is_model_page (w : World) (M : Nat) (p : List ocispec.Descriptor)
    (hv : ∀ d ∈ p, (w.answer d).2.isSome = true → (w.answer d).1.isSome = true)
    (i n : Nat) (log : Log) (errs : List (Option GoLite.Err)) (smt : String) :
    (pageSpec w M p n errs smt).k = kOf (page M (p.map w.kind) i n log).1 := by
  induction p generalizing i n log errs smt with
  | nil =>
    simp only [pageSpec, List.map_nil, page]
    by_cases h : n ≥ M <;> simp [h, PR.k, kOf]
  | cons d p ih =>
    simp only [pageSpec, List.map_cons, page]
    by_cases h : n ≥ M
    · simp [h, PR.k, kOf]
    · simp only [h, if_false]
      by_cases hf : (w.fetch d).2.2.isSome = true
      · simp [hf, World.kind, PR.k, kOf]
      · by_cases ha : (w.answer d).2.isSome = true
        · have ho : (w.answer d).1.isNone = false := by
            have := hv d (List.mem_cons_self) ha
            cases hh : (w.answer d).1 <;> simp_all
          have hn : (w.answer d).2.isNone = false := by
            cases hh : (w.answer d).2 <;> simp_all
          simp only [hf, ha, ho, World.kind, hn, if_false, if_true, Bool.false_eq_true]
          exact ih (fun d' hd' => hv d' (List.mem_cons_of_mem _ hd')) _ _ _ _ _
        · have hn : (w.answer d).2.isNone = true := by
            cases hh : (w.answer d).2 <;> simp_all
          simp [hf, ha, hn, World.kind, PR.k, kOf]

/-! #### the statements after the listing -/

/-- `notation.Verify` after `ListSignatures`: it succeeds exactly when the listing ended normally or
by the "done" sentinel, at least one signature was processed and one verified; it then returns the
RESOLVED descriptor and the outcomes collected by the callback -/
theorem source_Verify_tail_refines_model (artifactRef : String) (art : ocispec.Descriptor) (errExc : GoLite.Err) (err : Option GoLite.Err)
    (num : Int) (succ : Bool) (outs : List (Option VerificationOutcome)) (errs : List (Option GoLite.Err))
    (herrs : (GoLite.errJoin errs).isSome = true) :
    let r := verifyTail artifactRef art errExc err num succ outs errs
    (r.2.2.isNone = ((err.isNone || err == some errDoneVerification) && num != 0 && succ)) ∧
    (r.2.2.isNone = true → r = (art, outs, none)) := by
  unfold verifyTail
  simp only [Id.run, GoLite.errIs]
  cases err with
  | none =>
    by_cases hn : num = 0
    · simp [hn, GoLite.idPure, GoLite.errT]
    · have hj : GoLite.errJoin errs ≠ none := by
        intro h; simp [h] at herrs
      cases succ <;> simp [hn, GoLite.idPure, herrs, hj]
  | some e =>
    by_cases hd : e = errDoneVerification
    · subst hd
      by_cases hn : num = 0
      · simp [hn, GoLite.idPure, GoLite.errT]
      · have hj : GoLite.errJoin errs ≠ none := by
          intro h; simp [h] at herrs
        cases succ <;> simp [hn, GoLite.idPure, herrs, hj]
    · have : (some e == some errDoneVerification) = false := by simp [hd]
      by_cases hx : (some e == some errExc) = true <;> simp [this, hx, GoLite.idPure, hd]

/-- how `Verify` classifies the error value it gets back from `ListSignatures` (`errors.Is`, "done" first) -/
def retOf (errExc : GoLite.Err) : Option GoLite.Err → Ret
  | none => .nil
  | some e => if e = errDoneVerification then .done else if e = errExc then .exceeded else .other

/-- TIE (translated source): the statements after the listing decide exactly like the model's `tail` on the
classified error - whatever the repository made of the callback's error (handed back, swallowed = `none`,
replaced = any other value) - given that the callback's flag `verificationSucceeded` says whether the loop stopped
with "done" (which `source_Verify_callback_refines_model` / `PR.toRes` establish) and that something was processed then.
(The translation reads `errors.Is` as equality of error values: context added around an error is not represented
there; that side is covered by the correspondence run, input field `wrap`.) -/
theorem source_Verify_tail_is_model_tail (artifactRef : String) (art : ocispec.Descriptor) (errExc : GoLite.Err) (err : Option GoLite.Err)
    (num : Int) (succ : Bool) (outs : List (Option VerificationOutcome)) (errs : List (Option GoLite.Err))
    (herrs : (GoLite.errJoin errs).isSome = true)
    (r : Except Stop Nat) (log : Log)
    (hs : succ = (match r with | .error (.done _) => true | _ => false))
    (hn : succ = true → num ≠ 0) :
    (verifyTail artifactRef art errExc err num succ outs errs).2.2.isNone =
      (tail (retOf errExc err) r log).success.isSome := by
  have h := (source_Verify_tail_refines_model artifactRef art errExc err num succ outs errs herrs).1
  rw [h]
  cases err with
  | none =>
    match r, hs with
    | .error (.done j), hs => subst hs; have := hn rfl; simp [retOf, tail, this]
    | .error (.fetchErr j), hs => subst hs; simp [retOf, tail, errObs]
    | .error .exceeded, hs => subst hs; simp [retOf, tail, errObs]
    | .ok n, hs => subst hs; simp [retOf, tail, errObs]
  | some e =>
    by_cases hd : e = errDoneVerification
    · subst hd
      match r, hs with
      | .error (.done j), hs => subst hs; have := hn rfl; simp [retOf, tail, this]
      | .error (.fetchErr j), hs => subst hs; simp [retOf, tail, errObs]
      | .error .exceeded, hs => subst hs; simp [retOf, tail, errObs]
      | .ok n, hs => subst hs; simp [retOf, tail, errObs]
    · by_cases hx : e = errExc
      · subst hx
        simp [retOf, hd, tail, errObs]
      · simp [retOf, hd, hx, tail, errObs]
/-- non-vacuity: the translated callback on a page [bad, good] with limit 3 stops at the second
signature with the done sentinel, two attempts counted -/
example :
    let w : World := { fetch := fun d => (⟨d.Size.toNat⟩, { d with MediaType := "application/jose+json" }, none),
                       verify := fun _ b _ => if b.id = 1 then (some ⟨1, none⟩, none) else (some ⟨b.id, some ⟨"bad"⟩⟩, some ⟨"bad"⟩),
                       art := default, ar := "r" }
    let d (k : Int) : ocispec.Descriptor := { MediaType := "m", Digest := "d", Size := k, Annotations := [] }
    ((verifyPage 3 w.fetch w.verify w.art ⟨"ErrorVerificationFailed"⟩ 0 false [] [] ⟨"r", ""⟩ [d 0, d 1]).1,
     (verifyPage 3 w.fetch w.verify w.art ⟨"ErrorVerificationFailed"⟩ 0 false [] [] ⟨"r", ""⟩ [d 0, d 1]).2.1) =
      (some errDoneVerification, 2) := by decide

end Tie

end NotationModel.C10

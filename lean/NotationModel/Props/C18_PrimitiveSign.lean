/-
C18 - `(*pluginPrimitiveSigner).Sign` (signer/plugin.go), the one place where the raw signature of a
signature-generator plugin enters the library, translated on every run (Generated/SrcC18d.lean)
and tied for EVERY plugin behaviour (any response, any error), every key spec, payload and
configuration:

* the plugin is asked exactly once, with the caller's payload UNCHANGED, the signer's key id, the
  encoded key spec and its hash (the translated codecs of Generated/SrcC18c.lean, tied to the model in
  Props/C18.lean), the contract version and the signer's plugin configuration;
* an error of the codecs, of the plugin or of the certificate parser, and a response under ANOTHER
  key id, yield an error and neither signature nor certificates;
* otherwise the signature handed on is the response's, byte for byte - the signer converts nothing
  (which is what lets the envelope's own verification judge it: seeded C18-21 put a conversion here).
-/
import NotationModel.Generated.SrcC18d
import NotationModel.Generated.C17
set_option linter.unusedSimpArgs false
set_option linter.unusedVariables false

namespace NotationModel.C18.TieP
open NotationModel.Src NotationModel.Src.c18d

abbrev Out := Option Bytes × Option (List Cert) × Option GoLite.Err

def refuse (e : GoLite.Err) : Out := (none, none, some e)

/-- the request the plugin receives -/
def requestOf (s : pluginPrimitiveSigner) (payload : Bytes) : plugin.GenerateSignatureRequest :=
  { ContractVersion := plugin.ContractVersion, KeyID := s.keyID,
    KeySpec := (proto.EncodeKeySpec s.keySpec).1, Hash := (proto.HashAlgorithmFromKeySpec s.keySpec).1,
    Payload := payload, PluginConfig := s.pluginConfig }

/-- the specification -/
def spec (s : pluginPrimitiveSigner) (payload : Bytes) : Out :=
  match (proto.EncodeKeySpec s.keySpec).2 with
  | some e => refuse e
  | none =>
    match (proto.HashAlgorithmFromKeySpec s.keySpec).2 with
    | some e => refuse e
    | none =>
      match s.generate (requestOf s payload) with
      | (_, some e) => refuse e
      | (resp, none) =>
        if s.keyID != (GoLite.deref resp).KeyID then refuse ⟨"error"⟩
        else
          match s.parse (GoLite.deref resp).CertificateChain with
          | (_, some e) => refuse e
          | (certs, none) => ((GoLite.deref resp).Signature, some certs, none)

/-- **Tie.** The translated function is the specification, for every signer value (every plugin
and parser behaviour), and every payload. -/
theorem source_primitiveSign_refines_spec (s : pluginPrimitiveSigner) (payload : Bytes) :
    pluginPrimitiveSigner.Sign s payload = spec s payload := by
  unfold pluginPrimitiveSigner.Sign spec requestOf
  cases h1 : (proto.EncodeKeySpec s.keySpec) with
  | mk ks e1 =>
    cases e1 with
    | some e => simp [Id.run, GoLite.idPure, refuse, h1]
    | none =>
      cases h2 : (proto.HashAlgorithmFromKeySpec s.keySpec) with
      | mk hs e2 =>
        cases e2 with
        | some e => simp [Id.run, GoLite.idPure, refuse, h1, h2]
        | none =>
          cases h3 : s.generate ⟨plugin.ContractVersion, s.keyID, ks, hs, payload, s.pluginConfig⟩ with
          | mk resp e3 =>
            cases e3 with
            | some e =>
              simp [Id.run, GoLite.idPure, refuse, h1, h2, h3, pluginPrimitiveSigner.GenerateSignature]
            | none =>
              by_cases hk : (GoLite.deref resp).KeyID = s.keyID
              · cases h4 : s.parse (GoLite.deref resp).CertificateChain with
                | mk certs e4 =>
                  cases e4 <;>
                    simp [Id.run, GoLite.idPure, refuse, h1, h2, h3, h4, hk,
                      pluginPrimitiveSigner.GenerateSignature, pluginPrimitiveSigner.parseCertChain, GoLite.errorf]
              · have hk2 : ¬ s.keyID = (GoLite.deref resp).KeyID := fun e => hk e.symm
                simp [Id.run, GoLite.idPure, refuse, h1, h2, h3, hk, hk2,
                  pluginPrimitiveSigner.GenerateSignature, pluginPrimitiveSigner.parseCertChain, GoLite.errorf]

/-- **The signature handed on is the plugin's, unchanged**, under the signer's own key id, with the
certificates the parser made of the response's chain; and the plugin was asked with the caller's
payload unchanged. -/
theorem source_primitiveSign_success (s : pluginPrimitiveSigner) (payload : Bytes)
    (h : (pluginPrimitiveSigner.Sign s payload).2.2 = none) :
    ∃ resp, s.generate (requestOf s payload) = (resp, none) ∧ (requestOf s payload).Payload = payload ∧
      (GoLite.deref resp).KeyID = s.keyID ∧
      (pluginPrimitiveSigner.Sign s payload).1 = (GoLite.deref resp).Signature ∧
      (s.parse (GoLite.deref resp).CertificateChain).2 = none ∧
      (pluginPrimitiveSigner.Sign s payload).2.1 = some (s.parse (GoLite.deref resp).CertificateChain).1 := by
  rw [source_primitiveSign_refines_spec] at *
  unfold spec at *
  repeat' split at h
  all_goals simp_all [refuse]
  all_goals (first | rfl | exact ⟨rfl, rfl⟩ | skip)

/-- **Every failure hands on nothing**: no signature and no certificates come with an error. -/
theorem source_primitiveSign_failure (s : pluginPrimitiveSigner) (payload : Bytes)
    (h : (pluginPrimitiveSigner.Sign s payload).2.2 ≠ none) :
    (pluginPrimitiveSigner.Sign s payload).1 = none ∧ (pluginPrimitiveSigner.Sign s payload).2.1 = none := by
  rw [source_primitiveSign_refines_spec] at *
  unfold spec at *
  repeat' split
  all_goals simp_all [refuse]

/-- **A response under another key id is refused**, whatever else it carries. -/
theorem source_primitiveSign_other_key_refused (s : pluginPrimitiveSigner) (payload : Bytes)
    (resp : Option plugin.GenerateSignatureResponse)
    (hg : s.generate (requestOf s payload) = (resp, none)) (hk : (GoLite.deref resp).KeyID ≠ s.keyID) :
    (pluginPrimitiveSigner.Sign s payload).2.2.isSome := by
  rw [source_primitiveSign_refines_spec]
  unfold spec
  repeat' split
  all_goals simp_all [refuse]
  all_goals (first | (intro hh; exact absurd hh.symm hk) | skip)

/-- the contract version of Src/TypesC18d.lean is the one read from notation-plugin-framework-go this run -/
theorem contract_version_matches_source : plugin.ContractVersion = Facts.contractVersion := by decide

/-! non-vacuity -/

def exSigner (sig : Option Bytes) (kid : String) : pluginPrimitiveSigner :=
  { keyID := "k1", keySpec := ⟨.KeyTypeEC, 384⟩, pluginConfig := [("a", "b")],
    generate := fun req => (some { KeyID := kid, Signature := sig, SigningAlgorithm := "ECDSA-SHA-384",
                                   CertificateChain := [req.Payload] }, none),
    parse := fun ders => (ders.map (⟨·⟩), none) }

example : pluginPrimitiveSigner.Sign (exSigner (some [1, 2, 3]) "k1") [7, 7] = (some [1, 2, 3], some [⟨[7, 7]⟩], none) := by
  decide

example : (pluginPrimitiveSigner.Sign (exSigner (some [1, 2, 3]) "k2") [7, 7]).2.2.isSome = true := by decide

end NotationModel.C18.TieP

/-
C02, second module of theorems (picked up by `check` as `Props/C02_*.lean`): the tie of the
translated `processSignature` / `processPluginResponse` to the model. Kept apart from Props/C02.lean
because it is long to build and imports the translated source of a 170-line function.
-/
import NotationModel.Props.C02
import NotationModel.Lemmas.C02Process
import NotationModel.Generated.SrcProcess

/-! ### tie to the translated source: `processSignature` as a whole

`Generated/SrcProcess.lean` holds `processSignature` and `processPluginResponse` translated from
verifier/verifier.go on every run (pointers into `outcome.VerificationResults` tracked by ghost
positions, see go2lean.go `ptrSlice`). Everything they call that is not translated elsewhere is an
oracle (`Src/TypesProcess.lean`); the theorems quantify over all oracles. -/
open NotationModel.Src NotationModel.Src.verifier NotationModel.Src.«notation» NotationModel.Src.pluginframework
open NotationModel.Src.signature
open NotationModel.C02 NotationModel.C02.Process NotationModel.C02.Tie

namespace GoLite
theorem forIn_appendUnless {α : Type} (l : List α) (p : α → Bool) (acc : List α) :
    (forIn l acc (fun a r => if p a = true then (pure (ForInStep.yield r) : Id _) else pure (ForInStep.yield (r ++ [a])))) =
      pure (acc ++ l.filter (fun a => !p a)) := by
  induction l generalizing acc with
  | nil => simp
  | cons a l ih =>
    rw [List.forIn_cons]
    by_cases hp : p a = true
    · simp only [hp, if_true, pure_bind, ih]; simp [hp]
    · simp only [hp, Bool.false_eq_true, if_false, pure_bind, ih]
      simp [hp]
end GoLite

namespace NotationModel.C02.Tie
section Process

/-- the other arguments of `processSignature`, handed on to the oracles -/
structure Args where
  sigBlob : SigBlob
  mt : String
  pn : String
  tis : List String
  tss : List String
  sv : trustpolicy.SignatureVerification
  pc : GoLite.Map String String

def keyOf (a : Attribute) : String := match a.Key with | .str k => k | .other _ => ""
def strOf : AVal → Option String | .str s => some s | .other _ => none

/-- the verification capabilities in the plugin's metadata, as `processSignature` filters them -/
def verifCaps (md : GetMetadataResponse) : List String :=
  md.Capabilities.filter (fun c => c == CapabilityRevocationCheckVerifier || c == CapabilityTrustedIdentityVerifier)

/-- what the oracles answer, in the order `processSignature` asks them (`TraceOK` ties each field to its call) -/
structure Trace where
  name : String
  minVer : String
  got : Option VerifyPlugin × Option GoLite.Err
  md : GetMetadataResponse × Option GoLite.Err
  ld : List x509.Certificate × Option GoLite.Err
  rA0 : ValidationResult
  ierr : Option GoLite.Err
  rE : ValidationResult
  rT : ValidationResult
  rR : ValidationResult
  ex : VerifySignatureResponse × Option GoLite.Err

/-- the verification capabilities `processSignature` keeps: those of the plugin's metadata when the signature names one -/
def Trace.pcaps (t : Trace) (si : SignerInfo) : List String :=
  if classifyPlugin si = .named then verifCaps t.md.1 else []

/-- the authenticity result after the native identity check (which overwrites the error of the SAME result object) -/
def Trace.rA (t : Trace) (si : SignerInfo) : ValidationResult :=
  if !(t.pcaps si).contains CapabilityTrustedIdentityVerifier && t.ierr.isSome then { t.rA0 with Error := t.ierr } else t.rA0

def revSkipped (enf : GoLite.Map String String) : Bool :=
  GoLite.Map.get enf trustpolicy.TypeRevocation == trustpolicy.ActionSkip

def Trace.toVerify (t : Trace) (si : SignerInfo) (enf : GoLite.Map String String) : List String :=
  (t.pcaps si).filter (fun c => !(revSkipped enf && c == CapabilityRevocationCheckVerifier))

/-- every field of the trace is what the corresponding oracle answers, asked with the arguments the Go code
hands it at that point (the outcome as it stands then) -/
structure TraceOK (env : Env) (v : Verifier) (a : Args) (o0 : Outcome) (ec : EnvelopeContent) (rI : ValidationResult)
    (t : Trace) : Prop where
  name : t.name = (getVerificationPlugin ec.SignerInfo).1
  minVer : t.minVer = (getVerificationPluginMinVersion env.isValidSemver ec.SignerInfo).1
  got : t.got = (GoLite.deref v.pluginManager).Get t.name
  md : t.md = (GoLite.deref t.got.1).GetMetadata { PluginConfig := a.pc }
  ld : t.ld = env.loadX509TrustStores ec.SignerInfo.SignedAttributes.SigningScheme a.pn a.tss v.trustStore
  rA0 : t.rA0 = if t.ld.2.isSome then
      { «Type» := trustpolicy.TypeAuthenticity, Action := GoLite.Map.get o0.VerificationLevel.Enforcement trustpolicy.TypeAuthenticity, Error := t.ld.2 }
    else env.verifyAuthenticity t.ld.1 { EnvelopeContent := some ec, VerificationLevel := o0.VerificationLevel, VerificationResults := [rI] }
  ierr : t.ierr = env.verifyX509TrustedIdentities a.pn a.tis ec.SignerInfo.CertificateChain
  rE : t.rE = env.verifyExpiry { EnvelopeContent := some ec, VerificationLevel := o0.VerificationLevel, VerificationResults := [rI, t.rA ec.SignerInfo] }
  rT : t.rT = env.verifyAuthenticTimestamp a.pn a.tss a.sv v.trustStore v.revocationTimestampingValidator
      { EnvelopeContent := some ec, VerificationLevel := o0.VerificationLevel, VerificationResults := [rI, t.rA ec.SignerInfo, t.rE] }
  rR : t.rR = v.verifyRevocation { EnvelopeContent := some ec, VerificationLevel := o0.VerificationLevel, VerificationResults := [rI, t.rA ec.SignerInfo, t.rE, t.rT] }
  ex : t.ex = env.executePlugin t.got.1 (t.toVerify ec.SignerInfo o0.VerificationLevel.Enforcement) (some ec) a.tis a.pc

/-- the scenario of the model (`Input`) that a call of `processSignature` amounts to -/
def toInput (env : Env) (v : Verifier) (si : SignerInfo) (t : Trace) : Input :=
  { level := "", override := [],
    pluginAttr := classifyPlugin si,
    minVerAttr := classifyMinVer env.isValidSemver si,
    extAttrs := (getNonPluginExtendedCriticalAttributes si).map (fun x => { key := keyOf x, critical := x.Critical }),
    pluginState := if v.pluginManager.isNone then .managerNil else if t.got.2.isSome then .notInstalled
      else if t.md.2.isSome then .metadataError else .installed,
    pluginVersion := if !env.isValidSemver t.md.1.Version then .invalidSemver
      else if !env.isRequiredVerificationPluginVer t.md.1.Version t.minVer then .tooOld else .ok,
    capIdentity := (verifCaps t.md.1).contains CapabilityTrustedIdentityVerifier,
    capRevocation := (verifCaps t.md.1).contains CapabilityRevocationCheckVerifier,
    trust := if t.ld.2.isSome then .storeError else if t.rA0.Error.isSome then .notFound else .found,
    identityMatch := t.ierr.isNone,
    wildcardIdentity := false,
    expired := t.rE.Error.isSome,
    timestampOk := t.rT.Error.isNone,
    revocation := if t.rR.Error.isSome then .revoked else .ok,
    pluginCallError := t.ex.2.isSome,
    processed := t.ex.1.ProcessedAttributes.filterMap strOf,
    verdictIdentity := verdictOf t.ex.1 CapabilityTrustedIdentityVerifier,
    verdictRevocation := verdictOf t.ex.1 CapabilityRevocationCheckVerifier }

/-- what the tie assumes of the oracles (each is a fact about a callee of `processSignature`, not about it) -/
structure Contracts (env : Env) (v : Verifier) : Prop where
  /-- every validation reports under its own type, with the action the outcome's level gives that type -/
  auth : ∀ cs o, (env.verifyAuthenticity cs o).«Type» = trustpolicy.TypeAuthenticity ∧
    (env.verifyAuthenticity cs o).Action = GoLite.Map.get o.VerificationLevel.Enforcement trustpolicy.TypeAuthenticity
  expiry : ∀ o, (env.verifyExpiry o).«Type» = trustpolicy.TypeExpiry ∧
    (env.verifyExpiry o).Action = GoLite.Map.get o.VerificationLevel.Enforcement trustpolicy.TypeExpiry
  timestamp : ∀ p t s x y o, (env.verifyAuthenticTimestamp p t s x y o).«Type» = trustpolicy.TypeAuthenticTimestamp ∧
    (env.verifyAuthenticTimestamp p t s x y o).Action = GoLite.Map.get o.VerificationLevel.Enforcement trustpolicy.TypeAuthenticTimestamp
  revocation : ∀ o, (v.verifyRevocation o).«Type» = trustpolicy.TypeRevocation ∧
    (v.verifyRevocation o).Action = GoLite.Map.get o.VerificationLevel.Enforcement trustpolicy.TypeRevocation
  /-- a plugin manager that reports no error hands out a plugin -/
  got : ∀ m n, v.pluginManager = some m → (m.Get n).2 = none → (m.Get n).1.isSome = true
  /-- no minimum version demanded: every valid version will do (`semver.Compare(v, "v") = +1`) -/
  noMin : ∀ ver, env.isValidSemver ver = true → env.isRequiredVerificationPluginVer ver "" = true


/-- the plugin lists each verification capability at most once, trusted identity first (the shapes the
model's two capability flags can express) -/
def NormalCaps (l : List String) : Prop :=
  l = (if l.contains CapabilityTrustedIdentityVerifier then [CapabilityTrustedIdentityVerifier] else []) ++
      (if l.contains CapabilityRevocationCheckVerifier then [CapabilityRevocationCheckVerifier] else [])

theorem resOf_auth (env : Env) (v : Verifier) (hc : Contracts env v) (cs : List x509.Certificate) (o : Outcome) :
    resOf (env.verifyAuthenticity cs o) = ⟨Facts.typeAuthenticity, Enf.get o.VerificationLevel.Enforcement Facts.typeAuthenticity, (env.verifyAuthenticity cs o).Error.isSome⟩ := by
  simp [resOf, (hc.auth cs o).1, (hc.auth cs o).2, typeAuth_eq, mapGet_eq_enfGet]
theorem resOf_expiry (env : Env) (v : Verifier) (hc : Contracts env v) (o : Outcome) :
    resOf (env.verifyExpiry o) = ⟨Facts.typeExpiry, Enf.get o.VerificationLevel.Enforcement Facts.typeExpiry, (env.verifyExpiry o).Error.isSome⟩ := by
  have : trustpolicy.TypeExpiry = Facts.typeExpiry := by decide
  simp [resOf, (hc.expiry o).1, (hc.expiry o).2, this, mapGet_eq_enfGet]
theorem resOf_timestamp (env : Env) (v : Verifier) (hc : Contracts env v) (p : String) (t : List String) (s : trustpolicy.SignatureVerification) (x y : Nat) (o : Outcome) :
    resOf (env.verifyAuthenticTimestamp p t s x y o) = ⟨Facts.typeAuthenticTimestamp, Enf.get o.VerificationLevel.Enforcement Facts.typeAuthenticTimestamp, (env.verifyAuthenticTimestamp p t s x y o).Error.isSome⟩ := by
  have : trustpolicy.TypeAuthenticTimestamp = Facts.typeAuthenticTimestamp := by decide
  simp [resOf, (hc.timestamp p t s x y o).1, (hc.timestamp p t s x y o).2, this, mapGet_eq_enfGet]
theorem resOf_revocation (env : Env) (v : Verifier) (hc : Contracts env v) (o : Outcome) :
    resOf (v.verifyRevocation o) = ⟨Facts.typeRevocation, Enf.get o.VerificationLevel.Enforcement Facts.typeRevocation, (v.verifyRevocation o).Error.isSome⟩ := by
  simp [resOf, (hc.revocation o).1, (hc.revocation o).2, typeRev_eq, mapGet_eq_enfGet]

theorem trimSpace_empty : GoLite.trimSpace "" = "" := by decide

/-- what the tie compares: accepted or not, and the results recorded after the integrity result -/
def view (r : Option GoLite.Err × Outcome) : Bool × List Result :=
  (r.1.isNone, (r.2.VerificationResults.drop 1).map resOf)

theorem capsOf_toInput (env : Env) (v : Verifier) (si : SignerInfo) (t : Trace)
    (hcaps : NormalCaps (verifCaps t.md.1)) :
    capsOf (toInput env v si t) = t.pcaps si := by
  unfold capsOf Trace.pcaps toInput
  simp only []
  by_cases hn : classifyPlugin si = .named
  · simp only [hn, beq_self_eq_true, if_true]
    exact hcaps.symm
  · have : (classifyPlugin si == PluginAttr.named) = false := by simpa using hn
    simp [this, hn]

theorem forIn_anyReturnC {α ρ : Type} (l : List α) (q : α → Bool) (v : ρ) :
    forIn l ((none : Option ρ), ()) (fun a _ => if q a = true then (pure (ForInStep.done (some v, ())) : Id _) else pure (ForInStep.yield (none, ()))) =
      pure (if l.any q = true then (some v, ()) else (none, ())) :=
  GoLite.forIn_anyReturn l q v _ (fun _ _ => rfl)

theorem ite_cases {α : Sort _} {c : Prop} [Decidable c] {a b r : α} (h1 : c → a = r) (h2 : ¬c → b = r) :
    (if c then a else b) = r := by
  by_cases h : c
  · rw [if_pos h]; exact h1 h
  · rw [if_neg h]; exact h2 h

theorem trust_failed (a b : Bool) :
    ((if a = true then Trust.storeError else if b = true then Trust.notFound else Trust.found) != Trust.found) = (a || b) := by
  cases a <;> cases b <;> decide
theorem trust_failed2 (b : Bool) :
    ((if b = true then Trust.notFound else Trust.found) != Trust.found) = b := by
  cases b <;> decide
theorem revocation_failed (a : Bool) :
    ((if a = true then Revocation.revoked else Revocation.ok) != Revocation.ok) = a := by
  cases a <;> decide

theorem trust_ne1 : (Trust.storeError != Trust.found) = true := by decide
theorem trust_ne2 : (Trust.notFound != Trust.found) = true := by decide
theorem trust_ne3 : (Trust.found != Trust.found) = false := by decide
theorem rev_ne1 : (Revocation.revoked != Revocation.ok) = true := by decide
theorem rev_ne2 : (Revocation.ok != Revocation.ok) = false := by decide

theorem critFail_isSome (r : ValidationResult) (h : isCriticalFailure r = true) : r.Error.isSome = true := by
  rw [isCriticalFailure_eq] at h
  simp [isCritical, resOf] at h
  exact h.2

theorem contains_default (x : String) : GoLite.contains (default : List String) x = false := rfl
theorem contains_nil (x : String) : GoLite.contains ([] : List String) x = false := rfl

theorem deref_some {α : Type} [Inhabited α] (x : α) : GoLite.deref (some x) = x := rfl

/-- the model's answer, as the tie compares it -/
def modelView (i : Input) (enf : Enf) : Bool × List Result := ((process i enf).accepted, (process i enf).results)

/-! #### the model's stages with the plugin's verification capabilities as a LIST

The model's `Input` says which verification capabilities the plugin declares by two flags (`capsOf`: at most one of
each, trusted identity first). The Go code works on the LIST the plugin's metadata gives, in its order and with its
repetitions. The stages below are the model's own (same text, `capsOf i` replaced by a parameter); `processEG_capsOf`
shows they ARE the model on the lists the flags can express, and the tie is proved against them for EVERY list. -/
def toVerifyG (caps : List String) (enf : Enf) : List String :=
  caps.filter (fun c => !(revSkippedBy enf && c == capRevocation))

def discoverG (i : Input) (caps : List String) (s : St) : Except St St :=
  -- getVerificationPlugin: an existing but malformed attribute is an error
  if i.pluginAttr == .notCritical || i.pluginAttr == .notString || i.pluginAttr == .blank then .error s
  else if i.pluginAttr != .named then .ok s
  -- min version attribute is only looked at when a plugin is named
  else if i.minVerAttr == .notCritical || i.minVerAttr == .notString || i.minVerAttr == .blank ||
      i.minVerAttr == .invalidSemver then .error s
  else if i.pluginState == .managerNil then .error s
  else
  let s := { s with managerGets := s.managerGets + 1 }
  if i.pluginState == .notInstalled then .error s
  else if i.pluginState == .metadataError then .error s
  else if i.pluginVersion == .invalidSemver then .error s
  else if i.minVerAttr == .valid && i.pluginVersion == .tooOld then .error s
  else if caps.isEmpty then .error s
  else .ok s

def authStageG (i : Input) (caps : List String) (enf : Enf) (s : St) : Except St St :=
  let s := { s with storeLoads := s.storeLoads + 1 }
  let auth : Result := { type := Facts.typeAuthenticity, action := enf.get Facts.typeAuthenticity,
                         failed := i.trust != .found }
  match s.push auth with
  | .error s' => .error s'
  | .ok s' =>
    if !caps.contains capIdentity && !i.identityMatch then
      let s'' := { s' with results := failAuthenticity s'.results }
      if isCritical { auth with failed := true } then .error s'' else .ok s''
    else .ok s'

def revocationStageG (i : Input) (caps : List String) (enf : Enf) (s : St) : Except St St :=
  if !revSkippedBy enf && !caps.contains capRevocation then
    let s := { s with validatorCalls := s.validatorCalls + 1 }
    s.push { type := Facts.typeRevocation, action := enf.get Facts.typeRevocation,
             failed := i.revocation != .ok }
  else .ok s

def pluginStageG (i : Input) (caps : List String) (enf : Enf) (s : St) : Except St St :=
  if i.pluginAttr == .named then
    if (toVerifyG caps enf).isEmpty then
      .ok s                            -- plugin named but never executed (known finding F-C02b)
    else
      let s := { s with pluginVerifyCaps := some (toVerifyG caps enf),
                        pluginAttrsToProcess := some (sortKeys (i.extAttrs.map (·.key))) }
      if i.pluginCallError then .error s
      else processResponse i enf (toVerifyG caps enf) s
  else
    -- no plugin named: a critical extended attribute cannot be processed by anyone
    if i.extAttrs.any (·.critical) then .error s else .ok s

def processEG (i : Input) (enf : Enf) (caps : List String) : Except St St :=
  discoverG i caps {} >>= authStageG i caps enf >>= expiryStage i enf >>= timestampStage i enf >>=
    revocationStageG i caps enf >>= pluginStageG i caps enf

/-- on the capability lists the model's flags express, the generalised stages are the model -/
theorem processEG_capsOf (i : Input) (enf : Enf) : processEG i enf (capsOf i) = processE i enf := rfl

def discOKG (i : Input) (caps : List String) : Bool :=
  i.pluginAttr == .absent ||
  (i.pluginAttr == .named && (i.minVerAttr == .absent || i.minVerAttr == .valid) &&
    i.pluginState == .installed && i.pluginVersion != .invalidSemver &&
    !(i.minVerAttr == .valid && i.pluginVersion == .tooOld) && !caps.isEmpty)

theorem discoverG_spec (i : Input) (caps : List String) :
    ∃ s, s.results = [] ∧ discoverG i caps {} = (if discOKG i caps then .ok s else .error s) := by
  unfold discoverG discOKG
  cases i.pluginAttr <;> cases i.minVerAttr <;> cases i.pluginState <;> cases i.pluginVersion <;>
    cases caps.isEmpty <;> simp <;> exact ⟨_, rfl, rfl⟩

/-- accepted or not, and the results, of a run of the model's stages -/
def obsPair (e : Except St St) : Bool × List Result :=
  match e with
  | .ok s => (true, s.results)
  | .error s => (false, s.results)

theorem modelView_eq (i : Input) (enf : Enf) : modelView i enf = obsPair (processE i enf) := by
  unfold modelView process obsPair
  cases processE i enf <;> rfl

set_option hygiene false in
macro "leaf_simp" : tactic => `(tactic| simp_all [-List.any_eq_true, -List.any_eq_false, List.any_map, hcomp, contains_default, contains_nil, typeRev_eq, htE, htT, haS, actEnforce_eq, GoLite.setAt, GoLite.len, failAuthenticity, trust_ne1, trust_ne2, trust_ne3, rev_ne1, rev_ne2, authStageG, expiryStage, timestampStage, revocationStageG, pluginStageG, toVerifyG, revSkippedBy, St.push, St.obs, obsPair,
        toInput, view, GoLite.idPure, isCriticalFailure_eq, resOf, trust_failed, trust_failed2, revocation_failed, typeAuth_eq, mapGet_eq_enfGet, Trace.rA, Trace.pcaps, Trace.toVerify])

set_option maxHeartbeats 4000000 in
theorem source_processSignature_refines_model_partial (env : Env) (v : Verifier) (a : Args) (o0 : Outcome)
    (ec : EnvelopeContent) (rI : ValidationResult) (t : Trace)
    (hc : Contracts env v) (ht : TraceOK env v a o0 ec rI t)
    (hI : env.verifyIntegrity a.sigBlob a.mt o0 = (some ec, rI)) (hIok : rI.Error = none) (hIty : isAuth rI = false)
    (hres : o0.VerificationResults = [])
    (hnp : classifyPlugin ec.SignerInfo ≠ .named) :
    view (processSignature env v a.sigBlob a.mt a.pn a.tis a.tss a.sv a.pc o0) =
      obsPair (processEG (toInput env v ec.SignerInfo t) o0.VerificationLevel.Enforcement (t.pcaps ec.SignerInfo)) := by
  have hgp := source_getVerificationPlugin_refines_model ec.SignerInfo
  have hgm := source_getVerificationPluginMinVersion_refines_model env.isValidSemver ec.SignerInfo
  obtain ⟨s0, hs0, hdisc⟩ := discoverG_spec (toInput env v ec.SignerInfo t) (t.pcaps ec.SignerInfo)
  unfold processSignature
  simp only [Id.run]
  simp only [GoLite.forIn_appendIf, GoLite.forIn_appendUnless, forIn_anyReturnC, pure_bind]
  simp only [hI, hIok, hres, Option.isSome_none, Bool.false_eq_true, if_false, deref_some, List.nil_append]
  simp only [← ht.name, ← ht.minVer, ← ht.got, ← ht.md, ← ht.ld, ← ht.ierr]
  have hA1 := fun cs o => (hc.auth cs o).1
  have hA2 := fun cs o => (hc.auth cs o).2
  have hE1 := fun o => (hc.expiry o).1
  have hE2 := fun o => (hc.expiry o).2
  have hT1 := fun p t s x y o => (hc.timestamp p t s x y o).1
  have hT2 := fun p t s x y o => (hc.timestamp p t s x y o).2
  have hR1 := fun o => (hc.revocation o).1
  have hR2 := fun o => (hc.revocation o).2
  have hcomp : ((fun (x : ExtAttr) => x.critical) ∘ fun (x : Attribute) => ({ key := keyOf x, critical := x.Critical } : ExtAttr)) =
      fun a => a.Critical := rfl
  have haS : trustpolicy.ActionSkip = Facts.actionSkip := by decide
  have htE : trustpolicy.TypeExpiry = Facts.typeExpiry := by decide
  have htT : trustpolicy.TypeAuthenticTimestamp = Facts.typeAuthenticTimestamp := by decide
  have hrA0 := ht.rA0
  have hrE := ht.rE
  have hrT := ht.rT
  have hrR := ht.rR
  have hex := ht.ex
  have hne : (some errExtendedAttributeNotExist != some errExtendedAttributeNotExist) = false := by decide
  have hee : (("" : String) != "") = false := by decide
  -- plugin discovery
  cases hpa : classifyPlugin ec.SignerInfo with
  | absent =>
    have h1 := hgp.1 hpa
    have hn : t.name = "" := by rw [ht.name, h1]
    have hd : discOKG (toInput env v ec.SignerInfo t) (t.pcaps ec.SignerInfo) = true := by simp [discOKG, toInput, hpa]
    have hp0 : t.pcaps ec.SignerInfo = [] := by simp [Trace.pcaps, hpa]
    simp only [h1, hn, hne, hee, Option.isSome_some, Bool.and_false, Bool.false_eq_true, if_false]
    simp only [apply_ite view]
    repeat' (refine ite_cases (fun _ => ?_) (fun _ => ?_))
    all_goals (
      simp only [processEG, hdisc, hd, if_true, bind, Except.bind]
      clear hgp hgm hd hdisc ht hc
      rename_i hlast
      try (have hlf := critFail_isSome _ hlast)
      try leaf_simp
      try (by_cases hcr : ((getNonPluginExtendedCriticalAttributes ec.SignerInfo).any fun a => a.Critical) = true)
      all_goals try leaf_simp)
  | named => exact absurd hpa hnp
  | notCritical | notString | blank =>
    obtain ⟨h1, h2, h3⟩ := hgp.2.2 (by rw [hpa]; decide) (by rw [hpa]; decide)
    have h3' : ((getVerificationPlugin ec.SignerInfo).2 != some errExtendedAttributeNotExist) = true := by
      simpa [bne_iff_ne] using h3
    have hd : discOKG (toInput env v ec.SignerInfo t) (t.pcaps ec.SignerInfo) = false := by simp [discOKG, toInput, hpa]
    simp only [h2, h3', Bool.and_self, if_true]
    simp only [processEG, hdisc, hd, Bool.false_eq_true, if_false, bind, Except.bind]
    simp [view, GoLite.idPure, obsPair, hs0]
    simpa using h2

/-- the trace of a call: every oracle asked exactly as `processSignature` asks it -/
def traceOf (env : Env) (v : Verifier) (a : Args) (o0 : Outcome) (ec : EnvelopeContent) (rI : ValidationResult) : Trace :=
  let si := ec.SignerInfo
  let mk (rs : List ValidationResult) : Outcome := { EnvelopeContent := some ec, VerificationLevel := o0.VerificationLevel, VerificationResults := rs }
  let name := (getVerificationPlugin si).1
  let got := (GoLite.deref v.pluginManager).Get name
  let md := (GoLite.deref got.1).GetMetadata { PluginConfig := a.pc }
  let ld := env.loadX509TrustStores si.SignedAttributes.SigningScheme a.pn a.tss v.trustStore
  let rA0 : ValidationResult := if ld.2.isSome then
      { «Type» := trustpolicy.TypeAuthenticity, Action := GoLite.Map.get o0.VerificationLevel.Enforcement trustpolicy.TypeAuthenticity, Error := ld.2 }
    else env.verifyAuthenticity ld.1 (mk [rI])
  let ierr := env.verifyX509TrustedIdentities a.pn a.tis si.CertificateChain
  let t0 : Trace := ⟨name, (getVerificationPluginMinVersion env.isValidSemver si).1, got, md, ld, rA0, ierr, default, default, default, default⟩
  let rA := t0.rA si
  let rE := env.verifyExpiry (mk [rI, rA])
  let rT := env.verifyAuthenticTimestamp a.pn a.tss a.sv v.trustStore v.revocationTimestampingValidator (mk [rI, rA, rE])
  let rR := v.verifyRevocation (mk [rI, rA, rE, rT])
  let ex := env.executePlugin got.1 (t0.toVerify si o0.VerificationLevel.Enforcement) (some ec) a.tis a.pc
  { t0 with rE := rE, rT := rT, rR := rR, ex := ex }

/-- the hypothesis `TraceOK` of the tie is satisfiable for every call (so the tie speaks about every call) -/
theorem traceOf_ok (env : Env) (v : Verifier) (a : Args) (o0 : Outcome) (ec : EnvelopeContent) (rI : ValidationResult) :
    TraceOK env v a o0 ec rI (traceOf env v a o0 ec rI) :=
  ⟨rfl, rfl, rfl, rfl, rfl, rfl, rfl, rfl, rfl, rfl, rfl⟩

/-- TIE (translated source, no plugin named), in closed form: for EVERY verifier, environment of callees, argument
list and level, a call of the translated `processSignature` on a signature that passed integrity and names no
(well-formed) verification plugin is accepted exactly when the model accepts the scenario the oracles' answers
amount to, and records exactly the model's results after the integrity result -/
theorem source_processSignature_refines_model_no_plugin (env : Env) (v : Verifier) (a : Args) (o0 : Outcome)
    (ec : EnvelopeContent) (rI : ValidationResult)
    (hc : Contracts env v)
    (hI : env.verifyIntegrity a.sigBlob a.mt o0 = (some ec, rI)) (hIok : rI.Error = none) (hIty : isAuth rI = false)
    (hres : o0.VerificationResults = [])
    (hnp : classifyPlugin ec.SignerInfo ≠ .named) :
    view (processSignature env v a.sigBlob a.mt a.pn a.tis a.tss a.sv a.pc o0) =
      obsPair (processEG (toInput env v ec.SignerInfo (traceOf env v a o0 ec rI)) o0.VerificationLevel.Enforcement
        ((traceOf env v a o0 ec rI).pcaps ec.SignerInfo)) :=
  source_processSignature_refines_model_partial env v a o0 ec rI _ hc (traceOf_ok env v a o0 ec rI) hI hIok hIty hres hnp

/-- TIE (translated source): `processPluginResponse`, for EVERY list of verification capabilities, plugin response and
outcome: it returns an error exactly when the model's `processResponse` stops, and leaves behind exactly the model's
results (the trusted-identity verdict written into the authenticity result recorded earlier - through the pointer the
Go code finds in the outcome -, the revocation verdict appended) -/
theorem source_processPluginResponse_refines_model (i : Input) (resp : VerifySignatureResponse) (pre : List ValidationResult)
    (caps : List String) (o : Outcome) (s : St)
    (hrel : Rel pre o s) (hpre : pre.all (fun r => !isAuth r) = true)
    (hvi : i.verdictIdentity = verdictOf resp CapabilityTrustedIdentityVerifier)
    (hvr : i.verdictRevocation = verdictOf resp CapabilityRevocationCheckVerifier)
    (hcaps : ∀ c ∈ caps, c = CapabilityTrustedIdentityVerifier ∨ c = CapabilityRevocationCheckVerifier)
    (hauth : hasAuth s)
    (hplug : (getVerificationPlugin (GoLite.deref o.EnvelopeContent).SignerInfo).2 = none)
    (hext : i.extAttrs.any (fun a => !i.processed.contains a.key) =
      (getNonPluginExtendedCriticalAttributes (GoLite.deref o.EnvelopeContent).SignerInfo).any
        (fun a => !slices.ContainsAny resp.ProcessedAttributes a.Key)) :
    match processResponse i o.VerificationLevel.Enforcement caps s with
    | .ok s' => (processPluginResponse caps resp o).1 = none ∧ Rel pre (processPluginResponse caps resp o).2 s'
    | .error s' => (processPluginResponse caps resp o).1.isSome = true ∧ Rel pre (processPluginResponse caps resp o).2 s' := by
  rw [processPluginResponse_eq_spec]
  exact respSpec_sim i resp pre caps o s hrel hpre hvi hvr hcaps hauth hplug hext

/-! non-vacuity: the translated functions run on concrete oracles -/
section Examples
def ec0 : EnvelopeContent := { SignerInfo := { SignedAttributes := { ExtendedAttributes := [] } } }
def env0 (expiryErr : Option GoLite.Err) : Env :=
  { verifyIntegrity := fun _ _ _ => (some ec0, ⟨"integrity", "enforce", none⟩),
    isValidSemver := fun _ => true,
    isRequiredVerificationPluginVer := fun _ _ => true,
    loadX509TrustStores := fun _ _ _ _ => ([], none),
    verifyAuthenticity := fun _ o => ⟨trustpolicy.TypeAuthenticity, GoLite.Map.get o.VerificationLevel.Enforcement trustpolicy.TypeAuthenticity, none⟩,
    verifyX509TrustedIdentities := fun _ _ _ => none,
    verifyExpiry := fun o => ⟨trustpolicy.TypeExpiry, GoLite.Map.get o.VerificationLevel.Enforcement trustpolicy.TypeExpiry, expiryErr⟩,
    verifyAuthenticTimestamp := fun _ _ _ _ _ o => ⟨trustpolicy.TypeAuthenticTimestamp, GoLite.Map.get o.VerificationLevel.Enforcement trustpolicy.TypeAuthenticTimestamp, none⟩,
    executePlugin := fun _ _ _ _ _ => (default, none) }
def v0 : Verifier :=
  { pluginManager := none,
    verifyRevocation := fun o => ⟨trustpolicy.TypeRevocation, GoLite.Map.get o.VerificationLevel.Enforcement trustpolicy.TypeRevocation, none⟩,
    trustStore := 0, revocationTimestampingValidator := 0 }
def out0 (expiryAction : String) : Outcome :=
  { EnvelopeContent := none,
    VerificationLevel := { Name := "custom", Enforcement := [("integrity", "enforce"), ("authenticity", "enforce"),
      ("authenticTimestamp", "enforce"), ("expiry", expiryAction), ("revocation", "enforce")] },
    VerificationResults := [] }

/-- an expired signature under `expiry: log` is accepted, the failure recorded; under `expiry: enforce` it is rejected
and the later validations are not reached -/
example : view (processSignature (env0 (some ⟨"expired"⟩)) v0 ⟨0⟩ "" "p" [] [] default [] (out0 "log")) =
    (true, [⟨"authenticity", "enforce", false⟩, ⟨"expiry", "log", true⟩, ⟨"authenticTimestamp", "enforce", false⟩,
            ⟨"revocation", "enforce", false⟩]) := by decide
example : view (processSignature (env0 (some ⟨"expired"⟩)) v0 ⟨0⟩ "" "p" [] [] default [] (out0 "enforce")) =
    (false, [⟨"authenticity", "enforce", false⟩, ⟨"expiry", "enforce", true⟩]) := by decide
end Examples

end Process
end NotationModel.C02.Tie

/-! #### the plugin-named path, and the whole -/
namespace NotationModel.C02.Tie
section ProcessNamed

/-- the plugin response, seen through `view`: the translated `processPluginResponse` on an outcome whose results
after the first are the model's results gives the model's verdict and results -/
theorem respView (i : Input) (resp : VerifySignatureResponse) (r0 : ValidationResult) (caps : List String)
    (o : Outcome) (s : St)
    (hrel : Rel [r0] o s) (hpre : isAuth r0 = false)
    (hvi : i.verdictIdentity = verdictOf resp CapabilityTrustedIdentityVerifier)
    (hvr : i.verdictRevocation = verdictOf resp CapabilityRevocationCheckVerifier)
    (hcaps : ∀ c ∈ caps, c = CapabilityTrustedIdentityVerifier ∨ c = CapabilityRevocationCheckVerifier)
    (hauth : hasAuth s)
    (hplug : (getVerificationPlugin (GoLite.deref o.EnvelopeContent).SignerInfo).2 = none)
    (hext : i.extAttrs.any (fun a => !i.processed.contains a.key) =
      (getNonPluginExtendedCriticalAttributes (GoLite.deref o.EnvelopeContent).SignerInfo).any
        (fun a => !slices.ContainsAny resp.ProcessedAttributes a.Key)) :
    view (processPluginResponse caps resp o) = obsPair (processResponse i o.VerificationLevel.Enforcement caps s) := by
  have h := source_processPluginResponse_refines_model i resp [r0] caps o s hrel (by simp [hpre]) hvi hvr hcaps hauth hplug hext
  cases hp : processResponse i o.VerificationLevel.Enforcement caps s with
  | ok s' =>
    rw [hp] at h
    obtain ⟨h1, rs, h2, h3⟩ := h
    simp [view, obsPair, h1, h2, h3]
  | error s' =>
    rw [hp] at h
    obtain ⟨h1, rs, h2, h3⟩ := h
    cases he : (processPluginResponse caps resp o).1 with
    | none => rw [he] at h1; cases h1
    | some e => simp [view, obsPair, he, h2, h3]

theorem respView' (i : Input) (resp : VerifySignatureResponse) (r0 : ValidationResult) (caps : List String)
    (o : Outcome) (s : St) (enf : Enf)
    (henf : enf = o.VerificationLevel.Enforcement)
    (hO : o.VerificationResults = r0 :: o.VerificationResults.tail) (hS : s.results = o.VerificationResults.tail.map resOf)
    (hpre : isAuth r0 = false)
    (hvi : i.verdictIdentity = verdictOf resp CapabilityTrustedIdentityVerifier)
    (hvr : i.verdictRevocation = verdictOf resp CapabilityRevocationCheckVerifier)
    (hcaps : ∀ c ∈ caps, c = CapabilityTrustedIdentityVerifier ∨ c = CapabilityRevocationCheckVerifier)
    (hauth : hasAuth s)
    (hplug : (getVerificationPlugin (GoLite.deref o.EnvelopeContent).SignerInfo).2 = none)
    (hext : i.extAttrs.any (fun a => !i.processed.contains a.key) =
      (getNonPluginExtendedCriticalAttributes (GoLite.deref o.EnvelopeContent).SignerInfo).any
        (fun a => !slices.ContainsAny resp.ProcessedAttributes a.Key)) :
    view (processPluginResponse caps resp o) = obsPair (processResponse i enf caps s) := by
  subst henf
  exact respView i resp r0 caps o s ⟨_, by simpa using hO, hS⟩ hpre hvi hvr hcaps hauth hplug hext

theorem contains_filterMap_strOf (P : List AVal) (k : String) :
    (P.filterMap strOf).contains k = P.contains (.str k) := by
  induction P with
  | nil => rfl
  | cons x P ih =>
    cases x with
    | str s =>
      simp only [List.filterMap_cons, strOf, List.contains_cons, ih]
      congr 1
      by_cases h : k = s
      · subst h; simp
      · have : (AVal.str k == AVal.str s) = false := by simpa using h
        simp [h, this]
    | other n =>
      simp only [List.filterMap_cons, strOf, List.contains_cons, ih]
      have : (AVal.str k == AVal.other n) = false := by simp
      simp [this]

theorem ext_any_eq (si : SignerInfo) (P : List AVal) :
    ((getNonPluginExtendedCriticalAttributes si).map (fun x => ({ key := keyOf x, critical := x.Critical } : ExtAttr))).any
        (fun a => !(P.filterMap strOf).contains a.key) =
      (getNonPluginExtendedCriticalAttributes si).any (fun a => !slices.ContainsAny P a.Key) := by
  rw [source_getNonPluginExtendedCriticalAttributes_refines_model]
  generalize si.SignedAttributes.ExtendedAttributes = l
  induction l with
  | nil => rfl
  | cons x l ih =>
    cases hk : x.Key with
    | other n => simp only [List.filter_cons, hk]; simpa using ih
    | str k =>
      by_cases hh : VerificationPluginHeaders.contains k = true
      · simp only [List.filter_cons, hk, hh]; simpa using ih
      · have hh' : VerificationPluginHeaders.contains k = false := by simpa using hh
        simp only [List.filter_cons, hk, hh', Bool.not_false, if_true, List.map_cons, List.any_cons, ih]
        congr 1
        simp only [keyOf, hk, slices.ContainsAny]
        rw [contains_filterMap_strOf]

/-- the capabilities the plugin is asked to verify are verification capabilities -/
theorem toVerify_caps (t : Trace) (si : SignerInfo) (enf : GoLite.Map String String) :
    ∀ c ∈ t.toVerify si enf, c = CapabilityTrustedIdentityVerifier ∨ c = CapabilityRevocationCheckVerifier := by
  intro c hc
  unfold Trace.toVerify Trace.pcaps at hc
  have hc' := (List.mem_filter.1 hc).1
  split at hc'
  · unfold verifCaps at hc'
    have := (List.mem_filter.1 hc').2
    simp at this
    rcases this with h | h
    · exact Or.inr h
    · exact Or.inl h
  · cases hc'

@[simp] theorem toInput_pluginAttr (env : Env) (v : Verifier) (si : SignerInfo) (t : Trace) :
    (toInput env v si t).pluginAttr = classifyPlugin si := rfl
@[simp] theorem toInput_minVerAttr (env : Env) (v : Verifier) (si : SignerInfo) (t : Trace) :
    (toInput env v si t).minVerAttr = classifyMinVer env.isValidSemver si := rfl
@[simp] theorem toInput_extAttrs (env : Env) (v : Verifier) (si : SignerInfo) (t : Trace) :
    (toInput env v si t).extAttrs = (getNonPluginExtendedCriticalAttributes si).map (fun x => { key := keyOf x, critical := x.Critical }) := rfl
@[simp] theorem toInput_pluginState (env : Env) (v : Verifier) (si : SignerInfo) (t : Trace) :
    (toInput env v si t).pluginState = (if v.pluginManager.isNone then .managerNil else if t.got.2.isSome then .notInstalled else if t.md.2.isSome then .metadataError else .installed) := rfl
@[simp] theorem toInput_pluginVersion (env : Env) (v : Verifier) (si : SignerInfo) (t : Trace) :
    (toInput env v si t).pluginVersion = (if !env.isValidSemver t.md.1.Version then .invalidSemver else if !env.isRequiredVerificationPluginVer t.md.1.Version t.minVer then .tooOld else .ok) := rfl
@[simp] theorem toInput_capIdentity (env : Env) (v : Verifier) (si : SignerInfo) (t : Trace) :
    (toInput env v si t).capIdentity = (verifCaps t.md.1).contains CapabilityTrustedIdentityVerifier := rfl
@[simp] theorem toInput_capRevocation (env : Env) (v : Verifier) (si : SignerInfo) (t : Trace) :
    (toInput env v si t).capRevocation = (verifCaps t.md.1).contains CapabilityRevocationCheckVerifier := rfl
@[simp] theorem toInput_trust (env : Env) (v : Verifier) (si : SignerInfo) (t : Trace) :
    (toInput env v si t).trust = (if t.ld.2.isSome then .storeError else if t.rA0.Error.isSome then .notFound else .found) := rfl
@[simp] theorem toInput_identityMatch (env : Env) (v : Verifier) (si : SignerInfo) (t : Trace) :
    (toInput env v si t).identityMatch = t.ierr.isNone := rfl
@[simp] theorem toInput_expired (env : Env) (v : Verifier) (si : SignerInfo) (t : Trace) :
    (toInput env v si t).expired = t.rE.Error.isSome := rfl
@[simp] theorem toInput_timestampOk (env : Env) (v : Verifier) (si : SignerInfo) (t : Trace) :
    (toInput env v si t).timestampOk = t.rT.Error.isNone := rfl
@[simp] theorem toInput_revocation (env : Env) (v : Verifier) (si : SignerInfo) (t : Trace) :
    (toInput env v si t).revocation = (if t.rR.Error.isSome then .revoked else .ok) := rfl
@[simp] theorem toInput_pluginCallError (env : Env) (v : Verifier) (si : SignerInfo) (t : Trace) :
    (toInput env v si t).pluginCallError = t.ex.2.isSome := rfl
@[simp] theorem toInput_processed (env : Env) (v : Verifier) (si : SignerInfo) (t : Trace) :
    (toInput env v si t).processed = t.ex.1.ProcessedAttributes.filterMap strOf := rfl
@[simp] theorem toInput_verdictIdentity (env : Env) (v : Verifier) (si : SignerInfo) (t : Trace) :
    (toInput env v si t).verdictIdentity = verdictOf t.ex.1 CapabilityTrustedIdentityVerifier := rfl
@[simp] theorem toInput_verdictRevocation (env : Env) (v : Verifier) (si : SignerInfo) (t : Trace) :
    (toInput env v si t).verdictRevocation = verdictOf t.ex.1 CapabilityRevocationCheckVerifier := rfl

theorem ite_band {α : Sort _} (a b : Bool) (x y : α) :
    (if (a && b) = true then x else y) = if a = true then (if b = true then x else y) else y := by
  cases a <;> cases b <;> rfl

theorem len_pos {α : Type} (l : List α) : decide (GoLite.len l > 0) = !l.isEmpty := by
  cases l with
  | nil => rfl
  | cons x l =>
    simp only [GoLite.len, List.length_cons, List.isEmpty_cons, Bool.not_false, decide_eq_true_eq]
    omega

theorem toVerifyG_eq (t : Trace) (si : SignerInfo) (enf : GoLite.Map String String) :
    toVerifyG (t.pcaps si) enf = t.toVerify si enf := by
  have haS : trustpolicy.ActionSkip = Facts.actionSkip := by decide
  unfold toVerifyG Trace.toVerify revSkippedBy revSkipped
  rw [mapGet_eq_enfGet, typeRev_eq, haS]
  rfl

set_option hygiene false in
macro "leaf_n1" : tactic => `(tactic| simp_all [-List.any_eq_true, -List.any_eq_false, List.any_map, hcomp, contains_default, contains_nil, typeRev_eq, htE, htT, haS, actEnforce_eq, GoLite.setAt, GoLite.len, failAuthenticity, trust_ne1, trust_ne2, trust_ne3, rev_ne1, rev_ne2, authStageG, expiryStage, timestampStage, revocationStageG, pluginStageG, hTVm, revSkippedBy, St.push,
        isCriticalFailure_eq, resOf, trust_failed, trust_failed2, revocation_failed, typeAuth_eq, mapGet_eq_enfGet, Trace.rA, GoLite.contains, capId_eq.symm, capRev_eq.symm])
set_option hygiene false in
macro "leaf_n2" : tactic => `(tactic| simp_all [-List.any_eq_true, -List.any_eq_false, List.any_map, hcomp, view, obsPair, GoLite.idPure, St.obs, resOf])

set_option maxHeartbeats 8000000 in
theorem source_processSignature_refines_model_named (env : Env) (v : Verifier) (a : Args) (o0 : Outcome)
    (ec : EnvelopeContent) (rI : ValidationResult) (t : Trace)
    (hc : Contracts env v) (ht : TraceOK env v a o0 ec rI t)
    (hI : env.verifyIntegrity a.sigBlob a.mt o0 = (some ec, rI)) (hIok : rI.Error = none) (hIty : isAuth rI = false)
    (hres : o0.VerificationResults = [])
    (hpa : classifyPlugin ec.SignerInfo = .named) :
    view (processSignature env v a.sigBlob a.mt a.pn a.tis a.tss a.sv a.pc o0) =
      obsPair (processEG (toInput env v ec.SignerInfo t) o0.VerificationLevel.Enforcement (t.pcaps ec.SignerInfo)) := by
  have hgp := source_getVerificationPlugin_refines_model ec.SignerInfo
  have hgm := source_getVerificationPluginMinVersion_refines_model env.isValidSemver ec.SignerInfo
  obtain ⟨s0, hs0, hdisc⟩ := discoverG_spec (toInput env v ec.SignerInfo t) (t.pcaps ec.SignerInfo)
  unfold processSignature
  simp only [Id.run]
  simp only [GoLite.forIn_appendIf, GoLite.forIn_appendUnless, forIn_anyReturnC, pure_bind]
  simp only [hI, hIok, hres, Option.isSome_none, Bool.false_eq_true, if_false, deref_some, List.nil_append]
  simp only [← ht.name, ← ht.minVer, ← ht.got, ← ht.md, ← ht.ld, ← ht.ierr]
  obtain ⟨h1, at1, hat1, hat2⟩ := hgp.2.1 hpa
  have hname : (t.name != "") = true := by
    rw [ht.name]
    have := hpa
    unfold classifyPlugin at this
    rw [hat1] at this
    simp only at this
    split at this
    · cases this
    · rw [hat2] at this
      simp only at this
      split at this
      · cases this
      · rename_i hb
        simp only [bne_iff_ne, ne_eq]
        intro he
        rw [he, trimSpace_empty] at hb
        exact hb (by decide)
  simp only [h1, hname, Option.isSome_none, Bool.false_and, Bool.false_eq_true, if_false, if_true]
  -- the exits of plugin discovery leave no result behind
  have hexit : ∀ (e : Option GoLite.Err), e.isSome = true → discOKG (toInput env v ec.SignerInfo t) (t.pcaps ec.SignerInfo) = false →
      view (pure (e, ({ EnvelopeContent := some ec, VerificationLevel := o0.VerificationLevel, VerificationResults := [rI] } : Outcome)) : Id _) =
        obsPair (processEG (toInput env v ec.SignerInfo t) o0.VerificationLevel.Enforcement (t.pcaps ec.SignerInfo)) := by
    intro e he hk
    simp only [processEG, hdisc, hk, Bool.false_eq_true, if_false, bind, Except.bind]
    simp [view, GoLite.idPure, obsPair, hs0]
    cases e <;> simp_all
  cases hmv : classifyMinVer env.isValidSemver ec.SignerInfo with
  | notCritical | notString | blank | invalidSemver =>
    obtain ⟨_, g2, g3⟩ := hgm.2.2 (by rw [hmv]; decide) (by rw [hmv]; decide)
    have g3' : ((getVerificationPluginMinVersion env.isValidSemver ec.SignerInfo).2 != some errExtendedAttributeNotExist) = true := by
      simpa [bne_iff_ne] using g3
    simp only [g2, g3', Bool.and_self, if_true]
    exact hexit _ rfl (by simp [discOKG, toInput, hpa, hmv])
  | absent | valid =>
    have hd1 : ((getVerificationPluginMinVersion env.isValidSemver ec.SignerInfo).2.isSome &&
        (getVerificationPluginMinVersion env.isValidSemver ec.SignerInfo).2 != some errExtendedAttributeNotExist) = false := by
      first
        | (rw [hgm.1 hmv]; decide)
        | (rw [(hgm.2.1 hmv).1]; rfl)
    simp only [hd1, Bool.false_eq_true, if_false]
    by_cases hm : v.pluginManager.isNone = true
    · simp only [hm, if_true]
      exact hexit _ rfl (by simp [discOKG, toInput, hpa, hmv, hm])
    simp only [hm, Bool.false_eq_true, if_false]
    by_cases hg : t.got.2.isSome = true
    · simp only [hg, if_true]
      exact hexit _ rfl (by simp [discOKG, toInput, hpa, hmv, hm, hg])
    simp only [hg, Bool.false_eq_true, if_false]
    by_cases hmd : t.md.2.isSome = true
    · simp only [hmd, if_true]
      exact hexit _ hmd (by simp [discOKG, toInput, hpa, hmv, hm, hg, hmd])
    simp only [hmd, Bool.false_eq_true, if_false]
    by_cases hvs : env.isValidSemver t.md.1.Version = false
    · simp only [hvs, Bool.not_false, if_true]
      exact hexit _ rfl (by simp [discOKG, toInput, hpa, hmv, hm, hg, hmd, hvs])
    have hvs' : env.isValidSemver t.md.1.Version = true := by simpa using hvs
    simp only [hvs', Bool.not_true, Bool.false_eq_true, if_false]
    by_cases hrq : env.isRequiredVerificationPluginVer t.md.1.Version t.minVer = false
    · simp only [hrq, Bool.not_false, if_true]
      -- a minimum version is demanded (without one every valid version will do)
      have hval : classifyMinVer env.isValidSemver ec.SignerInfo = .valid := by
        rcases (show classifyMinVer env.isValidSemver ec.SignerInfo = .absent ∨ classifyMinVer env.isValidSemver ec.SignerInfo = .valid by rw [hmv]; simp) with h | h
        · exfalso
          have h0 := hc.noMin _ hvs'
          rw [ht.minVer, hgm.1 h] at hrq
          rw [h0] at hrq
          cases hrq
        · exact h
      exact hexit _ rfl (by simp [discOKG, toInput, hpa, hval, hm, hg, hmd, hvs', hrq])
    have hrq' : env.isRequiredVerificationPluginVer t.md.1.Version t.minVer = true := by simpa using hrq
    simp only [hrq', Bool.not_true, Bool.false_eq_true, if_false]
    have hpcs : ((default : List String) ++ List.filter (fun a => a == CapabilityRevocationCheckVerifier || a == CapabilityTrustedIdentityVerifier)
        t.md.1.Capabilities) = t.pcaps ec.SignerInfo := by
      simp only [Trace.pcaps, hpa, if_true, verifCaps]
      rfl
    simp only [hpcs]
    by_cases hemp : t.pcaps ec.SignerInfo = []
    · have : (GoLite.len (t.pcaps ec.SignerInfo) == 0) = true := by rw [hemp]; rfl
      simp only [this, if_true]
      exact hexit _ rfl (by simp [discOKG, hemp, hpa])
    have hlen : (GoLite.len (t.pcaps ec.SignerInfo) == 0) = false := by
      cases hq : t.pcaps ec.SignerInfo with
      | nil => exact absurd hq hemp
      | cons x l => simp [GoLite.len]; omega
    simp only [hlen, Bool.false_eq_true, if_false]
    have hd : discOKG (toInput env v ec.SignerInfo t) (t.pcaps ec.SignerInfo) = true := by
      have hne : (t.pcaps ec.SignerInfo).isEmpty = false := by simpa using hemp
      have hmvv : classifyMinVer env.isValidSemver ec.SignerInfo = .absent ∨ classifyMinVer env.isValidSemver ec.SignerInfo = .valid := by
        rw [hmv]; simp
      rcases hmvv with h | h <;> simp [discOKG, hne, hpa, h, hm, hg, hmd, hvs', hrq']
    -- the plugin the manager hands out
    have hipS : t.got.1.isSome = true := by
      cases hpm : v.pluginManager with
      | none => simp [hpm] at hm
      | some m =>
        have := hc.got m t.name hpm
        rw [ht.got, hpm, deref_some]
        apply this
        have hg' := hg
        rw [ht.got, hpm, deref_some] at hg'
        simpa using hg'
    -- the capabilities asked of the plugin and its answer, as the trace names them
    have hTV : ((default : List String) ++ List.filter (fun a => !(GoLite.Map.get o0.VerificationLevel.Enforcement trustpolicy.TypeRevocation == trustpolicy.ActionSkip &&
        a == CapabilityRevocationCheckVerifier)) (t.pcaps ec.SignerInfo)) = t.toVerify ec.SignerInfo o0.VerificationLevel.Enforcement := by
      simp only [Trace.toVerify, revSkipped]
      rfl
    simp only [hTV, ← ht.ex, len_pos]
    have hTVm := toVerifyG_eq t ec.SignerInfo o0.VerificationLevel.Enforcement
    have hA1 := fun cs o => (hc.auth cs o).1
    have hA2 := fun cs o => (hc.auth cs o).2
    have hE1 := fun o => (hc.expiry o).1
    have hE2 := fun o => (hc.expiry o).2
    have hT1 := fun p t s x y o => (hc.timestamp p t s x y o).1
    have hT2 := fun p t s x y o => (hc.timestamp p t s x y o).2
    have hR1 := fun o => (hc.revocation o).1
    have hR2 := fun o => (hc.revocation o).2
    have hcomp : ((fun (x : ExtAttr) => x.critical) ∘ fun (x : Attribute) => ({ key := keyOf x, critical := x.Critical } : ExtAttr)) =
        fun a => a.Critical := rfl
    have haS : trustpolicy.ActionSkip = Facts.actionSkip := by decide
    have htE : trustpolicy.TypeExpiry = Facts.typeExpiry := by decide
    have htT : trustpolicy.TypeAuthenticTimestamp = Facts.typeAuthenticTimestamp := by decide
    have hrA0 := ht.rA0
    have hrE := ht.rE
    have hrT := ht.rT
    have hrR := ht.rR
    simp only [apply_ite view]
    simp only [ite_band]
    repeat' (refine ite_cases (fun _ => ?_) (fun _ => ?_))
    all_goals (
      simp only [processEG, hdisc, hd, if_true, bind, Except.bind]
      clear hgp hgm hd hdisc hexit ht hc hd1 hpcs hTV hlen
      rename_i hlast
      try (have hlf := critFail_isSome _ hlast)
      try leaf_n1)
    all_goals (first
      | (show view (processPluginResponse _ _ _) = _
         refine respView' (toInput env v ec.SignerInfo t) t.ex.1 rI _ _ _ _ ?_ ?_ ?_ hIty ?_ ?_ (toVerify_caps _ _ _) ?_ ?_ ?_
         · rfl
         · rfl
         · simp_all [resOf]
         · rfl
         · rfl
         · exact ⟨_, List.mem_cons_self, by simp⟩
         · simpa [GoLite.deref] using h1
         · simpa [GoLite.deref] using ext_any_eq ec.SignerInfo t.ex.1.ProcessedAttributes)
      | leaf_n2)

/-- TIE (translated source): `processSignature` AS A WHOLE, for EVERY list of capabilities a plugin may declare.
For EVERY verifier, environment of callees, argument list, level and signature that passed integrity: the translated
function is accepted exactly when the model's stages - with the plugin's verification capabilities taken as the LIST
the metadata gives (`processEG`, which IS the model on the lists its flags express: `processEG_capsOf`) - accept the
scenario the oracles' answers amount to (`toInput` of the trace, each oracle asked with the arguments the Go code
hands it at that point), and records exactly the model's results after the integrity result - whether or not the
signature names a verification plugin (discovery, capability filter, native checks the plugin does not own, hand-over
to `processPluginResponse`, the update of the authenticity result through the pointer kept in the outcome).
Assumed: `Contracts` (facts about callees) and an outcome that starts empty. -/
theorem source_processSignature_refines_model_anycaps (env : Env) (v : Verifier) (a : Args) (o0 : Outcome)
    (ec : EnvelopeContent) (rI : ValidationResult) (t : Trace)
    (hc : Contracts env v) (ht : TraceOK env v a o0 ec rI t)
    (hI : env.verifyIntegrity a.sigBlob a.mt o0 = (some ec, rI)) (hIok : rI.Error = none) (hIty : isAuth rI = false)
    (hres : o0.VerificationResults = []) :
    view (processSignature env v a.sigBlob a.mt a.pn a.tis a.tss a.sv a.pc o0) =
      obsPair (processEG (toInput env v ec.SignerInfo t) o0.VerificationLevel.Enforcement (t.pcaps ec.SignerInfo)) := by
  by_cases hpa : classifyPlugin ec.SignerInfo = .named
  · exact source_processSignature_refines_model_named env v a o0 ec rI t hc ht hI hIok hIty hres hpa
  · exact source_processSignature_refines_model_partial env v a o0 ec rI t hc ht hI hIok hIty hres hpa

/-- the same against the model `process` itself, for plugins that list each verification capability at most once,
trusted identity first (`NormalCaps`: the shapes the model's two capability flags express) -/
theorem source_processSignature_refines_model (env : Env) (v : Verifier) (a : Args) (o0 : Outcome)
    (ec : EnvelopeContent) (rI : ValidationResult) (t : Trace)
    (hc : Contracts env v) (ht : TraceOK env v a o0 ec rI t)
    (hI : env.verifyIntegrity a.sigBlob a.mt o0 = (some ec, rI)) (hIok : rI.Error = none) (hIty : isAuth rI = false)
    (hres : o0.VerificationResults = [])
    (hcaps : NormalCaps (verifCaps t.md.1)) :
    view (processSignature env v a.sigBlob a.mt a.pn a.tis a.tss a.sv a.pc o0) =
      modelView (toInput env v ec.SignerInfo t) o0.VerificationLevel.Enforcement := by
  rw [modelView_eq, ← processEG_capsOf, capsOf_toInput env v ec.SignerInfo t hcaps]
  exact source_processSignature_refines_model_anycaps env v a o0 ec rI t hc ht hI hIok hIty hres

/-- the same in closed form (the trace is the one every call has) -/
theorem source_processSignature_refines_model_closed (env : Env) (v : Verifier) (a : Args) (o0 : Outcome)
    (ec : EnvelopeContent) (rI : ValidationResult)
    (hc : Contracts env v)
    (hI : env.verifyIntegrity a.sigBlob a.mt o0 = (some ec, rI)) (hIok : rI.Error = none) (hIty : isAuth rI = false)
    (hres : o0.VerificationResults = []) :
    view (processSignature env v a.sigBlob a.mt a.pn a.tis a.tss a.sv a.pc o0) =
      obsPair (processEG (toInput env v ec.SignerInfo (traceOf env v a o0 ec rI)) o0.VerificationLevel.Enforcement
        ((traceOf env v a o0 ec rI).pcaps ec.SignerInfo)) :=
  source_processSignature_refines_model_anycaps env v a o0 ec rI _ hc (traceOf_ok env v a o0 ec rI) hI hIok hIty hres

/-! non-vacuity of the plugin-named path: the translated function runs a plugin that owns the identity check -/
section ExamplesNamed
def ec1 : EnvelopeContent := { SignerInfo := { SignedAttributes := { ExtendedAttributes :=
  [{ Key := .str "io.cncf.notary.verificationPlugin", Critical := true, Value := .str "p" }] } } }
def plugin1 : VerifyPlugin := { GetMetadata := fun _ => ({ Version := "1.0.0", Capabilities := ["SIGNATURE_GENERATOR.RAW", CapabilityTrustedIdentityVerifier] }, none) }
def v1 : Verifier := { v0 with pluginManager := some { Get := fun _ => (some plugin1, none) } }
def env1 (identityOk : Bool) : Env :=
  { env0 none with
    verifyIntegrity := fun _ _ _ => (some ec1, ⟨"integrity", "enforce", none⟩),
    -- the native identity check would refuse: it must not be consulted, the plugin owns the check
    verifyX509TrustedIdentities := fun _ _ _ => some ⟨"native identity check consulted"⟩,
    executePlugin := fun _ _ _ _ _ => ({ VerificationResults := [(CapabilityTrustedIdentityVerifier, some ⟨identityOk, "r"⟩)], ProcessedAttributes := [] }, none) }

example : view (processSignature (env1 true) v1 ⟨0⟩ "" "p" [] [] default [] (out0 "enforce")) =
    (true, [⟨"authenticity", "enforce", false⟩, ⟨"expiry", "enforce", false⟩, ⟨"authenticTimestamp", "enforce", false⟩,
            ⟨"revocation", "enforce", false⟩]) := by decide
/-- the plugin's refusal is written into the authenticity result recorded FIRST (through the pointer), and rejects -/
example : view (processSignature (env1 false) v1 ⟨0⟩ "" "p" [] [] default [] (out0 "enforce")) =
    (false, [⟨"authenticity", "enforce", true⟩, ⟨"expiry", "enforce", false⟩, ⟨"authenticTimestamp", "enforce", false⟩,
            ⟨"revocation", "enforce", false⟩]) := by decide
end ExamplesNamed

end ProcessNamed
end NotationModel.C02.Tie

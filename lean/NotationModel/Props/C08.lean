/- C08 - property theorems (stub: not built yet) -/
import NotationModel.Model.C08

namespace NotationModel.C08

end NotationModel.C08

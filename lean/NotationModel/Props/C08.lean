/-
C08 - The policy statement applied is the one scoped to the artifact's repository.
Property theorems only; the model is in `Model/C08.lean`, helper lemmas in `Lemmas/C08.lean`.

Validity. Document validation is property C09. What selection needs from a valid document
are its uniqueness rules, stated here as explicit decidable predicates:
  `scopesUnique d` - no scope string occurs twice in the whole document, and a statement that
                     carries the wildcard "*" carries nothing else (hence at most one does);
  `namesUnique d`  - statement names are pairwise different;
  `oneGlobal d`    - at most one blob statement is global.
`WF` is their conjunction per document kind. They are hypotheses of the selection theorems and
- since a code change in `Validate` can silently break them - they are also OBSERVED: the
harness generates documents that break exactly one of the rules (all other aspects valid),
records what the real `Validate()` and `NewVerifierWithOptions` say (`validated`,
`verifierAccepts`), and the model says both equal `WF`. `model_holds` is for ALL inputs: on a
`WF` document every selection clause holds, a non-`WF` document is refused and nothing is ever
selected from it (clause `only_unique_documents_validate`; the selection clauses then read
"there is no selection result").

Histories. The model has no state besides the document's content: `Input.history` / `Input.before`
(how the document object the harness queries came to hold `stmts`: validated with another
content, queried, struct-copied, edited in place, re-validated or not) are ignored by `run`
(`selection_depends_only_on_current_content`). An implementation that keeps derived state on
the document or the verifier (an index built by `Validate`, a memoised selection) and lets it go
stale disagrees with the model on such a history.
-/
import NotationModel.Lemmas.C08
import NotationModel.Generated.SrcC08
set_option linter.unusedSimpArgs false
set_option linter.unusedVariables false

namespace NotationModel.C08

/-! ### ties to the source text -/

/-- the model's regex syntax trees print to exactly the regex texts in
`validateRegistryScopeFormat`; the wildcard is "*"; the reference is cut at the LAST '@'; a scope
is cut at the first '/' -/
theorem source_ties :
    regexText domainRx = Facts.c08DomainRegexp ∧
    regexText repositoryRx = Facts.c08RepositoryRegexp ∧
    Facts.c08Wildcard = ['*'] ∧
    Facts.c08ScopeCut = "strings.Cut(_,\"/\")" ∧
    Facts.c08RefSplit = ["strings.LastIndex(_,\"@\")"] := by
  decide

/-- **the clone obligation**: in the current source every reference-typed field of a handed-out
statement (the three slices, the Override map) is freshly allocated and every value field is
copied from the same field. A `clone` that shares a slice or the map, or drops a field, changes
the extracted facts and this proof no longer checks. -/
theorem clone_is_fresh :
    CloneFresh Facts.ociCloneFields Facts.sigVerificationCloneMakesMap false = true ∧
    CloneFresh Facts.blobCloneFields Facts.sigVerificationCloneMakesMap true = true := by
  decide

theorem currentFacts_fresh : currentFacts.fresh = true := by decide

/-! ### OCI selection -/

/-- **select_unique.** For a document with unique scopes and a reference whose repository path is
`path`: a statement listing exactly `path` is THE result (so there is only one such statement);
if none lists it, a statement carrying the wildcard is THE result; if there is neither, the
result is the no-applicable-policy error. -/
theorem select_unique (d : List Stmt) (hu : scopesUnique d = true) (ref path : Text)
    (hp : artifactPath ref = some path) :
    (∀ s ∈ d, path ∈ s.scopes → selectOCI d ref = .ok s) ∧
    ((∀ s ∈ d, path ∉ s.scopes) → ∀ w ∈ d, wildcard ∈ w.scopes → selectOCI d ref = .ok w) ∧
    ((∀ s ∈ d, path ∉ s.scopes ∧ wildcard ∉ s.scopes) → selectOCI d ref = .error .noApplicablePolicy) := by
  have hne := artifactPath_ne_wildcard ref path hp
  rw [selectOCI_some d ref path hp]
  have hE : ∀ s ∈ d, isE path s = s.scopes.contains path := isE_eq_contains d hu path hne
  refine ⟨?_, ?_, ?_⟩
  · intro s hs hps
    have hc : s.scopes.contains path = true := List.contains_iff_mem.2 hps
    have : lastMatch (isE path) d none = some s := by
      apply lastMatch_unique (isE path) d none s hs (by rw [hE s hs]; exact hc)
      intro t ht hpt
      rw [hE t ht] at hpt
      exact filter_le_one_unique _ d (scopesUnique_filter d hu path) t s ht hs hpt hc
    rw [this]
  · intro hno w hw hww
    have hnoE : ∀ s ∈ d, isE path s = false := by
      intro s hs
      rw [hE s hs]
      exact Bool.eq_false_iff.2 (fun hc => hno s hs (List.contains_iff_mem.1 hc))
    have hc : w.scopes.contains wildcard = true := List.contains_iff_mem.2 hww
    have : lastMatch isW d none = some w := by
      apply lastMatch_unique isW d none w hw hc
      intro t ht hpt
      exact filter_le_one_unique _ d (scopesUnique_filter d hu wildcard) t w ht hw hpt hc
    rw [lastMatch_none _ _ _ hnoE, this]
  · intro hno
    have hnoE : ∀ s ∈ d, isE path s = false := by
      intro s hs
      rw [hE s hs]
      exact Bool.eq_false_iff.2 (fun hc => (hno s hs).1 (List.contains_iff_mem.1 hc))
    have hnoW : ∀ s ∈ d, isW s = false := by
      intro s hs
      exact Bool.eq_false_iff.2 (fun hc => (hno s hs).2 (List.contains_iff_mem.1 hc))
    rw [lastMatch_none _ _ _ hnoE, lastMatch_none _ _ _ hnoW]

/-- in a valid document at most one statement lists a given repository path, and at most one
carries the wildcard -/
theorem scoped_statement_unique (d : List Stmt) (hu : scopesUnique d = true) (x : Text)
    (s t : Stmt) (hs : s ∈ d) (ht : t ∈ d) (hxs : x ∈ s.scopes) (hxt : x ∈ t.scopes) : s = t :=
  filter_le_one_unique _ d (scopesUnique_filter d hu x) s t hs ht
    (List.contains_iff_mem.2 hxs) (List.contains_iff_mem.2 hxt)

theorem scopesUnique_perm (d d' : List Stmt) (hperm : d.Perm d') (hu : scopesUnique d = true) :
    scopesUnique d' = true := by
  simp only [scopesUnique, Bool.and_eq_true, decide_eq_true_eq, List.all_eq_true] at hu ⊢
  refine ⟨(List.Perm.nodup_iff (List.Perm.flatMap_right _ hperm)).1 hu.1, ?_⟩
  intro s hs
  exact hu.2 s (hperm.mem_iff.2 hs)

/-- **select_perm.** The order of the statements does not matter: any permutation of a valid
document selects the same statement (or refuses in the same way) for every reference. -/
theorem select_perm (d d' : List Stmt) (hperm : d.Perm d') (hu : scopesUnique d = true) (ref : Text) :
    selectOCI d ref = selectOCI d' ref := by
  have hu' := scopesUnique_perm d d' hperm hu
  cases hp : artifactPath ref with
  | none => simp only [selectOCI, hp]
  | some path =>
    have h1 := select_unique d hu ref path hp
    have h2 := select_unique d' hu' ref path hp
    by_cases hex : ∃ s ∈ d, path ∈ s.scopes
    · obtain ⟨s, hs, hps⟩ := hex
      rw [h1.1 s hs hps, h2.1 s (hperm.mem_iff.1 hs) hps]
    · have hno : ∀ s ∈ d, path ∉ s.scopes := fun s hs hps => hex ⟨s, hs, hps⟩
      have hno' : ∀ s ∈ d', path ∉ s.scopes := fun s hs => hno s (hperm.mem_iff.2 hs)
      by_cases hw : ∃ w ∈ d, wildcard ∈ w.scopes
      · obtain ⟨w, hw, hww⟩ := hw
        rw [h1.2.1 hno w hw hww, h2.2.1 hno' w (hperm.mem_iff.1 hw) hww]
      · have hnw : ∀ s ∈ d, path ∉ s.scopes ∧ wildcard ∉ s.scopes :=
          fun s hs => ⟨hno s hs, fun hww => hw ⟨s, hs, hww⟩⟩
        have hnw' : ∀ s ∈ d', path ∉ s.scopes ∧ wildcard ∉ s.scopes :=
          fun s hs => hnw s (hperm.mem_iff.2 hs)
        rw [h1.2.2 hnw, h2.2.2 hnw']

/-- **select_exact.** Membership is equality of the whole string: whatever the document (valid or
not), a selected statement is a statement of the document that lists the repository path itself
or carries the wildcard, and the wildcard statement is only selected when no statement without
the wildcard lists the path. A scope that is merely a prefix, an extension, a substring or a case
variant of the path (or the path with a tag) is a different `List Char` and never matches. -/
theorem select_exact (d : List Stmt) (ref path : Text) (s : Stmt)
    (hp : artifactPath ref = some path) (hs : selectOCI d ref = .ok s) :
    s ∈ d ∧ (path ∈ s.scopes ∨ wildcard ∈ s.scopes) ∧
    (path ∉ s.scopes → ∀ t ∈ d, wildcard ∉ t.scopes → path ∉ t.scopes) := by
  refine ⟨selectOCI_mem d ref s hs, ?_⟩
  rw [selectOCI_some d ref path hp] at hs
  cases h1 : lastMatch (isE path) d none with
  | some a =>
    simp only [h1] at hs
    injection hs with hs
    subst hs
    rcases lastMatch_sound _ _ _ _ h1 with ⟨_, hpa⟩ | h0
    · simp only [isE, Bool.and_eq_true] at hpa
      have hm : path ∈ a.scopes := List.contains_iff_mem.1 hpa.2
      exact ⟨Or.inl hm, fun hn => absurd hm hn⟩
    · cases h0
  | none =>
    cases h2 : lastMatch isW d none with
    | some w =>
      simp only [h1, h2] at hs
      injection hs with hs
      subst hs
      rcases lastMatch_sound _ _ _ _ h2 with ⟨_, hpw⟩ | h0
      · refine ⟨Or.inr (List.contains_iff_mem.1 hpw), ?_⟩
        intro _ t ht hnw hpt
        have hEt : isE path t = true := by
          simp only [isE, Bool.and_eq_true, Bool.not_eq_true']
          exact ⟨Bool.eq_false_iff.2 (fun hc => hnw (List.contains_iff_mem.1 hc)), List.contains_iff_mem.2 hpt⟩
        by_cases hr : ∃ u ∈ d, isE path u = true
        · obtain ⟨y, _, _, hy⟩ := lastMatch_some (isE path) d none hr
          rw [h1] at hy; cases hy
        · exact hr ⟨t, ht, hEt⟩
      · cases h0
    | none => simp [h1, h2] at hs

/-- a reference without '@' (tag only, or nothing after the repository) is refused, and a path
that is not "registry/repository" in the distribution grammar (a tag after the repository, an
upper-case repository, a missing repository, a wildcard) is refused: examples, evaluated by the
kernel on the model's regex matcher -/
theorem malformed_references_are_refused :
    artifactPath "registry.example/app:v1".toList = none ∧
    artifactPath "registry.example/app".toList = none ∧
    artifactPath "registry.example/app:v1@sha256:00".toList = none ∧
    artifactPath "registry.example/APP@sha256:00".toList = none ∧
    artifactPath "registry.example/@sha256:00".toList = none ∧
    artifactPath "@sha256:00".toList = none ∧
    artifactPath "*@sha256:00".toList = none ∧
    artifactPath "registry.example/app@sha256:00".toList = some "registry.example/app".toList ∧
    artifactPath "registry.example:5000/app/sub@sha256:00".toList = some "registry.example:5000/app/sub".toList := by
  decide

/-! ### blob selection -/

/-- **blob_by_name.** In a document with unique names the statement whose name IS the requested
(non-blank) name is the result; if there is none, or the name is blank, the request is refused.
The comparison is equality of the whole name. -/
theorem blob_by_name (d : List Stmt) (hu : namesUnique d = true) (name : Text) :
    (isBlank name = false → ∀ s ∈ d, s.name = name → selectBlob d name = .ok s) ∧
    (isBlank name = false → (∀ s ∈ d, s.name ≠ name) → selectBlob d name = .error .noApplicablePolicy) ∧
    (isBlank name = true → selectBlob d name = .error .emptyName) ∧
    (∀ s, selectBlob d name = .ok s → s ∈ d ∧ s.name = name) := by
  refine ⟨?_, ?_, ?_, ?_⟩
  · intro hb s hs hn
    have hps : (s.name == name) = true := by rw [hn]; exact beq_self_eq_true name
    have : d.filter (fun s => s.name == name) = [s] := by
      rcases le_one_cases _ (namesUnique_filter d hu name) with hf | ⟨x, hf⟩
      · have : s ∈ d.filter (fun s => s.name == name) := List.mem_filter.2 ⟨hs, hps⟩
        rw [hf] at this; cases this
      · have : s ∈ d.filter (fun s => s.name == name) := List.mem_filter.2 ⟨hs, hps⟩
        rw [hf] at this
        rw [hf, List.mem_singleton.1 this]
    simp only [selectBlob, hb, find?_of_filter_single _ _ s this, Bool.false_eq_true, ↓reduceIte]
  · intro hb hno
    have : d.find? (fun s => s.name == name) = none := by
      apply List.find?_eq_none.2
      intro s hs hc
      exact hno s hs (eq_of_beq hc)
    simp only [selectBlob, hb, this, Bool.false_eq_true, ↓reduceIte]
  · intro hb
    simp only [selectBlob, hb, ↓reduceIte]
  · intro s hs
    refine ⟨selectBlob_mem d name s hs, ?_⟩
    unfold selectBlob at hs
    split at hs
    · cases hs
    · split at hs
      · rename_i hf
        cases hs
        have := List.find?_some hf
        exact eq_of_beq this
      · cases hs

/-- **global_unique.** With at most one global statement, the global statement is the result of
`GetGlobalTrustPolicy`; without one the request is refused. -/
theorem global_unique (d : List Stmt) (hu : oneGlobal d = true) :
    (∀ g ∈ d, g.isGlobal = true → selectGlobal d = .ok g) ∧
    ((∀ s ∈ d, s.isGlobal = false) → selectGlobal d = .error .noApplicablePolicy) ∧
    (∀ s, selectGlobal d = .ok s → s ∈ d ∧ s.isGlobal = true) := by
  have hle : (d.filter (fun s => s.isGlobal)).length ≤ 1 := by simpa [oneGlobal] using hu
  refine ⟨?_, ?_, ?_⟩
  · intro g hg hgg
    have hm : g ∈ d.filter (fun s => s.isGlobal) := List.mem_filter.2 ⟨hg, hgg⟩
    have : d.filter (fun s => s.isGlobal) = [g] := by
      rcases le_one_cases _ hle with hf | ⟨x, hf⟩
      · rw [hf] at hm; cases hm
      · rw [hf] at hm; rw [hf, List.mem_singleton.1 hm]
    simp only [selectGlobal, find?_of_filter_single _ _ g this]
  · intro hno
    have : d.find? (fun s => s.isGlobal) = none := by
      apply List.find?_eq_none.2
      intro s hs hc
      rw [hno s hs] at hc; cases hc
    simp only [selectGlobal, this]
  · intro s hs
    refine ⟨selectGlobal_mem d s hs, ?_⟩
    unfold selectGlobal at hs
    split at hs
    · rename_i hf
      cases hs
      exact List.find?_some hf
    · cases hs

/-- the blob selections do not depend on statement order either -/
theorem blob_perm (d d' : List Stmt) (hperm : d.Perm d') (hn : namesUnique d = true) (hg : oneGlobal d = true)
    (name : Text) :
    nameOf (selectBlob d name) = nameOf (selectBlob d' name) ∧
    nameOf (selectGlobal d) = nameOf (selectGlobal d') := by
  have hn' : namesUnique d' = true := by
    simp only [namesUnique, decide_eq_true_eq] at hn ⊢
    exact (List.Perm.nodup_iff (hperm.map _)).1 hn
  have hg' : oneGlobal d' = true := by
    simp only [oneGlobal, decide_eq_true_eq] at hg ⊢
    rw [← (hperm.filter _).length_eq]; exact hg
  rw [nameOf_selectBlob d hn, nameOf_selectBlob d' hn', nameOf_selectGlobal d hg, nameOf_selectGlobal d' hg']
  have hlen1 := namesUnique_filter d hn name
  have hp1 := hperm.filter (fun s => s.name == name)
  have hlenG : (d.filter (fun s => s.isGlobal)).length ≤ 1 := by simpa [oneGlobal] using hg
  have hpG := hperm.filter (fun s => s.isGlobal)
  have key : ∀ (l l' : List Stmt), l.Perm l' → l.length ≤ 1 → l = l' := by
    intro l l' hp hl
    rcases le_one_cases l hl with h | ⟨x, h⟩
    · subst h; exact (List.Perm.nil_eq hp)
    · subst h; exact List.singleton_perm.1 hp
  constructor
  · unfold expectedBlob
    rw [key _ _ hp1 hlen1]
  · unfold expectedGlobal
    rw [key _ _ hpG hlenG]

/-! ### the handed-out statement is a private copy -/

/-- **copy_is_private** (for any clone facts that are all fresh). Start from a document `d`,
let callers do anything, in any order and any number of times: select (receiving a new copy each
time) and write arbitrary contents into any slice field, the Override map or the scalar fields of
any copy they hold. Afterwards the verifier's document is still `d`; hence every later selection
returns what it returns on the original document, and the contents read through the newly
handed-out copy are exactly the original statement. -/
theorem copy_is_private_of (F : CloneFacts) (hF : F.fresh = true) (d : List Stmt) (ops : List Op) (q : Query) :
    let st := exec F { doc := d, handles := [] } ops
    st.doc = d ∧ selectQ st.doc q = selectQ d q ∧
    ∀ s, selectQ st.doc q = .ok s → s ∈ d ∧ (clone F q.isBlob s).read (step F st (.select q)).doc = s := by
  have h0 : Inv { doc := d, handles := [] } := by intro c hc; cases hc
  have h := exec_fresh F hF ops _ h0
  refine ⟨h.1, by rw [h.1], ?_⟩
  intro s hs
  rw [h.1] at hs
  exact ⟨selectQ_mem d q s hs, (clone_fresh F hF q.isBlob s _).2⟩

/-- **copy_is_private** for the clone functions of the current source tree; rests on the
obligation `currentFacts_fresh` / `clone_is_fresh` (`by decide` over the extracted facts). -/
theorem copy_is_private (d : List Stmt) (ops : List Op) (q : Query) :
    let st := exec currentFacts { doc := d, handles := [] } ops
    st.doc = d ∧ selectQ st.doc q = selectQ d q ∧
    ∀ s, selectQ st.doc q = .ok s → s ∈ d ∧ (clone currentFacts q.isBlob s).read (step currentFacts st (.select q)).doc = s :=
  copy_is_private_of currentFacts currentFacts_fresh d ops q

/-! ### how a refusal surfaces from the verifier -/

theorem stmtTag_ne_noPolicy (n : Text) : stmtTag n ≠ noPolicy := by
  intro h
  have := congrArg List.head? h
  have h1 : (stmtTag n).head? = some 's' := by
    have : "stmt:".toList = ['s', 't', 'm', 't', ':'] := by decide
    simp [stmtTag, this]
  have h2 : noPolicy.head? = some 'n' := by decide
  rw [h1, h2] at this
  exact absurd this (by decide)

/-- **no_policy_is_typed_error.** Through `Verify` / `SkipVerify` / `VerifyBlob` every failed
selection (malformed reference, nothing applicable, blank name) is reported as the
no-applicable-policy class - and only a failed selection is: a successful one is reported as the
selected statement, which is never confused with the error class. -/
theorem no_policy_is_typed_error (d : List Stmt) (q : Query) :
    (classOf (selectQ d q) = noPolicy ↔ ∃ e, selectQ d q = .error e) ∧
    (∀ s, selectQ d q = .ok s → classOf (selectQ d q) = stmtTag s.name) := by
  cases h : selectQ d q with
  | error e => exact ⟨⟨fun _ => ⟨e, rfl⟩, fun _ => rfl⟩, fun s hs => by cases hs⟩
  | ok s =>
    refine ⟨⟨fun hc => absurd hc (stmtTag_ne_noPolicy s.name), fun ⟨e, he⟩ => by cases he⟩, ?_⟩
    intro s' hs'
    cases hs'
    rfl

/-- for a well-formed reference and a valid document the OCI refusal happens exactly when no
statement lists the path and none carries the wildcard -/
theorem refused_iff_nothing_applies (d : List Stmt) (hu : scopesUnique d = true) (ref path : Text)
    (hp : artifactPath ref = some path) :
    classOf (selectOCI d ref) = noPolicy ↔ ∀ s ∈ d, path ∉ s.scopes ∧ wildcard ∉ s.scopes := by
  have hsel := select_unique d hu ref path hp
  constructor
  · intro hc s hs
    constructor
    · intro hps
      rw [hsel.1 s hs hps] at hc
      exact stmtTag_ne_noPolicy _ hc
    · intro hws
      by_cases hex : ∃ t ∈ d, path ∈ t.scopes
      · obtain ⟨t, ht, hpt⟩ := hex
        rw [hsel.1 t ht hpt] at hc
        exact stmtTag_ne_noPolicy _ hc
      · rw [hsel.2.1 (fun t ht hpt => hex ⟨t, ht, hpt⟩) s hs hws] at hc
        exact stmtTag_ne_noPolicy _ hc
  · intro hno
    rw [hsel.2.2 hno]
    rfl

/-! ### the whole property -/

theorem nameOf_selectQ (i : Input) (h : WF i = true) (t : Text) :
    nameOf (selectQ i.stmts (mkQuery i.kind t)) = expected i t := by
  unfold WF wfDoc at h
  unfold expected mkQuery
  cases hk : i.kind with
  | oci =>
    simp only [hk, Bool.and_eq_true] at h
    exact nameOf_selectOCI i.stmts h.1 t
  | blob =>
    simp only [hk, Bool.and_eq_true] at h
    exact nameOf_selectBlob i.stmts h.1 t

/-- for a document satisfying the uniqueness rules, reversing the statements changes no selection -/
theorem reversed_same (i : Input) (h : WF i = true) :
    (∀ t, nameOf (selectQ i.stmts.reverse (mkQuery i.kind t)) = nameOf (selectQ i.stmts (mkQuery i.kind t))) ∧
    (i.kind = .blob → nameOf (selectQ i.stmts.reverse .global) = nameOf (selectQ i.stmts .global)) := by
  unfold WF wfDoc at h
  have hperm : i.stmts.Perm i.stmts.reverse := (List.reverse_perm i.stmts).symm
  cases hk : i.kind with
  | oci =>
    simp only [hk, Bool.and_eq_true] at h
    refine ⟨fun t => ?_, fun hb => by cases hb⟩
    simp only [mkQuery, selectQ]
    rw [← select_perm i.stmts i.stmts.reverse hperm h.1 t]
  | blob =>
    simp only [hk, Bool.and_eq_true] at h
    refine ⟨fun t => ?_, fun _ => ?_⟩
    · simp only [mkQuery, selectQ]
      exact ((blob_perm i.stmts i.stmts.reverse hperm h.1 h.2 t).1).symm
    · simp only [selectQ]
      exact ((blob_perm i.stmts i.stmts.reverse hperm h.1 h.2 []).2).symm

/-- a document that breaks a uniqueness rule is refused: nothing is selected from it -/
theorem non_unique_is_refused (i : Input) (h : WF i = false) : run i = refused := by
  simp [run, runWith, h]

theorem all_viaFix (i : Input) (p : QObs → Bool) (hp : ∀ r, p (viaFix i r) = p r) (l : List QObs) :
    (l.map (viaFix i)).all p = l.all p := by
  induction l with
  | nil => rfl
  | cons a l ih => simp [hp, ih]

theorem forall₂_viaFix (i : Input) (q : Text → QObs → Bool) (hq : ∀ t r, q t (viaFix i r) = q t r) :
    ∀ (ts : List Text) (l : List QObs), forall₂ q ts (l.map (viaFix i)) = forall₂ q ts l
  | [], [] => rfl
  | [], _ :: _ => rfl
  | _ :: _, [] => rfl
  | t :: ts, r :: l => by simp [forall₂, hq, forall₂_viaFix i q hq ts l]

theorem optAll_viaFix (i : Input) (p : QObs → Bool) (hp : ∀ r, p (viaFix i r) = p r) (o : Option QObs) :
    ((o.map (viaFix i)).map p).getD true = (o.map p).getD true := by
  cases o <;> simp [hp]

/-- what the verifier entry points report for a query of a `WF` document (before the companion is taken into account) -/
theorem pureT_via (i : Input) (h : WF i = true) (t : Text) :
    (pureT i t).viaVerify = classOfExpected (expectedVia i t) ∧
    (i.kind = .oci → (pureT i t).viaSkip = classOfExpected (expectedVia i t)) := by
  have hWF := h
  unfold WF wfDoc at hWF
  unfold pureT expectedVia
  cases hk : i.kind with
  | oci =>
    simp only [hk, Bool.and_eq_true] at hWF
    simp only []
    rw [(pureQ_selected _ _ _ _ _).2.2.2.1, (pureQ_selected _ _ _ _ _).2.2.2.2.1, classOf_eq,
      nameOf_selectOCI i.stmts hWF.1 t]
    exact ⟨rfl, fun _ => rfl⟩
  | blob =>
    simp only [hk, Bool.and_eq_true] at hWF
    simp only []
    rw [(pureQ_selected _ _ _ _ _).2.2.2.1, classOf_eq]
    refine ⟨?_, fun hc => by cases hc⟩
    by_cases ht : t = []
    · simp only [blobVerifyQuery, ht, ↓reduceIte, selectQ, nameOf_selectGlobal i.stmts hWF.2]
    · simp only [blobVerifyQuery, ht, ↓reduceIte, selectQ, nameOf_selectBlob i.stmts hWF.1 t]

theorem regObs_fields (d : List Stmt) (hu : scopesUnique d = true) (t : Text) :
    (regObs d t).regSkip = classOfExpected (expectedOCI d t) ∧
    ((regObs d t).regVerify = notReached ∨ (regObs d t).regVerify = (regObs d t).regSkip) := by
  unfold regObs
  have h := nameOf_selectOCI d hu t
  cases hs : selectOCI d t with
  | error e =>
    rw [hs] at h
    simp only [nameOf] at h
    exact ⟨by rw [← h]; rfl, Or.inl rfl⟩
  | ok s =>
    rw [hs] at h
    simp only [nameOf] at h
    refine ⟨by rw [← h]; rfl, ?_⟩
    by_cases hl : s.level = "skip"
    · exact Or.inl (by simp [hl])
    · exact Or.inr (by simp [hl])

/-- **C08, the whole property**, for ALL inputs. For a document satisfying the uniqueness rules
(what `Validate` guarantees) every selection clause is true of the model's behaviour under the
clone facts of the current source tree; a document that breaks one of them is refused by
validation and nothing is selected from it. -/
theorem model_holds (i : Input) : Holds i (run i) = true := by
  unfold Holds clauses run runWith
  cases h : WF i with
  | false =>
    simp [refused, selectionClauses, Clauses.holds]
  | true =>
  simp only [↓reduceIte, Bool.true_or, List.cons_append, List.nil_append, selectionClauses]
  rw [runValid_fresh currentFacts currentFacts_fresh i]
  simp only [withCompanion, Clauses.holds_cons, Clauses.holds_nil, Bool.and_true, Bool.and_eq_true, allQ]
  have hsel : ∀ t, (pureT i t).selected = expected i t := by
    intro t
    unfold pureT
    cases hk : i.kind with
    | oci =>
      simp only []
      rw [(pureQ_selected _ _ _ _ _).1]
      have := nameOf_selectQ i h t
      simpa [mkQuery, hk] using this
    | blob =>
      simp only []
      rw [(pureQ_selected _ _ _ _ _).1]
      have := nameOf_selectQ i h t
      simpa [mkQuery, hk] using this
  have hrev := reversed_same i h
  have hWF := h
  unfold WF wfDoc at hWF
  refine ⟨trivial, by simp, by cases companionWF i <;> rfl, ?_, ?_, ?_, ?_, ?_, ?_, ?_, ?_, ?_, ?_⟩
  · -- selected = expected
    rw [forall₂_viaFix i _ (fun _ _ => rfl), forall₂_map]
    apply List.all_eq_true.2
    intro t _
    rw [hsel t]
    exact beq_self_eq_true _
  · -- order independence
    constructor
    · rw [all_viaFix i _ (fun _ => rfl)]
      apply List.all_eq_true.2
      intro r hr
      obtain ⟨t, _, rfl⟩ := List.mem_map.1 hr
      have h1 := hrev.1 t
      unfold pureT
      cases hk : i.kind with
      | oci =>
        simp only []
        rw [(pureQ_selected _ _ _ _ _).1, (pureQ_selected _ _ _ _ _).2.2.1]
        simp only [hk, mkQuery] at h1
        rw [h1]; exact beq_self_eq_true _
      | blob =>
        simp only []
        rw [(pureQ_selected _ _ _ _ _).1, (pureQ_selected _ _ _ _ _).2.2.1]
        simp only [hk, mkQuery] at h1
        rw [h1]; exact beq_self_eq_true _
    · rw [optAll_viaFix i _ (fun _ => rfl)]
      cases hk : i.kind with
      | oci => rfl
      | blob =>
        simp only [Option.map_some, Option.getD_some]
        rw [(pureQ_selected _ _ _ _ _).1, (pureQ_selected _ _ _ _ _).2.2.1, hrev.2 hk]
        exact beq_self_eq_true _
  · -- refused reference selects nothing
    rw [all_viaFix i _ (fun _ => rfl)]
    apply List.all_eq_true.2
    intro r hr
    obtain ⟨t, _, rfl⟩ := List.mem_map.1 hr
    unfold pureT
    cases hk : i.kind with
    | oci =>
      simp only []
      rw [(pureQ_selected _ _ _ _ _).1, (pureQ_selected _ _ _ _ _).2.1]
      cases hp : artifactPath t with
      | none => simp [selectQ, selectOCI, hp, nameOf]
      | some p => simp
    | blob =>
      simp only []
      rw [(pureQ_selected _ _ _ _ _).2.1]
      rfl
  · -- verifier entry points
    rw [List.map_map, forall₂_map]
    apply List.all_eq_true.2
    intro t _
    have hv := pureT_via i h t
    simp only [Function.comp, viaFix, hv.1]
    cases hk : i.kind with
    | oci => simp [hv.2 hk]
    | blob => simp
  · -- the global statement
    cases hk : i.kind with
    | oci => simp
    | blob =>
      simp only [hk, Bool.and_eq_true] at hWF
      simp only [Option.map_some, viaFix]
      rw [(pureQ_selected _ _ _ _ _).1, (pureQ_selected _ _ _ _ _).2.2.2.1, classOf_eq]
      simp only [selectQ, nameOf_selectGlobal i.stmts hWF.2]
      simp
  · -- copies equal the original
    constructor
    · rw [all_viaFix i _ (fun _ => rfl)]
      apply List.all_eq_true.2
      intro r hr
      obtain ⟨t, _, rfl⟩ := List.mem_map.1 hr
      unfold pureT
      cases i.kind <;> exact (pureQ_selected _ _ _ _ _).2.2.2.2.2.1
    · rw [optAll_viaFix i _ (fun _ => rfl)]
      cases i.kind
      · rfl
      · simp only [Option.map_some, Option.getD_some]
        exact (pureQ_selected _ _ _ _ _).2.2.2.2.2.1
  · -- mutation does not affect later selections
    constructor
    · rw [all_viaFix i _ (fun _ => rfl)]
      apply List.all_eq_true.2
      intro r hr
      obtain ⟨t, _, rfl⟩ := List.mem_map.1 hr
      unfold pureT
      cases i.kind <;> exact (pureQ_selected _ _ _ _ _).2.2.2.2.2.2.1
    · rw [optAll_viaFix i _ (fun _ => rfl)]
      cases i.kind
      · rfl
      · simp only [Option.map_some, Option.getD_some]
        exact (pureQ_selected _ _ _ _ _).2.2.2.2.2.2.1
  · -- copies are independent of each other
    constructor
    · rw [all_viaFix i _ (fun _ => rfl)]
      apply List.all_eq_true.2
      intro r hr
      obtain ⟨t, _, rfl⟩ := List.mem_map.1 hr
      unfold pureT
      cases i.kind <;> exact (pureQ_selected _ _ _ _ _).2.2.2.2.2.2.2
    · rw [optAll_viaFix i _ (fun _ => rfl)]
      cases i.kind
      · rfl
      · simp only [Option.map_some, Option.getD_some]
        exact (pureQ_selected _ _ _ _ _).2.2.2.2.2.2.2
  · -- registry entry point: the skip check
    cases hk : i.kind with
    | blob => simp
    | oci =>
      simp only [hk, Bool.and_eq_true] at hWF
      simp only [bne_self_eq_false, Bool.false_or]
      rw [List.map_map, forall₂_map]
      apply List.all_eq_true.2
      intro t _
      simp only [Function.comp, viaFixR, (regObs_fields i.stmts hWF.1 t).1]
      exact beq_self_eq_true _
  · -- registry entry point: same statement for the signatures
    rw [List.map_map]
    apply List.all_eq_true.2
    intro r hr
    obtain ⟨t, _, rfl⟩ := List.mem_map.1 hr
    simp only [Function.comp, viaFixR, viaExp]
    cases hc : companionWF i with
    | false => simp
    | true =>
      simp only [↓reduceIte]
      unfold regObs
      cases selectOCI i.stmts t with
      | error e => simp
      | ok s => by_cases hl : s.level = "skip" <;> simp [hl]

/-! ### selection is a function of the document's current content -/

theorem runQueries_congr (F : CloneFacts) (i j : Input) (hk : i.kind = j.kind) (hs : i.stmts = j.stmts) :
    ∀ (ts : List Text) (st : State), runQueries F i ts st = runQueries F j ts st := by
  intro ts
  induction ts with
  | nil => intro st; rfl
  | cons t r ih =>
    intro st
    simp only [runQueries, hk, hs, ih]

/-- **selection_depends_only_on_current_content.** Whatever the history of the document object
(what it contained when it was validated, which queries it answered before, whether it was
edited in place or copied, re-validated or not): the model's whole observation - validation
verdict, every selection, every verifier outcome - is determined by the kind, the CURRENT
statements and the queries. There is no state besides the document's content. -/
theorem selection_depends_only_on_current_content (i j : Input)
    (hk : i.kind = j.kind) (hs : i.stmts = j.stmts) (hq : i.queries = j.queries)
    (hc : i.companion = j.companion) (hr : i.registryQueries = j.registryQueries) : run i = run j := by
  have hWF : WF i = WF j := by simp only [WF, hk, hs]
  have hcw : companionWF i = companionWF j := by simp only [companionWF, hk, hc]
  unfold run runWith
  rw [hWF]
  cases WF j with
  | false => rfl
  | true =>
    have hfix : viaFix i = viaFix j := by funext r; simp only [viaFix, viaExp, hcw, hk]
    have hfixR : viaFixR i = viaFixR j := by funext r; simp only [viaFixR, viaExp, hcw]
    simp only [↓reduceIte, runValid, runQueries_congr currentFacts i j hk hs, hq, hk, hs, hr, withCompanion, hfix, hfixR, hcw]

/-- in particular: an edited document behaves exactly like a freshly built one with the same content -/
theorem edited_equals_fresh (i : Input) :
    run i = run { i with history := "unvalidated", before := none } :=
  selection_depends_only_on_current_content i _ rfl rfl rfl rfl rfl

/-! ### non-vacuity -/

section examples

def exStmt (n : String) (scopes : List String) : Stmt :=
  { name := n.toList, scopes := scopes.map String.toList, isGlobal := false, level := "strict",
    override := some [("revocation", "skip")], stores := ["ca:s".toList], identities := ["*".toList] }

def exDoc : List Stmt := [exStmt "w" ["*"], exStmt "a" ["r.io/app", "r.io/app2"], exStmt "b" ["r.io/app/sub"]]

def exInput : Input :=
  { kind := .oci, stmts := exDoc, history := "validated", before := none, companion := none, registryQueries := [],
    queries := ["r.io/app@d".toList, "r.io/app/sub@d".toList, "r.io/ap@d".toList, "r.io/app:v1@d".toList, "r.io/app".toList] }

example : WF exInput = true := by decide

/-- exact scope, nested scope, near miss falls to the wildcard, tag refused, no digest refused -/
example : (run exInput).queries.map (·.selected) =
    [some "a".toList, some "b".toList, some "w".toList, none, none] := by decide

example : (run exInput).queries.map (·.viaVerify) =
    ["stmt:a".toList, "stmt:b".toList, "stmt:w".toList, noPolicy, noPolicy] := by decide

example : Holds exInput (run exInput) = true := by decide

/-- a wrong observation is rejected: the near miss "r.io/ap" must not select the statement scoped "r.io/app" -/
example : Holds { exInput with queries := ["r.io/ap@d".toList] }
    { validated := true, verifierAccepts := true,
      queries := [{ selected := some "a".toList, reversedSelected := some "a".toList, refRejected := false,
                    viaVerify := "stmt:a".toList, viaSkip := "stmt:a".toList, copyEqual := true, intact := true, independent := true }],
      globalSel := none, registry := [] } = false := by decide

/-- a document with two wildcard statements breaks the uniqueness rules: the model refuses it,
and an implementation that validates it and then selects in an order-dependent way is rejected
(by the validation clause and by every selection clause) -/
def exTwoWild : Input :=
  { kind := .oci, stmts := [exStmt "w1" ["*"], exStmt "a" ["r.io/app"], exStmt "w2" ["*"]],
    history := "validated", before := none, companion := none, registryQueries := [],
    queries := ["r.io/other@d".toList] }

example : WF exTwoWild = false := by decide
example : run exTwoWild = refused := by decide
example : Holds exTwoWild refused = true := by decide
example : Holds exTwoWild
    { validated := true, verifierAccepts := true,
      queries := [{ selected := some "w2".toList, reversedSelected := some "w1".toList, refRejected := false,
                    viaVerify := "stmt:w2".toList, viaSkip := "stmt:w2".toList, copyEqual := true, intact := true, independent := true }],
      globalSel := none, registry := [] } = false := by decide

/-- the same scope in two statements, the same scope twice in one statement, a duplicate name,
a wildcard next to another scope, two global blob statements: all outside `WF` -/
example : WF { exInput with stmts := [exStmt "a" ["r.io/app"], exStmt "b" ["r.io/app"]] } = false := by decide
example : WF { exInput with stmts := [exStmt "a" ["r.io/app", "r.io/app"]] } = false := by decide
example : WF { exInput with stmts := [exStmt "a" ["r.io/app"], exStmt "a" ["r.io/app2"]] } = false := by decide
example : WF { exInput with stmts := [exStmt "a" ["*", "r.io/app"]] } = false := by decide


/-- the history of the document object is irrelevant: built and validated as a wildcard-only
document, then edited into `exDoc` - same observation as a fresh `exDoc` -/
example : run { exInput with history := "validated,warm,edit-inplace", before := some [exStmt "w" ["*"]] } = run exInput := by
  decide

/-- without the wildcard statement the near miss is refused with the no-applicable-policy class -/
example : (run { exInput with stmts := exDoc.tail, queries := ["r.io/ap@d".toList] }).queries.map (·.viaVerify) =
    [noPolicy] := by decide

/-- the model is sensitive to the clone facts: a `clone` that shares the TrustStores slice, or
the Override map, lets a caller's write show up in the next selection -/
example : ((runWith { currentFacts with oci := [("Name", "copied:t.Name"), ("SignatureVerification", "deep-clone"),
      ("TrustedIdentities", "fresh-slice"), ("TrustStores", "copied:t.TrustStores"), ("RegistryScopes", "fresh-slice")] }
    exInput).queries.map (·.intact)) = [false, false, false, true, true] := by decide

example : ((runWith { currentFacts with makesMap := false } exInput).queries.map (·.intact)) =
    [false, false, false, true, true] := by decide

/-- an EMPTY non-nil Override map is a map too: a `clone` that shares it lets a key inserted through
the handed-out copy show up in the next selection; and with a shared slice a write through the
second copy is seen through the first one -/
example : ((runWith { currentFacts with makesMap := false }
    { exInput with stmts := [{ exStmt "w" ["*"] with override := some [] }], queries := ["r.io/a@d".toList] }).queries.map (·.intact)) =
    [false] := by decide

example : ((runWith { currentFacts with oci := [("Name", "copied:t.Name"), ("SignatureVerification", "deep-clone"),
      ("TrustedIdentities", "fresh-slice"), ("TrustStores", "copied:t.TrustStores"), ("RegistryScopes", "fresh-slice")] }
    exInput).queries.map (·.independent)) = [false, false, false, true, true] := by decide

example : (run exInput).queries.map (·.independent) = [true, true, true, true, true] := by decide

/-- blob: exact name, near misses, blank name; VerifyBlob without a name applies the global statement -/
def exBlob : Input :=
  { kind := .blob, history := "validated", before := none, companion := none, registryQueries := [],
    stmts := [{ exStmt "blob-policy" [] with isGlobal := true }, exStmt "blob-policy2" []],
    queries := ["blob-policy2".toList, "blob-polic".toList, "Blob-policy".toList, " ".toList, [] ] }

example : WF exBlob = true := by decide

example : (run exBlob).queries.map (·.selected) = [some "blob-policy2".toList, none, none, none, none] := by decide

example : (run exBlob).queries.map (·.viaVerify) =
    ["stmt:blob-policy2".toList, noPolicy, noPolicy, noPolicy, "stmt:blob-policy".toList] := by decide

example : (run exBlob).globalSel.map (·.selected) = some (some "blob-policy".toList) := by decide

example : WF { exBlob with
    stmts := [{ exStmt "x" [] with isGlobal := true }, { exStmt "y" [] with isGlobal := true }] } = false := by decide

end examples

/-! ### tie to the translated source -/

namespace Tie
open NotationModel.Src NotationModel.Src.trustpolicy

/-- the model's view of a translated OCI statement / blob statement (selection looks at the name,
the scopes and the global flag only; the other fields are carried along) -/
def absOCI (p : OCITrustPolicy) : Stmt :=
  { name := p.Name.toList, scopes := p.RegistryScopes.map String.toList, isGlobal := false,
    level := p.SignatureVerification.VerificationLevel, override := some p.SignatureVerification.Override,
    stores := p.TrustStores.map String.toList, identities := p.TrustedIdentities.map String.toList }

def absBlob (p : BlobTrustPolicy) : Stmt :=
  { name := p.Name.toList, scopes := [], isGlobal := p.GlobalPolicy,
    level := p.SignatureVerification.VerificationLevel, override := some p.SignatureVerification.Override,
    stores := p.TrustStores.map String.toList, identities := p.TrustedIdentities.map String.toList }

/-- result shape of a selection: the statement (seen through the abstraction) and whether an error is returned -/
def shape {P : Type} (abs : P → Stmt) (r : Option P × Option GoLite.Err) : Option Stmt × Bool :=
  (r.1.map abs, r.2.isSome)

def ofModel : Except SelErr Stmt → Option Stmt × Bool
  | .ok s => (some s, false)
  | .error _ => (none, true)

/-- result shape of the path extraction: the path when no error is returned -/
def shapePath (r : String × Option GoLite.Err) : Option Text := if r.2.isNone then some r.1.toList else none

/-! #### library oracles against the model's list functions -/

theorem beforeLast_lastIdx (c : Char) : ∀ l : List Char, beforeLast c l = (C08lib.lastIdx c l).map (fun k => l.take k) := by
  intro l
  induction l with
  | nil => rfl
  | cons x r ih =>
    simp only [beforeLast, C08lib.lastIdx, ih]
    cases C08lib.lastIdx c r with
    | some k => simp
    | none => by_cases hx : x = c <;> simp [hx]

theorem dropWhile_nil_iff (p : Char → Bool) : ∀ l : List Char, l.dropWhile p = [] ↔ ∀ x ∈ l, p x = true
  | [] => by simp
  | a :: r => by
    by_cases h : p a = true
    · simp [List.dropWhile_cons, h, dropWhile_nil_iff p r]
    · simp [List.dropWhile_cons, h]

theorem dropWhile_head_not (p : Char → Bool) : ∀ (l : List Char) (x : Char) (r : List Char),
    l.dropWhile p = x :: r → p x = false
  | [], _, _, h => by simp at h
  | a :: l, x, r, h => by
    by_cases ha : p a = true
    · rw [List.dropWhile_cons, if_pos ha] at h
      exact dropWhile_head_not p l x r h
    · rw [List.dropWhile_cons, if_neg ha] at h
      injection h with h1 _
      subst h1
      exact Bool.eq_false_iff.2 ha

theorem trim_nil (p : Char → Bool) (l : List Char) :
    ((l.dropWhile p).reverse.dropWhile p).reverse = [] ↔ l.all p = true := by
  rw [List.reverse_eq_nil_iff, dropWhile_nil_iff, List.all_eq_true]
  constructor
  · intro h
    cases hd : l.dropWhile p with
    | nil => exact (dropWhile_nil_iff p l).1 hd
    | cons x r =>
      have h1 := dropWhile_head_not p l x r hd
      have h2 := h x (List.mem_reverse.2 (by rw [hd]; exact List.mem_cons_self))
      rw [h2] at h1; cases h1
  · intro h x hx
    have : l.dropWhile p = [] := (dropWhile_nil_iff p l).2 h
    rw [this] at hx; cases hx

theorem trimSpace_blank (n : String) : (C08lib.TrimSpace n == "") = isBlank n.toList := by
  unfold C08lib.TrimSpace isBlank
  have key : (String.ofList ((n.toList.dropWhile isSpace).reverse.dropWhile isSpace).reverse == "") =
      decide (((n.toList.dropWhile isSpace).reverse.dropWhile isSpace).reverse = []) := by
    rw [Bool.eq_iff_iff]
    simp only [beq_iff_eq, decide_eq_true_eq]
    rw [← String.toList_inj, String.toList_ofList]
    rfl
  rw [key, Bool.eq_iff_iff, decide_eq_true_eq]
  exact trim_nil isSpace n.toList

theorem contains_toList (l : List String) (s : String) :
    (l.map String.toList).contains s.toList = GoLite.contains l s := by
  unfold GoLite.contains
  induction l with
  | nil => rfl
  | cons a r ih =>
    simp only [List.map_cons, List.contains_cons, ih]
    congr 1
    rw [Bool.eq_iff_iff]
    simp only [beq_iff_eq]
    exact String.toList_inj

theorem wildcard_src : (String.ofList Facts.c08Wildcard).toList = wildcard := String.toList_ofList

/-! #### loops -/

/-- closes the case-by-case obligations "the loop body is this step function" -/
macro "tie_cases" : tactic =>
  `(tactic| ((repeat' split) <;> first | rfl | simp_all | simp_all [eq_comm] | (exfalso; simp_all [eq_comm])))

/-- a loop whose body always runs to its end is a left fold -/
theorem forIn_pure_foldl {α S : Type} (body : α → S → Id (ForInStep S)) (f : S → α → S)
    (h : ∀ a s, body a s = pure (ForInStep.yield (f s a))) (l : List α) (s : S) :
    forIn l s body = pure (l.foldl f s) := by
  induction l generalizing s with
  | nil => rfl
  | cons a l ih => rw [List.forIn_cons, h]; simp only [pure_bind, List.foldl_cons]; exact ih _

/-- a loop that returns at the first element passing a test -/
theorem foldE_find {α : Type} (t : α → Bool) : ∀ l : List α,
    GoLite.foldE (fun (_ : Unit) a => if t a = true then Except.error a else Except.ok ()) l () =
      match l.find? t with
      | some a => .error ((), a)
      | none => .ok () := by
  intro l
  induction l with
  | nil => rfl
  | cons a l ih =>
    by_cases h : t a = true
    · simp [GoLite.foldE, h]
    · simp [GoLite.foldE, h, ih]

abbrev P2 := Option OCITrustPolicy × Option OCITrustPolicy

/-- the body of the OCI loop with the loop state in the order (wildcardPolicy, applicablePolicy) -/
def stepWA (wild path : String) (s : P2) (p : OCITrustPolicy) : P2 :=
  if GoLite.contains p.RegistryScopes wild = true then (some p, s.2)
  else if GoLite.contains p.RegistryScopes path = true then (s.1, some p)
  else s

theorem foldl_stepWA (wild path : String) (hw : wild.toList = wildcard) : ∀ (l : List OCITrustPolicy) (s : P2),
    ((l.foldl (stepWA wild path) s).1.map absOCI, (l.foldl (stepWA wild path) s).2.map absOCI) =
      scan path.toList (l.map absOCI) (s.1.map absOCI) (s.2.map absOCI) := by
  intro l
  induction l with
  | nil => intro s; rfl
  | cons p r ih =>
    intro s
    simp only [List.foldl_cons, List.map_cons, scan, ih]
    have h1 : (absOCI p).scopes.contains wildcard = GoLite.contains p.RegistryScopes wild := by
      rw [← hw]; exact contains_toList _ _
    have h2 : (absOCI p).scopes.contains path.toList = GoLite.contains p.RegistryScopes path := contains_toList _ _
    rw [h1, h2]
    unfold stepWA
    by_cases c1 : GoLite.contains p.RegistryScopes wild = true
    · simp [c1]
    · by_cases c2 : GoLite.contains p.RegistryScopes path = true
      · simp [c1, c2]
      · simp [c1, c2]

/-- the same body with the loop state in the order (applicablePolicy, wildcardPolicy) -/
def stepAW (wild path : String) (s : P2) (p : OCITrustPolicy) : P2 :=
  if GoLite.contains p.RegistryScopes wild = true then (s.1, some p)
  else if GoLite.contains p.RegistryScopes path = true then (some p, s.2)
  else s

theorem foldl_stepAW (wild path : String) : ∀ (l : List OCITrustPolicy) (s : P2),
    l.foldl (stepAW wild path) (s.2, s.1) =
      ((l.foldl (stepWA wild path) s).2, (l.foldl (stepWA wild path) s).1) := by
  intro l
  induction l with
  | nil => intro s; rfl
  | cons p r ih =>
    intro s
    simp only [List.foldl_cons]
    have : stepAW wild path (s.2, s.1) p = ((stepWA wild path s p).2, (stepWA wild path s p).1) := by
      unfold stepAW stepWA
      (repeat' split) <;> rfl
    rw [this]
    exact ih _

/-- TIE (translated source): `getArtifactPathFromReference`, translated from
verifier/trustpolicy/oci.go on every run, returns for EVERY reference exactly the repository path
of the model's `artifactPath` and an error exactly when `artifactPath` refuses - for every scope
format check `validFmt` (`validateRegistryScopeFormat`, a parameter) that accepts what the model's
`validFormat` accepts. -/
theorem source_getArtifactPathFromReference_refines_model (validFmt : String → Option GoLite.Err)
    (hv : ∀ s, (validFmt s).isNone = validFormat s.toList) (ref : String) :
    shapePath (getArtifactPathFromReference validFmt ref) = artifactPath ref.toList := by
  unfold getArtifactPathFromReference artifactPath
  simp only [Id.run]
  have hat : ("@" : String).toList = ['@'] := by decide
  simp only [C08lib.LastIndex, hat, beforeLast_lastIdx]
  cases hl : C08lib.lastIdx '@' ref.toList with
  | none => simp [shapePath, GoLite.idPure]
  | some k =>
    have hk : ¬ ((k : Int) < 0) := by omega
    simp only [hk, decide_false, Bool.false_eq_true, if_false, Option.map_some]
    have hs : (GoLite.slice ref (0 : Int) (some (k : Int))).toList = ref.toList.take k := by
      simp [GoLite.slice, GoLite.Slice.slice, String.toList_ofList]
    have hvv := hv (GoLite.slice ref (0 : Int) (some (k : Int)))
    rw [hs] at hvv
    cases hf : validFmt (GoLite.slice ref (0 : Int) (some (k : Int))) with
    | none =>
      rw [hf] at hvv
      simp [shapePath, GoLite.idPure, ← hvv, hs]
    | some e =>
      rw [hf] at hvv
      simp [shapePath, GoLite.idPure, ← hvv]

/-- TIE (translated source): `OCIDocument.GetApplicableTrustPolicy`. For EVERY document (any
statements, valid or not) and every reference the translated function returns exactly the statement
the model's `selectOCI` selects on the abstracted document, and an error exactly when `selectOCI`
refuses (malformed reference or no applicable statement). -/
theorem source_GetApplicableTrustPolicy_refines_model (validFmt : String → Option GoLite.Err)
    (hv : ∀ s, (validFmt s).isNone = validFormat s.toList) (doc : OCIDocument) (ref : String) :
    shape absOCI (OCIDocument.GetApplicableTrustPolicy validFmt doc ref) =
      ofModel (selectOCI (doc.TrustPolicies.map absOCI) ref.toList) := by
  have hpath := source_getArtifactPathFromReference_refines_model validFmt hv ref
  unfold OCIDocument.GetApplicableTrustPolicy selectOCI
  simp only [Id.run]
  generalize getArtifactPathFromReference validFmt ref = g at hpath ⊢
  obtain ⟨path, err⟩ := g
  cases err with
  | some e =>
    simp only [shapePath, Option.isNone_some, Bool.false_eq_true, if_false] at hpath
    simp [← hpath, shape, ofModel, GoLite.idPure]
  | none =>
    simp only [shapePath, Option.isNone_none, if_true] at hpath
    rw [← hpath]
    simp only [Option.isSome_none, Bool.false_eq_true, if_false]
    first
    | -- loop state in the order (wildcardPolicy, applicablePolicy)
      rw [forIn_pure_foldl _ (stepWA (String.ofList Facts.c08Wildcard) path) ?h]
      case h =>
        intro a s
        first
        | (by_cases c1 : GoLite.contains a.RegistryScopes (String.ofList Facts.c08Wildcard) = true <;>
           by_cases c2 : GoLite.contains a.RegistryScopes path = true <;>
           simp [stepWA, OCITrustPolicy.clone, c1, c2])
        | (simp only [stepWA, OCITrustPolicy.clone]; tie_cases)
      simp only [pure_bind]
      have hf := foldl_stepWA (String.ofList Facts.c08Wildcard) path wildcard_src doc.TrustPolicies (none, none)
      simp only [Option.map_none] at hf
      rw [← hf]
      generalize List.foldl (stepWA (String.ofList Facts.c08Wildcard) path) (none, none) doc.TrustPolicies = r
      obtain ⟨w, a⟩ := r
      cases w <;> cases a <;> simp [shape, ofModel, GoLite.idPure]
    | -- loop state in the order (applicablePolicy, wildcardPolicy)
      rw [forIn_pure_foldl _ (stepAW (String.ofList Facts.c08Wildcard) path) ?h]
      case h =>
        intro a s
        first
        | (by_cases c1 : GoLite.contains a.RegistryScopes (String.ofList Facts.c08Wildcard) = true <;>
           by_cases c2 : GoLite.contains a.RegistryScopes path = true <;>
           simp [stepAW, OCITrustPolicy.clone, c1, c2])
        | (simp only [stepAW, OCITrustPolicy.clone]; tie_cases)
      simp only [pure_bind]
      have hsw0 := foldl_stepAW (String.ofList Facts.c08Wildcard) path doc.TrustPolicies (none, none)
      simp only [] at hsw0
      rw [hsw0]
      have hf := foldl_stepWA (String.ofList Facts.c08Wildcard) path wildcard_src doc.TrustPolicies (none, none)
      simp only [Option.map_none] at hf
      rw [← hf]
      generalize List.foldl (stepWA (String.ofList Facts.c08Wildcard) path) (none, none) doc.TrustPolicies = r
      obtain ⟨w, a⟩ := r
      cases w <;> cases a <;> simp [shape, ofModel, GoLite.idPure]

/-- TIE (translated source): `BlobDocument.GetApplicableTrustPolicy`. For EVERY blob document and
every requested name the translated function returns exactly the statement the model's `selectBlob`
selects, and an error exactly when `selectBlob` refuses (blank name, no statement of that name). -/
theorem source_BlobGetApplicableTrustPolicy_refines_model (doc : BlobDocument) (name : String) :
    shape absBlob (BlobDocument.GetApplicableTrustPolicy doc name) =
      ofModel (selectBlob (doc.TrustPolicies.map absBlob) name.toList) := by
  unfold BlobDocument.GetApplicableTrustPolicy selectBlob
  simp only [Id.run, trimSpace_blank]
  by_cases hb : isBlank name.toList = true
  · simp [hb, shape, ofModel, GoLite.idPure]
  · simp only [hb, Bool.false_eq_true, if_false]
    have hfun : ((fun s : Stmt => s.name == name.toList) ∘ absBlob) = (fun p : BlobTrustPolicy => p.Name == name) := by
      funext p
      simp only [Function.comp, absBlob]
      rw [Bool.eq_iff_iff]
      simp only [beq_iff_eq]
      exact String.toList_inj
    first
    | -- `return` inside the loop
      rw [GoLite.forIn_eq_foldE' _ (fun (_ : Unit) (p : BlobTrustPolicy) => if (p.Name == name) = true then Except.error p else Except.ok ())
        (fun _ => (none, ())) (fun _ p => (some (p.clone, none), ())) ?h _ _ () rfl]
      case h =>
        intro a t
        first
        | (by_cases hc : a.Name = name
           · subst hc; simp
           · have hc' : ¬ name = a.Name := fun h => hc h.symm
             simp [hc, hc'])
        | tie_cases
      rw [foldE_find (fun p : BlobTrustPolicy => p.Name == name), List.find?_map, hfun]
      cases List.find? (fun p : BlobTrustPolicy => p.Name == name) doc.TrustPolicies with
      | none => simp only [pure_bind]; simp [shape, ofModel, GoLite.idPure]
      | some p => simp only [pure_bind]; simp [shape, ofModel, GoLite.idPure, BlobTrustPolicy.clone]
    | -- a result variable set before `break`, tested after the loop
      rw [GoLite.forIn_eq_foldE' _ (fun (_ : Unit) (p : BlobTrustPolicy) => if (p.Name == name) = true then Except.error p else Except.ok ())
        (fun _ => none) (fun _ p => p.clone) ?h _ _ () rfl]
      case h =>
        intro a t
        first
        | (by_cases hc : a.Name = name
           · subst hc; simp
           · have hc' : ¬ name = a.Name := fun h => hc h.symm
             simp [hc, hc'])
        | tie_cases
      rw [foldE_find (fun p : BlobTrustPolicy => p.Name == name), List.find?_map, hfun]
      cases List.find? (fun p : BlobTrustPolicy => p.Name == name) doc.TrustPolicies with
      | none => simp only [pure_bind]; simp [shape, ofModel, GoLite.idPure]
      | some p => simp only [pure_bind]; simp [shape, ofModel, GoLite.idPure, BlobTrustPolicy.clone]

/-- TIE (translated source): `BlobDocument.GetGlobalTrustPolicy` is the model's `selectGlobal` on
every blob document. -/
theorem source_GetGlobalTrustPolicy_refines_model (doc : BlobDocument) :
    shape absBlob (BlobDocument.GetGlobalTrustPolicy doc) = ofModel (selectGlobal (doc.TrustPolicies.map absBlob)) := by
  unfold BlobDocument.GetGlobalTrustPolicy selectGlobal
  simp only [Id.run]
  have hfun : ((fun s : Stmt => s.isGlobal) ∘ absBlob) = (fun p : BlobTrustPolicy => p.GlobalPolicy) := rfl
  first
  | -- `return` inside the loop
    rw [GoLite.forIn_eq_foldE' _ (fun (_ : Unit) (p : BlobTrustPolicy) => if p.GlobalPolicy = true then Except.error p else Except.ok ())
      (fun _ => (none, ())) (fun _ p => (some (p.clone, none), ())) ?h _ _ () rfl]
    case h =>
      intro a t
      first
      | (by_cases hc : a.GlobalPolicy = true <;> simp [hc])
      | tie_cases
    rw [foldE_find (fun p : BlobTrustPolicy => p.GlobalPolicy), List.find?_map, hfun]
    cases List.find? (fun p : BlobTrustPolicy => p.GlobalPolicy) doc.TrustPolicies with
    | none => simp only [pure_bind]; simp [shape, ofModel, GoLite.idPure]
    | some p => simp only [pure_bind]; simp [shape, ofModel, GoLite.idPure, BlobTrustPolicy.clone]
  | -- a result variable set before `break`, tested after the loop
    rw [GoLite.forIn_eq_foldE' _ (fun (_ : Unit) (p : BlobTrustPolicy) => if p.GlobalPolicy = true then Except.error p else Except.ok ())
      (fun _ => none) (fun _ p => p.clone) ?h _ _ () rfl]
    case h =>
      intro a t
      first
      | (by_cases hc : a.GlobalPolicy = true <;> simp [hc])
      | tie_cases
    rw [foldE_find (fun p : BlobTrustPolicy => p.GlobalPolicy), List.find?_map, hfun]
    cases List.find? (fun p : BlobTrustPolicy => p.GlobalPolicy) doc.TrustPolicies with
    | none => simp only [pure_bind]; simp [shape, ofModel, GoLite.idPure]
    | some p => simp only [pure_bind]; simp [shape, ofModel, GoLite.idPure, BlobTrustPolicy.clone]

/-- the property theorems transfer to the translated function, e.g. order independence: two
documents with the same statements in any order, unique scopes - the TRANSLATED selection returns
the same statement (or refuses alike) for every reference -/
theorem source_GetApplicableTrustPolicy_order_independent (validFmt : String → Option GoLite.Err)
    (hv : ∀ s, (validFmt s).isNone = validFormat s.toList) (d d' : OCIDocument)
    (hperm : d.TrustPolicies.Perm d'.TrustPolicies) (hu : scopesUnique (d.TrustPolicies.map absOCI) = true) (ref : String) :
    shape absOCI (OCIDocument.GetApplicableTrustPolicy validFmt d ref) =
      shape absOCI (OCIDocument.GetApplicableTrustPolicy validFmt d' ref) := by
  rw [source_GetApplicableTrustPolicy_refines_model validFmt hv, source_GetApplicableTrustPolicy_refines_model validFmt hv,
    select_perm _ _ (hperm.map absOCI) hu]

/-! #### non-vacuity: the translated functions on concrete inputs -/

/-- the scope format check the examples run with: the model's own -/
def vf (s : String) : Option GoLite.Err := if validFormat s.toList then none else some ⟨"error"⟩

theorem vf_ok : ∀ s, (vf s).isNone = validFormat s.toList := by
  intro s; unfold vf; cases validFormat s.toList <;> rfl

def srcStmt (n : String) (scopes : List String) : OCITrustPolicy :=
  { Name := n, SignatureVerification := { VerificationLevel := "strict", Override := [], VerifyTimestamp := "" },
    TrustStores := ["ca:s"], TrustedIdentities := ["*"], RegistryScopes := scopes }

def srcDoc : OCIDocument :=
  { Version := "1.0", TrustPolicies := [srcStmt "w" ["*"], srcStmt "a" ["r.io/app", "r.io/app2"], srcStmt "b" ["r.io/app/sub"]] }

example : (getArtifactPathFromReference vf "r.io/app/sub@d").1 = "r.io/app/sub" := by decide
example : (getArtifactPathFromReference vf "r.io/app:v1@d").2.isSome = true := by decide
example : (getArtifactPathFromReference vf "r.io/app").2.isSome = true := by decide
example : ((OCIDocument.GetApplicableTrustPolicy vf srcDoc "r.io/app@d").1.map (·.Name)) = some "a" := by decide
example : ((OCIDocument.GetApplicableTrustPolicy vf srcDoc "r.io/ap@d").1.map (·.Name)) = some "w" := by decide
example : (OCIDocument.GetApplicableTrustPolicy vf { srcDoc with TrustPolicies := srcDoc.TrustPolicies.tail } "r.io/ap@d").2.isSome = true := by decide

def srcBlob (n : String) (g : Bool) : BlobTrustPolicy :=
  { Name := n, SignatureVerification := { VerificationLevel := "strict", Override := [], VerifyTimestamp := "" },
    TrustStores := ["ca:s"], TrustedIdentities := ["*"], GlobalPolicy := g }

def srcBlobDoc : BlobDocument := { Version := "1.0", TrustPolicies := [srcBlob "blob-policy" false, srcBlob "blob-policy2" true] }

example : ((BlobDocument.GetApplicableTrustPolicy srcBlobDoc "blob-policy2").1.map (·.Name)) = some "blob-policy2" := by decide
example : (BlobDocument.GetApplicableTrustPolicy srcBlobDoc "blob-polic").2.isSome = true := by decide
example : (BlobDocument.GetApplicableTrustPolicy srcBlobDoc " ").2.isSome = true := by decide
example : ((BlobDocument.GetGlobalTrustPolicy srcBlobDoc).1.map (·.Name)) = some "blob-policy2" := by decide
example : (BlobDocument.GetGlobalTrustPolicy { srcBlobDoc with TrustPolicies := [srcBlob "x" false] }).2.isSome = true := by decide

end Tie

end NotationModel.C08

/-
C12, second module of theorems (picked up by `check` as `Props/C12_*.lean`): the (outcome, error)
discipline of the translated `(*verifier).Verify` (verifier/verifier.go, `Generated/SrcVerifyOCI.lean`,
regenerated on every run), for EVERY behaviour of its oracles - the statement selection of the policy
document, `processSignature`, the decoding of the payload (`Src/TypesVerify.lean`). It rests on the tie
of `Verify` to C01's `core` (`Props/C01_Verify.lean`) and states what C12 asks of this entry point:
no error means an outcome without error, and a failure after policy selection comes with an outcome
whose error is set; and it places each class of configuration on the observation C12's model predicts
for `Entry.vVerify` under the guards found in the source.
-/
import NotationModel.Props.C12
import NotationModel.Props.C01_Verify
import NotationModel.Props.C01_VerifyBlob

set_option linter.unusedSimpArgs false
set_option linter.unusedVariables false

namespace NotationModel.C12.Tie
open NotationModel.Src NotationModel.Src.verifier
open NotationModel.C01.Tie (viewV toInputV)

/-- C01's `core` never answers inconsistently: it reports an outcome, whose error is set exactly when it rejects -/
theorem core_consistent (i : C01.Input) : (C01.core i).outcomeError = some (!(C01.core i).accepted) := by
  unfold C01.core
  repeat' split
  all_goals (try simp [C01.reject])
  all_goals (repeat' split)
  all_goals (try simp [C01.reject])

/-- the statement class of C12's model that a configuration of `Verify` falls in -/
def stmtOf (v : VerifierV) (opts : OptsV) : Stmt :=
  match v.ociTrustPolicyDoc with
  | none => .missing
  | some d =>
    if (d.GetApplicableTrustPolicy opts.ArtifactReference).2.isSome then .noMatch
    else if reflect.DeepEqual (trustpolicy.GetVerificationLevel (d.GetApplicableTrustPolicy opts.ArtifactReference).1.SignatureVerification).1
        trustpolicy.LevelSkip then .skip
    else .enforce

/-- the part of C12's observation the translated function has: was an error returned, and does the outcome carry one -/
def viewObs (o : Obs) : Bool × Option Bool := (!o.err, o.outcome.map (·.hasError))

/-- TIE (translated source), C12's discipline: whatever the oracles answer, `Verify` returns
* no outcome and an error when the verifier has no OCI policy document or no statement applies,
* otherwise ALWAYS an outcome, whose error is set exactly when an error is returned. -/
theorem source_Verify_refines_model_consistency (env : EnvV) (v : VerifierV) (desc : ocispec.Descriptor)
    (signature : «notation».SigBlob) (opts : OptsV)
    (hErr : ∀ a b c d e f g o, (env.processSignature a b c d e f g o).2.Error = o.Error) :
    let r := viewV (Verify env v desc signature opts)
    match stmtOf v opts with
    | .missing | .noMatch => r = (false, none)
    | .skip | .enforce => r.2 = some (!r.1) := by
  have h := C01.Tie.source_Verify_refines_model env v desc signature opts hErr
  unfold stmtOf
  cases hd : v.ociTrustPolicyDoc with
  | none => simp only [hd] at h ⊢; exact h
  | some d =>
    simp only [hd] at h ⊢
    by_cases hp : (d.GetApplicableTrustPolicy opts.ArtifactReference).2.isSome = true
    · simp only [hp, if_true] at h ⊢; exact h
    · simp only [hp, Bool.false_eq_true, if_false] at h ⊢
      have hc := core_consistent (toInputV env desc signature opts (d.GetApplicableTrustPolicy opts.ArtifactReference).1)
      by_cases hs : reflect.DeepEqual (trustpolicy.GetVerificationLevel (d.GetApplicableTrustPolicy opts.ArtifactReference).1.SignatureVerification).1
          trustpolicy.LevelSkip = true
      · simp only [hs, if_true]; rw [h]; exact hc
      · simp only [hs, Bool.false_eq_true, if_false]; rw [h]; exact hc

/-- the two sentences of the property, read off the tie: no error means an outcome without error ... -/
theorem source_Verify_no_error_means_clean_outcome (env : EnvV) (v : VerifierV) (desc : ocispec.Descriptor)
    (signature : «notation».SigBlob) (opts : OptsV)
    (hErr : ∀ a b c d e f g o, (env.processSignature a b c d e f g o).2.Error = o.Error)
    (hok : (Verify env v desc signature opts).2.isNone = true) :
    ∃ o, (Verify env v desc signature opts).1 = some o ∧ o.Error = none := by
  have h := source_Verify_refines_model_consistency env v desc signature opts hErr
  simp only [viewV] at h
  cases hst : stmtOf v opts <;> simp only [hst] at h
  · simp [hok] at h
  · simp [hok] at h
  all_goals
    simp only [hok, Bool.not_true] at h
    cases ho : (Verify env v desc signature opts).1 with
    | none => simp [ho] at h
    | some o =>
      refine ⟨o, rfl, ?_⟩
      simp only [ho, Option.map_some, Option.some.injEq] at h
      cases he : o.Error <;> simp_all

/-- ... and a failure after policy selection comes with an outcome whose error is set -/
theorem source_Verify_failure_after_selection_has_outcome (env : EnvV) (v : VerifierV) (desc : ocispec.Descriptor)
    (signature : «notation».SigBlob) (opts : OptsV)
    (hErr : ∀ a b c d e f g o, (env.processSignature a b c d e f g o).2.Error = o.Error)
    (hsel : stmtOf v opts = .skip ∨ stmtOf v opts = .enforce)
    (hfail : (Verify env v desc signature opts).2.isSome = true) :
    ∃ o, (Verify env v desc signature opts).1 = some o ∧ o.Error.isSome = true := by
  have h := source_Verify_refines_model_consistency env v desc signature opts hErr
  simp only [viewV] at h
  have hn : (Verify env v desc signature opts).2.isNone = false := by
    cases hx : (Verify env v desc signature opts).2 <;> simp_all
  rcases hsel with hst | hst <;> simp only [hst] at h <;>
  ( simp only [hn, Bool.not_false] at h
    cases ho : (Verify env v desc signature opts).1 with
    | none => simp [ho] at h
    | some o =>
      refine ⟨o, rfl, ?_⟩
      simpa [ho] using h )

/-- the observation of C12's model for `verifier.Verify`, for the statement class and the verdict `ok` of the
enforcing path, under the guards found in the source -/
def modelObs (st : Stmt) (ok : Bool) : Obs :=
  vVerify sourceGuards
    { entry := .vVerify, oci := st, blob := .missing, manager := true,
      sig := (if ok then Sig.valid else Sig.garbage),
      fuzz := false, label := "", data := "" }

/-- TIE to C12's model: the translated `Verify` shows, in every configuration and for every oracle, the
(error, outcome-error) pair that C12's `vVerify` predicts for the configuration's statement class (the verdict of the
enforcing path is the one the function itself returns: the model's `Sig` only names who is to blame) -/
theorem source_Verify_refines_model_c12 (env : EnvV) (v : VerifierV) (desc : ocispec.Descriptor)
    (signature : «notation».SigBlob) (opts : OptsV)
    (hErr : ∀ a b c d e f g o, (env.processSignature a b c d e f g o).2.Error = o.Error) :
    viewV (Verify env v desc signature opts) =
      viewObs (modelObs (stmtOf v opts) (Verify env v desc signature opts).2.isNone) := by
  have h := source_Verify_refines_model_consistency env v desc signature opts hErr
  have h1 := C01.Tie.source_Verify_refines_model env v desc signature opts hErr
  have hg : sourceGuards.vVerifyDocNil = true := by decide
  cases hst : stmtOf v opts <;> simp only [hst] at h
  · rw [h]; simp [modelObs, vVerify, hg, viewObs, failNoOutcome]
  · rw [h]; simp [modelObs, vVerify, verifyWithStmt, revStep, revFails, viewObs, failNoOutcome]
  · -- skip: the function accepts
    have hacc : (viewV (Verify env v desc signature opts)).1 = true := by
      unfold stmtOf at hst
      cases hd : v.ociTrustPolicyDoc with
      | none => simp [hd] at hst
      | some d =>
        simp only [hd] at hst h1
        by_cases hp : (d.GetApplicableTrustPolicy opts.ArtifactReference).2.isSome = true
        · simp [hp] at hst
        · simp only [hp, Bool.false_eq_true, if_false] at hst h1
          by_cases hs : reflect.DeepEqual (trustpolicy.GetVerificationLevel (d.GetApplicableTrustPolicy opts.ArtifactReference).1.SignatureVerification).1
              trustpolicy.LevelSkip = true
          · rw [h1]; simp [C01.core, toInputV, hs]
          · simp [hs] at hst
    have hv : viewV (Verify env v desc signature opts) = (true, some false) := by
      apply Prod.ext
      · exact hacc
      · rw [h, hacc]; rfl
    rw [hv]; simp [modelObs, vVerify, verifyWithStmt, revStep, revFails, viewObs, okWith]
  · -- enforce: consistent, verdict as returned
    have hv : viewV (Verify env v desc signature opts) =
        ((Verify env v desc signature opts).2.isNone, some (!(Verify env v desc signature opts).2.isNone)) := by
      apply Prod.ext
      · rfl
      · rw [h]; rfl
    rw [hv]
    cases (Verify env v desc signature opts).2.isNone <;>
      simp [modelObs, vVerify, verifyWithStmt, revStep, revFails, viewObs, okWith, failWith]

/-! ### the same discipline for the translated `(*verifier).VerifyBlob` (`Generated/SrcVerifyBlobV.lean`) -/
section Blob
open NotationModel.Src.verifier.blob
open NotationModel.C01.TieB (viewB toInputB lookupB)

/-- the statement class of C12's model that a configuration of `VerifyBlob` falls in -/
def stmtOfB (v : VerifierB) (opts : OptsB) : Stmt :=
  match v.blobTrustPolicyDoc with
  | none => .missing
  | some d =>
    if (lookupB d opts).2.isSome then .noMatch
    else if reflect.DeepEqual (Src.trustpolicy.GetVerificationLevel (GoLite.deref (lookupB d opts).1).SignatureVerification).1
        Src.trustpolicy.LevelSkip then .skip
    else .enforce

/-- TIE (translated source), C12's discipline for blobs: whatever the oracles answer (the policy document's two lookups,
`processSignature`, the decoding of the payload, the caller's descriptor generator - failing or not), `VerifyBlob` returns
* no outcome and an error when the verifier has no blob policy document or the lookup fails,
* otherwise ALWAYS an outcome, whose error is set exactly when an error is returned (so also when no digest algorithm is
  bound to the signature algorithm and when the descriptor cannot be generated). -/
theorem source_VerifyBlobWhole_refines_model_consistency (env : EnvB) (v : VerifierB)
    (gen : digest.Algorithm → ocispec.Descriptor × Option GoLite.Err)
    (signature : Src.«notation».SigBlob) (opts : OptsB)
    (hErr : ∀ a b c d e f g o, (env.processSignature a b c d e f g o).2.Error = o.Error)
    (hPtr : ∀ d, v.blobTrustPolicyDoc = some d → (lookupB d opts).2 = none → (lookupB d opts).1.isSome = true) :
    let r := viewB (VerifyBlob env v gen signature opts)
    match stmtOfB v opts with
    | .missing | .noMatch => r = (false, none)
    | .skip | .enforce => r.2 = some (!r.1) := by
  have h := C01.TieB.source_VerifyBlobWhole_refines_model env v gen signature opts hErr hPtr
  unfold stmtOfB
  cases hd : v.blobTrustPolicyDoc with
  | none => simp only [hd] at h ⊢; exact h
  | some d =>
    simp only [hd] at h ⊢
    by_cases hp : (lookupB d opts).2.isSome = true
    · simp only [hp, if_true] at h ⊢; exact h
    · simp only [hp, Bool.false_eq_true, if_false] at h ⊢
      have hc := core_consistent (toInputB env gen signature opts (GoLite.deref (lookupB d opts).1))
      by_cases hs : reflect.DeepEqual (Src.trustpolicy.GetVerificationLevel (GoLite.deref (lookupB d opts).1).SignatureVerification).1
          Src.trustpolicy.LevelSkip = true
      · simp only [hs, if_true]; rw [h]; exact hc
      · simp only [hs, Bool.false_eq_true, if_false]; rw [h]; exact hc

/-- a failing descriptor generator (an unreadable blob) is a failure after policy selection: outcome with its error set -/
example : viewB (VerifyBlob (C01.TieB.envB .AlgorithmES384 C01.TieB.blobDesc) C01.TieB.vB
    (fun _ => (default, some ⟨"read error"⟩)) ⟨0⟩ (C01.TieB.optsB "p" [])) = (false, some true) := by decide
end Blob

/-! non-vacuity: the four statement classes on concrete oracles -/
section Examples
open NotationModel.C01.Tie (v0 art env0 opts0 tp0)
example : stmtOf v0 (opts0 []) = .enforce := by decide
example : stmtOf { ociTrustPolicyDoc := none } (opts0 []) = .missing := by decide
example : stmtOf { ociTrustPolicyDoc := some { GetApplicableTrustPolicy := fun _ => (tp0, some ⟨"no"⟩) } } (opts0 []) = .noMatch := by decide
example : stmtOf { ociTrustPolicyDoc := some { GetApplicableTrustPolicy := fun _ => (⟨"p", ["*"], [], ⟨"skip", []⟩⟩, none) } } (opts0 []) = .skip := by decide
/-- enforce, another artifact's signature: an error AND an outcome with its error set -/
example : (viewV (Verify (env0 { art with Digest := "sha256:b" }) v0 art ⟨0⟩ (opts0 []))).2 = some true := by decide
end Examples

end NotationModel.C12.Tie

/-
C11 - `notation.SignOCI` translated AS A WHOLE (Generated/SrcSignOCI.lean, written from notation.go on
every run by extract/go2lean_fs.go) and tied, for EVERY oracle - every repository, signer, reference
parser - to the protocol the property describes:

  refuse bad arguments and a nil repository before touching anything;
  resolve the reference (the tag-or-digest part of a full reference, else the text as given);
  refuse a digest reference that resolved to another digest;
  add the caller's metadata to a COPY of the resolved descriptor (the translated
  `addUserMetadataToDescriptor`: reserved prefix and collisions refused);
  have the signer sign exactly THAT descriptor;
  push exactly the signer's envelope, of the requested media type, with the annotations
  `generateAnnotations` computes, onto exactly the RESOLVED descriptor;
  return the resolved descriptor and the pushed manifest's.

`source_SignOCI_refines_protocol` proves the translated function equal to `protocol` - result and
log of calls - for every oracle and every starting log. The theorems after it read the property's
sentences off the protocol: what is signed, what the signature is attached to, which references are
refused, that nothing is called on refusal, that at most one signature is pushed and nothing else
of the repository is called.

Assumed (trusted base): the conventions of Src/TypesSignOCI.lean (calls on `repo` and `signer` are
the only effects; logging dropped; error messages not modelled; `errors.As` by error kind).
-/
import NotationModel.Generated.SrcSignOCI
set_option linter.unusedSimpArgs false
set_option linter.unusedVariables false

namespace NotationModel.C11.TieS
open NotationModel.Src NotationModel.Src.signoci

abbrev Desc := ocispec.Descriptor
abbrev Result := Desc × Desc × Option GoLite.Err

def refusal (e : GoLite.Err) : Result := (default, default, some e)

/-- the reference handed to `repo.Resolve` -/
def refOf (o : Oracle) (opts : SignOptions) : String :=
  match o.parseRef opts.ArtifactReference with
  | some r => r
  | none => opts.ArtifactReference

/-- the end of the protocol: annotations, push, result. `pa` = what `PluginAnnotations()` answered (nil when the
signer has no such method), `l3` = the log so far -/
def pushPart (o : Oracle) (opts : SignOptions) (d : Desc) (sig : Sig) (si : Option signature.SignerInfo)
    (pa : Option AnnMap) (l3 : List Call) : Result × List Call :=
  match genAnn o.annEnv si pa with
  | (_, some e) => (refusal e, l3)
  | (ann, none) =>
    let l4 := l3 ++ [Call.push opts.SignatureMediaType sig d ann]
    match o.push l4 with
    | (_, sd, none) => ((d, sd, none), l4)
    | (_, sd, some e) =>
      if e = errReferrersIndexDelete then ((d, sd, some e), l4)
      else (refusal ErrorPushSignatureFailed, l4)

/-- the middle: metadata, signing. `d` = the resolved descriptor, `l1` = the log so far -/
def signPart (o : Oracle) (opts : SignOptions) (d : Desc) (l1 : List Call) : Result × List Call :=
  match signoci.addUserMetadataToDescriptor d opts.UserMetadata with
  | (_, some e) => (refusal e, l1)
  | (ds, none) =>
    let l2 := l1 ++ [Call.sign ds opts.SignerSignOptions]
    match o.sign l2 with
    | .error e => (refusal e, l2)
    | .ok (sig, si) =>
      if o.implementsAnnotations = true then
        pushPart o opts d sig si (o.pluginAnnotations (l2 ++ [Call.pluginAnnotations])) (l2 ++ [Call.pluginAnnotations])
      else pushPart o opts d sig si none l2

/-- **The protocol**, written down independently of the source. -/
def protocol (o : Oracle) (signer : Option Signer) (repo : Option Repository) (opts : SignOptions)
    (log0 : List Call) : Result × List Call :=
  match signoci.validateSignArguments signer opts.SignerSignOptions with
  | some e => (refusal e, log0)
  | none =>
    if repo.isNone then (refusal (GoLite.errorf "repo cannot be nil"), log0)
    else
      let ref := refOf o opts
      let l1 := log0 ++ [Call.resolve ref]
      match o.resolve l1 with
      | .error e => (refusal e, l1)
      | .ok d =>
        if d.Digest = ref then signPart o opts d l1
        else if o.isDigest ref = true then
          (refusal (GoLite.errorf "user input digest %s does not match the resolved digest %s"), l1)
        else signPart o opts d l1

/-- the comparison `artifactRef != artifactManifestDesc.Digest.String()` -/
theorem digest_ne (a b : String) : (a != Digest.String b) = !(decide (b = a)) := by
  unfold Digest.String
  by_cases h : b = a
  · subst h; simp
  · have : ¬ a = b := fun e => h e.symm
    simp [h, this]

/-- the same comparison written the other way round -/
theorem digest_ne' (a b : String) : (Digest.String b != a) = !(decide (b = a)) := by
  unfold Digest.String
  by_cases h : b = a
  · subst h; simp
  · simp [h]

theorem asReferrers_indexDelete (e : GoLite.Err) :
    ((asReferrersError (some e)).isSome && ReferrersError.IsReferrersIndexDelete (asReferrersError (some e))) =
      decide (e = errReferrersIndexDelete) := by
  have hne : errReferrersOther ≠ errReferrersIndexDelete := by decide
  unfold asReferrersError ReferrersError.IsReferrersIndexDelete
  by_cases h1 : e = errReferrersIndexDelete
  · simp [h1]
  · by_cases h2 : e = errReferrersOther
    · subst h2; simp [hne]
    · simp [h1, h2]

theorem asReferrers_indexDelete_iff (e : GoLite.Err) :
    ((asReferrersError (some e)).isSome = true ∧
      ReferrersError.IsReferrersIndexDelete (asReferrersError (some e)) = true) ↔ e = errReferrersIndexDelete := by
  have := asReferrers_indexDelete e
  by_cases h : e = errReferrersIndexDelete
  · simp [h] at this ⊢; exact this
  · simp [h] at this ⊢; exact this

/-- **Tie.** For every oracle, signer, repository, options and starting log, the translated
`notation.SignOCI` returns what the protocol returns and has made exactly the protocol's calls. -/
theorem source_SignOCI_refines_protocol (o : Oracle) (signer : Option Signer) (repo : Option Repository)
    (opts : SignOptions) (log0 : List Call) :
    runSO (SignOCI signer repo opts) o log0 = protocol o signer repo opts log0 := by
  cases hp : o.parseRef opts.ArtifactReference <;>
  · unfold protocol signPart pushPart
    simp only [refOf, hp]
    repeat' split
    all_goals (try simp only [List.append_assoc, List.cons_append, List.nil_append] at *)
    all_goals
      simp [runSO, SignOCI, refusal, parseReference, digestParse, Repository.Resolve, Signer.Sign,
        asSignerAnnotation, SignerAnnotation.PluginAnnotations, signoci.generateAnnotations,
        Repository.PushSignature, digest_ne, digest_ne', GoLite.wrapf, GoLite.errorf,
        asReferrers_indexDelete, asReferrers_indexDelete_iff, *]

/-! ### the property's sentences, read off the translated source through the tie -/

/-- the calls one `SignOCI` adds to the log -/
def newCalls (o : Oracle) (signer : Option Signer) (repo : Option Repository) (opts : SignOptions)
    (log0 : List Call) : List Call :=
  (runSO (SignOCI signer repo opts) o log0).2.drop log0.length

def resultOf (o : Oracle) (signer : Option Signer) (repo : Option Repository) (opts : SignOptions)
    (log0 : List Call) : Result :=
  (runSO (SignOCI signer repo opts) o log0).1

/-- **Bad arguments and a nil repository are refused before anything is touched.** -/
theorem source_SignOCI_refusal_touches_nothing (o : Oracle) (signer : Option Signer) (repo : Option Repository)
    (opts : SignOptions) (log0 : List Call)
    (h : (signoci.validateSignArguments signer opts.SignerSignOptions).isSome ∨ repo = none) :
    newCalls o signer repo opts log0 = [] ∧ (resultOf o signer repo opts log0).2.2.isSome := by
  unfold newCalls resultOf
  rw [source_SignOCI_refines_protocol]
  unfold protocol
  rcases h with h | h
  · cases hv : signoci.validateSignArguments signer opts.SignerSignOptions with
    | none => simp [hv] at h
    | some e => simp [refusal]
  · subst h
    cases hv : signoci.validateSignArguments signer opts.SignerSignOptions <;> simp [refusal]

/-- **What is signed is exactly what was resolved plus the caller's metadata**: every `Sign` call the
function makes carries the descriptor `addUserMetadataToDescriptor` (translated, Props/C11.lean) builds
from the descriptor the repository resolved for the reference, and the caller's signer options. -/
theorem source_SignOCI_signs_resolved_plus_metadata (o : Oracle) (signer : Option Signer)
    (repo : Option Repository) (opts : SignOptions) (log0 : List Call) (ds : Desc) (so : SignerSignOptions)
    (h : Call.sign ds so ∈ newCalls o signer repo opts log0) :
    ∃ d, o.resolve (log0 ++ [Call.resolve (refOf o opts)]) = .ok d ∧
      signoci.addUserMetadataToDescriptor d opts.UserMetadata = (ds, none) ∧ so = opts.SignerSignOptions := by
  unfold newCalls at h
  rw [source_SignOCI_refines_protocol] at h
  unfold protocol signPart pushPart at h
  simp only [] at h
  repeat' split at h
  all_goals (try simp only [List.append_assoc, List.cons_append, List.nil_append] at *)
  all_goals simp_all [refusal, GoLite.errorf]

/-- **The signature is attached to exactly the resolved artifact**: every `PushSignature` call carries
the RESOLVED descriptor as subject (not the copy with metadata), the requested media type, the envelope
the signer returned for the descriptor with metadata, and the annotations `generateAnnotations` computed. -/
theorem source_SignOCI_pushes_onto_resolved (o : Oracle) (signer : Option Signer)
    (repo : Option Repository) (opts : SignOptions) (log0 : List Call) (mt : String) (sig : Sig)
    (subject : Desc) (ann : AnnMap)
    (h : Call.push mt sig subject ann ∈ newCalls o signer repo opts log0) :
    o.resolve (log0 ++ [Call.resolve (refOf o opts)]) = .ok subject ∧ mt = opts.SignatureMediaType ∧
      ∃ ds si, signoci.addUserMetadataToDescriptor subject opts.UserMetadata = (ds, none) ∧
        o.sign (log0 ++ [Call.resolve (refOf o opts), Call.sign ds opts.SignerSignOptions]) = .ok (sig, si) ∧
        genAnn o.annEnv si
          (if o.implementsAnnotations = true then
            o.pluginAnnotations (log0 ++ [Call.resolve (refOf o opts), Call.sign ds opts.SignerSignOptions,
              Call.pluginAnnotations])
           else none) = (ann, none) := by
  unfold newCalls at h
  rw [source_SignOCI_refines_protocol] at h
  unfold protocol signPart pushPart at h
  simp only [] at h
  repeat' split at h
  all_goals (try simp only [List.append_assoc, List.cons_append, List.nil_append] at *)
  all_goals simp_all [refusal, GoLite.errorf]

/-- **A digest reference that resolves to another digest is refused**, after the one `Resolve` call and
before anything is signed or pushed. -/
theorem source_SignOCI_digest_mismatch_refused (o : Oracle) (signer : Option Signer) (rp : Repository)
    (opts : SignOptions) (log0 : List Call) (d : Desc)
    (hv : signoci.validateSignArguments signer opts.SignerSignOptions = none)
    (hr : o.resolve (log0 ++ [Call.resolve (refOf o opts)]) = .ok d)
    (hdig : o.isDigest (refOf o opts) = true) (hne : d.Digest ≠ refOf o opts) :
    newCalls o signer (some rp) opts log0 = [Call.resolve (refOf o opts)] ∧
      (resultOf o signer (some rp) opts log0).2.2.isSome := by
  unfold newCalls resultOf
  rw [source_SignOCI_refines_protocol]
  unfold protocol
  simp [hv, hr, hdig, hne, refusal]

/-- **At most one signature is pushed, and only after a successful `Resolve` and `Sign`**; the
repository sees no other call. -/
theorem source_SignOCI_call_shapes (o : Oracle) (signer : Option Signer) (repo : Option Repository)
    (opts : SignOptions) (log0 : List Call) :
    let cs := newCalls o signer repo opts log0
    cs = [] ∨ (∃ r, cs = [Call.resolve r]) ∨ (∃ r ds so, cs = [Call.resolve r, Call.sign ds so]) ∨
    (∃ r ds so, cs = [Call.resolve r, Call.sign ds so, Call.pluginAnnotations]) ∨
    (∃ r ds so mt sig d ann, cs = [Call.resolve r, Call.sign ds so, Call.push mt sig d ann]) ∨
    (∃ r ds so mt sig d ann, cs = [Call.resolve r, Call.sign ds so, Call.pluginAnnotations, Call.push mt sig d ann]) := by
  simp only [newCalls]
  rw [source_SignOCI_refines_protocol]
  unfold protocol signPart pushPart
  simp only []
  cases repo with
  | none => split <;> simp [refusal]
  | some rp =>
    simp only [Option.isNone_some, Bool.false_eq_true, if_false]
    repeat' split
    all_goals (try simp only [List.append_assoc, List.cons_append, List.nil_append] at *)
    all_goals simp [refusal, GoLite.errorf]

/-- **Success hands back the resolved descriptor and the pushed manifest's**, and a push happened. -/
theorem source_SignOCI_success (o : Oracle) (signer : Option Signer) (repo : Option Repository)
    (opts : SignOptions) (log0 : List Call)
    (h : (resultOf o signer repo opts log0).2.2 = none) :
    o.resolve (log0 ++ [Call.resolve (refOf o opts)]) = .ok (resultOf o signer repo opts log0).1 ∧
      ∃ mt sig ann, Call.push mt sig (resultOf o signer repo opts log0).1 ann ∈ newCalls o signer repo opts log0 := by
  unfold newCalls resultOf at *
  rw [source_SignOCI_refines_protocol] at *
  unfold protocol signPart pushPart at *
  simp only [] at *
  repeat' split at h
  all_goals (try simp only [List.append_assoc, List.cons_append, List.nil_append] at *)
  all_goals simp_all [refusal, GoLite.errorf]

/-! ### non-vacuity: the translated function run on a concrete oracle -/

def exDesc : Desc := { MediaType := "application/vnd.oci.image.manifest.v1+json", Digest := "sha256:aa", Size := 7, Annotations := [] }

def exOracle : Oracle :=
  { parseRef := fun s => if s = "reg.io/repo:v1" then some "v1" else none
    isDigest := fun s => s = "sha256:cc"
    resolve := fun _ => .ok exDesc
    sign := fun _ => .ok ([1, 2, 3], some ⟨[⟨[9]⟩]⟩)
    implementsAnnotations := false
    pluginAnnotations := fun _ => none
    push := fun _ => (default, { exDesc with Digest := "sha256:bb" }, none)
    annEnv := { sum256 := id, hex := fun _ => "09", marshal := fun l => .ok (String.intercalate "," l),
                signingTime := fun _ => .ok ⟨0, fun _ => "1970-01-01T00:00:00Z"⟩ } }

def exOpts : SignOptions :=
  { SignerSignOptions := { SignatureMediaType := "application/jose+json", ExpiryDuration := 0 },
    ArtifactReference := "reg.io/repo:v1", UserMetadata := [("k", "v")] }

example : (runSO (SignOCI (some {}) (some {}) exOpts) exOracle []).2.map (fun c => match c with
    | .resolve r => "resolve " ++ r | .sign d _ => "sign " ++ d.Digest | .pluginAnnotations => "pa"
    | .push _ _ d _ => "push onto " ++ d.Digest) = ["resolve v1", "sign sha256:aa", "push onto sha256:aa"] := by
  decide

/-- a digest reference resolving elsewhere: one call, an error -/
example : (runSO (SignOCI (some {}) (some {}) { exOpts with ArtifactReference := "sha256:cc" }) exOracle []).2.length = 1 ∧
    (runSO (SignOCI (some {}) (some {}) { exOpts with ArtifactReference := "sha256:cc" }) exOracle []).1.2.2.isSome = true := by
  decide

end NotationModel.C11.TieS

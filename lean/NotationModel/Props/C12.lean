/-
C12 - No untrusted input or unusual configuration crashes the library; verification errors are
reported consistently. Property theorems only; the model is in `Model/C12.lean`.

Partial by nature (DESIGN.md C12): the theorems cover notation-go's own guard logic and the
(outcome, error) discipline of the verification entry points for every configuration; that
third-party decoders never panic on arbitrary bytes is sampled by the harness, not proved.
-/
import NotationModel.Model.C12
set_option linter.unusedSimpArgs false
set_option linter.unusedVariables false

namespace NotationModel.C12

/-- **fact obligation**: every nil guard the model relies on is present in the current source -/
theorem guards_present : sourceGuards.all = true := by decide

/-- **no_panic**: with all guards present no entry point panics, for every configuration
(OCI-only, blob-only, both, skip / no-match statements, nil plugin manager) and every signature kind -/
theorem no_panic_of_guards (g : Guards) (hg : g.all = true) (i : Input) : (runWith g i).panicked = false := by
  simp only [Guards.all, Bool.and_eq_true] at hg
  obtain ⟨⟨⟨⟨⟨⟨⟨⟨⟨⟨g1, g2⟩, g3⟩, g4⟩, g5⟩, g6⟩, g7⟩, g8⟩, g9⟩, g10⟩, g11⟩ := hg
  unfold runWith
  cases i.fuzz <;> simp
  cases he : i.entry <;> simp
  all_goals
    cases ho : i.oci <;> cases hb : i.blob <;> cases hs : i.sig <;> cases hm : i.manager <;> cases hrf : revFails i <;>
      (simp [vVerify, vVerifyBlob, vVerifyBlobGenError, skipVerify, nVerify, nVerifyBlob, userMetadata, nilArgs, verifyWithStmt,
        ho, hb, hs, hm, hrf, revStep, signingKeys, blobStmt, g1, g2, g3, g4, g5, g6, g7, g8, g9, g10, g11, failNoOutcome, failWith, okWith, panic, hostile] <;> cases hn : i.named <;> simp [vVerify, vVerifyBlob, vVerifyBlobGenError, skipVerify, nVerify, nVerifyBlob, userMetadata, nilArgs, verifyWithStmt,
        ho, hb, hs, hm, hrf, revStep, signingKeys, hn, blobStmt, g1, g2, g3, g4, g5, g6, g7, g8, g9, g10, g11, failNoOutcome, failWith, okWith, panic, hostile])

theorem no_panic (i : Input) : (run i).panicked = false := no_panic_of_guards _ guards_present i

/-- each guard is necessary: dropping it makes some configuration panic (the configurations are
the ones the repository's own suite never exercises) -/
theorem guards_necessary :
    let all : Guards := ⟨true, true, true, true, true, true, true, true, true, true, true⟩
    (runWith { all with skipVerifyDocNil := false }
      { entry := .nVerify, oci := .missing, blob := .enforce, manager := true, sig := .valid, fuzz := false, label := "", data := "" }).panicked = true ∧
    (runWith { all with nVerifyBlobContentNil := false }
      { entry := .nVerifyBlob, oci := .missing, blob := .skip, manager := true, sig := .valid, fuzz := false, label := "", data := "" }).panicked = true ∧
    (runWith { all with vVerifyDocNil := false }
      { entry := .vVerify, oci := .missing, blob := .enforce, manager := true, sig := .valid, fuzz := false, label := "", data := "" }).panicked = true ∧
    (runWith { all with vVerifyBlobDocNil := false }
      { entry := .vVerifyBlob, oci := .enforce, blob := .missing, manager := true, sig := .valid, fuzz := false, label := "", data := "" }).panicked = true ∧
    (runWith { all with pluginManagerNil := false }
      { entry := .vVerify, oci := .enforce, blob := .missing, manager := false, sig := .demandsPlugin, fuzz := false, label := "", data := "" }).panicked = true ∧
    (runWith { all with userMetadataContentNil := false }
      { entry := .userMetadata, oci := .skip, blob := .missing, manager := true, sig := .valid, fuzz := false, label := "", data := "" }).panicked = true ∧
    (runWith { all with nVerifyVerifierNil := false }
      { entry := .nilArgs, oci := .enforce, blob := .enforce, manager := true, sig := .valid, fuzz := false, label := "", data := "" }).panicked = true := by
  decide

/-- **err_consistency**, verifier level: no error means an outcome without error; a failure after
policy selection comes with an outcome whose error is set -/
theorem err_consistency (i : Input) (hf : i.fuzz = false)
    (he : i.entry = .vVerify ∨ i.entry = .vVerifyBlob ∨ i.entry = .vVerifyBlobGenError) :
    ((run i).err = false → ∃ oc, (run i).outcome = some oc ∧ oc.hasError = false) ∧
    (policySelected i = true → (run i).err = true → ∃ oc, (run i).outcome = some oc ∧ oc.hasError = true) := by
  have hg := guards_present
  simp only [Guards.all, Bool.and_eq_true] at hg
  obtain ⟨⟨⟨⟨⟨⟨⟨⟨⟨⟨g1, g2⟩, g3⟩, g4⟩, g5⟩, g6⟩, g7⟩, g8⟩, g9⟩, g10⟩, g11⟩ := hg
  unfold run runWith policySelected
  rcases he with he | he | he <;> simp only [hf, he, Bool.false_eq_true, if_false]
  all_goals
    cases ho : i.oci <;> cases hb : i.blob <;> cases hs : i.sig <;> cases hm : i.manager <;> cases hrf : revFails i <;>
      (simp [vVerify, vVerifyBlob, vVerifyBlobGenError, verifyWithStmt, ho, hb, hs, hm, hrf, revStep, signingKeys, blobStmt, g9, g10, g11, failNoOutcome, failWith, okWith, panic, hostile] <;> cases hn : i.named <;> simp [vVerify, vVerifyBlob, vVerifyBlobGenError, verifyWithStmt, ho, hb, hs, hm, hrf, revStep, signingKeys, hn, blobStmt, g9, g10, g11, failNoOutcome, failWith, okWith, panic, hostile])

/-- the wrappers never report success without an outcome that is free of error -/
theorem wrapper_success_has_clean_outcome (i : Input) (hf : i.fuzz = false)
    (he : i.entry = .nVerify ∨ i.entry = .nVerifyBlob) (hok : (run i).err = false) :
    ∃ oc, (run i).outcome = some oc ∧ oc.hasError = false := by
  have hg := guards_present
  simp only [Guards.all, Bool.and_eq_true] at hg
  obtain ⟨⟨⟨⟨⟨⟨⟨⟨⟨⟨g1, g2⟩, g3⟩, g4⟩, g5⟩, g6⟩, g7⟩, g8⟩, g9⟩, g10⟩, g11⟩ := hg
  revert hok
  unfold run runWith
  rcases he with he | he <;> simp only [hf, he, Bool.false_eq_true, if_false]
  all_goals
    cases ho : i.oci <;> cases hb : i.blob <;> cases hs : i.sig <;> cases hm : i.manager <;> cases hrf : revFails i <;>
      (simp [vVerify, vVerifyBlob, skipVerify, nVerify, nVerifyBlob, verifyWithStmt, ho, hb, hs, hm, hrf, revStep, signingKeys, blobStmt,
        g3, g6, g8, g9, g10, g11, failNoOutcome, failWith, okWith, panic, hostile] <;> cases hn : i.named <;> simp [vVerify, vVerifyBlob, skipVerify, nVerify, nVerifyBlob, verifyWithStmt, ho, hb, hs, hm, hrf, revStep, signingKeys, hn, blobStmt,
        g3, g6, g8, g9, g10, g11, failNoOutcome, failWith, okWith, panic, hostile])

/-- the statement lookup by name and the lookup of the global statement (empty `TrustPolicyName`)
are both behind the one nil guard: unless the named statement is of level skip (which a global
statement cannot be) the observation does not depend on which is asked for -/
theorem policy_name_irrelevant (g : Guards) (i : Input) (b : Bool) (hs : i.blob ≠ .skip) :
    runWith g { i with named := b } = runWith g i := by
  unfold runWith
  cases hf : i.fuzz <;> simp [hf]
  cases hb : i.blob <;> simp_all <;>
  cases he : i.entry <;> simp [he, hb, blobStmt, hostile, withinCap, vVerify, vVerifyBlob, vVerifyBlobGenError, skipVerify, nVerify, nVerifyBlob, userMetadata, revStep, revFails, signingKeys]

/-- a verifier without blob document answers both lookups alike: an error, no panic, no outcome -/
theorem missing_document_same_for_both_lookups (i : Input) (hf : i.fuzz = false) (hb : i.blob = .missing)
    (he : i.entry = .vVerifyBlob ∨ i.entry = .nVerifyBlob ∨ i.entry = .vVerifyBlobGenError) :
    run i = failNoOutcome := by
  have hg := guards_present
  simp only [Guards.all, Bool.and_eq_true] at hg
  obtain ⟨⟨⟨⟨⟨⟨⟨⟨⟨⟨g1, g2⟩, g3⟩, g4⟩, g5⟩, g6⟩, g7⟩, g8⟩, g9⟩, g10⟩, g11⟩ := hg
  unfold run runWith
  rcases he with he | he | he <;>
    simp [hf, he, hb, vVerifyBlob, nVerifyBlob, vVerifyBlobGenError, g10, failNoOutcome]

/-- a verifier shared by any number of goroutines gives each of them the sequential observation
(the verifier has no state that a verification changes) -/
theorem workers_irrelevant (g : Guards) (i : Input) (n : Nat) : runWith g { i with workers := n } = runWith g i := by
  unfold runWith
  cases hf : i.fuzz <;> simp [hf]
  cases he : i.entry <;> simp [he, blobStmt, hostile, withinCap, vVerify, vVerifyBlob, vVerifyBlobGenError, skipVerify, nVerify, nVerifyBlob, userMetadata, revStep, revFails, signingKeys]

/-- in particular: no configuration, asked for the global blob statement from several goroutines, panics -/
theorem no_panic_global_lookup_shared (i : Input) (n : Nat) : (run { i with named := false, workers := n }).panicked = false :=
  no_panic _

/-- **size caps**: whatever a store announces, content is asked for only when the announcing
descriptor claims no more than the cap that applies to it (4 MiB manifests, 32 MiB envelopes) -/
theorem cap_respected (i : Input) (h : (run i).fetched = true) : i.claimed ≤ capOf i.site := by
  have hg := guards_present
  simp only [Guards.all, Bool.and_eq_true] at hg
  obtain ⟨⟨⟨⟨⟨⟨⟨⟨⟨⟨g1, g2⟩, g3⟩, g4⟩, g5⟩, g6⟩, g7⟩, g8⟩, g9⟩, g10⟩, g11⟩ := hg
  revert h
  unfold run runWith
  cases hf : i.fuzz <;> simp
  cases he : i.entry <;> simp
  case hostileStore => simp [hostile, withinCap]
  all_goals
    cases ho : i.oci <;> cases hb : i.blob <;> cases hs : i.sig <;> cases hm : i.manager <;> cases hrf : revFails i <;>
      (simp [vVerify, vVerifyBlob, vVerifyBlobGenError, skipVerify, nVerify, nVerifyBlob, userMetadata, nilArgs, verifyWithStmt,
        ho, hb, hs, hm, hrf, revStep, signingKeys, blobStmt, g1, g2, g3, g4, g5, g6, g7, g8, g9, g10, g11, failNoOutcome, failWith, okWith, panic] <;>
       cases hn : i.named <;>
       simp [vVerify, vVerifyBlob, vVerifyBlobGenError, skipVerify, nVerify, nVerifyBlob, userMetadata, nilArgs, verifyWithStmt,
        ho, hb, hs, hm, hrf, revStep, signingKeys, hn, blobStmt, g1, g2, g3, g4, g5, g6, g7, g8, g9, g10, g11, failNoOutcome, failWith, okWith, panic])

/-- a descriptor claiming more than its cap is refused unread - for every claim, however large -/
theorem oversized_never_read (i : Input) (hf : i.fuzz = false) (he : i.entry = .hostileStore)
    (h : capOf i.site < i.claimed) : (run i).fetched = false := by
  have : ¬ i.claimed ≤ capOf i.site := by omega
  simp [run, runWith, hf, he, hostile, withinCap, this]

/-- ... and a claim within the cap (a negative one included: the reader refuses it without
allocating) is looked at: the cap is not enforced by refusing everything -/
theorem within_cap_is_read (i : Input) (hf : i.fuzz = false) (he : i.entry = .hostileStore)
    (hs : i.site = .referrer ∨ i.site = .sigManifest ∨ i.site = .sigBlob) (h : i.claimed ≤ capOf i.site) :
    (run i).fetched = true := by
  rcases hs with hs | hs | hs <;> simp [run, runWith, hf, he, hostile, withinCap, hs] <;> simpa [hs] using h

set_option maxHeartbeats 1600000 in
/-- **C12 (modelled part)**: every clause of `Holds` is true of the model's behaviour -/
theorem model_holds (i : Input) : Holds i (run i) = true := by
  have hg := guards_present
  simp only [Guards.all, Bool.and_eq_true] at hg
  obtain ⟨⟨⟨⟨⟨⟨⟨⟨⟨⟨g1, g2⟩, g3⟩, g4⟩, g5⟩, g6⟩, g7⟩, g8⟩, g9⟩, g10⟩, g11⟩ := hg
  unfold Holds clauses run runWith policySelected
  cases hf : i.fuzz
  · cases he : i.entry <;> simp only [Bool.false_eq_true, if_false]
    case hostileStore =>
      simp [Clauses.holds, hostile]
      cases withinCap i <;> simp
    case signingKeys => simp [Clauses.holds, signingKeys]
    case parser => simp [Clauses.holds]
    case loader => simp [Clauses.holds]
    case concurrent => simp [Clauses.holds]
    all_goals
      cases ho : i.oci <;> cases hb : i.blob <;> cases hs : i.sig <;> cases hm : i.manager <;> cases hrf : revFails i <;>
        (simp [Clauses.holds, vVerify, vVerifyBlob, vVerifyBlobGenError, skipVerify, nVerify, nVerifyBlob, userMetadata, nilArgs,
          verifyWithStmt, ho, hb, hs, hm, hrf, revStep, signingKeys, blobStmt, g1, g2, g3, g4, g5, g6, g7, g8, g9, g10, g11, failNoOutcome,
          failWith, okWith, panic, hostile] <;> cases hn : i.named <;> simp [Clauses.holds, vVerify, vVerifyBlob, vVerifyBlobGenError, skipVerify, nVerify, nVerifyBlob, userMetadata, nilArgs,
          verifyWithStmt, ho, hb, hs, hm, hrf, revStep, signingKeys, hn, blobStmt, g1, g2, g3, g4, g5, g6, g7, g8, g9, g10, g11, failNoOutcome,
          failWith, okWith, panic, hostile])
  · simp [Clauses.holds]

/-- non-vacuity: the two configurations that panicked before the repairs are now plain results -/
example : run { entry := .nVerifyBlob, oci := .missing, blob := .skip, manager := true, sig := .valid, fuzz := false, label := "", data := "" } =
    okWith false := by decide
example : run { entry := .nVerify, oci := .missing, blob := .enforce, manager := true, sig := .valid, fuzz := false, label := "", data := "" } =
    failNoOutcome := by decide
/-- an OCI-only verifier asked for the GLOBAL blob statement returns an error, with the guard; without it, it panics -/
example : run { entry := .vVerifyBlob, oci := .enforce, blob := .missing, manager := true, sig := .valid, named := false, workers := 8, fuzz := false, label := "", data := "" } =
    failNoOutcome := by decide
example : (runWith { sourceGuards with vVerifyBlobDocNil := false }
    { entry := .nVerifyBlob, oci := .enforce, blob := .missing, manager := true, sig := .valid, named := false, fuzz := false, label := "", data := "" }).panicked = true := by decide
/-- a crashed child process of a concurrent stage / a panicking loader is a violation -/
example : Holds { entry := .concurrent, oci := .enforce, blob := .enforce, manager := true, sig := .valid, workers := 16, fuzz := true, label := "", data := "" }
    { panicked := true, err := false, outcome := none, consistent := false } = false := by decide
example : Holds { entry := .loader, oci := .enforce, blob := .enforce, manager := true, sig := .valid, fuzz := true, label := "", data := "" }
    { panicked := true, err := false, outcome := none, consistent := false } = false := by decide
/-- a referrer that claims 768 MiB is not read; one that claims exactly the cap is; reading the first is a violation -/
example : (run { entry := .hostileStore, oci := .enforce, blob := .enforce, manager := true, sig := .valid, site := .referrer, claimed := 805306368, fuzz := false, label := "", data := "" }).fetched = false := by decide
example : (run { entry := .hostileStore, oci := .enforce, blob := .enforce, manager := true, sig := .valid, site := .referrer, claimed := 4194304, fuzz := false, label := "", data := "" }).fetched = true := by decide
example : (run { entry := .hostileStore, oci := .enforce, blob := .enforce, manager := true, sig := .valid, site := .sigBlob, claimed := 4194305, fuzz := false, label := "", data := "" }).fetched = true := by decide
example : Holds { entry := .hostileStore, oci := .enforce, blob := .enforce, manager := true, sig := .valid, site := .referrer, claimed := 805306368, fuzz := false, label := "", data := "" }
    { panicked := false, err := false, outcome := none, fetched := true, consistent := true } = false := by decide
/-- `Holds` refutes a panic and an inconsistent pair -/
example : Holds { entry := .vVerify, oci := .enforce, blob := .missing, manager := true, sig := .garbage, fuzz := false, label := "", data := "" }
    { panicked := false, err := true, outcome := none, consistent := true } = false := by decide
example : Holds { entry := .nVerify, oci := .missing, blob := .enforce, manager := true, sig := .valid, fuzz := false, label := "", data := "" }
    { panicked := true, err := false, outcome := none, consistent := false } = false := by decide


/-! ### revocation: the count of the validator's results -/

/-- **fail closed on the count**: a caller-supplied revocation validator (or deprecated client) that does not answer
with exactly one result per certificate - fewer OR MORE - fails an otherwise acceptable verification, with an outcome
whose error is set and that carries the envelope content; it is a result, not a panic -/
theorem revocation_count_fails_closed (i : Input) (hf : i.fuzz = false) (he : i.entry = .vVerify ∨ i.entry = .vVerifyBlob)
    (ho : i.oci = .enforce) (hb : i.blob = .enforce) (hs : i.sig = .valid) (hr : i.rev = true) (hn : i.revSurplus ≠ 0) :
    run i = failWith true := by
  rcases he with he | he <;>
    simp [run, runWith, hf, he, vVerify, vVerifyBlob, blobStmt, ho, hb, hs, verifyWithStmt, revStep, revFails, hr, hn, okWith, failWith]

/-- ... and exactly one (OK) result per certificate accepts it: the count test does not refuse everything -/
theorem revocation_exact_count_accepts (i : Input) (hf : i.fuzz = false) (he : i.entry = .vVerify ∨ i.entry = .vVerifyBlob)
    (ho : i.oci = .enforce) (hb : i.blob = .enforce) (hs : i.sig = .valid) (hn : i.revSurplus = 0) (hnil : i.revNil = false) :
    run i = okWith true := by
  rcases he with he | he <;>
    simp [run, runWith, hf, he, vVerify, vVerifyBlob, blobStmt, ho, hb, hs, verifyWithStmt, revStep, revFails, hn, hnil, okWith, failWith]

/-- **fail closed on nil entries**: a validator (or deprecated client) whose vector holds nil pointers - whatever its
count - fails an otherwise acceptable verification with an outcome whose error is set; it is a result, not a panic -/
theorem revocation_nil_entries_fail_closed (i : Input) (hf : i.fuzz = false) (he : i.entry = .vVerify ∨ i.entry = .vVerifyBlob)
    (ho : i.oci = .enforce) (hb : i.blob = .enforce) (hs : i.sig = .valid) (hr : i.rev = true) (hnil : i.revNil = true) :
    run i = failWith true := by
  rcases he with he | he <;>
    simp [run, runWith, hf, he, vVerify, vVerifyBlob, blobStmt, ho, hb, hs, verifyWithStmt, revStep, revFails, hr, hnil, okWith, failWith]

/-- nil server results inside the results do not matter -/
theorem rev_nil_server_irrelevant (g : Guards) (i : Input) (b : Bool) : runWith g { i with revNilServer := b } = runWith g i := by
  unfold runWith
  cases hf : i.fuzz <;> simp [hf]
  cases he : i.entry <;> simp [he, blobStmt, hostile, withinCap, vVerify, vVerifyBlob, vVerifyBlobGenError, skipVerify, nVerify, nVerifyBlob, userMetadata, revStep, revFails, signingKeys]

/-- whatever the validator's count, through whichever of the two interfaces: no entry point panics -/
theorem no_panic_any_result_count (i : Input) (n : Int) (b : Bool) :
    (run { i with rev := true, revSurplus := n, revClient := b }).panicked = false := no_panic _

/-- ... nil entries and nil server results included -/
theorem no_panic_any_result_shape (i : Input) (n : Int) (b nl ns : Bool) :
    (run { i with rev := true, revSurplus := n, revClient := b, revNil := nl, revNilServer := ns }).panicked = false := no_panic _

/-- the count matters only where revocation is enforced and a validator is asked -/
theorem rev_surplus_irrelevant_unless_checked (g : Guards) (i : Input) (n : Int) (h : i.rev = false) :
    runWith g { i with revSurplus := n } = runWith g i := by
  unfold runWith
  cases hf : i.fuzz <;> simp [hf]
  cases he : i.entry <;> simp [he, h, blobStmt, hostile, withinCap, vVerify, vVerifyBlob, vVerifyBlobGenError, skipVerify, nVerify, nVerifyBlob, userMetadata, revStep, revFails, signingKeys]

/-- `RevocationCodeSigningValidator` and the deprecated `RevocationClient` feed the same `revocationFinalResult` -/
theorem rev_client_irrelevant (g : Guards) (i : Input) (b : Bool) : runWith g { i with revClient := b } = runWith g i := by
  unfold runWith
  cases hf : i.fuzz <;> simp [hf]
  cases he : i.entry <;> simp [he, blobStmt, hostile, withinCap, vVerify, vVerifyBlob, vVerifyBlobGenError, skipVerify, nVerify, nVerifyBlob, userMetadata, revStep, revFails, signingKeys]

/-! ### `SigningKeys.Remove` -/

/-- a name that is not in the key list (any more) when its turn comes is an error -/
theorem removeErr_of_mem_not_mem (n : String) : ∀ (ns ks : List String), n ∈ ns → n ∉ ks → removeErr ks ns = true := by
  intro ns
  induction ns with
  | nil => intro ks h; simp at h
  | cons m ms ih =>
    intro ks hmem hnot
    by_cases hmn : m = n
    · subst hmn; simp [removeErr, hnot]
    · have h1 : n ∈ ms := by
        rcases List.mem_cons.mp hmem with h | h
        · exact absurd h.symm hmn
        · exact h
      have h2 : n ∉ ks.erase m := fun h => hnot (List.mem_of_mem_erase h)
      simp [removeErr, ih (ks.erase m) h1 h2]

/-- **a repeated name**: on a key list without repeated names, an argument list in which a name occurs twice is an
ERROR (not found at its second turn) - for every list, every position of the repetition -/
theorem remove_repeated_name_not_found : ∀ (ns ks : List String), ks.Nodup → ¬ ns.Nodup → removeErr ks ns = true := by
  intro ns
  induction ns with
  | nil => intro ks _ h; simp at h
  | cons m ms ih =>
    intro ks hk hd
    by_cases hm : m ∈ ms
    · have : m ∉ ks.erase m := fun h => (List.Nodup.mem_erase_iff hk).mp h |>.1 rfl
      simp [removeErr, removeErr_of_mem_not_mem m ms (ks.erase m) hm this]
    · have hms : ¬ ms.Nodup := fun h => hd (List.nodup_cons.mpr ⟨hm, h⟩)
      simp [removeErr, ih (ks.erase m) (hk.erase m) hms]

/-- pairwise different, non-empty names that are all in the list are removed without error -/
theorem remove_ok_of_distinct_known : ∀ (ns ks : List String), "" ∉ ns → ns.Nodup → (∀ n ∈ ns, n ∈ ks) → removeErr ks ns = false := by
  intro ns
  induction ns with
  | nil => intros; rfl
  | cons m ms ih =>
    intro ks hne hd hsub
    have hm : m ≠ "" := fun h => hne (by simp [h])
    have hmk : m ∈ ks := hsub m (by simp)
    have hd' := List.nodup_cons.mp hd
    have hrest : ∀ n ∈ ms, n ∈ ks.erase m := by
      intro n hn
      have hnm : n ≠ m := fun h => hd'.1 (h ▸ hn)
      exact (List.mem_erase_of_ne hnm).mpr (hsub n (by simp [hn]))
    have hne' : "" ∉ ms := fun h => hne (by simp [h])
    simp [removeErr, hm, hmk, ih (ks.erase m) hne' hd'.2 hrest]

/-- `Remove` returns normally on every key list and every argument list, and whether it reports an error does not
depend on the default key -/
theorem remove_returns_normally (i : Input) (hf : i.fuzz = false) (he : i.entry = .signingKeys) :
    (run i).panicked = false ∧ (run i).err = removeErr i.keys i.names := by
  simp [run, runWith, hf, he, signingKeys]

theorem remove_default_irrelevant (g : Guards) (i : Input) (d : Option String) : runWith g { i with deflt := d } = runWith g i := by
  unfold runWith
  cases hf : i.fuzz <;> simp [hf]
  cases he : i.entry <;> simp [he, blobStmt, hostile, withinCap, vVerify, vVerifyBlob, vVerifyBlobGenError, skipVerify, nVerify, nVerifyBlob, userMetadata, revStep, revFails, signingKeys]

/-- what a sampled case is made of (the shape of a hostile referrer node, a history of calls, a file's bytes:
`label`, `data`) is not looked at by the model: such cases are judged by the clauses alone -/
theorem label_data_irrelevant (g : Guards) (i : Input) (l d : String) : runWith g { i with label := l, data := d } = runWith g i := by
  unfold runWith
  cases hf : i.fuzz <;> simp [hf]
  cases he : i.entry <;> simp [he, blobStmt, hostile, withinCap, vVerify, vVerifyBlob, vVerifyBlobGenError, skipVerify, nVerify, nVerifyBlob, userMetadata, revStep, revFails, signingKeys]

/-- surplus results: an error with an outcome; a panic there is refuted by `Holds` -/
example : run { entry := .vVerify, oci := .enforce, blob := .enforce, manager := true, sig := .valid, rev := true, revSurplus := 1, fuzz := false, label := "", data := "" } =
    failWith true := by decide
example : run { entry := .nVerify, oci := .enforce, blob := .enforce, manager := true, sig := .valid, rev := true, revSurplus := 2, revClient := true, fuzz := false, label := "", data := "" } =
    failNoOutcome := by decide
example : Holds { entry := .vVerify, oci := .enforce, blob := .enforce, manager := true, sig := .valid, rev := true, revSurplus := 1, fuzz := false, label := "", data := "" }
    { panicked := true, err := false, outcome := none, consistent := false } = false := by decide
/-- nil entries (right count): an error with an outcome, a panic is refuted; nil server results: accepted -/
example : run { entry := .vVerify, oci := .enforce, blob := .enforce, manager := true, sig := .valid, rev := true, revNil := true, fuzz := false, label := "", data := "" } =
    failWith true := by decide
example : Holds { entry := .vVerifyBlob, oci := .enforce, blob := .enforce, manager := true, sig := .valid, rev := true, revNil := true, revClient := true, fuzz := false, label := "", data := "" }
    { panicked := true, err := false, outcome := none, consistent := false } = false := by decide
example : run { entry := .vVerify, oci := .enforce, blob := .enforce, manager := true, sig := .valid, rev := true, revNilServer := true, fuzz := false, label := "", data := "" } =
    okWith true := by decide
/-- Remove("a", "a") on [a, b]: an error; on [a, a]: none; a panic is refuted by `Holds` -/
example : (run { entry := .signingKeys, oci := .enforce, blob := .enforce, manager := true, sig := .valid, keys := ["a", "b"], names := ["a", "a"], fuzz := false, label := "", data := "" }).err = true := by decide
example : (run { entry := .signingKeys, oci := .enforce, blob := .enforce, manager := true, sig := .valid, keys := ["a", "a"], names := ["a", "a"], fuzz := false, label := "", data := "" }).err = false := by decide
example : (run { entry := .signingKeys, oci := .enforce, blob := .enforce, manager := true, sig := .valid, keys := ["a", "b", "c"], deflt := some "b", names := ["c", "a"], fuzz := false, label := "", data := "" }).err = false := by decide
example : Holds { entry := .signingKeys, oci := .enforce, blob := .enforce, manager := true, sig := .valid, keys := ["a", "b"], names := ["a", "a"], fuzz := false, label := "", data := "" }
    { panicked := true, err := false, outcome := none, consistent := false } = false := by decide

end NotationModel.C12

/- C12 - property theorems (stub: not built yet) -/
import NotationModel.Model.C12

namespace NotationModel.C12

end NotationModel.C12

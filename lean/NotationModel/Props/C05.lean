/-
C05 - Revocation checking fails closed over the whole certificate chain.
Property theorems only; the model is in `Model/C05.lean`.
-/
import NotationModel.Model.C05
import NotationModel.Generated.SrcC05
import NotationModel.Generated.SrcLevels
set_option linter.unusedSimpArgs false
set_option linter.unusedVariables false

namespace NotationModel.C05

/-! ### the backwards loop -/

/-- what the accumulators hold after the loop has walked `rs` (whose head has index `i`) -/
structure ScanSpec (rs : List R) (i : Nat) (a : Acc) : Prop where
  numOK : a.numOK = rs.countP R.good
  revokedFound : a.revokedFound = rs.any (· == .revoked)
  revokedIdx : rs.any (· == .revoked) = true → ∃ n, a.revokedIdx = some (i + n) ∧ rs[n]? = some .revoked
  problematic : rs.all R.good = false → ∃ n r, a.problematic = some (i + n) ∧ rs[n]? = some r ∧
      r.good = false ∧ a.final = r.toFinal

theorem scan_spec : ∀ (rs : List R) (i : Nat), ScanSpec rs i (scan rs i) := by
  intro rs
  induction rs with
  | nil => intro i; constructor <;> simp [scan]
  | cons r rest ih =>
    intro i
    have h := ih (i + 1)
    simp only [scan, loopStep]
    by_cases hg : r.good = true
    · have hr : (r == R.revoked) = false := by cases r <;> simp_all [R.good]
      simp only [hg, if_true]
      constructor
      · simp [h.numOK, List.countP_cons, hg]
      · simp [h.revokedFound, hr]
      · intro hany
        simp only [List.any_cons, hr, Bool.false_or] at hany
        obtain ⟨n, h1, h2⟩ := h.revokedIdx hany
        exact ⟨n + 1, by simp [h1]; omega, by simpa using h2⟩
      · intro hall
        simp only [List.all_cons, hg, Bool.true_and] at hall
        obtain ⟨n, r', h1, h2, h3, h4⟩ := h.problematic hall
        exact ⟨n + 1, r', by simp [h1]; omega, by simpa using h2, h3, h4⟩
    · have hg' : r.good = false := by simpa using hg
      simp only [hg', Bool.false_eq_true, if_false]
      constructor
      · simp [h.numOK, List.countP_cons, hg']
      · simp [h.revokedFound, Bool.or_comm]
      · intro hany
        by_cases hr : r = .revoked
        · exact ⟨0, by simp [hr], by simp [hr]⟩
        · have hr' : (r == R.revoked) = false := by simpa using hr
          simp only [List.any_cons, hr', Bool.false_or] at hany
          obtain ⟨n, h1, h2⟩ := h.revokedIdx hany
          exact ⟨n + 1, by simp [hr', h1]; omega, by simpa using h2⟩
      · intro _
        exact ⟨0, r, by simp, by simp, hg', by simp⟩

theorem countP_eq_length_iff (rs : List R) : (rs.countP R.good = rs.length) ↔ rs.all R.good = true := by
  rw [List.countP_eq_length]
  simp

/-- a result that is neither good nor revoked is `unknown` -/
theorem not_good_not_revoked (r : R) (hg : r.good = false) (hr : r ≠ .revoked) : r.toFinal = .unknown := by
  cases r <;> simp_all [R.good, R.toFinal]

/-! ### property theorems about `revocationFinalResult` (lists of any length) -/

/-- **final_ok_iff**: the final result is OK exactly when every certificate is OK or non-revokable -/
theorem final_ok_iff (rs : List R) : (revocationFinal rs).1 = .ok ↔ rs.all R.good = true := by
  have h := scan_spec rs 0
  unfold revocationFinal revocationFinalFor aggregate
  simp only [bne_self_eq_false, Bool.false_eq_true, if_false]
  by_cases hall : rs.all R.good = true
  · have : (scan rs 0).numOK = rs.length := by rw [h.numOK]; exact (countP_eq_length_iff rs).2 hall
    simp [this, hall]
  · have hne : (scan rs 0).numOK ≠ rs.length := by
      rw [h.numOK]; intro e; exact hall ((countP_eq_length_iff rs).1 e)
    have hall' : rs.all R.good = false := by simpa using hall
    simp only [beq_iff_eq, hne, if_false, hall]
    by_cases hrev : (scan rs 0).revokedFound = true
    · simp [hrev]
    · simp only [hrev, Bool.false_eq_true, if_false]
      obtain ⟨n, r, _, _, h3, h4⟩ := h.problematic hall'
      rw [h4]
      cases r <;> simp_all [R.good, R.toFinal]

/-- **final_revoked**: if any certificate is reported revoked, the final result is revoked and the
index reported points at a revoked certificate - whatever the others report -/
theorem final_revoked (rs : List R) (hany : rs.any (· == .revoked) = true) :
    (revocationFinal rs).1 = .revoked ∧ ∃ n, (revocationFinal rs).2 = some n ∧ rs[n]? = some .revoked := by
  have h := scan_spec rs 0
  have hall : rs.all R.good = false := by
    simp only [List.any_eq_true, beq_iff_eq] at hany
    obtain ⟨x, hx, rfl⟩ := hany
    apply Bool.eq_false_iff.2
    intro hc
    have := List.all_eq_true.1 hc _ hx
    simp [R.good] at this
  have hne : (scan rs 0).numOK ≠ rs.length := by
    rw [h.numOK]; intro e
    have := (countP_eq_length_iff rs).1 e
    rw [hall] at this; exact Bool.noConfusion this
  obtain ⟨n, h1, h2⟩ := h.revokedIdx hany
  unfold revocationFinal revocationFinalFor aggregate
  simp only [bne_self_eq_false, Bool.false_eq_true, if_false]
  simp only [h.revokedFound, hany, if_true, beq_iff_eq, hne, if_false]
  exact ⟨trivial, n, by simpa using h1, h2⟩

/-- **final_unknown**: otherwise (not all good, none revoked) the final result is unknown and the
index reported points at a certificate that is not good -/
theorem final_unknown (rs : List R) (hall : rs.all R.good = false) (hany : rs.any (· == .revoked) = false) :
    (revocationFinal rs).1 = .unknown ∧ ∃ n r, (revocationFinal rs).2 = some n ∧ rs[n]? = some r ∧ r.good = false := by
  have h := scan_spec rs 0
  have hne : (scan rs 0).numOK ≠ rs.length := by
    rw [h.numOK]; intro e
    have := (countP_eq_length_iff rs).1 e
    rw [hall] at this; exact Bool.noConfusion this
  obtain ⟨n, r, h1, h2, h3, h4⟩ := h.problematic hall
  have hr : r ≠ .revoked := by
    intro e; subst e
    have : rs.any (· == R.revoked) = true := by
      apply List.any_eq_true.2
      exact ⟨R.revoked, List.mem_of_getElem? h2, by simp⟩
    rw [hany] at this; exact Bool.noConfusion this
  unfold revocationFinal revocationFinalFor aggregate
  simp only [bne_self_eq_false, Bool.false_eq_true, if_false]
  simp only [h.revokedFound, hany, Bool.false_eq_true, if_false, beq_iff_eq, hne]
  exact ⟨by rw [h4]; exact not_good_not_revoked r h3 hr, n, r, by simpa using h1, h2, h3⟩

/-- **final_incomplete**: a validator that does not return exactly one result per certificate
(fewer, none, or more) never lets the chain pass - fail closed -/
theorem final_incomplete (n : Nat) (rs : List R) (h : rs.length ≠ n) :
    revocationFinalFor n rs = (.unknown, none) := by
  simp [revocationFinalFor, h]

theorem final_complete (rs : List R) : revocationFinalFor rs.length rs = revocationFinal rs := rfl

/-! ### the whole property -/

/-- **C05**: every clause of `Holds` is true of the model's behaviour, for result vectors and
chains of any length -/
theorem model_holds (i : Input) : Holds i (run i) = true := by
  unfold Holds clauses run
  cases ha : i.action
  case skip => simp [Clauses.holds]
  all_goals
    cases hv : i.validatorError
    case true => simp [Clauses.holds] <;> decide
    all_goals
      simp only [Clauses.holds]
      by_cases hlen : i.vec.length = i.chainLen
      · have hfor : revocationFinalFor i.chainLen i.vec = revocationFinal i.vec := by rw [← hlen]; rfl
        have hc : (i.vec.length == i.chainLen) = true := by simp [hlen]
        rw [hfor]
        simp only [hc, Bool.true_and]
        by_cases hall : i.vec.all R.good = true
        · have hok := (final_ok_iff i.vec).2 hall
          have hnr : i.vec.any (· == R.revoked) = false := by
            apply Bool.eq_false_iff.2
            intro hcc
            obtain ⟨x, hx, hxe⟩ := List.any_eq_true.1 hcc
            have := List.all_eq_true.1 hall _ hx
            simp only [beq_iff_eq] at hxe
            subst hxe
            simp [R.good] at this
          rcases hrf : revocationFinal i.vec with ⟨f, n⟩
          rw [hrf] at hok
          simp only at hok
          subst hok
          simp only [List.all_eq_true] at hall
          simp only [List.any_eq_false, beq_iff_eq] at hnr
          simp
          try grind
        · have hall' : i.vec.all R.good = false := by simpa using hall
          by_cases hany : i.vec.any (· == R.revoked) = true
          · obtain ⟨h1, n, h2, h3⟩ := final_revoked i.vec hany
            rcases hrf : revocationFinal i.vec with ⟨f, m⟩
            rw [hrf] at h1 h2
            simp only at h1 h2
            subst h1 h2
            simp only [List.all_eq_false] at hall'
            simp only [List.any_eq_true, beq_iff_eq] at hany
            simp [h3]
            try grind
          · have hany' : i.vec.any (· == R.revoked) = false := Bool.eq_false_iff.2 hany
            obtain ⟨h1, n, r, h2, h3, h4⟩ := final_unknown i.vec hall' hany'
            rcases hrf : revocationFinal i.vec with ⟨f, m⟩
            rw [hrf] at h1 h2
            simp only at h1 h2
            subst h1 h2
            simp only [List.all_eq_false] at hall'
            simp only [List.any_eq_false, beq_iff_eq] at hany'
            simp [h3, h4]
            try grind
      · have hfor := final_incomplete i.chainLen i.vec hlen
        have hc : (i.vec.length == i.chainLen) = false := by simp [hlen]
        rw [hfor]
        simp [hc] <;> decide

/-! ### readable consequences -/

/-- the validator is consulted exactly once with the complete chain, through the interface the
caller supplied, and gets the signing time only for signing-authority signatures -/
theorem validator_args (i : Input) (h : i.action ≠ .skip) :
    (run i).calls = 1 ∧ (run i).chainLen = some i.chainLen ∧ (run i).usedIface = some i.iface ∧
    (run i).signingTime = some (i.scheme == .signingAuthority) := by
  unfold run
  have : (i.action == Action.skip) = false := by simpa using h
  simp only [this, Bool.false_eq_true, if_false]
  cases i.validatorError <;> simp
  rcases revocationFinalFor i.chainLen i.vec with ⟨f, n⟩
  cases f <;> simp

theorem validator_error_fails (i : Input) (h : i.action ≠ .skip) (he : i.validatorError = true) :
    (run i).outcome = .inconclusive ∧ ((run i).accepted = true ↔ i.action = .log) := by
  unfold run
  have : (i.action == Action.skip) = false := by simpa using h
  simp only [this, Bool.false_eq_true, if_false, he, if_true]
  cases ha : i.action <;> simp_all

theorem skipped_not_performed (i : Input) (h : i.action = .skip) :
    (run i).calls = 0 ∧ (run i).outcome = .notPerformed := by
  simp [run, h]

/-- non-vacuity: a revoked intermediate behind an unknown leaf is reported as revoked, naming index 1 -/
example : revocationFinal [.unknown, .revoked, .ok] = (.revoked, some 1) := by decide
example : revocationFinal [.nonRevokable, .ok] = (.ok, none) := by decide
example : revocationFinal [.ok, .unknown, .unknown] = (.unknown, some 1) := by decide

/-- a plain scenario to vary in the examples: strict level, nothing overridden, context-aware validator -/
def sample : Input :=
  { vec := [.ok], chainLen := 1, scheme := .x509, iface := .validator, level := .strict, revOverride := none,
    otherOverrides := [], policyForm := "code", validatorError := false, errorKind := "", callerCtx := "background",
    methods := [], servers := [], validatorImpl := "scripted", errorWithResults := false, deprecatedCtor := false, identityPlugin := false,
    bothSupplied := false, variant := "", entry := .oci, companions := [], history := [], extraMethod := "",
    timestampingSupplied := false }

example : Holds { sample with vec := [.unknown, .revoked], chainLen := 2, iface := .client }
    { outcome := .unknown, named := some 0, accepted := false, resultAction := some .enforce, calls := 1, chainLen := some 2,
      signingTime := some false, usedIface := some .client } = false := by decide

/-- a validator answering with one result for a chain of three never passes, even if that result is OK -/
example : (run { sample with vec := [.ok], chainLen := 3 }).outcome = .unknown := by
  decide

/-! ### the action of the revocation type: named level and override -/

/-- without an override the named level decides -/
theorem effective_no_override (l : Level) : effective l none = l.base := by
  cases l <;> rfl

/-- **override_decides**: an override for the revocation type replaces what the named level says - it
relaxes a strict level and it TIGHTENS a permissive or audit one all the same -/
theorem override_decides (l : Level) (a : Action) (h : l ≠ .skip) : effective l (some a) = a := by
  cases l <;> simp_all [effective]

/-- **tightening_override_enforces**: under `permissive` or `audit` (or any level that can be customised)
with the override `revocation: enforce`, the validator is consulted and everything but a passing
revocation validation is rejected: a revoked or unknown chain and a validator error are not merely logged -/
theorem tightening_override_enforces (i : Input) (hl : i.level ≠ .skip) (ho : i.revOverride = some .enforce) :
    (run i).calls = 1 ∧ (run i).resultAction = some .enforce ∧
    ((run i).accepted = true ↔ (run i).outcome = .pass) := by
  have ha : i.action = .enforce := by
    unfold Input.action; rw [ho]; exact override_decides _ _ hl
  unfold run
  simp only [ha]
  cases i.validatorError <;> simp
  rcases revocationFinalFor i.chainLen i.vec with ⟨f, n⟩
  cases f <;> simp

/-- the converse direction: an override that relaxes revocation to `log` never rejects, whatever the base level -/
theorem relaxing_override_logs (i : Input) (hl : i.level ≠ .skip) (ho : i.revOverride = some .log) :
    (run i).calls = 1 ∧ (run i).resultAction = some .log ∧ (run i).accepted = true := by
  have ha : i.action = .log := by
    unfold Input.action; rw [ho]; exact override_decides _ _ hl
  unfold run
  simp only [ha]
  cases i.validatorError <;> simp
  rcases revocationFinalFor i.chainLen i.vec with ⟨f, n⟩
  cases f <;> simp

/-- non-vacuity: `{"level":"permissive","override":{"revocation":"enforce"}}` with a revoked intermediate
is rejected; the same chain under plain `permissive` is only logged; a wrong observation (accepted under the
tightened level) does not satisfy `Holds` -/
example : (run { sample with level := .permissive, revOverride := some .enforce, vec := [.ok, .revoked], chainLen := 2 }).accepted = false := by decide
example : (run { sample with level := .permissive, vec := [.ok, .revoked], chainLen := 2 }).accepted = true := by decide
example : Holds { sample with level := .audit, revOverride := some .enforce, vec := [.unknown], chainLen := 1 }
    { outcome := .unknown, named := some 0, accepted := true, resultAction := some .log, calls := 1, chainLen := some 1,
      signingTime := some false, usedIface := some .validator } = false := by decide
/-- non-vacuity: a validator error that the implementation let pass does not satisfy `Holds`, whatever its kind -/
example : Holds { sample with validatorError := true, errorKind := "wrapDeadline", callerCtx := "live" }
    { outcome := .pass, named := none, accepted := true, resultAction := some .enforce, calls := 1, chainLen := some 1,
      signingTime := some false, usedIface := some .validator } = false := by decide

/-- non-vacuity (seeded change C05-18): an OK leaf in front of an intermediate whose status is unknown because
every one of its OCSP responders timed out does not pass, and an observation that lets it pass fails `Holds` -/
example : (run { sample with vec := [.ok, .unknown, .nonRevokable], chainLen := 3, servers := [["ok/none"], ["unknown/ocspTimeout", "unknown/ocspTimeout"], []] }).outcome = .unknown := by decide
example : Holds { sample with vec := [.ok, .unknown, .nonRevokable], chainLen := 3, servers := [["ok/none"], ["unknown/ocspTimeout"], []] }
    { outcome := .pass, named := none, accepted := true, resultAction := some .enforce, calls := 1, chainLen := some 3,
      signingTime := some false, usedIface := some .validator } = false := by decide

/-- what else is true of the signature, of the per-server results behind the per-certificate ones (how many
servers, which typed errors they carry), of the validator implementation, of the policy statement (overrides of other types, how the policy
was written), of the validator's error (its kind: plain, wrapping a context or deadline error, typed, empty
message) and of the caller's context is not an input of the revocation decision -/
theorem variant_irrelevant (i : Input) (v : String) (b : Bool) (oo : List String) (pf ek cc vi : String)
    (ms : List String) (sv : List (List String)) :
    run { i with variant := v, bothSupplied := b, otherOverrides := oo, policyForm := pf, errorKind := ek, callerCtx := cc, methods := ms, servers := sv, validatorImpl := vi } = run i := by
  simp [run, Input.action]

/-- **nil_entries_read_as_unknown**: which of the entries the vector reports as `unknown` were in fact NIL pointers
(and which server results were) is not an input of the decision: a nil entry IS an unknown status. The translated
`revocationFinalResult` agrees for every vector (`Tie.source_revocationFinalResult_refines_model`, `Tie.resOf`). -/
theorem nil_entries_read_as_unknown (i : Input) (ne : List Nat) (sv : List (List String)) :
    run { i with nilEntries := ne, servers := sv } = run i := by
  simp [run, Input.action]

theorem nil_entries_read_as_unknown_holds (i : Input) (ne : List Nat) (sv : List (List String)) (o : Obs) :
    Holds { i with nilEntries := ne, servers := sv } o = Holds i o := by
  simp [Holds, clauses, Input.action]

/-- non-vacuity: a chain whose root got a nil entry does not pass, and an observation that lets it pass (or that
accepts it under an enforcing statement) fails `Holds` -/
example : (run { sample with vec := [.ok, .unknown], chainLen := 2, nilEntries := [1], servers := [["nil"], []] }).outcome = .unknown := by decide
example : Holds { sample with vec := [.ok, .unknown], chainLen := 2, nilEntries := [1], servers := [["nil"], []] }
    { outcome := .pass, named := none, accepted := true, resultAction := some .enforce, calls := 1, chainLen := some 2,
      signingTime := some false, usedIface := some .validator } = false := by decide

/-- **history_irrelevant** (seeded change C05-19): a verifier keeps no state between calls. Which entry point
the observed call goes through, which OTHER statements the same verifier holds (in the same document under
another scope, or in the other document - where a statement may carry the SAME name and say something else
about revocation), and which calls were made on it before, is not an input of the revocation decision: the
statement applicable to the observed call decides alone. -/
theorem history_irrelevant (i : Input) (e : Entry) (cs hs : List String) :
    run { i with entry := e, companions := cs, history := hs } = run i := by
  simp [run, Input.action]

/-- ... and the property asks the same of the observation whatever the history was: a violation seen after a
history is a violation of the clauses, not of a separate rule about histories -/
theorem history_irrelevant_holds (i : Input) (e : Entry) (cs hs : List String) (o : Obs) :
    Holds { i with entry := e, companions := cs, history := hs } o = Holds i o := by
  simp [Holds, clauses, Input.action]

/-- **dynamic_type_irrelevant** (seeded change C05-20): the object the caller supplied is consulted through the
interface it was supplied AS. What else its dynamic type can do (a deprecated client that also has
`ValidateContext`, a context-aware validator that also has `Validate`, whatever that other method would
answer), and whether a timestamping validator was supplied next to it, is not an input of the decision. -/
theorem dynamic_type_irrelevant (i : Input) (x : String) (t : Bool) :
    run { i with extraMethod := x, timestampingSupplied := t } = run i := by
  simp [run, Input.action]

theorem dynamic_type_irrelevant_holds (i : Input) (x : String) (t : Bool) (o : Obs) :
    Holds { i with extraMethod := x, timestampingSupplied := t } o = Holds i o := by
  simp [Holds, clauses, Input.action]

/-- the interface consulted is the one supplied, for either interface and whatever else the object can do -/
theorem consulted_as_supplied (i : Input) (h : i.action ≠ .skip) (x : String) :
    (run { i with extraMethod := x }).usedIface = some i.iface := by
  rw [show run { i with extraMethod := x } = run i from by simp [run, Input.action]]
  exact (validator_args i h).2.2.1

/-- non-vacuity (seeded change C05-19): a strict OCI statement `c05` on a verifier that also holds a blob statement
`c05` skipping revocation, after a VerifyBlob under the latter: the model still consults the validator and rejects
the revoked chain; the observation of the changed code (validator not consulted, no revocation result, accepted) and
the one with the blob statement's action `log` both fail `Holds` -/
example : (run { sample with vec := [.ok, .revoked, .nonRevokable], chainLen := 3, companions := ["blob/sameWild/strict/skip"], history := ["c0"] }).outcome = .revoked := by decide
example : Holds { sample with vec := [.ok, .revoked, .nonRevokable], chainLen := 3, companions := ["blob/sameWild/strict/skip"], history := ["c0"] }
    { outcome := .notPerformed, named := none, accepted := true, resultAction := none, calls := 0, chainLen := none,
      signingTime := none, usedIface := none } = false := by decide
example : Holds { sample with vec := [.ok, .unknown, .nonRevokable], chainLen := 3, companions := ["blob/sameWild/permissive/-"], history := ["c0", "self"] }
    { outcome := .unknown, named := some 1, accepted := true, resultAction := some .log, calls := 1, chainLen := some 3,
      signingTime := some false, usedIface := some .validator } = false := by decide
/-- the other direction: a blob statement that skips revocation must not inherit `enforce` from an OCI namesake -/
example : Holds { sample with entry := .blob, revOverride := some .skip, companions := ["oci/sameWild/strict/-"], history := ["c0"] }
    { outcome := .pass, named := none, accepted := true, resultAction := some .enforce, calls := 1, chainLen := some 1,
      signingTime := some false, usedIface := some .validator } = false := by decide

/-- non-vacuity (seeded change C05-20): a deprecated client whose dynamic type also has `ValidateContext`: served
through that method (all OK) instead of its `Validate` (revoked leaf), the chain passes - `Holds` is false; it is
false even when the two methods agree, because the caller's interface was not the one consulted -/
example : Holds { sample with iface := .client, vec := [.revoked, .ok], chainLen := 2, extraMethod := "allOK" }
    { outcome := .pass, named := none, accepted := true, resultAction := some .enforce, calls := 1, chainLen := some 2,
      signingTime := some false, usedIface := some .validator } = false := by decide
example : Holds { sample with iface := .client, vec := [.ok, .ok], chainLen := 2, extraMethod := "allOK" }
    { outcome := .pass, named := none, accepted := true, resultAction := some .enforce, calls := 1, chainLen := some 2,
      signingTime := some false, usedIface := some .validator } = false := by decide
example : Holds { sample with iface := .client, vec := [.ok, .ok], chainLen := 2, extraMethod := "allOK" }
    { outcome := .pass, named := none, accepted := true, resultAction := some .enforce, calls := 1, chainLen := some 2,
      signingTime := some false, usedIface := some .client } = true := by decide

/-! ### tie to the translated source -/

namespace Tie
open NotationModel.Src NotationModel.Src.revocationresult

def toR : Result → R
  | .ResultOK => .ok | .ResultNonRevokable => .nonRevokable | .ResultUnknown => .unknown | .ResultRevoked => .revoked
def ofFinal : Final → Result
  | .ok => .ResultOK | .unknown => .ResultUnknown | .revoked => .ResultRevoked
def subj (chain : List x509.Certificate) : Option Nat → String
  | none => ""
  | some k => (chain[k]!).Subject.text

abbrev GoState := Result × Int × String × Bool × String

def absS (chain : List x509.Certificate) (acc : Acc) : GoState :=
  (ofFinal acc.final, (acc.numOK : Int), subj chain acc.problematic, acc.revokedFound, subj chain acc.revokedIdx)

/-- the model's loop, counting down -/
theorem loopDown_scan (rs : List R) :
    ∀ k, k ≤ rs.length →
      GoLite.loopDown (fun k acc => loopStep acc k (rs[k]?.getD .ok)) k (scan (rs.drop k) k) = scan rs 0 := by
  intro k
  induction k with
  | zero => intro _; simp [GoLite.loopDown]
  | succ k ih =>
    intro hk
    have hk' : k < rs.length := by omega
    rw [GoLite.loopDown]
    have := ih (by omega)
    rw [List.drop_eq_getElem_cons hk', scan] at this
    simpa [hk'] using this

theorem loopDown_scan_all (rs : List R) :
    GoLite.loopDown (fun k acc => loopStep acc k (rs[k]?.getD .ok)) rs.length {} = scan rs 0 := by
  have := loopDown_scan rs rs.length (Nat.le_refl _)
  simpa [scan] using this

/-- how the model reads one entry of the result vector: a nil entry (a certificate the validator
gave no result for) is a certificate of unknown status -/
def resOf : Option CertRevocationResult → R
  | none => .unknown
  | some c => toR c.Result

@[simp] theorem resOf_none : resOf none = .unknown := rfl
@[simp] theorem resOf_some (c : CertRevocationResult) : resOf (some c) = toR c.Result := rfl

/-- TIE (translated source): the Lean translation of `verifier.revocationFinalResult`, regenerated
from verifier/verifier.go on every run (`Generated/SrcC05.lean`), computes for EVERY result vector
- entries may be nil - and chain exactly what the hand-written model `revocationFinalFor` computes
(the named subject is the subject of the certificate at the model's index; a nil entry is read as
`unknown`, `resOf`). A change of the Go function that alters its result breaks this theorem,
whatever inputs the correspondence run happens to sample. -/
theorem source_revocationFinalResult_refines_model (crs : List (Option CertRevocationResult)) (chain : List x509.Certificate) :
    verifier.revocationFinalResult crs chain =
      ((ofFinal (revocationFinalFor chain.length (crs.map resOf)).1),
       subj chain (revocationFinalFor chain.length (crs.map resOf)).2) := by
  unfold verifier.revocationFinalResult
  simp only [Id.run]
  by_cases hlen : crs.length = chain.length
  · have h1 : (GoLite.len crs != GoLite.len chain) = false := by simp [GoLite.len, hlen]
    simp only [h1]
    rw [GoLite.forIn_downTo_of_yields _ (by intro k s; (repeat' split) <;> exact ⟨_, rfl⟩)]
    rw [GoLite.loopDown_sim _ (absS chain) (fun k acc => loopStep acc k ((crs.map resOf)[k]?.getD .ok))
          crs.length _ _ {} (by simp [absS, ofFinal, subj])]
    · have hs := loopDown_scan_all (crs.map resOf)
      simp only [List.length_map] at hs
      rw [hs]
      simp only [revocationFinalFor, aggregate, List.length_map, ← hlen]
      generalize scan (List.map resOf crs) 0 = acc
      have hk' : (((acc.numOK : Nat) : Int) = ((crs.length : Nat) : Int)) = (acc.numOK = crs.length) := by
        simp [Int.natCast_inj]
      cases hr : acc.revokedFound <;> by_cases hk : acc.numOK = crs.length <;>
        simp [absS, hr, hk, hk', ofFinal, GoLite.len] <;>
        (try (repeat' split)) <;> first | rfl | (exfalso; omega)
    · intro k hk acc
      have e : (List.map resOf crs)[k]?.getD R.ok = resOf (GoLite.idx crs (k : Int)) := by
        simp [GoLite.idx, hk]
      rw [e]
      simp only [GoLite.stepOf]
      cases hc : GoLite.idx crs (k : Int) with
      | none =>
        simp [absS, loopStep, toR, R.good, R.toFinal, ofFinal, subj, GoLite.idx_natCast, pkix.Name.String, ForInStep.value, Id.run_pure]
      | some c =>
        cases h : c.Result <;>
          simp [absS, loopStep, toR, R.good, R.toFinal, ofFinal, subj, GoLite.idx_natCast, GoLite.deref, h, pkix.Name.String, ForInStep.value, Id.run_pure]
  · have h1 : (GoLite.len crs != GoLite.len chain) = true := by
      simp only [GoLite.len, bne_iff_ne, ne_eq, Int.natCast_inj]; exact hlen
    have h2 : (crs.length != chain.length) = true := by simp [hlen]
    simp [h1, revocationFinalFor, h2, ofFinal, subj]
    rfl

/-- the vectors without nil entries: the tie in its earlier form -/
theorem source_revocationFinalResult_refines_model_some (crs : List CertRevocationResult) (chain : List x509.Certificate) :
    verifier.revocationFinalResult (crs.map some) chain =
      ((ofFinal (revocationFinalFor chain.length (crs.map (fun c => toR c.Result))).1),
       subj chain (revocationFinalFor chain.length (crs.map (fun c => toR c.Result))).2) := by
  rw [source_revocationFinalResult_refines_model, List.map_map]
  rfl

/-- a nil entry behaves exactly like an entry whose `Result` is `ResultUnknown`, whatever else that entry says -/
theorem nil_entry_is_unknown (pre post : List (Option CertRevocationResult)) (c : CertRevocationResult)
    (hc : c.Result = .ResultUnknown) (chain : List x509.Certificate) :
    verifier.revocationFinalResult (pre ++ none :: post) chain =
      verifier.revocationFinalResult (pre ++ some c :: post) chain := by
  simp [source_revocationFinalResult_refines_model, resOf, hc, toR]

/-- server results - nil or not - do not matter: only the `Result` of every entry is read -/
theorem server_results_irrelevant (crs crs' : List (Option CertRevocationResult)) (chain : List x509.Certificate)
    (h : crs.map (fun c => c.map (·.Result)) = crs'.map (fun c => c.map (·.Result))) :
    verifier.revocationFinalResult crs chain = verifier.revocationFinalResult crs' chain := by
  have e : ∀ xs : List (Option CertRevocationResult),
      xs.map resOf = (xs.map (fun c => c.map (·.Result))).map (fun r => match r with | none => R.unknown | some r => toR r) := by
    intro xs; rw [List.map_map]; apply List.map_congr_left; intro c _; cases c <;> rfl
  simp only [source_revocationFinalResult_refines_model, e, h]

/-- non-vacuity: the translated function on a concrete chain -/
example : verifier.revocationFinalResult
    [some { Result := .ResultUnknown, ServerResults := [], RevocationMethod := .RevocationMethodUnknown },
     some { Result := .ResultRevoked, ServerResults := [], RevocationMethod := .RevocationMethodCRL }]
    [{ Subject := ⟨"leaf"⟩ }, { Subject := ⟨"root"⟩ }] = (.ResultRevoked, "root") := by decide
/-- a nil entry fails closed and names its certificate; a result with a nil server result is read as usual -/
example : verifier.revocationFinalResult
    [some { Result := .ResultOK, ServerResults := [none], RevocationMethod := .RevocationMethodOCSP }, none]
    [{ Subject := ⟨"leaf"⟩ }, { Subject := ⟨"root"⟩ }] = (.ResultUnknown, "root") := by decide
example : verifier.revocationFinalResult
    [some { Result := .ResultOK, ServerResults := [none], RevocationMethod := .RevocationMethodOCSP },
     some { Result := .ResultNonRevokable, ServerResults := [], RevocationMethod := .RevocationMethodUnknown }]
    [{ Subject := ⟨"leaf"⟩ }, { Subject := ⟨"root"⟩ }] = (.ResultOK, "") := by decide

/-! #### the action of the revocation type -/
section Levels
open NotationModel.Src.trustpolicy

def levelName : Level → String
  | .strict => "strict" | .permissive => "permissive" | .audit => "audit" | .skip => "skip"
def actionName : Action → String
  | .enforce => "enforce" | .log => "log" | .skip => "skip"

/-- the trust policy statement of the model's input as the source's type; overrides of other types may
come before and after the one for revocation (Go iterates a map in any order) -/
def statement (l : Level) (ov : Option Action) (before after : List (String × String)) : SignatureVerification :=
  { VerificationLevel := levelName l,
    Override := before ++ (match ov with | none => [] | some a => [("revocation", actionName a)]) ++ after }

/-- what the level returned by the source says about revocation -/
def revocationOf (r : Option VerificationLevel × Option GoLite.Err) : Option String :=
  match r with
  | (some lv, none) => GoLite.Map.get? lv.Enforcement TypeRevocation
  | _ => none

/-- overrides of other types a statement may carry next to the one for revocation -/
def companions : List (List (String × String)) :=
  [[], [("expiry", "log")], [("expiry", "enforce")], [("authenticity", "enforce")], [("authenticity", "log")],
   [("authenticTimestamp", "enforce")], [("authenticTimestamp", "log"), ("expiry", "enforce")]]

/-- TIE (translated source): `SignatureVerification.GetVerificationLevel`, translated from
verifier/trustpolicy/trustpolicy.go on every run (`Generated/SrcLevels.lean`, with the level tables), says
about the revocation type exactly what the model's `effective` says - for every named level that can be
customised and every override of revocation (none, enforce, log, skip: relaxing AND tightening), alone or
next to overrides of other types placed before and after it. (The general statement for arbitrary override
maps is C02's `source_GetVerificationLevel_refines_model`; this one pins the reading C05 depends on.) -/
theorem source_GetVerificationLevel_revocation (l : Level) (ov : Option Action) (hl : l ≠ .skip) :
    (companions.all fun b => companions.all fun a =>
      revocationOf (GetVerificationLevel (statement l ov b a)) == some (actionName (effective l ov))) = true := by
  cases l <;> first | exact absurd rfl hl | (cases ov with
    | none => decide
    | some a => cases a <;> decide)

example : revocationOf (GetVerificationLevel (statement .skip none [] [])) = some "skip" := by decide

/-- non-vacuity: the user's statement of seeded change C05-13 -/
example : revocationOf (GetVerificationLevel { VerificationLevel := "permissive", Override := [("revocation", "enforce")] }) = some "enforce" := by decide

end Levels

end Tie

end NotationModel.C05

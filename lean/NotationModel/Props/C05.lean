/- C05 - property theorems (stub: not built yet) -/
import NotationModel.Model.C05

namespace NotationModel.C05

end NotationModel.C05

/- C01 - property theorems (stub: not built yet) -/
import NotationModel.Model.C01

namespace NotationModel.C01

end NotationModel.C01

/-
C01 - Accepted signatures are intact and bound to the artifact being verified.
Property theorems only; the model is in `Model/C01.lean` (and `Model/C02.lean` for the
remaining validations of `processSignature`).
-/
import NotationModel.Model.C01
import NotationModel.Generated.SrcVerifier
set_option linter.unusedSimpArgs false
set_option linter.unusedVariables false

namespace NotationModel.C01

/-- what an accepting run looks like -/
def okObs (i : Input) (p : Desc) : Obs :=
  { accepted := true, outcomeError := some false, payload := some p,
    returned := match i.kind with
      | .blob => some { p with annotations := [] }
      | .oci => if i.viaRegistry then some { i.artifact with annotations := [] } else none }

/-- case analysis of `core` (verifier.Verify / notation.VerifyBlob) for a non-skip statement: either
it rejects, or every check passed -/
theorem core_cases (i : Input) (hs : i.skip = false) :
    core i = reject ∨
    (i.parseOk = true ∧ i.integrityOk = true ∧ i.payloadTypeOk = true ∧ i.rest = true ∧
      ∃ p, i.decoded = some p ∧ (i.kind = .blob → i.hashSupported = true) ∧
        (match i.kind with
         | .oci => ociEqual p i.artifact = true
         | .blob => blobMismatch p i.artifact = false) ∧
        (i.required.isEmpty = true ∨ metadataOk p i.required = true) ∧
        core i = okObs i p) := by
  unfold core okObs
  simp only [hs, Bool.false_eq_true, if_false]
  cases hp : i.parseOk
  · left; simp
  cases hi : i.integrityOk
  · left; simp
  cases ht : i.payloadTypeOk
  · left; simp
  cases hr : i.rest
  · left; simp
  cases hd : i.decoded with
  | none => left; simp
  | some p =>
    simp only [Bool.not_true, Bool.or_self, Bool.false_eq_true, if_false]
    cases hk : i.kind
    · -- oci
      simp only [show (Kind.oci == Kind.blob) = false from rfl, Bool.false_and, Bool.false_eq_true, if_false]
      cases hm : ociEqual p i.artifact
      · left; simp
      · cases hre : i.required.isEmpty
        · cases hmo : metadataOk p i.required
          · left; simp
          · right; exact ⟨trivial, trivial, trivial, trivial, p, rfl, by simp, by simp [hm], Or.inr hmo, by simp [hmo]⟩
        · right; exact ⟨trivial, trivial, trivial, trivial, p, rfl, by simp, by simp [hm], Or.inl rfl, by simp⟩
    · -- blob
      simp only [beq_self_eq_true, Bool.true_and]
      cases hh : i.hashSupported
      · left; simp
      · simp only [Bool.not_true, Bool.false_eq_true, if_false]
        cases hm : blobMismatch p i.artifact
        · cases hre : i.required.isEmpty
          · cases hmo : metadataOk p i.required
            · left; simp
            · right; exact ⟨trivial, trivial, trivial, trivial, p, rfl, by simp, by simp [hm], Or.inr hmo, by simp [hmo]⟩
          · right; exact ⟨trivial, trivial, trivial, trivial, p, rfl, by simp, by simp [hm], Or.inl rfl, by simp⟩
        · left; simp

/-- what `notation.Verify` has established before it hands a signature to the verifier (non-skip):
the reference resolved, and a digest reference names the digest of the resolved descriptor -/
theorem not_refused (i : Input) (hs : i.skip = false) (h : refused i = false) (hr : registry i = true) :
    i.resolveOk = true ∧ pinnedDigest i = i.artifact.digest := by
  unfold refused at h
  unfold pinnedDigest
  rw [hr] at h
  simp only [hr, if_true, Bool.true_and]
  cases hd : i.refDigest with
  | none => rw [hd] at h; simp at h; exact ⟨h, rfl⟩
  | some d =>
    rw [hd] at h
    simp only [hs, Bool.not_false, Bool.true_and, Bool.or_eq_false_iff, Bool.not_eq_false',
      bne_eq_false_iff_eq] at h
    exact ⟨h.1, by simp [h.2]⟩

theorem pinned_direct (i : Input) (hr : registry i = false) : pinnedDigest i = i.artifact.digest := by
  simp [pinnedDigest, hr]

/-- case analysis of `run`: it rejects, or nothing was refused in front of the verifier and every
check of the verifier passed -/
theorem run_cases (i : Input) (hs : i.skip = false) :
    run i = reject ∨
    (i.parseOk = true ∧ i.integrityOk = true ∧ i.payloadTypeOk = true ∧ i.rest = true ∧
      (registry i = true → i.resolveOk = true) ∧ pinnedDigest i = i.artifact.digest ∧
      ∃ p, i.decoded = some p ∧ (i.kind = .blob → i.hashSupported = true) ∧
        (match i.kind with
         | .oci => ociEqual p i.artifact = true
         | .blob => blobMismatch p i.artifact = false) ∧
        (i.required.isEmpty = true ∨ metadataOk p i.required = true) ∧
        run i = okObs i p) := by
  unfold run
  cases hf : refused i
  · simp only [Bool.false_eq_true, if_false]
    rcases core_cases i hs with h | ⟨h1, h2, h3, h4, p, hd, hh, hm, hmeta, hrun⟩
    · left; exact h
    · right
      refine ⟨h1, h2, h3, h4, ?_, ?_, p, hd, hh, hm, hmeta, hrun⟩
      · intro hr; exact (not_refused i hs hf hr).1
      · cases hr : registry i
        · exact pinned_direct i hr
        · exact (not_refused i hs hf hr).2
  · left; simp

theorem metadata_of (p : Desc) (req : List (String × String))
    (h : req.isEmpty = true ∨ metadataOk p req = true) :
    ∀ kv ∈ req, p.annotations.lookup kv.1 = some kv.2 := by
  intro kv hkv
  rcases h with h | h
  · simp only [List.isEmpty_iff] at h
    rw [h] at hkv; simp at hkv
  · have := List.all_eq_true.1 h kv hkv
    simpa using this

/-- **C01, OCI**: whenever `verifier.Verify` - or `notation.Verify` in front of it - succeeds under a
level other than skip, the envelope parses, its signature is valid, the payload is a Notary payload
that decodes to a target equal to the descriptor under verification (digest, size, media type) AND
naming the digest the caller's reference pins, every required metadata pair is in the signed
annotations, and the payload reported is the signed one. -/
theorem ociAccept_sound (i : Input) (hk : i.kind = .oci) (hs : i.skip = false)
    (h : (run i).accepted = true) :
    i.parseOk = true ∧ i.integrityOk = true ∧ i.payloadTypeOk = true ∧ i.rest = true ∧
    ∃ p, i.decoded = some p ∧ (run i).payload = some p ∧
      p.digest = i.artifact.digest ∧ p.digest = pinnedDigest i ∧
      p.size = i.artifact.size ∧ p.mediaType = i.artifact.mediaType ∧
      ∀ kv ∈ i.required, p.annotations.lookup kv.1 = some kv.2 := by
  rcases run_cases i hs with hr | ⟨h1, h2, h3, h4, _, hpin, p, hd, _, hm, hmeta, hrun⟩
  · rw [hr] at h; simp [reject] at h
  · rw [hk] at hm
    simp only [ociEqual, Bool.and_eq_true, beq_iff_eq] at hm
    exact ⟨h1, h2, h3, h4, p, hd, by rw [hrun]; rfl, hm.1.2, by rw [hpin]; exact hm.1.2, hm.1.1, hm.2,
      metadata_of p _ hmeta⟩

/-- **C01, registry**: when `notation.Verify` succeeds for a DIGEST reference under a level other
than skip, the accepted signature was made for the digest the reference names - whatever descriptor
the repository answered with - and the descriptor returned is that of the signed target. -/
theorem digest_reference_binds (i : Input) (d : String) (hk : i.kind = .oci) (hv : i.viaRegistry = true)
    (hs : i.skip = false) (hd : i.refDigest = some d) (h : (run i).accepted = true) :
    i.resolveOk = true ∧
    ∃ p, i.decoded = some p ∧ p.digest = d ∧ p.size = i.artifact.size ∧ p.mediaType = i.artifact.mediaType ∧
      (run i).returned = some { p with annotations := [] } := by
  have hreg : registry i = true := by simp [registry, hk, hv]
  rcases run_cases i hs with hr | ⟨_, _, _, _, hres, hpin, p, hp, _, hm, _, hrun⟩
  · rw [hr] at h; simp [reject] at h
  · rw [hk] at hm
    simp only [ociEqual, Bool.and_eq_true, beq_iff_eq] at hm
    have hpd : pinnedDigest i = d := by simp [pinnedDigest, hreg, hd]
    refine ⟨hres hreg, p, hp, ?_, hm.1.1, hm.2, ?_⟩
    · rw [hm.1.2, ← hpin, hpd]
    · rw [hrun]
      simp only [okObs, hk, hv, if_true]
      obtain ⟨pm, pd, ps, pa⟩ := p
      obtain ⟨⟨e1, e2⟩, e3⟩ := hm
      simp only at e1 e2 e3
      simp [e1, e2, e3]

/-- **C01, registry**: a repository cannot redirect a digest reference: if `Resolve` answers with a
descriptor whose digest is not literally the one the reference names (another manifest, or a digest
of another algorithm), verification fails for EVERY envelope, level, trust store and plugin. -/
theorem redirected_digest_reference_rejected (i : Input) (d : String) (hk : i.kind = .oci)
    (hv : i.viaRegistry = true) (hs : i.skip = false) (hd : i.refDigest = some d)
    (hne : d ≠ i.artifact.digest) : (run i).accepted = false := by
  have hreg : registry i = true := by simp [registry, hk, hv]
  have : refused i = true := by
    simp [refused, hreg, hd, hs, hne]
  simp [run, this, reject]

/-- an unresolvable reference is never a success (under a non-skip level, or through a Verifier that
does not answer `SkipVerify`) -/
theorem unresolved_reference_rejected (i : Input) (hk : i.kind = .oci) (hv : i.viaRegistry = true)
    (hr : i.resolveOk = false) (hs : i.skip = false ∨ i.refDigest = none) : (run i).accepted = false := by
  have hreg : registry i = true := by simp [registry, hk, hv]
  have : refused i = true := by
    unfold refused
    rcases hs with hs | hs
    · cases hd : i.refDigest <;> simp [hreg, hr, hs]
    · simp [hreg, hr, hs]
  simp [run, this, reject]

/-- an honest repository is transparent: when the reference resolves to the descriptor it names,
`notation.Verify` decides exactly as `verifier.Verify` does for that descriptor -/
theorem honest_registry_transparent (i : Input) (hr : i.resolveOk = true)
    (hd : i.refDigest = none ∨ i.refDigest = some i.artifact.digest) : run i = core i := by
  have : refused i = false := by
    unfold refused
    rcases hd with hd | hd <;> simp [hd, hr]
  simp [run, this]

/-- **C01, blob**: the same for `notation.VerifyBlob`: digest and size always, the media type
whenever the caller states one; the descriptor returned is the verified target. -/
theorem blobAccept_sound (i : Input) (hk : i.kind = .blob) (hs : i.skip = false)
    (h : (run i).accepted = true) :
    i.parseOk = true ∧ i.integrityOk = true ∧ i.payloadTypeOk = true ∧ i.rest = true ∧
    i.hashSupported = true ∧
    ∃ p, i.decoded = some p ∧ (run i).payload = some p ∧
      p.digest = i.artifact.digest ∧ p.size = i.artifact.size ∧
      (i.artifact.mediaType = "" ∨ p.mediaType = i.artifact.mediaType) ∧
      (∀ kv ∈ i.required, p.annotations.lookup kv.1 = some kv.2) ∧
      (run i).returned = some { p with annotations := [] } := by
  rcases run_cases i hs with hr | ⟨h1, h2, h3, h4, _, _, p, hd, hh, hm, hmeta, hrun⟩
  · rw [hr] at h; simp [reject] at h
  · rw [hk] at hm
    simp only [blobMismatch, Bool.or_eq_false_iff, bne_eq_false_iff_eq, Bool.and_eq_false_iff] at hm
    obtain ⟨⟨e1, e2⟩, e3⟩ := hm
    refine ⟨h1, h2, h3, h4, hh hk, p, hd, by rw [hrun]; rfl, e1.symm, e2.symm, ?_, metadata_of p _ hmeta, ?_⟩
    · rcases e3 with e3 | e3
      · left; simpa using e3
      · right; exact (by simpa using e3 : i.artifact.mediaType = p.mediaType).symm
    · rw [hrun]; simp [okObs, hk]

/-- **C01, integrity cannot be overridden**: if the envelope does not parse, its signature is not
valid or the payload type is wrong, verification fails for EVERY remaining input - whatever the
other validations, the artifact, the reference, the repository, the metadata, the kind say (only a
skip statement accepts). -/
theorem integrity_not_overridable (i : Input) (hs : i.skip = false)
    (h : i.parseOk = false ∨ i.integrityOk = false ∨ i.payloadTypeOk = false) :
    (run i).accepted = false := by
  unfold run
  cases refused i
  · unfold core
    rcases h with h | h | h <;> simp [hs, h, reject]
  · simp [reject]

/-- The same statement composed with the model of `processSignature` (C02): for every scenario of
the remaining validations - every level, override, trust store content, plugin situation and
verdict - and EVERY enforcement map, a tampered envelope is rejected. -/
theorem integrity_not_overridable_by_level_or_plugin (i : Input) (s : C02.Input) (enf : C02.Enf)
    (hs : i.skip = false)
    (h : i.parseOk = false ∨ i.integrityOk = false ∨ i.payloadTypeOk = false) :
    (run { i with rest := (C02.process s enf).accepted }).accepted = false :=
  integrity_not_overridable _ hs h

/-- a descriptor mismatch survives satisfied metadata (the metadata step only ever sets the error) -/
theorem mismatch_survives_metadata (i : Input) (p : Desc) (hs : i.skip = false) (hk : i.kind = .oci)
    (hd : i.decoded = some p)
    (hm : p.digest ≠ i.artifact.digest ∨ p.size ≠ i.artifact.size ∨ p.mediaType ≠ i.artifact.mediaType) :
    (run i).accepted = false := by
  apply Bool.eq_false_iff.2
  intro hacc
  obtain ⟨_, _, _, _, q, hq, _, h1, _, h2, h3, _⟩ := ociAccept_sound i hk hs hacc
  rw [hd] at hq
  cases hq
  rcases hm with h | h | h <;> contradiction

/-- a missing or different metadata pair is never accepted - whatever the other pairs, keys and
values look like (the comparison is by key and by value, never by a joined text) -/
theorem missing_metadata_rejected (i : Input) (p : Desc) (hs : i.skip = false)
    (hd : i.decoded = some p) (kv : String × String) (hkv : kv ∈ i.required)
    (hmiss : p.annotations.lookup kv.1 ≠ some kv.2) : (run i).accepted = false := by
  apply Bool.eq_false_iff.2
  intro hacc
  cases hk : i.kind
  · obtain ⟨_, _, _, _, q, hq, _, _, _, _, _, hall⟩ := ociAccept_sound i hk hs hacc
    rw [hd] at hq; cases hq
    exact hmiss (hall kv hkv)
  · obtain ⟨_, _, _, _, _, q, hq, _, _, _, _, hall, _⟩ := blobAccept_sound i hk hs hacc
    rw [hd] at hq; cases hq
    exact hmiss (hall kv hkv)

/-- **C01, the whole property**: every clause of `Holds` is true of the model's behaviour. -/
theorem model_holds (i : Input) : Holds i (run i) = true := by
  unfold Holds clauses
  cases hs : i.skip
  · rcases run_cases i hs with hr | ⟨h1, h2, h3, h4, hres, hpin, p, hd, hh, hm, hmeta, hrun⟩
    · simp [Clauses.holds, hr, reject]
    · have hmd := metadata_of p _ hmeta
      cases hk : i.kind
      · rw [hk] at hm
        simp only [ociEqual, Bool.and_eq_true, beq_iff_eq] at hm
        cases hv : i.viaRegistry
        · simp [Clauses.holds, hrun, okObs, hs, h1, h2, h3, h4, hd, hk, hm, hpin, registry, hv]
          intro a b hab; exact hmd (a, b) hab
        · have hres' : i.resolveOk = true := hres (by simp [registry, hk, hv])
          simp [Clauses.holds, hrun, okObs, hs, h1, h2, h3, h4, hd, hk, hm, hpin, registry, hv, hres']
          intro a b hab; exact hmd (a, b) hab
      · rw [hk] at hm
        simp only [blobMismatch, Bool.or_eq_false_iff, bne_eq_false_iff_eq, Bool.and_eq_false_iff] at hm
        obtain ⟨⟨e1, e2⟩, e3⟩ := hm
        simp [Clauses.holds, hrun, okObs, hs, h1, h2, h3, h4, hd, hk, e1.symm, e2.symm, hpin, registry]
        refine ⟨?_, ?_⟩
        · rcases e3 with e3 | e3
          · left; simpa using e3
          · right; exact (by simpa using e3 : i.artifact.mediaType = p.mediaType).symm
        · intro a b hab; exact hmd (a, b) hab
  · cases hf : refused i <;> simp [Clauses.holds, hs, run, core, hf, reject]

/-! ### non-vacuity -/

def sampleDesc : Desc := { mediaType := "m", digest := "sha256:aa", size := 3, annotations := [("k", "v")] }

def sampleInput : Input :=
  { kind := .oci, skip := false, parseOk := true, integrityOk := true, payloadTypeOk := true,
    rest := true, decoded := some sampleDesc, artifact := { sampleDesc with annotations := [] },
    hashSupported := true, required := [("k", "v")], reader := "", viaRegistry := false,
    refDigest := none, resolveOk := true, refForm := "", plugin := false,
    blobLen := 0, boundary := 0 }

/-- an accepted OCI verification with required metadata -/
example : (run sampleInput).accepted = true := by decide

/-- an accepted blob verification where the caller states no media type -/
example : (run { sampleInput with
      kind := .blob, artifact := { sampleDesc with mediaType := "", annotations := [] }, required := [] }).returned =
    some { sampleDesc with annotations := [] } := by
  decide

/-- `Holds` refutes an acceptance of a signature made for another artifact -/
example : Holds { sampleInput with decoded := some { sampleDesc with digest := "sha256:bb" }, required := [] }
    { accepted := true, outcomeError := some false, payload := some { sampleDesc with digest := "sha256:bb" },
      returned := none } = false := by decide

/-- registry: a digest reference that resolves to the descriptor it names is accepted and the
descriptor is returned -/
example : run { sampleInput with viaRegistry := true, refDigest := some "sha256:aa" } =
    { accepted := true, outcomeError := some false, payload := some sampleDesc,
      returned := some { sampleDesc with annotations := [] } } := by decide

/-- registry: the repository answers a `sha512` reference with the `sha256` descriptor of another,
validly signed manifest: refused by the model ... -/
example : (run { sampleInput with viaRegistry := true, refDigest := some "sha512:cc" }).accepted = false := by decide

/-- ... and `Holds` refutes an implementation that accepts it: the signed target is not the artifact
the reference pins -/
example : Holds { sampleInput with viaRegistry := true, refDigest := some "sha512:cc" }
    { accepted := true, outcomeError := some false, payload := some sampleDesc,
      returned := some { sampleDesc with annotations := [] } } = false := by decide

/-- `Holds` refutes an acceptance where a required key `labels=tier` is "found" by re-splitting the
signed pair (`labels`, `tier=gold`) -/
example : Holds { sampleInput with
      decoded := some { sampleDesc with annotations := [("labels", "tier=gold")] }, required := [("labels=tier", "gold")] }
    { accepted := true, outcomeError := some false,
      payload := some { sampleDesc with annotations := [("labels", "tier=gold")] }, returned := none } = false := by decide

/-- how the blob reader delivers its bytes, whether an approving identity plugin is involved and how
the repository part of the reference is spelled are not inputs of the decision -/
theorem concretisation_irrelevant (i : Input) (r f : String) (p : Bool) :
    run { i with reader := r, plugin := p, refForm := f } = run i := by
  simp [run, core, refused, registry]

/-- **C01, large blobs**: how many bytes the reader delivers, and which size cap of the source tree that
number lies next to, are not inputs of the decision: the blob enters it only through `artifact`, the
descriptor (digest and size) of ALL the bytes delivered. There is no length from which on "the first
N bytes" stand for the blob. -/
theorem blob_length_irrelevant (i : Input) (n b : Nat) :
    run { i with blobLen := n, boundary := b } = run i := by
  simp [run, core, refused, registry]

/-- **C01, large blobs**: when the descriptor under verification counts every byte the reader delivers
(what the harness presents: it hashes and counts the whole stream by its own route), an accepted
signature was made for a blob of exactly that many bytes with exactly that digest, and that is the
descriptor returned - whatever the length. A signature for a proper prefix of the stream (a signed
image to which bytes were appended) is never accepted. -/
theorem blobAccept_covers_every_delivered_byte (i : Input) (hk : i.kind = .blob) (hs : i.skip = false)
    (hwf : i.artifact.size = Int.ofNat i.blobLen) (h : (run i).accepted = true) :
    ∃ p, i.decoded = some p ∧ p.size = Int.ofNat i.blobLen ∧ p.digest = i.artifact.digest ∧
      (run i).returned = some { p with annotations := [] } := by
  obtain ⟨_, _, _, _, _, p, hd, _, e1, e2, _, _, hret⟩ := blobAccept_sound i hk hs h
  exact ⟨p, hd, by rw [e2, hwf], e1, hret⟩

/-- a signature made for the first `n` bytes of a longer stream is rejected: sizes differ -/
theorem prefix_signature_rejected (i : Input) (p : Desc) (hk : i.kind = .blob) (hs : i.skip = false)
    (hwf : i.artifact.size = Int.ofNat i.blobLen) (hd : i.decoded = some p)
    (hlt : p.size < Int.ofNat i.blobLen) : (run i).accepted = false := by
  apply Bool.eq_false_iff.2
  intro hacc
  obtain ⟨q, hq, hsz, _, _⟩ := blobAccept_covers_every_delivered_byte i hk hs hwf hacc
  rw [hd] at hq; cases hq
  rw [hsz] at hlt
  exact absurd hlt (Int.lt_irrefl _)

/-- non-vacuity: a blob of 1 GiB + 1 bytes offered with a valid signature for its first 1 GiB: the model
rejects, and `Holds` refutes an implementation that accepts (and returns the signed prefix descriptor) -/
def prefixInput : Input :=
  { sampleInput with
      kind := .blob, required := [], blobLen := 1073741825, boundary := 1073741824,
      artifact := { mediaType := "", digest := "sha256:whole", size := 1073741825, annotations := [] },
      decoded := some { mediaType := "m", digest := "sha256:prefix", size := 1073741824, annotations := [] } }

example : (run prefixInput).accepted = false := by decide

example : Holds prefixInput
    { accepted := true, outcomeError := some false,
      payload := some { mediaType := "m", digest := "sha256:prefix", size := 1073741824, annotations := [] },
      returned := some { mediaType := "m", digest := "sha256:prefix", size := 1073741824, annotations := [] } } = false := by
  decide

/-- ... also when the implementation hashed the right bytes but compared only the digest (signed size
that of the prefix) -/
example : Holds { prefixInput with
      decoded := some { mediaType := "m", digest := "sha256:whole", size := 1073741824, annotations := [] } }
    { accepted := true, outcomeError := some false,
      payload := some { mediaType := "m", digest := "sha256:whole", size := 1073741824, annotations := [] },
      returned := some { mediaType := "m", digest := "sha256:whole", size := 1073741824, annotations := [] } } = false := by
  decide

/-- the blob of exactly 1 GiB with the signature made for it is accepted -/
example : (run { prefixInput with
      blobLen := 1073741824,
      artifact := { mediaType := "", digest := "sha256:prefix", size := 1073741824, annotations := [] } }).accepted = true := by
  decide

/-- outside the registry entry point the reference and the repository's answer are not inputs
either -/
theorem reference_irrelevant_outside_registry (i : Input) (hv : i.viaRegistry = false)
    (d : Option String) (ok : Bool) :
    run { i with refDigest := d, resolveOk := ok } = run i := by
  simp [run, core, refused, registry, hv]

/-! ### tie to the translated source -/

namespace Tie
open NotationModel.Src

theorem lookup_eq (m : List (String × String)) (k v : String) :
    (!(GoLite.Map.lookup m k).2 || (GoLite.Map.lookup m k).1 != v) = !(List.lookup k m == some v) := by
  induction m with
  | nil => simp [GoLite.Map.lookup, GoLite.Map.get?]
  | cons a m ih =>
    obtain ⟨k', v'⟩ := a
    by_cases h : k' = k
    · subst h; simp [GoLite.Map.lookup, GoLite.Map.get?, List.lookup, bne]
    · have h' : (k == k') = false := by simp; exact fun e => h e.symm
      have h'' : (k' == k) = false := by simp [h]
      simp only [GoLite.Map.lookup, GoLite.Map.get?, List.find?, h'', List.lookup, h'] at ih ⊢
      exact ih

theorem lookup_spec (m : List (String × String)) (k : String) :
    GoLite.Map.lookup m k = match List.lookup k m with
      | some v => (v, true)
      | none => ("", false) := by
  induction m with
  | nil => rfl
  | cons a m ih =>
    obtain ⟨k', v'⟩ := a
    by_cases h : k' = k
    · subst h; simp [GoLite.Map.lookup, GoLite.Map.get?, List.lookup]
    · have h' : (k == k') = false := by simp; exact fun e => h e.symm
      have h'' : (k' == k) = false := by simp [h]
      simp only [GoLite.Map.lookup, GoLite.Map.get?, List.find?, h'', List.lookup, h'] at ih ⊢
      exact ih

def mstep (ann : List (String × String)) (_ : Unit) (kv : String × String) : Except Unit Unit :=
  if List.lookup kv.1 ann == some kv.2 then .ok () else .error ()

theorem foldE_all (ann : List (String × String)) (req : List (String × String)) :
    (match GoLite.foldE (mstep ann) req () with | .ok _ => true | .error _ => false) =
      req.all (fun kv => List.lookup kv.1 ann == some kv.2) := by
  induction req with
  | nil => simp [GoLite.foldE]
  | cons a l ih =>
    simp only [GoLite.foldE, mstep, List.all_cons]
    by_cases h : (List.lookup a.1 ann == some a.2) = true
    · simp only [h, if_true, Bool.true_and]; exact ih
    · simp [h]

theorem verifyUserMetadata_all (p : envelope.Payload) (req : List (String × String)) :
    (verifier.verifyUserMetadata p req).isNone = req.all (fun kv => List.lookup kv.1 p.TargetArtifact.Annotations == some kv.2) := by
  unfold verifier.verifyUserMetadata
  simp only [Id.run]
  rw [GoLite.forIn_eq_foldE' _ (mstep p.TargetArtifact.Annotations)
        (fun _ => (none, ())) (fun _ _ => (some (some (GoLite.errT "notation.ErrorUserMetadataVerificationFailed" "")), ())) ?h _ _ () rfl]
  case h =>
    intro a t
    -- whatever shape the test has (one condition, two ifs, comma-ok or not): decide the lookup, then compute
    simp only [lookup_spec]
    cases hl : List.lookup a.1 p.TargetArtifact.Annotations with
    | none => simp [mstep, hl]
    | some w =>
      by_cases hw : w = a.2
      · simp [mstep, hl, hw]
      · have hw' : (w == a.2) = false := by simpa using hw
        have hw2 : ¬ a.2 = w := fun e => hw e.symm
        have hw2' : (a.2 == w) = false := by simpa using hw2
        simp [mstep, hl, hw, hw', hw2, hw2', bne]
  rw [← foldE_all]
  cases GoLite.foldE (mstep p.TargetArtifact.Annotations) req () with
  | ok t => simp only [pure_bind]; rfl
  | error e => obtain ⟨t, e⟩ := e; simp only [pure_bind]; rfl


/-- the model's descriptor of a decoded payload -/
def descOf (p : envelope.Payload) : Desc :=
  { mediaType := p.TargetArtifact.MediaType, digest := p.TargetArtifact.Digest, size := p.TargetArtifact.Size,
    annotations := p.TargetArtifact.Annotations }

/-- TIE (translated source): `verifier.verifyUserMetadata`, translated from verifier/verifier.go on
every run (`Generated/SrcVerifier.lean`), returns no error exactly when the model's `metadataOk`
holds - for every payload and every required-metadata map, in every iteration order. -/
theorem source_verifyUserMetadata_refines_model (p : envelope.Payload) (req : List (String × String)) :
    (verifier.verifyUserMetadata p req).isNone = metadataOk (descOf p) req := by
  rw [verifyUserMetadata_all]; rfl

/-- non-vacuity: a required pair whose value differs is refused, a signed superset is accepted -/
example : (verifier.verifyUserMetadata
    { TargetArtifact := { MediaType := "m", Digest := "d", Size := 1, Annotations := [("team", "red"), ("stage", "prod")] } }
    [("team", "blue")]).isSome = true := by decide
example : (verifier.verifyUserMetadata
    { TargetArtifact := { MediaType := "m", Digest := "d", Size := 1, Annotations := [("team", "red"), ("stage", "prod")] } }
    [("stage", "prod")]).isNone = true := by decide

end Tie

end NotationModel.C01

/-
C01, second module of theorems (picked up by `check` as `Props/C01_*.lean`): the tie of the
translated `(*verifier).Verify` (verifier/verifier.go, `Generated/SrcVerifyOCI.lean`, regenerated on
every run) to the model's `core` for the OCI entry point. Oracles (`Src/TypesVerify.lean`): the
policy document's statement selection, `processSignature` (tied on its own in Props/C02_Process.lean),
`json.Unmarshal` of the payload; `verifyUserMetadata` and `GetVerificationLevel` are the translated ones.
-/
import NotationModel.Props.C01
import NotationModel.Generated.SrcVerifyOCI

set_option linter.unusedSimpArgs false

namespace NotationModel.C01.Tie
open NotationModel.Src NotationModel.Src.verifier

/-- the model's descriptor of an OCI descriptor -/
def descOfD (d : ocispec.Descriptor) : Desc :=
  { mediaType := d.MediaType, digest := d.Digest, size := d.Size, annotations := d.Annotations }

/-- the outcome `Verify` creates before anything is looked at -/
def outcome0 (signature : «notation».SigBlob) (lvl : Option trustpolicy.VerificationLevel) : verifier.«notation».VerificationOutcome :=
  { (default : verifier.«notation».VerificationOutcome) with RawSignature := signature, VerificationLevel := lvl }

/-- the scenario of the model that a call of `Verify` under an applicable statement amounts to: what
`processSignature` answers (the model's `parseOk`, `integrityOk`, `payloadTypeOk` and `rest` together: all reject alike),
what the payload decodes to, the descriptor under verification and the required metadata -/
def toInputV (env : EnvV) (desc : ocispec.Descriptor) (signature : «notation».SigBlob) (opts : OptsV) (tp : TrustPolicyV) : Input :=
  let lvl := (trustpolicy.GetVerificationLevel tp.SignatureVerification).1
  let ps := env.processSignature signature opts.SignatureMediaType tp.Name tp.TrustedIdentities tp.TrustStores
    tp.SignatureVerification opts.PluginConfig (outcome0 signature lvl)
  let um := env.unmarshal ps.2.EnvelopeContent.Payload.Content default
  { kind := .oci, skip := reflect.DeepEqual lvl trustpolicy.LevelSkip,
    parseOk := true, integrityOk := true, payloadTypeOk := true, rest := ps.1.isNone,
    decoded := if um.1.isNone then some (descOf um.2) else none,
    artifact := descOfD desc, hashSupported := true, required := opts.UserMetadata,
    reader := "", viaRegistry := false, refDigest := none, resolveOk := true, refForm := "", plugin := false,
    blobLen := 0, boundary := 0 }

/-- what the tie compares: was an error returned, and does the returned outcome carry one -/
def viewV (r : Option verifier.«notation».VerificationOutcome × Option GoLite.Err) : Bool × Option Bool :=
  (r.2.isNone, r.1.map (fun o => o.Error.isSome))

theorem defaultOutcomeError : (default : verifier.«notation».VerificationOutcome).Error = none := rfl

theorem outcome0_eq (s : «notation».SigBlob) (l : Option trustpolicy.VerificationLevel) :
    ({ RawSignature := s, VerificationLevel := l,
       EnvelopeContent := (default : verifier.«notation».VerificationOutcome).EnvelopeContent,
       Error := (default : verifier.«notation».VerificationOutcome).Error } : verifier.«notation».VerificationOutcome) = outcome0 s l := rfl

theorem contentEqual_eq (p : envelope.Payload) (d : ocispec.Descriptor) :
    contentEqual p.TargetArtifact d = ociEqual (descOf p) (descOfD d) := rfl

/-- TIE (translated source): `(*verifier).Verify`. Without a policy document or an applicable statement it returns an
error and no outcome; under an applicable statement, for EVERY behaviour of `processSignature`, every decoding of the
payload, every descriptor and every required-metadata map, it returns no error exactly when the model's `core` accepts
the scenario, and the outcome it returns carries an error exactly when the model says so (the mismatch with the
artifact is not overwritten by satisfied metadata, metadata is only looked at when some is required) -/
theorem source_Verify_refines_model (env : EnvV) (v : VerifierV) (desc : ocispec.Descriptor)
    (signature : «notation».SigBlob) (opts : OptsV)
    -- processSignature reports through its return value and the validation results, never through `outcome.Error`
    -- (the translated processSignature of Generated/SrcProcess.lean works on an outcome without that field)
    (hErr : ∀ a b c d e f g o, (env.processSignature a b c d e f g o).2.Error = o.Error) :
    match v.ociTrustPolicyDoc with
    | none => viewV (Verify env v desc signature opts) = (false, none)
    | some d =>
      if (d.GetApplicableTrustPolicy opts.ArtifactReference).2.isSome then
        viewV (Verify env v desc signature opts) = (false, none)
      else
        viewV (Verify env v desc signature opts) =
          ((core (toInputV env desc signature opts (d.GetApplicableTrustPolicy opts.ArtifactReference).1)).accepted,
           (core (toInputV env desc signature opts (d.GetApplicableTrustPolicy opts.ArtifactReference).1)).outcomeError) := by
  unfold Verify
  simp only [Id.run]
  cases hd : v.ociTrustPolicyDoc with
  | none => simp [viewV, GoLite.idPure]
  | some d =>
    simp only [Option.isNone_some, Bool.false_eq_true, if_false, GoLite.deref, Option.getD_some]
    cases hq : d.GetApplicableTrustPolicy opts.ArtifactReference with
    | mk tp perr =>
      simp only [hq]
      by_cases hp : perr.isSome = true
      · simp [hp, viewV, GoLite.idPure]
      · simp only [hp, Bool.false_eq_true, if_false, pure_bind]
        unfold toInputV
        simp only [outcome0_eq]
        by_cases hs : reflect.DeepEqual (trustpolicy.GetVerificationLevel tp.SignatureVerification).1 trustpolicy.LevelSkip = true
        · simp [hs, viewV, GoLite.idPure, core, outcome0, defaultOutcomeError]
        · simp only [hs, Bool.false_eq_true, if_false]
          cases hps : env.processSignature signature opts.SignatureMediaType tp.Name tp.TrustedIdentities tp.TrustStores
            tp.SignatureVerification opts.PluginConfig (outcome0 signature (trustpolicy.GetVerificationLevel tp.SignatureVerification).1) with
          | mk pe o1 =>
            simp only [hps]
            by_cases hpe : pe.isSome = true
            · simp [hpe, viewV, GoLite.idPure, core, hs, reject]
              try (cases pe <;> simp_all [reject])
            · simp only [hpe, Bool.false_eq_true, if_false]
              cases hum : env.unmarshal o1.EnvelopeContent.Payload.Content default with
              | mk ue pl =>
                simp only [hum]
                by_cases hue : ue.isSome = true
                · simp [hue, viewV, GoLite.idPure, core, hs, hpe, reject]
                  try (cases ue <;> simp_all [reject])
                · have hue' : ue.isNone = true := by cases ue <;> simp_all
                  have hpe' : pe.isNone = true := by cases pe <;> simp_all
                  simp only [hue, Bool.false_eq_true, if_false]
                  have hm := source_verifyUserMetadata_refines_model pl opts.UserMetadata
                  have ho1 : o1.Error = none := by
                    have := hErr signature opts.SignatureMediaType tp.Name tp.TrustedIdentities tp.TrustStores
                      tp.SignatureVerification opts.PluginConfig (outcome0 signature (trustpolicy.GetVerificationLevel tp.SignatureVerification).1)
                    rw [hps] at this
                    simpa [outcome0, defaultOutcomeError] using this
                  have hce := contentEqual_eq pl desc
                  have hlen : decide (GoLite.len opts.UserMetadata > 0) = !opts.UserMetadata.isEmpty := by
                    cases opts.UserMetadata with
                    | nil => rfl
                    | cons x l =>
                      simp only [GoLite.len, List.length_cons, List.isEmpty_cons, Bool.not_false, decide_eq_true_eq]
                      omega
                  have hdesc : descOfD desc = descOfD desc := rfl
                  simp only [hlen, hce]
                  by_cases h1 : ociEqual (descOf pl) (descOfD desc) = true <;>
                  by_cases h2 : opts.UserMetadata.isEmpty = true <;>
                  by_cases h3 : metadataOk (descOf pl) opts.UserMetadata = true <;>
                  (have h3' : (verifyUserMetadata pl opts.UserMetadata).isSome = !metadataOk (descOf pl) opts.UserMetadata := by
                     rw [← hm]; cases verifyUserMetadata pl opts.UserMetadata <;> rfl) <;>
                  simp [h1, h2, h3, h3', ho1, viewV, GoLite.idPure, core, hs, hpe', hue', reject, GoLite.errorf] <;>
                  (try (cases hv : verifyUserMetadata pl opts.UserMetadata <;> simp_all [reject]))

/-! non-vacuity: the translated `Verify` on concrete oracles -/
section Examples
def tp0 : TrustPolicyV := ⟨"p", ["*"], ["ca:s"], ⟨"strict", []⟩⟩
def v0 : VerifierV := { ociTrustPolicyDoc := some { GetApplicableTrustPolicy := fun _ => (tp0, none) } }
def art : ocispec.Descriptor := { MediaType := "m", Digest := "sha256:a", Size := 3, Annotations := [] }
def env0 (signed : ocispec.Descriptor) : EnvV :=
  { processSignature := fun _ _ _ _ _ _ _ o => (none, o),
    unmarshal := fun _ _ => (none, { TargetArtifact := signed }) }
def opts0 (um : GoLite.Map String String) : OptsV := { ArtifactReference := "r@sha256:a", SignatureMediaType := "jws", PluginConfig := [], UserMetadata := um }

/-- the signed target is the artifact and carries the required pair: accepted -/
example : (Verify (env0 { art with Annotations := [("team", "red")] }) v0 art ⟨0⟩ (opts0 [("team", "red")])).2.isNone = true := by decide
/-- a satisfied metadata requirement does not make up for another artifact's signature -/
example : (Verify (env0 { art with Digest := "sha256:b", Annotations := [("team", "red")] }) v0 art ⟨0⟩ (opts0 [("team", "red")])).2.isSome = true := by decide
/-- a missing required pair is refused although the target is the artifact -/
example : (Verify (env0 art) v0 art ⟨0⟩ (opts0 [("team", "red")])).2.isSome = true := by decide
/-- no policy document: an error and no outcome -/
example : (Verify (env0 art) { ociTrustPolicyDoc := none } art ⟨0⟩ (opts0 [])).1.isNone = true := by decide
end Examples

end NotationModel.C01.Tie

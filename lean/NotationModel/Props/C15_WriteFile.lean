/-
C15 - what `file.WriteFile` contributes to "byte-faithful bundles for the exact URL", read off the
tie of `Props/C14_WriteFile.lean` (the Go function translated on every run, every oracle):
a `Set` that reports success has written exactly the marshalled entry into a temp file of the
cache's root and renamed THAT file onto `root/hex(sha256(url))` - no other name was written or
renamed; a `Set` that reports an error has performed no successful rename at all.
(This module exists so that `./check C15` builds and audits these statements too: a change to
`WriteFile` that breaks them is reported for C15 as well as for C14.)
-/
import NotationModel.Props.C14_WriteFile
set_option linter.unusedSimpArgs false
set_option linter.unusedVariables false

namespace NotationModel.C15.TieW
open NotationModel.Src NotationModel.Src.fsproto NotationModel.C14.Tie

/-- **A successful `Set` stored exactly its entry under exactly its name.** -/
theorem source_Set_success_writes_entry_to_its_path (env : crl.Env) (o : Oracle) (log0 : List Call)
    (c : crl.FileCache) (ctx : context.Context) (url : String) (bundle : Option corecrl.Bundle)
    (b : Src.Bytes) (d : Option Src.Bytes) (bytes : Src.Bytes)
    (hop : C15.Tie.opOf url bundle = .set url (some b) d)
    (hm : env.marshal (C15.Tie.contentOf b d) = .ok bytes)
    (hok : crl.FileCache.Set (envWith env o log0) c ctx url bundle = none) :
    protocolCalls o log0 c.root (C15.Tie.pathOf env c url) bytes =
      [Call.createTemp c.root "notation-*",
       Call.write ⟨o.tempName (log0 ++ [Call.createTemp c.root "notation-*"])⟩ bytes,
       Call.close ⟨o.tempName (log0 ++ [Call.createTemp c.root "notation-*"])⟩,
       Call.rename (o.tempName (log0 ++ [Call.createTemp c.root "notation-*"])) (C15.Tie.pathOf env c url)] := by
  rw [source_Set_runs_protocol env o log0 c ctx url bundle b d bytes hop hm] at hok
  rw [← source_WriteFile_refines_protocol] at hok
  exact (source_WriteFile_error_iff o log0 c.root (C15.Tie.pathOf env c url) bytes).1 hok

/-- **A `Set` that reports an error renamed nothing**: among the model events of its run there is no
`rename`, so (`C14.Tie.failure_keeps_every_key`) every entry of the cache is what it was. -/
theorem source_Set_failure_never_renames (env : crl.Env) (o : Oracle) (log0 : List Call)
    (c : crl.FileCache) (ctx : context.Context) (url : String) (bundle : Option corecrl.Bundle)
    (b : Src.Bytes) (d : Option Src.Bytes) (bytes : Src.Bytes)
    (hop : C15.Tie.opOf url bundle = .set url (some b) d)
    (hm : env.marshal (C15.Tie.contentOf b d) = .ok bytes)
    (herr : crl.FileCache.Set (envWith env o log0) c ctx url bundle ≠ none) (w t n w' : Nat) :
    ∃ evs, eventsOf o log0 c.root (C15.Tie.pathOf env c url) bytes w t n = some evs ∧
      C14.Event.rename w' ∉ evs := by
  refine ⟨_, protocol_calls_are_writer_steps o log0 c.root (C15.Tie.pathOf env c url) bytes w t n, ?_⟩
  apply failure_never_renames
  rw [source_Set_runs_protocol env o log0 c ctx url bundle b d bytes hop hm] at herr
  rw [← source_WriteFile_refines_protocol] at herr
  have hres := source_WriteFile_result o log0 c.root (C15.Tie.pathOf env c url) bytes
  simp only [succeeded]
  cases h1 : (answersOf o log0 c.root (C15.Tie.pathOf env c url) bytes).create <;>
  cases h2 : (answersOf o log0 c.root (C15.Tie.pathOf env c url) bytes).write <;>
  cases h3 : (answersOf o log0 c.root (C15.Tie.pathOf env c url) bytes).close <;>
  cases h4 : (answersOf o log0 c.root (C15.Tie.pathOf env c url) bytes).rename <;> simp_all

end NotationModel.C15.TieW

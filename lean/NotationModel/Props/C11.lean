/-
C11 - Signing an OCI artifact signs exactly what was resolved and changes nothing else.
Property theorems only; the model is in `Model/C11.lean`.

Structure: heap lemmas (a write through an address beyond a prefix of the heap leaves the prefix alone),
specifications of the pieces of `SignOCI` (`mergeLoop_spec`, `addUserMetadata_spec`, `resolve_spec`,
`annotateAndPush_spec`), the per-call theorem `signOCI_spec` under the history invariant `Inv`, the closed form
of a whole history `run_eq_spec` (induction over the step list: signing calls interleaved with tag moves,
deletions and re-creations, any length), `model_holds`, and the readable corollaries
`signs_resolved_plus_metadata`, `refusals`, `frame` / `frame_heap`, `idempotent_history`,
`signs_what_the_tag_names_now`, `deleted_tag_is_not_signed`, `success_independent_of_history`,
`signed_payload_covers`, `unfaithful_plugin_is_refused`, `plugin_sees_defaults_overridden_by_call`,
`pushed_annotations_exact`, `merge_order_irrelevant`; at the end, `namespace Tie`: the ties to the translated source
(`Generated/SrcC11.lean`): `source_addUserMetadataToDescriptor_refines_model`, `source_validateSignArguments_refines_model`,
`source_validateSigMediaType_refines_model`, `source_generateAnnotations_refines_model` (+ `_matches_model`).
Well-formedness hypothesis (explicit, decidable, checked by the driver for every case): `wf i` - there is at least
one artifact, the tag and every step name existing artifacts, and the keys of every UserMetadata map are pairwise
different (true of any Go map; the harness builds the lists from Go maps).
-/
import NotationModel.Model.C11
import NotationModel.Generated.SrcC11
import NotationModel.Generated.SrcC11b
import NotationModel.Generated.SrcC11c
set_option linter.unusedSimpArgs false
namespace NotationModel.C11

theorem facts_merge_allocates_fresh_map : mergeCopies = true := by decide

/-- the table the Go code tests against is exactly the prefix the property names -/
theorem facts_reserved_prefixes : Facts.c11ReservedPrefixes = [reservedPrefix] := by decide

/-- so what the code refuses as reserved is what the property calls reserved -/
theorem isReserved_eq_spec (k : Text) : isReserved k = isReservedSpec k := by
  simp [isReserved, isReservedSpec, facts_reserved_prefixes]

theorem look_put (k v k' : Text) : ∀ m : AnnMap, look k' (put k v m) = if k' = k then some v else look k' m := by
  intro m
  induction m with
  | nil => simp [put, look]
  | cons p r ih =>
    obtain ⟨k1, v1⟩ := p
    simp only [put]
    by_cases h1 : k = k1
    · subst h1
      by_cases h2 : k' = k <;> simp [look, h2]
    · simp only [h1, beq_iff_eq, if_false]
      by_cases h2 : tlt k k1
      · simp [h2, look]
      · rw [if_neg h2]
        simp only [look]
        rw [ih]
        by_cases h3 : k' = k1
        · subst h3
          have : ¬ k' = k := fun h => h1 h.symm
          simp [this]
        · simp [h3]

/-! ### heap lemmas -/

def validRef (h : Heap) : MapRef → Prop
  | none => True
  | some a => a < h.cells.length

theorem prefix_getD {α} {l l' : List α} (hp : l <+: l') {a : Nat} (ha : a < l.length) (d : α) :
    l'.getD a d = l.getD a d := by
  obtain ⟨t, rfl⟩ := hp
  simp [List.getD, List.getElem?_append_left ha]

theorem read_of_prefix {h h' : Heap} (hp : h.cells <+: h'.cells) {r : MapRef} (hv : validRef h r) :
    h'.read r = h.read r := by
  cases r with
  | none => rfl
  | some a => exact prefix_getD hp hv []

theorem validRef_of_prefix {h h' : Heap} (hp : h.cells <+: h'.cells) {r : MapRef} (hv : validRef h r) :
    validRef h' r := by
  cases r with
  | none => trivial
  | some a => exact Nat.lt_of_lt_of_le hv hp.length_le

theorem alloc_cells (h : Heap) (m : AnnMap) : (h.alloc m).1.cells = h.cells ++ [m] := rfl
theorem alloc_addr (h : Heap) (m : AnnMap) : (h.alloc m).2 = h.cells.length := rfl
theorem alloc_prefix (h : Heap) (m : AnnMap) : h.cells <+: (h.alloc m).1.cells := ⟨[m], rfl⟩
theorem alloc_read (h : Heap) (m : AnnMap) : (h.alloc m).1.read (some (h.alloc m).2) = m := by
  simp [Heap.read, Heap.alloc, List.getD]

theorem write_length (h : Heap) (a : Nat) (k v : Text) :
    (h.write (some a) k v).cells.length = h.cells.length := by
  simp [Heap.write]

theorem write_read (h : Heap) (a : Nat) (k v : Text) (ha : a < h.cells.length) :
    (h.write (some a) k v).read (some a) = put k v (h.read (some a)) := by
  simp [Heap.write, Heap.read, List.getD, ha]

/-- a write through an address beyond a prefix leaves the prefix alone -/
theorem write_prefix (h : Heap) (a : Nat) (k v : Text) {l : List AnnMap} (hp : l <+: h.cells) (hl : l.length ≤ a) :
    l <+: (h.write (some a) k v).cells := by
  obtain ⟨t, ht⟩ := hp
  simp only [Heap.write, ← ht]
  rw [List.set_append_right _ _ hl]
  exact ⟨_, rfl⟩


/-! ### the metadata merge -/

def collidesWith (m : AnnMap) (kv : Text × Text) : Bool := (look kv.1 m).isSome

theorem any_collides_put (k v : Text) (m : AnnMap) : ∀ rest : AnnMap,
    rest.any (fun kv => kv.1 == k) = false →
    rest.any (collidesWith (put k v m)) = rest.any (collidesWith m) := by
  intro rest
  induction rest with
  | nil => simp
  | cons p r ih =>
    intro h
    simp only [List.any_cons, Bool.or_eq_false_iff] at h
    simp only [List.any_cons, ih h.2]
    have : ¬ p.1 = k := by simpa using h.1
    simp [collidesWith, look_put, this]

theorem merged_cons (m : AnnMap) (k v : Text) (rest : AnnMap) :
    merged m ((k, v) :: rest) = merged (put k v m) rest := rfl

theorem mergeLoop_length (r : MapRef) : ∀ (md : AnnMap) (h : Heap),
    (mergeLoop h r md).1.cells.length = h.cells.length := by
  intro md
  induction md with
  | nil => intro h; rfl
  | cons p rest ih =>
    intro h
    obtain ⟨k, v⟩ := p
    simp only [mergeLoop]
    split
    · rfl
    · split
      · rfl
      · rw [ih]
        cases r with
        | none => rfl
        | some a => exact write_length h a k v

/-- what the merge loop does to a map of its own at address `a` -/
theorem mergeLoop_spec (a : Nat) : ∀ (md : AnnMap) (h : Heap), a < h.cells.length → distinctKeys md = true →
    (mergeLoop h (some a) md).2 =
      (!(md.any (fun kv => isReserved kv.1)) && !(md.any (collidesWith (h.read (some a))))) ∧
    (∀ l, l <+: h.cells → l.length ≤ a → l <+: (mergeLoop h (some a) md).1.cells) ∧
    ((mergeLoop h (some a) md).2 = true →
      (mergeLoop h (some a) md).1.read (some a) = merged (h.read (some a)) md) := by
  intro md
  induction md with
  | nil => intro h _ _; exact ⟨by simp [mergeLoop], fun l hl _ => hl, fun _ => by simp [mergeLoop, merged]⟩
  | cons p rest ih =>
    intro h ha hd
    obtain ⟨k, v⟩ := p
    simp only [distinctKeys, Bool.and_eq_true, Bool.not_eq_true'] at hd
    simp only [mergeLoop]
    by_cases hr : isReserved k = true
    · exact ⟨by simp [hr], fun l hl _ => by simpa [hr] using hl, by simp [hr]⟩
    · by_cases hc : (look k (h.read (some a))).isSome = true
      · exact ⟨by simp [hr, hc, collidesWith], fun l hl _ => by simpa [hr, hc] using hl, by simp [hr, hc]⟩
      · have ha' : a < (h.write (some a) k v).cells.length := by rw [write_length]; exact ha
        obtain ⟨h1, h2, h3⟩ := ih (h.write (some a) k v) ha' hd.2
        simp only [hr, hc, if_false, Bool.false_eq_true]
        rw [write_read h a k v ha] at h1 h3
        refine ⟨?_, ?_, ?_⟩
        · rw [h1, any_collides_put k v _ rest hd.1]
          simp [hr, hc, collidesWith]
        · intro l hl hla
          exact h2 l (write_prefix h a k v hl hla) hla
        · intro hok
          rw [h3 hok, merged_cons]

theorem addUserMetadata_spec (h : Heap) (ann : MapRef) (md : AnnMap) (hv : validRef h ann)
    (hd : distinctKeys md = true) :
    h.cells <+: (addUserMetadata h ann md).1.cells ∧
    validRef (addUserMetadata h ann md).1 (addUserMetadata h ann md).2.1 ∧
    (addUserMetadata h ann md).2.2 =
      (!(md.any (fun kv => isReserved kv.1)) && !(md.any (collidesWith (h.read ann)))) ∧
    ((addUserMetadata h ann md).2.2 = true →
      (addUserMetadata h ann md).1.read (addUserMetadata h ann md).2.1 = merged (h.read ann) md) := by
  unfold addUserMetadata
  by_cases he : md.isEmpty = true
  · have : md = [] := by simpa using he
    subst this
    simp [merged, hv]
  · simp only [he, facts_merge_allocates_fresh_map, if_true, if_false, Bool.false_eq_true]
    have ha : h.cells.length < (h.alloc (h.read ann)).1.cells.length := by simp [alloc_cells]
    obtain ⟨h1, h2, h3⟩ := mergeLoop_spec h.cells.length md (h.alloc (h.read ann)).1 ha hd
    have hrd : (h.alloc (h.read ann)).1.read (some h.cells.length) = h.read ann := alloc_read h _
    rw [hrd] at h1 h3
    refine ⟨?_, ?_, ?_, ?_⟩
    · exact h2 _ (alloc_prefix h _) (Nat.le_refl _)
    · show h.cells.length < _
      rw [mergeLoop_length]
      exact ha
    · exact h1
    · exact h3


/-! ### Resolve -/

def viewAnn (r : Repo) (arg : Arg) (m : AnnMap) : AnnMap :=
  match arg with
  | .tag => m
  | _ => if r.plainByDigest then [] else m

/-- the artifact `Resolve` answers with, as a function of what the tag names *now* -/
def resolvedArtArg (r : Repo) (tag : Option Nat) (target : Nat) : Arg → Option Nat
  | .tag => tag
  | .digest => some target
  | .otherDigest => if r.anyDigest then some 0 else none
  | _ => none

theorem handOut_spec (r : Repo) (h : Heap) (k : Nat) (hk : k < h.cells.length) :
    h.cells <+: (handOut r h k).1.cells ∧ validRef (handOut r h k).1 (handOut r h k).2 ∧
    (handOut r h k).1.read (handOut r h k).2 = h.read (some k) := by
  unfold handOut
  by_cases ha : r.aliased = true
  · simp [ha, validRef, hk]
  · simp only [ha, if_false, Bool.false_eq_true]
    refine ⟨alloc_prefix h _, ?_, ?_⟩
    · show h.cells.length < _
      simp [alloc_cells]
    · exact alloc_read h _

theorem byDigest_spec (r : Repo) (h : Heap) (k : Nat) (hk : k < h.cells.length) :
    (resolve.byDigest r h k).2.2 = k ∧
    h.cells <+: (resolve.byDigest r h k).1.cells ∧
    validRef (resolve.byDigest r h k).1 (resolve.byDigest r h k).2.1 ∧
    (resolve.byDigest r h k).1.read (resolve.byDigest r h k).2.1 = (if r.plainByDigest then [] else h.read (some k)) := by
  have ho := handOut_spec r h k hk
  unfold resolve.byDigest
  by_cases hp : r.plainByDigest = true
  · simp [hp, validRef, Heap.read]
  · simp only [hp, if_false, Bool.false_eq_true]
    exact ⟨trivial, ho⟩

/-- `Resolve` answers from the current state of the repository: the tag's target is `tag`, now -/
theorem resolve_spec (r : Repo) (h : Heap) (tag : Option Nat) (target : Nat) (arg : Arg) (n : Nat)
    (hn : 0 < n) (hnl : n ≤ h.cells.length) (htag : ∀ k, tag = some k → k < n) (htarget : target < n) :
    match resolve r h tag target arg with
    | none => resolvedArtArg r tag target arg = none
    | some (h1, res, k) => resolvedArtArg r tag target arg = some k ∧ k < n ∧ h.cells <+: h1.cells ∧ validRef h1 res ∧
        h1.read res = viewAnn r arg (h.read (some k)) := by
  cases arg
  · -- tag
    cases tag with
    | none => simp [resolve, resolvedArtArg]
    | some k =>
      have hk := htag k rfl
      have ho := handOut_spec r h k (Nat.lt_of_lt_of_le hk hnl)
      simp only [resolve, resolvedArtArg, viewAnn]
      exact ⟨trivial, hk, ho⟩
  · -- digest
    have hb := byDigest_spec r h target (Nat.lt_of_lt_of_le htarget hnl)
    simp only [resolve, resolvedArtArg, viewAnn]
    generalize resolve.byDigest r h target = res at hb
    obtain ⟨h1, m, k⟩ := res
    simp only [] at hb ⊢
    obtain ⟨hk, hb⟩ := hb
    subst hk
    exact ⟨rfl, htarget, hb⟩
  · -- otherDigest
    simp only [resolve, resolvedArtArg, viewAnn]
    by_cases hany : r.anyDigest = true
    · simp only [hany, if_true]
      have hb := byDigest_spec r h 0 (Nat.lt_of_lt_of_le hn hnl)
      generalize resolve.byDigest r h 0 = res at hb
      obtain ⟨h1, m, k⟩ := res
      simp only [] at hb ⊢
      obtain ⟨hk, hb⟩ := hb
      subst hk
      exact ⟨rfl, hn, hb⟩
    · simp [hany]
  · simp [resolve, resolvedArtArg]
  · simp [resolve, resolvedArtArg]

/-! ### annotations and push -/

theorem annotateAndPush_spec (i : Input) (sg : SignerCfg) (pay : AnnMap) (w : World) (ra : Option Arg)
    (sgn : Option (Nat × AnnMap)) (pc : Option AnnMap) (resolved : MapRef) (k : Nat) (hv : validRef w.heap resolved) :
    w.heap.cells <+: (annotateAndPush i sg pay w { resolveArg := ra, signed := sgn, pluginCfg := pc } resolved k).1.heap.cells ∧
    (annotateAndPush i sg pay w { resolveArg := ra, signed := sgn, pluginCfg := pc } resolved k).1.handed = w.handed ∧
    (∀ p ∈ (annotateAndPush i sg pay w { resolveArg := ra, signed := sgn, pluginCfg := pc } resolved k).1.produced,
      p ∈ w.produced ∨
      (validRef (annotateAndPush i sg pay w { resolveArg := ra, signed := sgn, pluginCfg := pc } resolved k).1.heap p.1 ∧
       (annotateAndPush i sg pay w { resolveArg := ra, signed := sgn, pluginCfg := pc } resolved k).1.heap.read p.1 = p.2)) ∧
    (annotateAndPush i sg pay w { resolveArg := ra, signed := sgn, pluginCfg := pc } resolved k).1.tag = w.tag ∧
    (annotateAndPush i sg pay w { resolveArg := ra, signed := sgn, pluginCfg := pc } resolved k).1.sigs =
      (if effKind sg == .ok && i.repo.push != .fails then bump k w.sigs else w.sigs) ∧
    (annotateAndPush i sg pay w { resolveArg := ra, signed := sgn, pluginCfg := pc } resolved k).2 =
      { resolveArg := ra, signed := sgn, pluginCfg := pc,
        ok := effKind sg == .ok && i.repo.push == .ok,
        subject := if effKind sg == .ok then some (k, w.heap.read resolved) else none,
        pushAnn := if effKind sg == .ok then some (expectedPushAnn sg) else none,
        payload := if effKind sg == .ok then some (k, pay) else none,
        returnedResolved := effKind sg == .ok && i.repo.push != .fails } := by
  have hpre := alloc_prefix w.heap sg.pluginAnn
  have hlen : w.heap.cells.length < (w.heap.alloc sg.pluginAnn).1.cells.length := by simp [alloc_cells]
  have hw1 := write_prefix (w.heap.alloc sg.pluginAnn).1 w.heap.cells.length Facts.c11ThumbprintKey
    (jsonArray sg.thumbs) hpre (Nat.le_refl _)
  have hlen2 : w.heap.cells.length <
      ((w.heap.alloc sg.pluginAnn).1.write (some w.heap.cells.length) Facts.c11ThumbprintKey (jsonArray sg.thumbs)).cells.length := by
    rw [write_length]; exact hlen
  have hw2 := write_prefix _ w.heap.cells.length Facts.c11CreatedKey (rfc3339 sg.time) hw1 (Nat.le_refl _)
  have hread : (((w.heap.alloc sg.pluginAnn).1.write (some w.heap.cells.length) Facts.c11ThumbprintKey
      (jsonArray sg.thumbs)).write (some w.heap.cells.length) Facts.c11CreatedKey (rfc3339 sg.time)).read
      (some w.heap.cells.length) = expectedPushAnn sg := by
    rw [write_read _ _ _ _ hlen2, write_read _ _ _ _ hlen]
    have := alloc_read w.heap sg.pluginAnn
    rw [alloc_addr] at this
    rw [this]
    rfl
  have hres := read_of_prefix (h := w.heap) hw2 hv
  unfold annotateAndPush
  cases hk : effKind sg
  · -- ok
    simp only [alloc_addr]
    have hval : validRef (((w.heap.alloc sg.pluginAnn).1.write (some w.heap.cells.length) Facts.c11ThumbprintKey
        (jsonArray sg.thumbs)).write (some w.heap.cells.length) Facts.c11CreatedKey (rfc3339 sg.time)) (some w.heap.cells.length) := by
      show w.heap.cells.length < _
      rw [write_length]; exact hlen2
    cases hp : i.repo.push <;> simp [hw2, hread, hres] <;>
      (intro a b hab; rcases hab with hab | ⟨rfl, rfl⟩
       · exact Or.inl hab
       · exact Or.inr ⟨hval, hread⟩)
  · simp; intro a b hab; exact Or.inl hab
  · simp; intro a b hab; exact Or.inl hab
  · simp [alloc_addr, hw1]; intro a b hab; exact Or.inl hab

/-! ### one call -/

/-- the invariant of a history: the cells set up at the start are a prefix of the heap (so they still have
their contents), every annotation map handed out still reads as it did then, and the tag names an artifact -/
def Inv (i : Input) (w : World) : Prop :=
  initCells i <+: w.heap.cells ∧ (∀ p ∈ w.handed ++ w.produced, validRef w.heap p.1 ∧ w.heap.read p.1 = p.2) ∧
  (∀ k, w.tag = some k → k < i.arts.length)

theorem Inv_ext {i : Input} {w : World} (hinv : Inv i w) {h' : Heap} (hp : w.heap.cells <+: h'.cells) (n : List Nat) :
    Inv i { heap := h', tag := w.tag, handed := w.handed, sigs := n, produced := w.produced } := by
  refine ⟨List.IsPrefix.trans hinv.1 hp, ?_, hinv.2.2⟩
  intro p hpm
  obtain ⟨hv, hr⟩ := hinv.2.1 p hpm
  exact ⟨validRef_of_prefix hp hv, by rw [read_of_prefix hp hv, hr]⟩

theorem Inv_hand {i : Input} {w : World} (hinv : Inv i w) {r : MapRef} (hv : validRef w.heap r) :
    Inv i { heap := w.heap, tag := w.tag, handed := w.handed ++ [(r, w.heap.read r)], sigs := w.sigs, produced := w.produced } := by
  refine ⟨hinv.1, ?_, hinv.2.2⟩
  intro p hpm
  simp only [List.mem_append, List.mem_singleton] at hpm
  rcases hpm with (hpm | rfl) | hpm
  · exact hinv.2.1 p (List.mem_append.2 (Or.inl hpm))
  · exact ⟨hv, rfl⟩
  · exact hinv.2.1 p (List.mem_append.2 (Or.inr hpm))

theorem Inv_of {i : Input} {w : World} (hinv : Inv i w) (w' : World) (hp : w.heap.cells <+: w'.heap.cells)
    (hh : w'.handed = w.handed) (ht : w'.tag = w.tag)
    (hpd : ∀ p ∈ w'.produced, p ∈ w.produced ∨ (validRef w'.heap p.1 ∧ w'.heap.read p.1 = p.2)) : Inv i w' := by
  have h0 := Inv_ext hinv hp w'.sigs
  refine ⟨h0.1, ?_, by rw [ht]; exact hinv.2.2⟩
  intro p hpm
  rcases List.mem_append.1 hpm with hm | hm
  · exact h0.2.1 p (List.mem_append.2 (Or.inl (by rw [hh] at hm; exact hm)))
  · rcases hpd p hm with hold | hnew
    · exact h0.2.1 p (List.mem_append.2 (Or.inr hold))
    · exact hnew

/-- moving or deleting the tag keeps the invariant (the tag must name an existing artifact) -/
theorem Inv_retag {i : Input} {w : World} (hinv : Inv i w) (t : Option Nat) (ht : ∀ k, t = some k → k < i.arts.length) :
    Inv i { w with tag := t } := ⟨hinv.1, hinv.2.1, ht⟩

theorem initCells_length (i : Input) : (initCells i).length = i.arts.length + i.pluginConfigs.length + i.steps.length := by
  simp [initCells]; omega

theorem Inv_len {i : Input} {w : World} (hinv : Inv i w) : i.arts.length ≤ w.heap.cells.length :=
  Nat.le_trans (by rw [initCells_length]; omega) hinv.1.length_le

/-- the repository's annotation map of artifact `k` has the contents it had at the start -/
theorem Inv_art {i : Input} {w : World} (hinv : Inv i w) {k : Nat} (hk : k < i.arts.length) :
    w.heap.read (some k) = (artAt i k).ann := by
  have := prefix_getD hinv.1 (a := k) (by rw [initCells_length]; omega) ([] : AnnMap)
  have hk' : k < (i.arts.map (·.ann)).length := by simpa using hk
  simp only [Heap.read, this, initCells, List.append_assoc, List.getD_eq_getElem?_getD,
    List.getElem?_append_left hk', artAt]
  simp [List.getElem?_eq_getElem hk]

/-- the caller's PluginConfig map `c` has the contents it had at the start -/
theorem Inv_cfg {i : Input} {w : World} (hinv : Inv i w) {c : Nat} (hc : c < i.pluginConfigs.length) :
    w.heap.read (some (i.arts.length + c)) = i.pluginConfigs.getD c [] := by
  have := prefix_getD hinv.1 (a := i.arts.length + c) (by rw [initCells_length]; omega) ([] : AnnMap)
  have h1 : (i.arts.map (·.ann)).length ≤ i.arts.length + c := by simp
  have h2 : i.arts.length + c - (i.arts.map (·.ann)).length = c := by simp
  simp only [Heap.read, this, initCells, List.append_assoc, List.getD_eq_getElem?_getD,
    List.getElem?_append_right h1, h2, List.getElem?_append_left hc]

/-- the payload a signer hands back covers what it was asked to sign -/
theorem covers_self (req : AnnMap) : covers req req = true := by
  simp [covers]

theorem payloadOf_covers (sg : SignerCfg) (req pay : AnnMap) (h : payloadOf sg req = some pay) : covers req pay = true := by
  unfold payloadOf at h
  cases himpl : sg.impl <;> simp only [himpl] at h
  · split at h
    · simp at h
    · cases h; exact covers_self req
  · cases h; exact covers_self req
  · cases h; exact covers_self req
  · cases hf : sg.faith <;> simp only [hf] at h
    all_goals first
      | (split at h
         · rename_i hc; cases h; exact hc
         · exact absurd h (by simp))
      | exact absurd h (by simp)

theorem resolvedArt_eq (i : Input) (tag : Option Nat) (c : Step) :
    resolvedArt i tag c = resolvedArtArg i.repo tag c.target (refArg c.ref) := by
  unfold resolvedArt resolvedArtArg
  cases refArg c.ref <;> rfl

theorem resolvedAnn_eq (i : Input) (c : Step) (k : Nat) :
    resolvedAnn i c k = viewAnn i.repo (refArg c.ref) (artAt i k).ann := by
  unfold resolvedAnn viewAnn
  cases refArg c.ref <;> rfl

theorem collides_eq (i : Input) (c : Step) (k : Nat) : collides i c k = c.md.any (collidesWith (resolvedAnn i c k)) := rfl

/-- the closed form of what a call shows: a function of the input, the call and what the tag names at that moment -/
def expectedTrace (i : Input) (tag : Option Nat) (c : Step) : Trace :=
  { ok := expectedOk i tag c,
    resolveArg := if optsValid c.opts then some (refArg c.ref) else none,
    signed := (reachesSigner i tag c).map (fun k => (k, merged (resolvedAnn i c k) c.md)),
    subject := (reachesPush i tag c).map (fun k => (k, resolvedAnn i c k)),
    pushAnn := (reachesPush i tag c).map (fun _ => expectedPushAnn (signerOf i c)),
    payload := (reachesPush i tag c).bind (fun k => (payloadOf (signerOf i c) (requested i c k)).map (fun p => (k, p))),
    pluginCfg := (reachesSigner i tag c).bind (fun _ =>
      if isPlugin (signerOf i c).impl then some (merged (signerOf i c).config (cfgOf i c)) else none),
    returnedResolved := (pushes i tag c).isSome }

theorem signOCI_spec (i : Input) (w : World) (c : Step) (hinv : Inv i w) (hn : 0 < i.arts.length)
    (hd : distinctKeys c.md = true) (ht : c.target < i.arts.length) (hcf : c.cfg < i.pluginConfigs.length) :
    Inv i (signOCI i w c).1 ∧
    w.heap.cells <+: (signOCI i w c).1.heap.cells ∧
    (signOCI i w c).1.tag = w.tag ∧
    (signOCI i w c).1.sigs = sigsAfter i w.tag c w.sigs ∧
    (signOCI i w c).2 = expectedTrace i w.tag c := by
  unfold signOCI
  by_cases hov : optsValid c.opts = true
  · simp only [hov, Bool.not_true, Bool.false_eq_true, if_false]
    have hres := resolve_spec i.repo w.heap w.tag c.target (refArg c.ref) i.arts.length hn (Inv_len hinv) hinv.2.2 ht
    rw [← resolvedArt_eq] at hres
    cases hr : resolve i.repo w.heap w.tag c.target (refArg c.ref) with
    | none =>
      rw [hr] at hres
      simp only [] at hres
      refine ⟨hinv, List.prefix_refl _, (by first | rfl | trivial), ?_, ?_⟩
      · simp [sigsAfter, pushes, reachesPush, reachesSigner, hres]
      · simp [expectedTrace, expectedOk, pushes, reachesPush, reachesSigner, hres, hov]
    | some pr =>
      obtain ⟨h1, resolved, k⟩ := pr
      rw [hr] at hres
      simp only [] at hres
      obtain ⟨hrs, hkn, hp1, hv1, hrd1⟩ := hres
      rw [Inv_art hinv hkn, ← resolvedAnn_eq] at hrd1
      have hinv1 : Inv i { heap := h1, tag := w.tag, handed := w.handed ++ [(resolved, h1.read resolved)], sigs := w.sigs, produced := w.produced } :=
        Inv_hand (w := { heap := h1, tag := w.tag, handed := w.handed, sigs := w.sigs, produced := w.produced }) (Inv_ext hinv hp1 _) hv1
      simp only []
      by_cases harg : refArg c.ref = .otherDigest
      · simp only [harg, beq_self_eq_true, if_true]
        refine ⟨hinv1, hp1, (by first | rfl | trivial), ?_, ?_⟩
        · simp [sigsAfter, pushes, reachesPush, reachesSigner, hrs, refused, digestMismatch, harg]
        · simp [expectedTrace, expectedOk, pushes, reachesPush, reachesSigner, hrs, refused, digestMismatch, harg, hov]
      · have hne : (refArg c.ref == Arg.otherDigest) = false := by simpa using harg
        simp only [hne, Bool.false_eq_true, if_false]
        obtain ⟨hp2, hv2, hok, hmerged⟩ := addUserMetadata_spec h1 resolved c.md hv1 hd
        rw [hrd1] at hok hmerged
        generalize haum : addUserMetadata h1 resolved c.md = res at hp2 hv2 hok hmerged
        obtain ⟨h2, toSign, ok⟩ := res
        simp only [] at hp2 hv2 hok hmerged ⊢
        have hinv2 : Inv i { heap := h2, tag := w.tag, handed := w.handed ++ [(resolved, h1.read resolved)], sigs := w.sigs, produced := w.produced } :=
          Inv_ext hinv1 hp2 _
        have hrefused : refused i c k = !ok := by
          simp [refused, digestMismatch, hne, hasReserved, collides_eq, hok, isReserved_eq_spec]
        cases hokv : ok with
        | false =>
          simp only [Bool.not_false, if_true]
          refine ⟨hinv2, List.IsPrefix.trans hp1 hp2, (by first | rfl | trivial), ?_, ?_⟩
          · simp [sigsAfter, pushes, reachesPush, reachesSigner, hrs, hrefused, hokv]
          · simp [expectedTrace, expectedOk, pushes, reachesPush, reachesSigner, hrs, hrefused, hokv, hov]
        | true =>
          simp only [Bool.not_true, Bool.false_eq_true, if_false]
          have hv2' : validRef h2 resolved := validRef_of_prefix hp2 hv1
          have hreq : h2.read toSign = requested i c k := by rw [hmerged (by rw [hokv])]; rfl
          have hcfg : h2.read (some (i.arts.length + c.cfg)) = cfgOf i c := Inv_cfg hinv2 hcf
          rw [hreq, hcfg]
          cases hpay : payloadOf (signerOf i c) (requested i c k) with
          | none =>
            simp only []
            refine ⟨hinv2, List.IsPrefix.trans hp1 hp2, (by first | rfl | trivial), ?_, ?_⟩
            · simp [sigsAfter, pushes, reachesPush, reachesSigner, delivers, hrs, hrefused, hokv, hov, hpay]
            · simp [expectedTrace, expectedOk, pushes, reachesPush, reachesSigner, delivers, hrs, hrefused, hokv, hov, hpay]
              rfl
          | some pay =>
            simp only []
            obtain ⟨hp3, hh3, hpd3, htg3, hs3, ht3⟩ := annotateAndPush_spec i (signerOf i c) pay
              { heap := h2, tag := w.tag, handed := w.handed ++ [(resolved, h1.read resolved)], sigs := w.sigs, produced := w.produced }
              (some (refArg c.ref)) (some (k, requested i c k))
              (if isPlugin (signerOf i c).impl then some (merged (signerOf i c).config (cfgOf i c)) else none) resolved k hv2'
            refine ⟨?_, ?_, htg3, ?_, ?_⟩
            · exact Inv_of hinv2 _ hp3 hh3 htg3 hpd3
            · exact List.IsPrefix.trans hp1 (List.IsPrefix.trans hp2 hp3)
            · rw [hs3]
              cases hkind : (effKind (signerOf i c) == SignerKind.ok) <;> cases hpk : i.repo.push <;>
                simp [sigsAfter, pushes, reachesPush, reachesSigner, delivers, hrs, hrefused, hokv, hov, hkind, hpk, hpay]
            · rw [ht3, read_of_prefix hp2 hv1, hrd1]
              cases hkind : (effKind (signerOf i c) == SignerKind.ok) <;> cases hpk : i.repo.push <;>
                simp [expectedTrace, expectedOk, pushes, reachesPush, reachesSigner, delivers, hrs, hrefused, hokv, hov, hkind, hpk, hpay] <;>
                (try rfl)
  · have hov' : optsValid c.opts = false := by simpa using hov
    simp only [hov', Bool.not_false, if_true]
    refine ⟨hinv, List.prefix_refl _, (by first | rfl | trivial), ?_, ?_⟩
    · simp [sigsAfter, pushes, reachesPush, reachesSigner, hov']
    · simp [expectedTrace, expectedOk, pushes, reachesPush, reachesSigner, hov']

/-! ### histories -/

def expectedObs (i : Input) (tag : Option Nat) (c : Step) (before : List Nat) : CallObs :=
  { ok := expectedOk i tag c,
    resolveArg := if optsValid c.opts then some (refArg c.ref) else none,
    signed := (reachesSigner i tag c).map (fun k => mkDesc i (k, merged (resolvedAnn i c k) c.md)),
    subject := (reachesPush i tag c).map (fun k => mkDesc i (k, resolvedAnn i c k)),
    pushAnn := (reachesPush i tag c).map (fun _ => expectedPushAnn (signerOf i c)),
    payload := (reachesPush i tag c).bind (fun k =>
      (payloadOf (signerOf i c) (requested i c k)).map (fun p => mkDesc i (k, p))),
    pluginCfg := (reachesSigner i tag c).bind (fun _ =>
      if isPlugin (signerOf i c).impl then some (merged (signerOf i c).config (cfgOf i c)) else none),
    returned := if (pushes i tag c).isSome then .resolved else .zero,
    repoViewSame := true, handedSame := true, optsSame := true, producedSame := true,
    sigCounts := sigsAfter i tag c before }

/-- the whole history in closed form: the tag follows the `tagTo` / `untag` steps and nothing else; the signature
counts follow the pushes -/
def specSteps (i : Input) : List Step → Option Nat → List Nat → List CallObs
  | [], _, _ => []
  | s :: ss, tag, sigs =>
    match s.op with
    | .sign => expectedObs i tag s sigs :: specSteps i ss tag (sigsAfter i tag s sigs)
    | .tagTo => specSteps i ss (some s.to) sigs
    | .untag => specSteps i ss none sigs

theorem drop_take_mid {α} (a b c : List α) (n m : Nat) (hn : a.length = n) (hm : b.length = m) :
    ((a ++ b ++ c).drop n).take m = b := by
  subst hn; subst hm; simp

theorem getD_mid {α} (a c : List α) (x d : α) (n : Nat) (hn : a.length = n) : (a ++ x :: c).getD n d = x := by
  subst hn; simp

theorem observe_of_Inv (i : Input) (w : World) (t : Trace) (hinv : Inv i w) :
    observe i w.tag w t =
      { ok := t.ok, resolveArg := t.resolveArg, signed := t.signed.map (mkDesc i),
        subject := t.subject.map (mkDesc i), pushAnn := t.pushAnn,
        payload := t.payload.map (mkDesc i), pluginCfg := t.pluginCfg,
        returned := if t.returnedResolved then .resolved else .zero,
        repoViewSame := true, handedSame := true, optsSame := true, producedSame := true, sigCounts := w.sigs } := by
  have h0 : (w.heap.cells.take i.arts.length == i.arts.map (·.ann)) = true := by
    obtain ⟨t, ht⟩ := hinv.1
    simp [← ht, initCells]
  have h1 : (w.handed.all fun x => match x with | (r, snap) => w.heap.read r == snap) = true := by
    rw [List.all_eq_true]
    intro p hp
    obtain ⟨r, snap⟩ := p
    simpa using (hinv.2.1 _ (List.mem_append.2 (Or.inl hp))).2
  have h1p : (w.produced.all fun x => match x with | (r, snap) => w.heap.read r == snap) = true := by
    rw [List.all_eq_true]
    intro p hp
    obtain ⟨r, snap⟩ := p
    simpa using (hinv.2.1 _ (List.mem_append.2 (Or.inr hp))).2
  have h3 : ((w.heap.cells.drop i.arts.length).take (i.pluginConfigs.length + i.steps.length) ==
      i.pluginConfigs ++ i.steps.map (·.md)) = true := by
    obtain ⟨t, ht⟩ := hinv.1
    have := drop_take_mid (i.arts.map (·.ann)) (i.pluginConfigs ++ i.steps.map (·.md)) t i.arts.length
      (i.pluginConfigs.length + i.steps.length) (by simp) (by simp)
    simp only [← ht, initCells, List.append_assoc] at this ⊢
    simp only [this, beq_self_eq_true]
  simp only [observe, h0, h1, h1p, h3, Bool.and_self, beq_self_eq_true]

def stepOk (i : Input) (s : Step) : Bool :=
  distinctKeys s.md && decide (s.to < i.arts.length) && decide (s.target < i.arts.length) &&
    decide (s.cfg < i.pluginConfigs.length)

theorem runSteps_spec (i : Input) (hn : 0 < i.arts.length) : ∀ (ss : List Step) (w : World), Inv i w →
    (ss.all (stepOk i)) = true → runSteps i w ss = specSteps i ss w.tag w.sigs := by
  intro ss
  induction ss with
  | nil => intro w _ _; rfl
  | cons s ss ih =>
    intro w hinv hwf
    simp only [List.all_cons, Bool.and_eq_true, stepOk, decide_eq_true_eq] at hwf
    obtain ⟨⟨⟨⟨hd, hto⟩, htarget⟩, hcf⟩, hrest⟩ := hwf
    have hrest' : (ss.all (stepOk i)) = true := hrest
    cases hop : s.op with
    | sign =>
      obtain ⟨hinv', _, htag, hs, ht⟩ := signOCI_spec i w s hinv hn hd htarget hcf
      simp only [runSteps, specSteps, hop]
      rw [ih _ hinv' hrest', htag, hs]
      have hobs := observe_of_Inv i (signOCI i w s).1 (signOCI i w s).2 hinv'
      rw [htag] at hobs
      rw [hobs, hs, ht]
      simp only [expectedTrace, expectedObs, Option.map_map]
      congr 1
      cases reachesPush i w.tag s with
      | none => rfl
      | some k => simp only [Option.bind_some, Option.map_some]; cases payloadOf (signerOf i s) (requested i s k) <;> rfl
    | tagTo =>
      simp only [runSteps, specSteps, hop]
      exact ih _ (Inv_retag hinv (some s.to) (by intro k hk; cases hk; exact hto)) hrest'
    | untag =>
      simp only [runSteps, specSteps, hop]
      exact ih _ (Inv_retag hinv none (by intro k hk; cases hk)) hrest'

theorem Inv_init (i : Input) (htag : ∀ k, i.tag = some k → k < i.arts.length) : Inv i (initWorld i) :=
  ⟨List.prefix_refl _, by intro p hp; simp [initWorld] at hp, htag⟩

theorem wf_parts (i : Input) (hwf : wf i = true) :
    0 < i.arts.length ∧ (∀ k, i.tag = some k → k < i.arts.length) ∧ (i.steps.all (stepOk i)) = true := by
  simp only [wf, Bool.and_eq_true, decide_eq_true_eq] at hwf
  obtain ⟨⟨⟨h1, h2⟩, h3⟩, _⟩ := hwf
  refine ⟨h1, ?_, h3⟩
  intro k hk
  rw [hk] at h2
  simpa using h2

/-- the caller's PluginConfig map a step passes has pairwise different keys -/
theorem wf_cfg_distinct (i : Input) (hwf : wf i = true) (s : Step) (_hs : s ∈ i.steps) : distinctKeys (cfgOf i s) = true := by
  simp only [wf, Bool.and_eq_true] at hwf
  have h4 := hwf.2
  unfold cfgOf
  rw [List.getD_eq_getElem?_getD]
  cases hg : i.pluginConfigs[s.cfg]? with
  | none => rfl
  | some m =>
    simp only [Option.getD_some]
    exact (List.all_eq_true.1 h4) m (List.mem_of_getElem? hg)

/-- **history independence**: what each signing call of a history shows is a function of the input, that call,
what the tag names at that moment and the signatures pushed before - nothing an earlier call did to maps, and
nothing an earlier call resolved, can be seen by a later one. -/
theorem run_eq_spec (i : Input) (hwf : wf i = true) :
    run i = { calls := specSteps i i.steps i.tag (i.arts.map (fun _ => 0)) } := by
  obtain ⟨hn, htag, hsteps⟩ := wf_parts i hwf
  unfold run
  rw [runSteps_spec i hn i.steps (initWorld i) (Inv_init i htag) hsteps]
  rfl

/-! ### the property -/

def allTrue : CallVerdict := ⟨true, true, true, true, true, true, true, true, true, true⟩

theorem reachesPush_signer {i : Input} {tag : Option Nat} {c : Step} {k : Nat} (h : reachesPush i tag c = some k) :
    reachesSigner i tag c = some k ∧ delivers i c k = true := by
  unfold reachesPush at h
  cases hr : reachesSigner i tag c with
  | none => simp [hr] at h
  | some k' =>
    simp only [hr] at h
    split at h
    · rename_i hd; cases h; exact ⟨rfl, hd⟩
    · simp at h

theorem callVerdict_expected (i : Input) (tag : Option Nat) (c : Step) (n : List Nat) :
    callVerdict i tag c n (expectedObs i tag c n) = allTrue := by
  -- the clause about the pushed payload, separately
  have hpl : payloadCoversSigned (expectedObs i tag c n) = true := by
    simp only [payloadCoversSigned, expectedObs]
    cases hp : reachesPush i tag c with
    | none => simp
    | some k =>
      obtain ⟨hs, hdl⟩ := reachesPush_signer hp
      simp only [hs, Option.bind_some, Option.map_some]
      cases hpay : payloadOf (signerOf i c) (requested i c k) with
      | none => simp
      | some pay =>
        have := payloadOf_covers _ _ _ hpay
        simp [mkDesc, requested] at this ⊢
        exact this
  unfold callVerdict
  rw [hpl]
  cases ha : optsValid c.opts <;> cases hb : resolvedArt i tag c <;> cases hp : i.repo.push <;>
    simp [allTrue, expectedObs, expectedOk, sigsAfter, pushes, reachesPush, reachesSigner, ha, hb, hp]
  all_goals
    rename_i k
    cases hd : refused i c k <;> cases hdl : delivers i c k <;> simp [hd, hdl]

theorem specSteps_length (i : Input) : ∀ (ss : List Step) (tag : Option Nat) (n : List Nat),
    (specSteps i ss tag n).length = (ss.filter (fun s => s.op == .sign)).length := by
  intro ss
  induction ss with
  | nil => intro _ _; rfl
  | cons s ss ih =>
    intro tag n
    cases hop : s.op <;> simp [specSteps, hop, ih]

theorem allCalls_spec (i : Input) (f : CallVerdict → Bool) (hf : f allTrue = true) :
    ∀ (ss : List Step) (tag : Option Nat) (n : List Nat), allCalls i f ss tag n (specSteps i ss tag n) = true := by
  intro ss
  induction ss with
  | nil => intro _ _; rfl
  | cons s ss ih =>
    intro tag n
    cases hop : s.op with
    | sign =>
      simp only [specSteps, allCalls, hop, callVerdict_expected, hf, Bool.true_and]
      exact ih _ _
    | tagTo => simp only [specSteps, allCalls, hop]; exact ih _ _
    | untag => simp only [specSteps, allCalls, hop]; exact ih _ _

/-- **C11, the whole property**: every clause of `Holds` is true of the model's behaviour, for every repository
behaviour, set of artifacts, signer, option maps and every history of signing calls, tag moves, deletions and
re-creations of any length (hypothesis `wf`: there is an artifact, tag and steps name existing artifacts, the keys of
each UserMetadata map are pairwise different - the driver checks it for every case). -/
theorem model_holds (i : Input) (hwf : wf i = true) : Holds i (run i) = true := by
  rw [run_eq_spec i hwf]
  have h1 := allCalls_spec i (·.signsResolvedPlusMetadata) rfl i.steps i.tag (i.arts.map (fun _ => 0))
  have h2 := allCalls_spec i (·.subjectIsResolved) rfl i.steps i.tag (i.arts.map (fun _ => 0))
  have h3 := allCalls_spec i (·.pushedAnnotationsExact) rfl i.steps i.tag (i.arts.map (fun _ => 0))
  have h4 := allCalls_spec i (·.refusals) rfl i.steps i.tag (i.arts.map (fun _ => 0))
  have h5 := allCalls_spec i (·.frame) rfl i.steps i.tag (i.arts.map (fun _ => 0))
  have h6 := allCalls_spec i (·.oneSignature) rfl i.steps i.tag (i.arts.map (fun _ => 0))
  have h7 := allCalls_spec i (·.succeedsIndependentOfHistory) rfl i.steps i.tag (i.arts.map (fun _ => 0))
  have h8 := allCalls_spec i (·.resolveAsked) rfl i.steps i.tag (i.arts.map (fun _ => 0))
  have h9 := allCalls_spec i (·.signedPayload) rfl i.steps i.tag (i.arts.map (fun _ => 0))
  have h10 := allCalls_spec i (·.pluginConfigMerged) rfl i.steps i.tag (i.arts.map (fun _ => 0))
  simp [Holds, clauses, Clauses.holds, specSteps_length, signSteps, hwf, h1, h2, h3, h4, h5, h6, h7, h8, h9, h10]

/-! ### readable corollaries -/

/-- what the tag names after a prefix of a history: it follows the `tagTo` / `untag` steps - signing never moves it -/
def tagAfter : Option Nat → List Step → Option Nat
  | tag, [] => tag
  | tag, s :: ss =>
    match s.op with
    | .sign => tagAfter tag ss
    | .tagTo => tagAfter (some s.to) ss
    | .untag => tagAfter none ss

/-- the signatures attached to each artifact after a prefix of a history -/
def sigsThrough (i : Input) : Option Nat → List Nat → List Step → List Nat
  | _, sigs, [] => sigs
  | tag, sigs, s :: ss =>
    match s.op with
    | .sign => sigsThrough i tag (sigsAfter i tag s sigs) ss
    | .tagTo => sigsThrough i (some s.to) sigs ss
    | .untag => sigsThrough i none sigs ss

def nSigns (ss : List Step) : Nat := (ss.filter (fun s => s.op == .sign)).length

def noSigs (i : Input) : List Nat := i.arts.map (fun _ => 0)

theorem specSteps_append (i : Input) : ∀ (pre post : List Step) (tag : Option Nat) (sigs : List Nat),
    specSteps i (pre ++ post) tag sigs =
      specSteps i pre tag sigs ++ specSteps i post (tagAfter tag pre) (sigsThrough i tag sigs pre) := by
  intro pre
  induction pre with
  | nil => intro post tag sigs; rfl
  | cons s ss ih =>
    intro post tag sigs
    cases hop : s.op <;> simp [specSteps, tagAfter, sigsThrough, hop, ih]

theorem tagAfter_append (tag : Option Nat) : ∀ (pre post : List Step),
    tagAfter tag (pre ++ post) = tagAfter (tagAfter tag pre) post := by
  intro pre
  induction pre generalizing tag with
  | nil => intro post; rfl
  | cons s ss ih =>
    intro post
    cases hop : s.op <;> simp [tagAfter, hop, ih]

/-- a signing step leaves the tag where it was; a `tagTo` step puts it on its artifact whatever was resolved,
signed or remembered before; `untag` removes it -/
theorem tagAfter_snoc (tag : Option Nat) (pre : List Step) (s : Step) :
    tagAfter tag (pre ++ [s]) =
      (match s.op with | .sign => tagAfter tag pre | .tagTo => some s.to | .untag => none) := by
  rw [tagAfter_append]
  cases hop : s.op <;> simp [tagAfter, hop]

/-- the observation of a signing step anywhere in any history, in closed form -/
theorem call_obs (i : Input) (hwf : wf i = true) {pre post : List Step} {s : Step} {o : CallObs}
    (hsplit : i.steps = pre ++ s :: post) (hs : s.op = .sign) (ho : (run i).calls[nSigns pre]? = some o) :
    o = expectedObs i (tagAfter i.tag pre) s (sigsThrough i i.tag (noSigs i) pre) := by
  rw [run_eq_spec i hwf] at ho
  simp only [hsplit, specSteps_append] at ho
  have hlen : nSigns pre = (specSteps i pre i.tag (i.arts.map fun _ => 0)).length := by
    rw [specSteps_length]; rfl
  rw [hlen, List.getElem?_append_right (Nat.le_refl _), Nat.sub_self] at ho
  simp only [specSteps, hs, List.getElem?_cons_zero] at ho
  exact (Option.some.inj ho).symm

theorem look_none_of_not_any (k : Text) : ∀ m : AnnMap, m.any (fun kv => kv.1 == k) = false → look k m = none := by
  intro m
  induction m with
  | nil => intro _; rfl
  | cons p r ih =>
    intro h
    simp only [List.any_cons, Bool.or_eq_false_iff] at h
    have : ¬ k = p.1 := by
      have := h.1
      intro hk
      simp [hk] at this
    simp [look, this, ih h.2]

/-- the merged map, read key by key: the metadata's value where the metadata has the key, the resolved
descriptor's otherwise -/
theorem look_merged (k : Text) : ∀ (md base : AnnMap), distinctKeys md = true →
    look k (merged base md) = (match look k md with | some v => some v | none => look k base) := by
  intro md
  induction md with
  | nil => intro base _; simp [merged, look]
  | cons p rest ih =>
    intro base hd
    obtain ⟨k1, v1⟩ := p
    simp only [distinctKeys, Bool.and_eq_true, Bool.not_eq_true'] at hd
    rw [merged_cons, ih _ hd.2, look_put]
    by_cases hk : k = k1
    · subst hk
      simp [look, look_none_of_not_any k rest hd.1]
    · simp [look, hk]

/-- **signs exactly what was resolved plus the metadata** - at any position of any history: the descriptor handed
to the signer is the descriptor of the artifact the reference resolves to *at that moment* (media type, digest,
size) whose annotations are the resolved annotations + user metadata; the subject pushed is that resolved
descriptor itself (without the metadata). -/
theorem signs_resolved_plus_metadata (i : Input) (hwf : wf i = true) {pre post : List Step} {s : Step} {o : CallObs}
    (hsplit : i.steps = pre ++ s :: post) (hs : s.op = .sign) (ho : (run i).calls[nSigns pre]? = some o) :
    (∀ d, o.signed = some d → ∃ k, resolvedArt i (tagAfter i.tag pre) s = some k ∧
        d = mkDesc i (k, merged (resolvedAnn i s k) s.md)) ∧
    (∀ d, o.subject = some d → ∃ k, resolvedArt i (tagAfter i.tag pre) s = some k ∧
        d = mkDesc i (k, resolvedAnn i s k)) ∧
    (o.ok = true → o.signed.isSome = true ∧ o.subject.isSome = true ∧ o.returned = .resolved) := by
  rw [call_obs i hwf hsplit hs ho]
  have key : ∀ k, reachesSigner i (tagAfter i.tag pre) s = some k → resolvedArt i (tagAfter i.tag pre) s = some k := by
    intro k hk
    simp only [reachesSigner] at hk
    split at hk
    · split at hk
      · rename_i k' hk'
        split at hk
        · simp at hk
        · simp at hk; rw [hk'] ; simp [hk]
      · simp at hk
    · simp at hk
  have key2 : ∀ k, reachesPush i (tagAfter i.tag pre) s = some k → reachesSigner i (tagAfter i.tag pre) s = some k :=
    fun k hk => (reachesPush_signer hk).1
  refine ⟨?_, ?_, ?_⟩
  · intro d hdd
    simp only [expectedObs] at hdd
    cases hr : reachesSigner i (tagAfter i.tag pre) s with
    | none => simp [hr] at hdd
    | some k => simp [hr] at hdd; exact ⟨k, key k hr, hdd.symm⟩
  · intro d hdd
    simp only [expectedObs] at hdd
    cases hr : reachesPush i (tagAfter i.tag pre) s with
    | none => simp [hr] at hdd
    | some k => simp [hr] at hdd; exact ⟨k, key k (key2 k hr), hdd.symm⟩
  · intro hok
    simp only [expectedObs, expectedOk, Bool.and_eq_true] at hok
    cases hr : reachesPush i (tagAfter i.tag pre) s with
    | none => simp [hr] at hok
    | some k =>
      have hp : i.repo.push = .ok := by simpa using hok.2
      simp [expectedObs, hr, key2 k hr, pushes, hp]

/-- **refusals**: metadata under the reserved prefix, metadata that would overwrite an annotation of the artifact
resolved now, and a digest reference resolving to another digest each end in an error; the signer is not called,
nothing is pushed, the signature counts stay. -/
theorem refusals (i : Input) (hwf : wf i = true) {pre post : List Step} {s : Step} {o : CallObs}
    (hsplit : i.steps = pre ++ s :: post) (hs : s.op = .sign) (ho : (run i).calls[nSigns pre]? = some o)
    (h : hasReserved s = true ∨ digestMismatch s = true ∨
      ∃ k, resolvedArt i (tagAfter i.tag pre) s = some k ∧ collides i s k = true) :
    o.ok = false ∧ o.signed = none ∧ o.subject = none ∧ o.pushAnn = none ∧ o.returned = .zero ∧
    o.sigCounts = sigsThrough i i.tag (noSigs i) pre := by
  have hr : reachesSigner i (tagAfter i.tag pre) s = none := by
    simp only [reachesSigner]
    split
    · split
      · rename_i k hk
        have : refused i s k = true := by
          rcases h with h | h | ⟨k', hk', hc⟩
          · simp [refused, h]
          · simp [refused, h]
          · rw [hk] at hk'; cases hk'; simp [refused, hc]
        simp [this]
      · rfl
    · rfl
  rw [call_obs i hwf hsplit hs ho]
  simp [expectedObs, expectedOk, sigsAfter, pushes, reachesPush, hr]

/-- **frame, as observed**: after every signing call of every history - successful or not - the repository resolves
the tag and every digest exactly as just before the call, every descriptor it handed out is unchanged, and so are the
caller's UserMetadata and PluginConfig maps, and so is everything EARLIER pushes produced (the annotation map objects the
repository keeps in its records of the earlier signatures and the callers got back); the signature counts change by the
one push, if any. -/
theorem frame (i : Input) (hwf : wf i = true) {pre post : List Step} {s : Step} {o : CallObs}
    (hsplit : i.steps = pre ++ s :: post) (hs : s.op = .sign) (ho : (run i).calls[nSigns pre]? = some o) :
    o.repoViewSame = true ∧ o.handedSame = true ∧ o.optsSame = true ∧ o.producedSame = true ∧
    o.sigCounts = sigsAfter i (tagAfter i.tag pre) s (sigsThrough i i.tag (noSigs i) pre) := by
  rw [call_obs i hwf hsplit hs ho]
  simp [expectedObs]

/-- **frame, on the heap**: a call leaves every map object that existed before it with exactly the contents it
had - the repository's, the caller's, whatever else - because the metadata merge and the annotation generation
write only into cells they allocated (this is where `facts_merge_allocates_fresh_map` is used); it does not move
the tag; the one other effect is at most one more signature. Holds from any state reachable in a history. -/
theorem frame_heap (i : Input) (w : World) (c : Step) (hinv : Inv i w) (hn : 0 < i.arts.length)
    (hd : distinctKeys c.md = true) (ht : c.target < i.arts.length) (hcf : c.cfg < i.pluginConfigs.length) :
    w.heap.cells <+: (signOCI i w c).1.heap.cells ∧
    (∀ r, validRef w.heap r → (signOCI i w c).1.heap.read r = w.heap.read r) ∧
    (signOCI i w c).1.tag = w.tag ∧
    (signOCI i w c).1.sigs = sigsAfter i w.tag c w.sigs := by
  obtain ⟨_, hp, htag, hs, _⟩ := signOCI_spec i w c hinv hn hd ht hcf
  exact ⟨hp, fun r hv => read_of_prefix hp hv, htag, hs⟩

/-- whether a call succeeds depends on the input, the call and what the tag names now - not on its position, on
what was signed before, or on what the same reference resolved to earlier -/
theorem success_independent_of_history (i : Input) (hwf : wf i = true) {pre post : List Step} {s : Step} {o : CallObs}
    (hsplit : i.steps = pre ++ s :: post) (hs : s.op = .sign) (ho : (run i).calls[nSigns pre]? = some o) :
    o.ok = expectedOk i (tagAfter i.tag pre) s := by
  rw [call_obs i hwf hsplit hs ho]; rfl

/-- **a moved tag is followed**: right after the tag was moved (or recreated) to artifact `mv.to`, signing through a
tag reference hands the signer the descriptor of *that* artifact and attaches the signature to it - whatever the
same reference resolved to, and whatever was signed, earlier in the history. -/
theorem signs_what_the_tag_names_now (i : Input) (hwf : wf i = true) {pre post : List Step} {mv s : Step} {o : CallObs}
    (hsplit : i.steps = pre ++ mv :: s :: post) (hmv : mv.op = .tagTo) (hs : s.op = .sign)
    (href : refArg s.ref = .tag) (hov : optsValid s.opts = true) (hnr : refused i s mv.to = false)
    (ho : (run i).calls[nSigns pre]? = some o) :
    o.signed = some (mkDesc i (mv.to, merged (artAt i mv.to).ann s.md)) ∧
    (o.ok = true → o.subject = some (mkDesc i (mv.to, (artAt i mv.to).ann)) ∧
      o.sigCounts = bump mv.to (sigsThrough i i.tag (noSigs i) pre)) := by
  have hsplit' : i.steps = (pre ++ [mv]) ++ s :: post := by simp [hsplit]
  have hns : nSigns (pre ++ [mv]) = nSigns pre := by simp [nSigns, hmv]
  have htag : tagAfter i.tag (pre ++ [mv]) = some mv.to := by rw [tagAfter_snoc]; simp [hmv]
  have hsigs : sigsThrough i i.tag (noSigs i) (pre ++ [mv]) = sigsThrough i i.tag (noSigs i) pre := by
    have : ∀ (l : List Step) (tag : Option Nat) (sg : List Nat),
        sigsThrough i tag sg (l ++ [mv]) = sigsThrough i tag sg l := by
      intro l
      induction l with
      | nil => intro tag sg; simp [sigsThrough, hmv]
      | cons a l ih => intro tag sg; cases hop : a.op <;> simp [sigsThrough, hop, ih]
    exact this _ _ _
  rw [← hns] at ho
  rw [call_obs i hwf hsplit' hs ho, htag, hsigs]
  have hra : resolvedArt i (some mv.to) s = some mv.to := by simp [resolvedArt, href]
  have hann : resolvedAnn i s mv.to = (artAt i mv.to).ann := by simp [resolvedAnn, href]
  have hrs : reachesSigner i (some mv.to) s = some mv.to := by simp [reachesSigner, hov, hra, hnr]
  refine ⟨by simp [expectedObs, hrs, hann], ?_⟩
  intro hok
  simp only [expectedObs, expectedOk, Bool.and_eq_true] at hok
  cases hk : delivers i s mv.to with
  | false => simp [reachesPush, hrs, hk] at hok
  | true =>
    have hp : i.repo.push = .ok := by simpa using hok.2
    simp [expectedObs, sigsAfter, pushes, reachesPush, hk, hrs, hann, hp]

/-- **a deleted tag is gone**: right after the tag was deleted, signing through a tag reference fails before the
signer is called, however often the reference resolved before. -/
theorem deleted_tag_is_not_signed (i : Input) (hwf : wf i = true) {pre post : List Step} {mv s : Step} {o : CallObs}
    (hsplit : i.steps = pre ++ mv :: s :: post) (hmv : mv.op = .untag) (hs : s.op = .sign)
    (href : refArg s.ref = .tag) (ho : (run i).calls[nSigns pre]? = some o) :
    o.ok = false ∧ o.signed = none ∧ o.subject = none ∧ o.returned = .zero := by
  have hsplit' : i.steps = (pre ++ [mv]) ++ s :: post := by simp [hsplit]
  have hns : nSigns (pre ++ [mv]) = nSigns pre := by simp [nSigns, hmv]
  have htag : tagAfter i.tag (pre ++ [mv]) = none := by rw [tagAfter_snoc]; simp [hmv]
  rw [← hns] at ho
  rw [call_obs i hwf hsplit' hs ho, htag]
  have hra : resolvedArt i none s = none := by simp [resolvedArt, href]
  have hrs : reachesSigner i none s = none := by
    simp only [reachesSigner, hra]; split <;> rfl
  simp [expectedObs, expectedOk, pushes, reachesPush, hrs]

/-- `n` more signatures on artifact `k` -/
def bumpN (k : Nat) : Nat → List Nat → List Nat
  | 0, l => l
  | n + 1, l => bumpN k n (bump k l)

theorem bumpN_succ (k : Nat) : ∀ (n : Nat) (l : List Nat), bumpN k (n + 1) l = bump k (bumpN k n l) := by
  intro n
  induction n with
  | zero => intro l; rfl
  | succ n ih => intro l; rw [bumpN, ih]; rfl

theorem bump_length (k : Nat) : ∀ l : List Nat, (bump k l).length = l.length := by
  intro l
  induction l generalizing k with
  | nil => cases k <;> rfl
  | cons x r ih => cases k <;> simp [bump, ih]

theorem bump_getD (k : Nat) : ∀ l : List Nat, k < l.length → (bump k l).getD k 0 = l.getD k 0 + 1 := by
  intro l
  induction l generalizing k with
  | nil => intro h; simp at h
  | cons x r ih =>
    intro h
    cases k with
    | zero => simp [bump]
    | succ k =>
      have := ih k (by simpa using h)
      simpa [bump] using this

/-- `n` pushes onto artifact `k` leave it with `n` more signatures -/
theorem bumpN_getD (k : Nat) : ∀ (n : Nat) (l : List Nat), k < l.length → (bumpN k n l).getD k 0 = l.getD k 0 + n := by
  intro n
  induction n with
  | zero => intro l _; rfl
  | succ n ih =>
    intro l h
    rw [bumpN, ih _ (by rw [bump_length]; exact h), bump_getD k l h]
    omega

theorem sigsThrough_replicate (i : Input) (tag : Option Nat) (s : Step) (hs : s.op = .sign) (k : Nat)
    (hp : pushes i tag s = some k) : ∀ (n : Nat) (sg : List Nat),
    sigsThrough i tag sg (List.replicate n s) = bumpN k n sg := by
  intro n
  induction n with
  | zero => intro sg; rfl
  | succ n ih =>
    intro sg
    simp only [List.replicate_succ, sigsThrough, hs, sigsAfter, hp, ih, bumpN]

theorem tagAfter_replicate (tag : Option Nat) (s : Step) (hs : s.op = .sign) : ∀ n, tagAfter tag (List.replicate n s) = tag := by
  intro n
  induction n with
  | zero => rfl
  | succ n ih => simp [List.replicate_succ, tagAfter, hs, ih]

/-- **idempotent history**: any number of signing calls with the same reference and options, where the call
succeeds in the first place, succeeds every time, and the `j`-th of them has attached `j+1` signatures to the artifact
the reference resolves to. -/
theorem idempotent_history (i : Input) (hwf : wf i = true) (s : Step) (n : Nat) (hs : s.op = .sign)
    (hsteps : i.steps = List.replicate n s) (hok : expectedOk i i.tag s = true) :
    (run i).calls.length = n ∧
    ∃ k, resolvedArt i i.tag s = some k ∧
      ∀ j o, (run i).calls[j]? = some o → o.ok = true ∧ o.sigCounts = bumpN k (j + 1) (noSigs i) := by
  simp only [expectedOk, Bool.and_eq_true] at hok
  have hpk : i.repo.push = .ok := by simpa using hok.2
  cases hrp : reachesPush i i.tag s with
  | none => simp [hrp] at hok
  | some k =>
    have hp : pushes i i.tag s = some k := by simp [pushes, hpk, hrp]
    have hra : resolvedArt i i.tag s = some k := by
      have h1 : reachesSigner i i.tag s = some k := (reachesPush_signer hrp).1
      simp only [reachesSigner] at h1
      split at h1
      · split at h1
        · rename_i k' hk'
          split at h1
          · simp at h1
          · simp at h1; rw [hk']; simp [h1]
        · simp at h1
      · simp at h1
    have hlen : (run i).calls.length = n := by
      rw [run_eq_spec i hwf, hsteps]
      simp [specSteps_length, hs]
    refine ⟨hlen, k, hra, ?_⟩
    intro j o ho
    have hj : j < n := by
      have := (List.getElem?_eq_some_iff.1 ho).1
      omega
    have hsplit : i.steps = List.replicate j s ++ s :: List.replicate (n - j - 1) s := by
      rw [hsteps]
      have : n = j + ((n - j - 1) + 1) := by omega
      conv => lhs; rw [this]
      rw [← List.replicate_append_replicate, List.replicate_succ]
    have hns : nSigns (List.replicate j s) = j := by simp [nSigns, hs]
    rw [← hns] at ho
    rw [call_obs i hwf hsplit hs ho, tagAfter_replicate _ _ hs, sigsThrough_replicate i i.tag s hs k hp]
    refine ⟨by simp [expectedObs, expectedOk, hrp, hpk], ?_⟩
    simp only [expectedObs, sigsAfter, hp, bumpN_succ]

theorem facts_annotation_keys :
    Facts.c11ThumbprintKey ≠ Facts.c11CreatedKey ∧ isReserved Facts.c11ThumbprintKey = true ∧
    isReserved Facts.c11CreatedKey = false := by decide

/-- **the pushed annotations, exactly**: the plugin's annotations with the thumbprint list (JSON array of the
SHA-256 hex of each chain certificate, in chain order) and `created` (signing time, RFC 3339, UTC) written over
them - nothing else. -/
theorem pushed_annotations_exact (i : Input) (hwf : wf i = true) {pre post : List Step} {s : Step} {o : CallObs}
    (hsplit : i.steps = pre ++ s :: post) (hs : s.op = .sign) (ho : (run i).calls[nSigns pre]? = some o)
    (a : AnnMap) (ha : o.pushAnn = some a) :
    a = expectedPushAnn (signerOf i s) ∧
    look Facts.c11ThumbprintKey a = some (jsonArray (signerOf i s).thumbs) ∧
    look Facts.c11CreatedKey a = some (rfc3339 (signerOf i s).time) ∧
    ∀ k, k ≠ Facts.c11ThumbprintKey → k ≠ Facts.c11CreatedKey → look k a = look k (signerOf i s).pluginAnn := by
  rw [call_obs i hwf hsplit hs ho] at ha
  have hae : a = expectedPushAnn (signerOf i s) := by
    simp only [expectedObs] at ha
    cases hr : reachesPush i (tagAfter i.tag pre) s with
    | none => simp [hr] at ha
    | some k => simp [hr] at ha; exact ha.symm
  subst hae
  refine ⟨rfl, ?_, ?_, ?_⟩
  · simp [expectedPushAnn, look_put, facts_annotation_keys.1]
  · simp [expectedPushAnn, look_put]
  · intro k h1 h2
    simp [expectedPushAnn, look_put, h1, h2]

/-- **what is inside the pushed envelope**: whatever signer signs - the library's own, a plugin that builds the envelope
itself - a signature is attached only when the target artifact inside the envelope is the descriptor the signer was
asked to sign (same media type, digest, size) with every one of its annotations - resolved annotations AND user
metadata, blank values included - under its value. -/
theorem signed_payload_covers (i : Input) (hwf : wf i = true) {pre post : List Step} {s : Step} {o : CallObs}
    (hsplit : i.steps = pre ++ s :: post) (hs : s.op = .sign) (ho : (run i).calls[nSigns pre]? = some o)
    (p : DescObs) (hp : o.payload = some p) :
    ∃ k pay, resolvedArt i (tagAfter i.tag pre) s = some k ∧ p = mkDesc i (k, pay) ∧
      o.signed = some (mkDesc i (k, requested i s k)) ∧ covers (requested i s k) pay = true ∧ o.subject.isSome = true := by
  rw [call_obs i hwf hsplit hs ho] at hp ⊢
  simp only [expectedObs] at hp ⊢
  cases hr : reachesPush i (tagAfter i.tag pre) s with
  | none => simp [hr] at hp
  | some k =>
    obtain ⟨hsg, _⟩ := reachesPush_signer hr
    simp only [hr, Option.bind_some] at hp
    cases hpay : payloadOf (signerOf i s) (requested i s k) with
    | none => simp [hpay] at hp
    | some pay =>
      simp only [hpay, Option.map_some, Option.some.injEq] at hp
      have hra : resolvedArt i (tagAfter i.tag pre) s = some k := by
        simp only [reachesSigner] at hsg
        split at hsg
        · split at hsg
          · rename_i k' hk'
            split at hsg
            · simp at hsg
            · simp at hsg; rw [hk']; simp [hsg]
          · simp at hsg
        · simp at hsg
      exact ⟨k, pay, hra, hp.symm, by simp [hsg, requested], payloadOf_covers _ _ _ hpay, by simp [hr]⟩

/-- **an envelope plugin that loses or changes an annotation is refused**: when there is an annotation to lose, nothing
is pushed and the call fails. -/
theorem unfaithful_plugin_is_refused (i : Input) (hwf : wf i = true) {pre post : List Step} {s : Step} {o : CallObs}
    (hsplit : i.steps = pre ++ s :: post) (hs : s.op = .sign) (ho : (run i).calls[nSigns pre]? = some o)
    (himpl : (signerOf i s).impl = .pluginEnv)
    (hbad : ∀ k, covers (requested i s k) (applyFaith (signerOf i s).faith (requested i s k)) = false) :
    o.ok = false ∧ o.subject = none ∧ o.payload = none ∧ o.pushAnn = none ∧
    o.sigCounts = sigsThrough i i.tag (noSigs i) pre := by
  have hnone : ∀ k, payloadOf (signerOf i s) (requested i s k) = none := by
    intro k
    unfold payloadOf
    simp only [himpl]
    cases hf : (signerOf i s).faith <;> simp [hf] <;> (have := hbad k; rw [hf] at this; simp [this])
  have hrp : reachesPush i (tagAfter i.tag pre) s = none := by
    unfold reachesPush
    cases reachesSigner i (tagAfter i.tag pre) s with
    | none => rfl
    | some k => simp [delivers, hnone k]
  rw [call_obs i hwf hsplit hs ho]
  simp [expectedObs, expectedOk, sigsAfter, pushes, hrp]

/-- **what a plugin is told**: during a call that reaches a plugin signer, every request carries the signer's own
config overridden by the entries of the caller's PluginConfig map as it is NOW - a function of this signer and this
map alone: nothing an earlier call passed, and no other signer's defaults, can be in it. -/
theorem plugin_sees_defaults_overridden_by_call (i : Input) (hwf : wf i = true) {pre post : List Step} {s : Step} {o : CallObs}
    (hsplit : i.steps = pre ++ s :: post) (hs : s.op = .sign) (ho : (run i).calls[nSigns pre]? = some o)
    (c : AnnMap) (hc : o.pluginCfg = some c) :
    c = merged (signerOf i s).config (cfgOf i s) ∧ isPlugin (signerOf i s).impl = true ∧
    ∀ k, look k c = (match look k (cfgOf i s) with | some v => some v | none => look k (signerOf i s).config) := by
  have hdist : distinctKeys (cfgOf i s) = true → ∀ k, look k (merged (signerOf i s).config (cfgOf i s)) =
      (match look k (cfgOf i s) with | some v => some v | none => look k (signerOf i s).config) :=
    fun hd k => look_merged k _ _ hd
  rw [call_obs i hwf hsplit hs ho] at hc
  simp only [expectedObs] at hc
  cases hr : reachesSigner i (tagAfter i.tag pre) s with
  | none => simp [hr] at hc
  | some k =>
    simp only [hr, Option.bind_some] at hc
    by_cases hpl : isPlugin (signerOf i s).impl = true
    · simp only [hpl, if_true, Option.some.injEq] at hc
      subst hc
      refine ⟨rfl, hpl, ?_⟩
      intro k'
      -- read key by key; needs the caller's map to have pairwise different keys, as every Go map has
      by_cases hd : distinctKeys (cfgOf i s) = true
      · exact hdist hd k'
      · exact absurd (wf_cfg_distinct i hwf s (by rw [hsplit]; simp)) hd
    · simp [hpl] at hc

/-! ### Go's random map iteration order does not matter -/

theorem mem_of_look {k v : Text} : ∀ {m : AnnMap}, look k m = some v → (k, v) ∈ m := by
  intro m
  induction m with
  | nil => intro h; simp [look] at h
  | cons p r ih =>
    obtain ⟨k1, v1⟩ := p
    intro h
    by_cases hk : k = k1
    · subst hk
      simp [look] at h
      simp [h]
    · simp [look, hk] at h
      exact List.mem_cons_of_mem _ (ih h)

theorem look_of_mem {k v : Text} : ∀ {m : AnnMap}, distinctKeys m = true → (k, v) ∈ m → look k m = some v := by
  intro m
  induction m with
  | nil => intro _ h; simp at h
  | cons p r ih =>
    obtain ⟨k1, v1⟩ := p
    intro hd h
    simp only [distinctKeys, Bool.and_eq_true, Bool.not_eq_true'] at hd
    rcases List.mem_cons.1 h with hm | hm
    · injection hm with h1 h2
      subst h1; subst h2
      simp [look]
    · have hk : ¬ k = k1 := by
        intro hk
        subst hk
        have hn := look_none_of_not_any k r hd.1
        rw [ih hd.2 hm] at hn
        simp at hn
      simp [look, hk, ih hd.2 hm]

theorem look_perm {m m' : AnnMap} (hp : m.Perm m') (hd : distinctKeys m = true) (hd' : distinctKeys m' = true)
    (k : Text) : look k m = look k m' := by
  cases h : look k m with
  | some v => exact (look_of_mem hd' (hp.mem_iff.1 (mem_of_look h))).symm
  | none =>
    cases h' : look k m' with
    | none => rfl
    | some v =>
      have hs := look_of_mem hd (hp.mem_iff.2 (mem_of_look h'))
      rw [h] at hs
      simp at hs

/-- `addUserMetadataToDescriptor` ranges over a Go map, i.e. in arbitrary order. For any two orders of the same
metadata the merge succeeds or fails alike and, when it succeeds, yields the same map (read key by key). -/
theorem merge_order_irrelevant (h : Heap) (ann : MapRef) (md md' : AnnMap) (hv : validRef h ann)
    (hp : md.Perm md') (hd : distinctKeys md = true) (hd' : distinctKeys md' = true) :
    (addUserMetadata h ann md).2.2 = (addUserMetadata h ann md').2.2 ∧
    ((addUserMetadata h ann md).2.2 = true → ∀ k,
      look k ((addUserMetadata h ann md).1.read (addUserMetadata h ann md).2.1) =
      look k ((addUserMetadata h ann md').1.read (addUserMetadata h ann md').2.1)) := by
  obtain ⟨_, _, hok, hm⟩ := addUserMetadata_spec h ann md hv hd
  obtain ⟨_, _, hok', hm'⟩ := addUserMetadata_spec h ann md' hv hd'
  have hsame : (addUserMetadata h ann md).2.2 = (addUserMetadata h ann md').2.2 := by
    rw [hok, hok', hp.any_eq, hp.any_eq]
  refine ⟨hsame, ?_⟩
  intro hokt k
  rw [hm hokt, hm' (hsame ▸ hokt), look_merged k md _ hd, look_merged k md' _ hd', look_perm hp hd hd' k]

/-! ### the ties to the Go source (regenerated on every run) -/

/-- the signer gets the merged descriptor, the push gets the one `Resolve` returned, and they are different variables -/
theorem facts_dataflow :
    Facts.c11MergeInput = Facts.c11ResolveVar ∧ Facts.c11SignerDescArg = Facts.c11MergeOutput ∧
    Facts.c11PushSubjectArg = Facts.c11ResolveVar ∧ Facts.c11MergeOutput ≠ Facts.c11ResolveVar := by decide

theorem facts_generated_annotations :
    Facts.c11GeneratedKeys = ["envelope.AnnotationX509ChainThumbprint", "ocispec.AnnotationCreated"] ∧
    Facts.c11ThumbprintHash = "sha256.Sum256(cert.Raw)" ∧ Facts.c11CreatedLayout = "time.RFC3339" ∧
    Facts.c11SigningTimeIsUTC = true := by decide

theorem facts_merge_loop : Facts.c11MergeLoopWrites = 1 ∧ Facts.c11MergeDescByValue = true := by decide

/-- the merge loop never writes through a nil map: a non-empty metadata gives the descriptor a map of its own -/
theorem write_target_is_a_map (h : Heap) (ann : MapRef) (md : AnnMap) (hne : md ≠ []) :
    (addUserMetadata h ann md).2.1 = some h.cells.length := by
  unfold addUserMetadata
  have : md.isEmpty = false := by cases md <;> simp_all
  simp [this, facts_merge_allocates_fresh_map, alloc_addr]

/-! ### non-vacuity -/

def exArtA : Art := { mediaType := ['m'], digest := ['A'], size := 3, ann := [(['a'], ['1'])] }
def exArtB : Art := { mediaType := ['m'], digest := ['B'], size := 4, ann := [(['c'], ['3'])] }
def exSign (r : Ref) (md : AnnMap) : Step := { op := .sign, to := 0, ref := r, target := 0, md := md, opts := .jws, signer := 0, cfg := 0 }
def exTagTo (k : Nat) : Step := { op := .tagTo, to := k, ref := .tag, target := 0, md := [], opts := .jws, signer := 0, cfg := 0 }
def exUntag : Step := { op := .untag, to := 0, ref := .tag, target := 0, md := [], opts := .jws, signer := 0, cfg := 0 }
def exSigner : SignerCfg :=
  { impl := .mock, kind := .ok, faith := .faithful, config := [], thumbs := [['a', 'b']], time := 951782400, pluginAnn := [] }
def exInputWith (signers : List SignerCfg) (cfgs : List AnnMap) (steps : List Step) : Input :=
  { backend := "mock", arts := [exArtA, exArtB], tag := some 0,
    repo := { aliased := true, plainByDigest := false, anyDigest := true, push := .ok },
    signers := signers, pluginConfigs := cfgs, steps := steps }
def exInput (steps : List Step) : Input := exInputWith [exSigner] [[]] steps
/-- the same step, signed by signer 1 -/
def bySigner1 (s : Step) : Step := { s with signer := 1 }
def exPlugin (impl : Impl) (faith : Faith) (config : AnnMap) : SignerCfg := { exSigner with impl := impl, faith := faith, config := config }

/-- signing the same tag three times with the same metadata succeeds three times -/
example : ((run (exInput (List.replicate 3 (exSign .fullTag [(['b'], ['2'])])))).calls.map (fun o => (o.ok, o.sigCounts))) =
    [(true, [1, 0]), (true, [2, 0]), (true, [3, 0])] := by decide

example : ((run (exInput [exSign .fullTag [(['b'], ['2'])]])).calls.map (·.signed)) =
    [some { mediaType := ['m'], digest := ['A'], size := 3, ann := [(['a'], ['1']), (['b'], ['2'])] }] := by decide

/-- the tag is moved between two uses of the same reference with the same options: the second call signs what the
tag names now; after the tag is deleted the call fails; after it is recreated the call signs again -/
example : ((run (exInput [exSign .fullTag [], exTagTo 1, exSign .fullTag [], exUntag, exSign .fullTag [],
      exTagTo 0, exSign .fullTag []])).calls.map (fun o => (o.ok, o.signed.map (·.digest), o.sigCounts))) =
    [(true, some ['A'], [1, 0]), (true, some ['B'], [1, 1]), (false, none, [1, 1]), (true, some ['A'], [2, 1])] := by decide

example : ((run (exInput [exSign .digest []])).calls.map (·.pushAnn)) =
    [some [(Facts.c11ThumbprintKey, "[\"ab\"]".toList), (Facts.c11CreatedKey, "2000-02-29T00:00:00Z".toList)]] := by decide

/-- a collision, a reserved key and a digest mismatch are refused, and a later good call is unaffected -/
example : ((run (exInput [exSign .tag [(['a'], ['2'])], exSign .tag [("io.cncf.notary.x".toList, [])],
      exSign .fullOtherDigest [], exSign .tag [(['b'], ['2'])]])).calls.map (fun o => (o.ok, o.sigCounts))) =
    [(false, [0, 0]), (false, [0, 0]), (false, [0, 0]), (true, [1, 0])] := by decide

/-- user metadata with a BLANK value, signed by the library's own signer: the blank entry is in the payload -/
example : ((run (exInputWith [exPlugin .generic .faithful []] [[]] [exSign .tag [(['r'], [])]])).calls.map (·.payload)) =
    [some { mediaType := ['m'], digest := ['A'], size := 3, ann := [(['a'], ['1']), (['r'], [])] }] := by decide

/-- an envelope plugin that drops the annotations is refused; one that adds one is accepted; one that has nothing to
drop (plain digest view, no metadata) is accepted as well -/
example : ((run (exInputWith [exPlugin .pluginEnv .dropAll [], exPlugin .pluginEnv .addOne []] [[]]
      [exSign .tag [(['b'], ['2'])], bySigner1 (exSign .tag [(['b'], ['2'])])])).calls.map
        (fun o => (o.ok, o.signed.isSome, o.payload.isSome))) = [(false, true, false), (true, true, true)] := by decide

example : ((run (exInputWith [exPlugin .pluginEnv .addOne []] [[]] [exSign .tag [(['b'], ['2'])]])).calls.map (·.payload)) =
    [some { mediaType := ['m'], digest := ['A'], size := 3, ann := [(['a'], ['1']), (['b'], ['2']), (addedKey, ['1'])] }] := by decide

example : ((run (exInputWith [exPlugin .pluginEnv .dropAll []] [[]] [{ exSign .digest [] with target := 1 }])).calls.map (·.ok)) =
    [false] := by decide

/-- two plugin signers with defaults of their own, the SAME caller map passed to both: each plugin sees its own
defaults overridden by the caller's entries - the first signer's defaults do not travel -/
example : ((run (exInputWith
      [exPlugin .pluginSig .faithful [(['v'], ['a'])], exPlugin .pluginSig .faithful [(['v'], ['b'])]]
      [[(['t'], ['1'])]]
      [exSign .tag [], bySigner1 (exSign .tag [])])).calls.map (fun o => (o.pluginCfg, o.optsSame))) =
    [(some [(['t'], ['1']), (['v'], ['a'])], true), (some [(['t'], ['1']), (['v'], ['b'])], true)] := by decide

example : Holds (exInput [exSign .tag [(['b'], ['2'])], exTagTo 1, exSign .tag [(['b'], ['2'])]])
    (run (exInput [exSign .tag [(['b'], ['2'])], exTagTo 1, exSign .tag [(['b'], ['2'])]])) = true := by decide

def exObsGood : CallObs :=
  { ok := true, resolveArg := some .tag,
    signed := some { mediaType := ['m'], digest := ['A'], size := 3, ann := [(['a'], ['1'])] },
    subject := some { mediaType := ['m'], digest := ['A'], size := 3, ann := [(['a'], ['1'])] },
    pushAnn := some (expectedPushAnn exSigner),
    payload := some { mediaType := ['m'], digest := ['A'], size := 3, ann := [(['a'], ['1'])] }, pluginCfg := none,
    returned := .resolved, repoViewSame := true, handedSame := true, optsSame := true, producedSame := true, sigCounts := [1, 0] }

/-- `Holds` rejects the behaviour of the code before 303ff26: metadata written into the repository's map
(subject carries it, repository view changed), second call refused -/
example : Holds (exInput [exSign .tag [(['b'], ['2'])], exSign .tag [(['b'], ['2'])]])
    { calls := [
      { exObsGood with
        signed := some { mediaType := ['m'], digest := ['A'], size := 3, ann := [(['a'], ['1']), (['b'], ['2'])] },
        subject := some { mediaType := ['m'], digest := ['A'], size := 3, ann := [(['a'], ['1']), (['b'], ['2'])] },
        payload := some { mediaType := ['m'], digest := ['A'], size := 3, ann := [(['a'], ['1']), (['b'], ['2'])] },
        repoViewSame := false, handedSame := false },
      { ok := false, resolveArg := some .tag, signed := none, subject := none, pushAnn := none, payload := none,
        pluginCfg := none, returned := .zero,
        repoViewSame := false, handedSame := false, optsSame := true, producedSame := true, sigCounts := [1, 0] }] } = false := by decide

/-- `Holds` rejects a repository client that remembers what a reference resolved to: after the tag moved to B the
second call still signs A and attaches the signature to A - and names the clauses -/
example : (clauses (exInput [exSign .tag [], exTagTo 1, exSign .tag []])
    { calls := [exObsGood, { exObsGood with sigCounts := [2, 0] }] }).failed =
    ["signs_resolved_plus_metadata", "subject_is_resolved_descriptor", "one_signature_per_push",
     "signed_payload_covers_resolved_plus_metadata"] := by decide

/-- `Holds` rejects a pushed envelope whose payload lost the (blank) user metadata, although the signer was handed
the full descriptor -/
example : (clauses (exInputWith [exPlugin .generic .faithful []] [[]] [exSign .tag [(['r'], [])]])
    { calls := [{ exObsGood with
        signed := some { mediaType := ['m'], digest := ['A'], size := 3, ann := [(['a'], ['1']), (['r'], [])] } }] }).failed =
    ["signed_payload_covers_resolved_plus_metadata"] := by decide

/-- `Holds` rejects a later call that empties what an earlier push produced (the annotation map the repository keeps
in its record of signature #1 and the caller got back in the manifest descriptor) -/
example : (clauses (exInput [exSign .tag [], exSign .tag []])
    { calls := [exObsGood, { exObsGood with sigCounts := [2, 0], producedSame := false }] }).failed = ["frame"] := by decide

/-- `Holds` rejects signer defaults left behind in the caller's PluginConfig map -/
example : (clauses (exInputWith [exPlugin .pluginSig .faithful [(['v'], ['a'])]] [[(['t'], ['1'])]] [exSign .tag []])
    { calls := [{ exObsGood with pluginCfg := some [(['t'], ['1']), (['v'], ['a'])], optsSame := false }] }).failed =
    ["frame"] := by decide

/-! ### tie to the translated source (`Generated/SrcC11.lean`, re-translated from notation.go on every run) -/

namespace Tie
open NotationModel.Src NotationModel.Src.«notation»

/-! #### `validateSigMediaType`, `validateSignArguments` -/

/-- TIE (translated source): `validateSigMediaType` accepts exactly the two envelope media types. -/
theorem source_validateSigMediaType_refines_model (mt : String) :
    (validateSigMediaType mt).isNone = (mt == jws.MediaTypeEnvelope || mt == cose.MediaTypeEnvelope) := by
  unfold validateSigMediaType
  simp only [Id.run]
  have hjc : (jws.MediaTypeEnvelope == cose.MediaTypeEnvelope) = false ∧ (cose.MediaTypeEnvelope == jws.MediaTypeEnvelope) = false := by decide
  by_cases h1 : mt = jws.MediaTypeEnvelope
  · subst h1
    simp [GoLite.idPure, hjc.1, hjc.2] <;> (try rfl)
  · have a1 : (mt == jws.MediaTypeEnvelope) = false := by simpa using h1
    have a2 : (jws.MediaTypeEnvelope == mt) = false := by simpa using (fun e => h1 e.symm : ¬ jws.MediaTypeEnvelope = mt)
    by_cases h2 : mt = cose.MediaTypeEnvelope
    · subst h2
      simp [GoLite.idPure, hjc.1, hjc.2] <;> (try rfl)
    · have b1 : (mt == cose.MediaTypeEnvelope) = false := by simpa using h2
      have b2 : (cose.MediaTypeEnvelope == mt) = false := by simpa using (fun e => h2 e.symm : ¬ cose.MediaTypeEnvelope = mt)
      have c1 : (mt != jws.MediaTypeEnvelope) = true := by simp [bne, a1]
      have c2 : (mt != cose.MediaTypeEnvelope) = true := by simp [bne, b1]
      simp [GoLite.idPure, a1, a2, b1, b2, c1, c2, h1, h2] <;> (try rfl)

/-- what `validateSignArguments` demands, written out -/
def argsValid (signer : Option Signer) (o : SignerSignOptions) : Bool :=
  signer.isSome && decide (0 ≤ o.ExpiryDuration) && decide (Int.tmod o.ExpiryDuration time.Second = 0) &&
  (o.SignatureMediaType == jws.MediaTypeEnvelope || o.SignatureMediaType == cose.MediaTypeEnvelope)

/-- TIE (translated source): for EVERY signer value and options, `validateSignArguments` returns no error exactly
when the signer is not nil, the expiry is a non-negative whole number of seconds and the media type is one of the two
envelope types (the separate test for the empty media type is subsumed). -/
theorem source_validateSignArguments_refines_model (signer : Option Signer) (o : SignerSignOptions) :
    (validateSignArguments signer o).isNone = argsValid signer o := by
  have hm := source_validateSigMediaType_refines_model o.SignatureMediaType
  unfold validateSignArguments argsValid
  simp only [Id.run]
  have hje : (jws.MediaTypeEnvelope == "") = false ∧ (cose.MediaTypeEnvelope == "") = false ∧
      ("" == jws.MediaTypeEnvelope) = false ∧ ("" == cose.MediaTypeEnvelope) = false := by decide
  -- every combination of the five tests, in whatever order the source makes them
  cases signer <;>
  by_cases h1 : o.ExpiryDuration < 0 <;>
  by_cases h2 : Int.tmod o.ExpiryDuration time.Second = 0 <;>
  by_cases h3 : o.SignatureMediaType = "" <;>
  cases hv : validateSigMediaType o.SignatureMediaType <;>
  (rw [hv] at hm
   have h1' : (0 ≤ o.ExpiryDuration) = ¬ (o.ExpiryDuration < 0) := by simp
   have h3' : ("" == o.SignatureMediaType) = (o.SignatureMediaType == "") := by
     rw [Bool.eq_iff_iff]; constructor <;> (intro h; simp at h ⊢; first | exact h | exact h.symm)
   simp [h1, h1', h2, h3, h3', hv, GoLite.idPure, GoLite.idBind, ← hm, hje.1, hje.2.1, hje.2.2.1, hje.2.2.2] <;>
     (try rfl) <;> (try (simp [h3, hje.1, hje.2.1, hje.2.2.1, hje.2.2.2] at hm)))

/-- the option scenarios of the model, made concrete -/
def optsOf : Opts → Option Signer × SignerSignOptions
  | .jws => (some {}, { SignatureMediaType := jws.MediaTypeEnvelope, ExpiryDuration := 0 })
  | .cose => (some {}, { SignatureMediaType := cose.MediaTypeEnvelope, ExpiryDuration := 24 * 3600 * time.Second })
  | .nilSigner => (none, { SignatureMediaType := jws.MediaTypeEnvelope, ExpiryDuration := 0 })
  | .nilRepo => (some {}, { SignatureMediaType := jws.MediaTypeEnvelope, ExpiryDuration := 0 })
  | .negativeExpiry => (some {}, { SignatureMediaType := jws.MediaTypeEnvelope, ExpiryDuration := -time.Second })
  | .subSecondExpiry => (some {}, { SignatureMediaType := jws.MediaTypeEnvelope, ExpiryDuration := 1500000000 })
  | .emptyMediaType => (some {}, { SignatureMediaType := "", ExpiryDuration := 0 })
  | .unsupportedMediaType => (some {}, { SignatureMediaType := "application/pkcs7-signature", ExpiryDuration := 0 })

/-- the model's `optsValid` is the translated `validateSignArguments` on each scenario (`nilRepo` is the one check
`SignOCI` makes itself, after `validateSignArguments` has passed) -/
theorem source_validateSignArguments_on_scenarios (o : Opts) (h : o ≠ .nilRepo) :
    (validateSignArguments (optsOf o).1 (optsOf o).2).isNone = optsValid o := by
  rw [source_validateSignArguments_refines_model]
  cases o <;> first | (exfalso; exact h rfl) | decide

example : validateSignArguments (some {}) { SignatureMediaType := "application/cose", ExpiryDuration := 1500000000 } =
    some (GoLite.errorf "") := by decide

end Tie

namespace Tie
open NotationModel.Src NotationModel.Src.«notation»

/-! #### `addUserMetadataToDescriptor` -/

abbrev SMap := GoLite.Map String String

/-- the keys of an association list are pairwise different (true of every Go map, in every iteration order) -/
def keysNodup (m : SMap) : Prop := (m.map (·.1)).Nodup

def hasKey (m : SMap) (k : String) : Bool := m.any (fun p => p.1 == k)

theorem lookup_snd (m : SMap) (k : String) : (GoLite.Map.lookup m k).2 = hasKey m k := by
  unfold GoLite.Map.lookup GoLite.Map.get? hasKey
  induction m with
  | nil => simp
  | cons p m ih =>
    by_cases h : (p.1 == k) = true
    · simp [List.find?, h]
    · have h' : (p.1 == k) = false := by simpa using h
      simp only [List.find?, h', List.any_cons, Bool.false_or]
      exact ih

theorem set_new (m : SMap) (k v : String) (h : hasKey m k = false) : GoLite.Map.set m k v = m ++ [(k, v)] := by
  unfold GoLite.Map.set
  unfold hasKey at h
  simp [h]

theorem hasKey_append (m n : SMap) (k : String) : hasKey (m ++ n) k = (hasKey m k || hasKey n k) := by
  simp [hasKey]

/-- `for k, v := range m { fresh[k] = v }` into an empty map copies `m` (same order, even) -/
theorem copy_eq : ∀ (m acc : SMap), keysNodup m → (∀ p ∈ m, hasKey acc p.1 = false) →
    m.foldl (fun b a => GoLite.Map.set b a.1 a.2) acc = acc ++ m := by
  intro m
  induction m with
  | nil => intro acc _ _; simp
  | cons p m ih =>
    intro acc hn hd
    have hp : hasKey acc p.1 = false := hd p (by simp)
    simp only [List.foldl, set_new acc p.1 p.2 hp]
    have hn' : keysNodup m := by
      unfold keysNodup at hn ⊢
      simp only [List.map_cons, List.nodup_cons] at hn
      exact hn.2
    rw [ih (acc ++ [(p.1, p.2)]) hn']
    · simp
    · intro q hq
      rw [hasKey_append, hd q (by simp [hq])]
      have hne : ¬ p.1 = q.1 := by
        unfold keysNodup at hn
        simp only [List.map_cons, List.nodup_cons, List.mem_map, not_exists, not_and] at hn
        exact fun e => hn.1 q hq e.symm
      simp [hasKey, hne]

theorem any_congr_mem {α : Type} {f g : α → Bool} : ∀ {l : List α}, (∀ x ∈ l, f x = g x) → l.any f = l.any g := by
  intro l
  induction l with
  | nil => intro _; rfl
  | cons a l ih =>
    intro h
    simp only [List.any_cons, h a (by simp), ih (fun x hx => h x (by simp [hx]))]

/-- is `k` refused as reserved by the translated table? -/
def srcReserved (k : String) : Bool := reservedAnnotationPrefixes.any (fun p => strings.HasPrefix k p)

/-- one round of the merge loop on (the function's view of the annotations, the caller's map) -/
def srcStep (aliased : Bool) (t : SMap × SMap) (kv : String × String) : Except Unit (SMap × SMap) :=
  if srcReserved kv.1 then .error ()
  else if hasKey t.1 kv.1 then .error ()
  else .ok (GoLite.Map.set t.1 kv.1 kv.2, if aliased then GoLite.Map.set t.2 kv.1 kv.2 else t.2)

/-- a search loop with an early `return`: generic shape of `for _, x := range xs { if p(x) { return r } }` -/
theorem forIn_anyReturn {α R : Type} (xs : List α) (p : α → Bool) (r : α → R) :
    (forIn xs ((none : Option R), ()) (fun x _ => if p x = true then (pure (ForInStep.done (some (r x), ())) : Id _)
      else pure (ForInStep.yield (none, ())))) = pure ((xs.find? p).map r, ()) := by
  induction xs with
  | nil => simp
  | cons x xs ih =>
    rw [List.forIn_cons]
    by_cases hp : p x = true
    · simp [hp]
    · have hp' : p x = false := by simpa using hp
      simp only [hp', Bool.false_eq_true, if_false, pure_bind, ih, List.find?_cons_of_neg (by simpa using hp)]

/-- the merge loop when the function works on a map of its own: the caller's map is never touched, the loop fails
exactly on a reserved or already present key, and otherwise appends the metadata -/
theorem foldE_own : ∀ (md : SMap) (t : SMap × SMap), keysNodup md →
    match GoLite.foldE (srcStep false) md t with
    | .ok t' => t'.2 = t.2 ∧ t'.1 = t.1 ++ md ∧ md.any (fun kv => srcReserved kv.1) = false ∧
        md.any (fun kv => hasKey t.1 kv.1) = false
    | .error (t', _) => t'.2 = t.2 ∧ (md.any (fun kv => srcReserved kv.1) || md.any (fun kv => hasKey t.1 kv.1)) = true := by
  intro md
  induction md with
  | nil => intro t _; simp [GoLite.foldE]
  | cons kv md ih =>
    intro t hn
    have hn' : keysNodup md := by
      unfold keysNodup at hn ⊢
      simp only [List.map_cons, List.nodup_cons] at hn
      exact hn.2
    have hfresh : ∀ q ∈ md, ¬ kv.1 = q.1 := by
      intro q hq
      unfold keysNodup at hn
      simp only [List.map_cons, List.nodup_cons, List.mem_map, not_exists, not_and] at hn
      exact fun e => hn.1 q hq e.symm
    simp only [GoLite.foldE, srcStep]
    by_cases hr : srcReserved kv.1 = true
    · simp [hr]
    · have hr' : srcReserved kv.1 = false := by simpa using hr
      by_cases hk : hasKey t.1 kv.1 = true
      · simp [hr', hk]
      · have hk' : hasKey t.1 kv.1 = false := by simpa using hk
        simp only [hr', hk', Bool.false_eq_true, if_false]
        have := ih (GoLite.Map.set t.1 kv.1 kv.2, t.2) hn'
        rw [set_new _ _ _ hk'] at this ⊢
        have hsame : md.any (fun q => hasKey (t.1 ++ [(kv.1, kv.2)]) q.1) = md.any (fun q => hasKey t.1 q.1) := by
          apply any_congr_mem
          intro q hq
          rw [hasKey_append]
          have := hfresh q hq
          simp [hasKey, this]
        cases hres : GoLite.foldE (srcStep false) md (t.1 ++ [(kv.1, kv.2)], t.2) with
        | ok t' =>
          rw [hres] at this
          simp only [] at this ⊢
          obtain ⟨h1, h2, h3, h4⟩ := this
          refine ⟨h1, by rw [h2]; simp, by simp [hr', h3], ?_⟩
          rw [hsame] at h4
          simp [hk', h4]
        | error e =>
          obtain ⟨t', u⟩ := e
          rw [hres] at this
          simp only [] at this ⊢
          obtain ⟨h1, h2⟩ := this
          rw [hsame] at h2
          refine ⟨h1, ?_⟩
          simp only [List.any_cons, hr', hk', Bool.false_or]
          exact h2

end Tie

namespace Tie
open NotationModel.Src NotationModel.Src.«notation»

theorem srcReserved_find (k : String) :
    srcReserved k = (reservedAnnotationPrefixes.find? (fun p => strings.HasPrefix k p)).isSome := by
  unfold srcReserved
  rw [Bool.eq_iff_iff]
  simp [List.find?_isSome, List.any_eq_true]

/-- the loop state of the merge loop seen from `srcStep`: no early result yet, the descriptor with the annotations
built so far, the caller's map -/
abbrev absSt (desc : ocispec.Descriptor) (t : SMap × SMap) :
    Option (ocispec.Descriptor × Option GoLite.Err × SMap) × ocispec.Descriptor × SMap :=
  (none, { desc with Annotations := t.1 }, t.2)
abbrev stopSt (desc : ocispec.Descriptor) (t : SMap × SMap) (_e : Unit) :
    Option (ocispec.Descriptor × Option GoLite.Err × SMap) × ocispec.Descriptor × SMap :=
  (some ({ desc with Annotations := t.1 }, some (GoLite.errorf ""), t.2), { desc with Annotations := t.1 }, t.2)

/-- what the translated `addUserMetadataToDescriptor` computes, for every descriptor and every metadata map in
every iteration order: (1) the CALLER's annotation map comes back exactly as it went in - also when the call is
refused half-way; (2) the call is refused exactly when a key is reserved or already an annotation;
(3) otherwise the result is the same descriptor with annotations = old annotations ++ metadata. -/
theorem source_addUserMetadataToDescriptor_spec (desc : ocispec.Descriptor) (md : SMap)
    (hd : keysNodup md) (ha : keysNodup desc.Annotations) :
    (addUserMetadataToDescriptor desc md).2.2 = desc.Annotations ∧
    (addUserMetadataToDescriptor desc md).2.1.isSome =
      (md.any (fun kv => srcReserved kv.1) || md.any (fun kv => hasKey desc.Annotations kv.1)) ∧
    ((addUserMetadataToDescriptor desc md).2.1 = none →
      (addUserMetadataToDescriptor desc md).1 = { desc with Annotations := desc.Annotations ++ md }) := by
  unfold addUserMetadataToDescriptor
  simp only [Id.run]
  have hcopy := copy_eq desc.Annotations [] ha (by intro p _; rfl)
  simp only [List.forIn_pure_yield_eq_foldl, hcopy, pure_bind, List.nil_append]
  cases md with
  | nil =>
    -- no metadata: the loop does not run (whether or not a copy was made first)
    simp [GoLite.idPure, GoLite.idBind, GoLite.len, List.forIn_pure_yield_eq_foldl, hcopy]
  | cons a l =>
    -- the guard of the allocation, in whichever way it is spelled
    have g1 : GoLite.len (a :: l) > 0 := by simp [GoLite.len] <;> omega
    have g2 : ¬ GoLite.len (a :: l) = 0 := by omega
    have g3 : (GoLite.len (a :: l) != 0) = true := by simp [bne, g2]
    have g4 : (GoLite.len (a :: l) == 0) = false := by simp [g2]
    have g5 : ¬ GoLite.len (a :: l) ≤ 0 := by omega
    simp only [g1, g2, g3, g4, g5, decide_true, decide_false, if_true, if_false, Bool.not_false, Bool.not_true,
      Bool.false_eq_true, List.forIn_pure_yield_eq_foldl, hcopy, pure_bind, List.nil_append, ne_eq, not_false_eq_true]
    clear g1 g2 g3 g4 g5
    generalize a :: l = md at hd ⊢
    rw [GoLite.forIn_eq_foldE' _ (srcStep false) (absSt desc) (stopSt desc) ?h md _ (desc.Annotations, desc.Annotations) rfl]
    case h =>
      intro a t
      simp only [forIn_anyReturn, pure_bind, srcStep, srcReserved_find, lookup_snd]
      cases hf : reservedAnnotationPrefixes.find? (fun p => strings.HasPrefix a.1 p) <;>
        cases hk : hasKey t.1 a.1 <;> first | rfl | simp [hf, hk, GoLite.errorf, GoLite.idPure, GoLite.idBind]
    have hfold := foldE_own md (desc.Annotations, desc.Annotations) hd
    cases hres : GoLite.foldE (srcStep false) md (desc.Annotations, desc.Annotations) with
    | ok t' =>
      rw [hres] at hfold
      simp only [] at hfold
      obtain ⟨h1, h2, h3, h4⟩ := hfold
      simp [GoLite.idPure, GoLite.idBind, h1, h2, h3, h4]
    | error e =>
      obtain ⟨t', u⟩ := e
      rw [hres] at hfold
      simp only [] at hfold
      obtain ⟨h1, h2⟩ := hfold
      simp [GoLite.idPure, GoLite.idBind, h1, h2]

end Tie

namespace Tie
open NotationModel.Src NotationModel.Src.«notation»

/-- Go strings as the model's texts -/
def toAnn (m : SMap) : AnnMap := m.map (fun p => (p.1.toList, p.2.toList))

/-- the translated table is the extracted table (and hence the prefix the property names: `facts_reserved_prefixes`) -/
theorem reserved_agree : Facts.c11ReservedPrefixes = reservedAnnotationPrefixes.map String.toList := by decide

theorem isReserved_src (k : String) : isReserved k.toList = srcReserved k := by
  unfold isReserved srcReserved
  rw [reserved_agree, List.any_map]
  rfl

theorem beq_toList (a b : String) : (a.toList == b.toList) = (a == b) := by
  rw [Bool.eq_iff_iff]
  simp [String.toList_inj]

theorem look_toAnn (anns : SMap) (k : String) : (look k.toList (toAnn anns)).isSome = hasKey anns k := by
  induction anns with
  | nil => rfl
  | cons p anns ih =>
    have e : toAnn (p :: anns) = (p.1.toList, p.2.toList) :: toAnn anns := rfl
    unfold hasKey at ih ⊢
    rw [e]
    simp only [look, List.any_cons, beq_toList]
    by_cases h : k = p.1
    · simp [h]
    · have hb : (p.1 == k) = false := by simpa using (fun e => h e.symm : ¬ p.1 = k)
      simp only [beq_iff_eq, h, hb, if_false, Bool.false_or]
      exact ih

theorem any_reserved_src (md : SMap) :
    (toAnn md).any (fun kv => isReserved kv.1) = md.any (fun kv => srcReserved kv.1) := by
  show (md.map _).any _ = _
  rw [List.any_map]
  apply any_congr_mem
  intro x _
  simp [Function.comp, isReserved_src]

theorem any_collides_src (anns md : SMap) :
    (toAnn md).any (collidesWith (toAnn anns)) = md.any (fun kv => hasKey anns kv.1) := by
  show (md.map _).any _ = _
  rw [List.any_map]
  apply any_congr_mem
  intro x _
  simp [Function.comp, collidesWith, look_toAnn]

theorem distinctKeys_toAnn : ∀ (md : SMap), keysNodup md → distinctKeys (toAnn md) = true := by
  intro md
  induction md with
  | nil => intro _; rfl
  | cons p md ih =>
    intro hn
    unfold keysNodup at hn
    simp only [List.map_cons, List.nodup_cons, List.mem_map, not_exists, not_and] at hn
    simp only [toAnn, List.map_cons, distinctKeys, Bool.and_eq_true, Bool.not_eq_true', List.any_map, List.any_eq_false]
    refine ⟨?_, ih hn.2⟩
    intro q hq
    have := hn.1 q hq
    simp only [Function.comp, beq_toList]
    simpa using this

theorem look_append (k : Text) : ∀ (a b : AnnMap),
    look k (a ++ b) = (match look k a with | some v => some v | none => look k b) := by
  intro a
  induction a with
  | nil => intro b; rfl
  | cons p a ih =>
    intro b
    by_cases h : k = p.1 <;> simp [look, h, ih]

theorem look_none_of_no_collision (base : AnnMap) (k v : Text) : ∀ (md : AnnMap),
    md.any (collidesWith base) = false → look k md = some v → look k base = none := by
  intro md
  induction md with
  | nil => intro _ h; simp [look] at h
  | cons p md ih =>
    intro hc hl
    simp only [List.any_cons, Bool.or_eq_false_iff] at hc
    by_cases h : k = p.1
    · have := hc.1
      simp only [collidesWith, ← h] at this
      cases hb : look k base with
      | none => rfl
      | some w => simp [hb] at this
    · simp only [look, beq_iff_eq, h, if_false] at hl
      exact ih hc.2 hl

/-- TIE (translated source): `addUserMetadataToDescriptor`, re-translated from notation.go on every run, against the
heap model `addUserMetadata` - for EVERY descriptor and metadata map (keys pairwise different, as in any Go map; every
iteration order), and every heap in which the descriptor's annotation map has these contents:
(1) the CALLER's annotation map is returned by the translated function exactly as it went in - finding F-C11 cannot
    come back without breaking this theorem;
(2) the translated function returns an error exactly when the model refuses;
(3) when they succeed, the annotations of the returned descriptor and the map the model hands to the signer agree
    key by key, and media type, digest and size are those of the descriptor passed in. -/
theorem source_addUserMetadataToDescriptor_refines_model (desc : ocispec.Descriptor) (md : SMap)
    (hd : keysNodup md) (ha : keysNodup desc.Annotations)
    (h : Heap) (ann : MapRef) (hv : validRef h ann) (hr : h.read ann = toAnn desc.Annotations) :
    (addUserMetadataToDescriptor desc md).2.2 = desc.Annotations ∧
    (addUserMetadataToDescriptor desc md).2.1.isNone = (addUserMetadata h ann (toAnn md)).2.2 ∧
    ((addUserMetadata h ann (toAnn md)).2.2 = true →
      (∀ k, look k ((addUserMetadata h ann (toAnn md)).1.read (addUserMetadata h ann (toAnn md)).2.1) =
        look k (toAnn (addUserMetadataToDescriptor desc md).1.Annotations)) ∧
      (addUserMetadataToDescriptor desc md).1.MediaType = desc.MediaType ∧
      (addUserMetadataToDescriptor desc md).1.Digest = desc.Digest ∧
      (addUserMetadataToDescriptor desc md).1.Size = desc.Size) := by
  obtain ⟨s1, s2, s3⟩ := source_addUserMetadataToDescriptor_spec desc md hd ha
  obtain ⟨_, _, m3, m4⟩ := addUserMetadata_spec h ann (toAnn md) hv (distinctKeys_toAnn md hd)
  rw [hr, any_reserved_src, any_collides_src] at m3
  have hsame : (addUserMetadataToDescriptor desc md).2.1.isNone = (addUserMetadata h ann (toAnn md)).2.2 := by
    rw [m3, ← Bool.not_or, ← s2]
    cases (addUserMetadataToDescriptor desc md).2.1 <;> rfl
  refine ⟨s1, hsame, ?_⟩
  intro hok
  have hnone : (addUserMetadataToDescriptor desc md).2.1 = none := by
    rw [hok] at hsame
    simpa using hsame
  rw [s3 hnone, m4 hok, hr]
  refine ⟨?_, rfl, rfl, rfl⟩
  intro k
  have hnc : (toAnn md).any (collidesWith (toAnn desc.Annotations)) = false := by
    rw [any_collides_src]
    rw [hok] at m3
    simp only [Bool.true_eq, Bool.and_eq_true, Bool.not_eq_true'] at m3
    exact m3.2
  have : toAnn (desc.Annotations ++ md) = toAnn desc.Annotations ++ toAnn md := by simp [toAnn]
  rw [this, look_merged k _ _ (distinctKeys_toAnn md hd), look_append]
  cases hm : look k (toAnn md) with
  | none => cases look k (toAnn desc.Annotations) <;> rfl
  | some v => rw [look_none_of_no_collision _ k v _ hnc hm]

/-- the translated function, run: metadata merged behind the existing annotations, the caller's map returned as it was -/
example : addUserMetadataToDescriptor { MediaType := "m", Digest := "d", Size := 3, Annotations := [("a", "1")] } [("b", "2")] =
    ({ MediaType := "m", Digest := "d", Size := 3, Annotations := [("a", "1"), ("b", "2")] }, none, [("a", "1")]) := by decide

example : (addUserMetadataToDescriptor { MediaType := "m", Digest := "d", Size := 3, Annotations := [("a", "1")] }
    [("b", "2"), ("io.cncf.notary#S256", "x")]).2 = (some (GoLite.errorf ""), [("a", "1")]) := by decide

example : (addUserMetadataToDescriptor { MediaType := "m", Digest := "d", Size := 3, Annotations := [("a", "1")] }
    [("b", "2"), ("a", "1")]).2 = (some (GoLite.errorf ""), [("a", "1")]) := by decide

end Tie

namespace Tie
open NotationModel.Src NotationModel.Src.«notation»

/-! #### `generateAnnotations` -/

/-- the hand-copied key constants of `Src/TypesC11.lean` are the values the fact extractor reads from the source -/
theorem keys_agree : envelope.AnnotationX509ChainThumbprint.toList = Facts.c11ThumbprintKey ∧
    ocispec.AnnotationCreated.toList = Facts.c11CreatedKey := by decide

/-- SHA-256 (oracle) of each certificate of the chain, hex encoded (oracle), in chain order -/
def thumbsOf (env : AnnEnv) (si : signature.SignerInfo) : List String :=
  si.CertificateChain.map (fun c => env.hex (env.sum256 c.Raw))

theorem foldl_snoc {α β : Type} (f : α → β) : ∀ (l : List α) (acc : List β),
    l.foldl (fun b a => b ++ [f a]) acc = acc ++ l.map f := by
  intro l
  induction l with
  | nil => intro acc; simp
  | cons a l ih => intro acc; simp [List.foldl, ih]

/-- what `generateAnnotations` returns and what it does to the caller's map, spelled out -/
def genSpec (env : AnnEnv) (si? : Option signature.SignerInfo) (ann : SMap) (annNil : Bool) : SMap × Option GoLite.Err × SMap :=
  match si? with
  | none => ([], some (GoLite.errorf ""), ann)
  | some si =>
    match env.marshal (thumbsOf env si) with
    | .error e => ([], some e, ann)
    | .ok val =>
      let a1 := GoLite.Map.set (if annNil then [] else ann) envelope.AnnotationX509ChainThumbprint val
      match env.signingTime (some si) with
      | .error e => ([], some e, if annNil then ann else a1)
      | .ok t =>
        let a2 := GoLite.Map.set a1 ocispec.AnnotationCreated (t.Format time.RFC3339)
        (a2, none, if annNil then ann else a2)

/-- TIE (translated source): `generateAnnotations`, re-translated from notation.go on every run, for EVERY signer
info, plugin annotation map and oracle behaviour: the thumbprint list is built from every certificate of the chain in
chain order; the thumbprint key and then the created key are written OVER whatever the given annotations hold under
these keys (a nil map is replaced by an empty one first); nothing else is written; an error returns no map. The third
component says what happens to the CALLER's map (signer.PluginAnnotations()): it is written in place when it is not
nil - also when the signing time turns out to be missing after the first write. -/
theorem source_generateAnnotations_refines_model (env : AnnEnv) (si? : Option signature.SignerInfo) (ann : SMap) (annNil : Bool) :
    generateAnnotations env si? ann annNil = genSpec env si? ann annNil := by
  unfold generateAnnotations genSpec
  simp only [Id.run]
  cases si? with
  | none => first | rfl | (cases annNil <;> simp [GoLite.idPure, GoLite.idBind, GoLite.errorf] <;> rfl)
  | some si =>
    simp only [Option.isNone_some, Bool.false_eq_true, if_false, GoLite.deref, Option.getD_some]
    have hth : List.foldl (fun b (a : signature.Cert) => b ++ [env.hex (env.sum256 a.Raw)]) default si.CertificateChain =
        thumbsOf env si := by
      rw [foldl_snoc (fun (c : signature.Cert) => env.hex (env.sum256 c.Raw))]
      first | rfl | simp [thumbsOf]
    simp only [List.forIn_pure_yield_eq_foldl, pure_bind, hth]
    unfold AnnEnv.Marshal AnnEnv.SigningTime
    -- every combination of: nil map or not, marshal fails or not, signing time missing or not
    cases annNil <;> cases hm : env.marshal (thumbsOf env si) <;> cases ht : env.signingTime (some si) <;>
      simp [List.forIn_pure_yield_eq_foldl, hth, hm, ht, GoLite.idPure, GoLite.idBind] <;> (try rfl)

/-- `m[k] = v` then `m[s]`, on association lists (generic) -/
theorem get?_map_set (k v s : String) : ∀ (m : SMap),
    GoLite.Map.get? (m.map (fun p => if (p.1 == k) = true then (k, v) else p)) s =
      if s = k then (if hasKey m k then some v else none) else GoLite.Map.get? m s := by
  intro m
  induction m with
  | nil => by_cases h : s = k <;> simp [GoLite.Map.get?, hasKey, h]
  | cons p m ih =>
    unfold GoLite.Map.get? at ih ⊢
    by_cases hp : p.1 = k
    · by_cases hs : s = k
      · simp [hp, hs, hasKey, List.find?]
      · have hks : (k == s) = false := by simpa using (fun e => hs e.symm : ¬ k = s)
        simp only [List.map_cons, hp, beq_self_eq_true, if_true, List.find?, hks, hs, if_false]
        rw [ih]; simp [hs]
    · have hpk : (p.1 == k) = false := by simpa using hp
      by_cases hps : p.1 = s
      · have hsk : ¬ s = k := by rw [← hps]; exact hp
        simp [List.find?, hpk, hps, hsk]
      · have hpsb : (p.1 == s) = false := by simpa using hps
        simp only [List.map_cons, hpk, Bool.false_eq_true, if_false, List.find?, hpsb]
        rw [ih]
        simp only [hasKey, List.any_cons, hpk, Bool.false_or] <;> rfl

theorem get?_set (m : SMap) (k v s : String) :
    GoLite.Map.get? (GoLite.Map.set m k v) s = if s = k then some v else GoLite.Map.get? m s := by
  unfold GoLite.Map.set
  by_cases hany : m.any (fun p => p.1 == k) = true
  · simp only [hany, if_true]
    rw [get?_map_set]
    simp [hasKey, hany]
  · have hany' : m.any (fun p => p.1 == k) = false := by
      cases hb : m.any (fun p => p.1 == k) with
      | false => rfl
      | true => exact absurd hb hany
    simp only [hany', Bool.false_eq_true, if_false]
    unfold GoLite.Map.get?
    rw [List.find?_append]
    by_cases hs : s = k
    · have hnone : m.find? (fun p => p.1 == s) = none := by
        rw [hs, List.find?_eq_none]
        intro q hq
        have := hany'
        simp only [List.any_eq_false] at this
        simpa using this q hq
      rw [hnone]
      simp [hs, List.find?]
    · have hks : (k == s) = false := by simpa using (fun e => hs e.symm : ¬ k = s)
      cases hf : m.find? (fun p => p.1 == s) <;> simp [hs, hks, List.find?]

theorem look_toAnn_get? (s : String) : ∀ (m : SMap), look s.toList (toAnn m) = (GoLite.Map.get? m s).map String.toList := by
  intro m
  induction m with
  | nil => rfl
  | cons p m ih =>
    have e : toAnn (p :: m) = (p.1.toList, p.2.toList) :: toAnn m := rfl
    rw [e]
    unfold GoLite.Map.get? at ih ⊢
    simp only [look, beq_toList, List.find?]
    by_cases h : s = p.1
    · simp [h]
    · have hb : (p.1 == s) = false := by simpa using (fun e => h e.symm : ¬ p.1 = s)
      simp only [beq_iff_eq, h, if_false, hb]
      exact ih

theorem look_toAnn_set (k v : String) (k' : Text) (m : SMap) :
    look k' (toAnn (GoLite.Map.set m k v)) = if k' = k.toList then some v.toList else look k' (toAnn m) := by
  have hk' : k' = (String.ofList k').toList := by simp
  generalize String.ofList k' = s at hk'
  subst hk'
  rw [look_toAnn_get?, look_toAnn_get?, get?_set]
  by_cases h : s = k
  · simp [h]
  · have : ¬ s.toList = k.toList := fun e => h (String.toList_inj.1 e)
    simp [h, this]

/-- ... and against the model's `expectedPushAnn`: when the oracles deliver the texts the model computes (the JSON
array of the chain's thumbprints, the RFC 3339 signing time) and the given annotations are the signer's plugin
annotations, the translated function returns, key by key, exactly the annotations the model pushes. -/
theorem source_generateAnnotations_matches_model (sg : SignerCfg) (env : AnnEnv) (si : signature.SignerInfo) (ann : SMap)
    (annNil : Bool) (val : String) (t : time.Time)
    (hbase : toAnn (if annNil then [] else ann) = sg.pluginAnn)
    (hm : env.marshal (thumbsOf env si) = .ok val) (hval : val.toList = jsonArray sg.thumbs)
    (ht : env.signingTime (some si) = .ok t) (hf : (t.Format time.RFC3339).toList = rfc3339 sg.time) :
    (generateAnnotations env (some si) ann annNil).2.1 = none ∧
    ∀ k, look k (toAnn (generateAnnotations env (some si) ann annNil).1) = look k (expectedPushAnn sg) := by
  rw [source_generateAnnotations_refines_model]
  simp only [genSpec, hm, ht]
  refine ⟨by first | rfl | simp, ?_⟩
  intro k
  simp only [look_toAnn_set, hbase, expectedPushAnn, look_put, keys_agree.1, keys_agree.2, hval, hf]

def exEnv : AnnEnv :=
  { sum256 := fun b => b, hex := fun b => String.ofList (b.map (fun n => Char.ofNat (97 + n))), marshal := fun l => .ok (String.intercalate "," l),
    signingTime := fun _ => .ok ⟨0, fun _ => "T"⟩ }

example : generateAnnotations exEnv (some { CertificateChain := [⟨[0, 1]⟩, ⟨[2]⟩] })
    [("org.opencontainers.image.created", "forged"), ("p", "q")] false =
    ([("org.opencontainers.image.created", "T"), ("p", "q"), ("io.cncf.notary.x509chain.thumbprint#S256", "ab,c")], none,
     [("org.opencontainers.image.created", "T"), ("p", "q"), ("io.cncf.notary.x509chain.thumbprint#S256", "ab,c")]) := by decide

end Tie

/-! #### round 5: `PluginSigner.mergeConfig`, `isDescriptorSubset` / `isPayloadDescriptorValid`, `SanitizeTargetArtifact` -/

namespace Tie
open NotationModel.Src

theorem all_congr_mem {α : Type} {f g : α → Bool} : ∀ {l : List α}, (∀ x ∈ l, f x = g x) → l.all f = l.all g := by
  intro l
  induction l with
  | nil => intro _; rfl
  | cons a l ih =>
    intro h
    simp only [List.all_cons, h a (by simp), ih (fun x hx => h x (by simp [hx]))]

theorem look_foldl_set (k' : Text) : ∀ (l acc : SMap), keysNodup l →
    look k' (toAnn (l.foldl (fun b a => GoLite.Map.set b a.1 a.2) acc)) =
      (match look k' (toAnn l) with | some v => some v | none => look k' (toAnn acc)) := by
  intro l
  induction l with
  | nil => intro acc _; rfl
  | cons p l ih =>
    intro acc hn
    have hn' : keysNodup l := by
      unfold keysNodup at hn ⊢
      simp only [List.map_cons, List.nodup_cons] at hn
      exact hn.2
    have e : toAnn (p :: l) = (p.1.toList, p.2.toList) :: toAnn l := rfl
    simp only [List.foldl]
    rw [ih _ hn', look_toAnn_set, e]
    simp only [look]
    by_cases hk : k' = p.1.toList
    · -- the key of the head does not occur in the tail
      have hnone : look k' (toAnn l) = none := by
        have hdk := distinctKeys_toAnn (p :: l) hn
        rw [e] at hdk
        simp only [distinctKeys, Bool.and_eq_true, Bool.not_eq_true'] at hdk
        rw [hk]
        exact look_none_of_not_any _ _ hdk.1
      rw [hk] at hnone
      simp [hk, hnone]
    · simp only [beq_iff_eq, hk, if_false]

/-- TIE (translated source): `PluginSigner.mergeConfig`, re-translated from signer/plugin.go on every run, for EVERY
signer config and per-call config (keys pairwise different, every iteration order): (1) the CALLER's per-call map comes
back exactly as it went in - the signer's defaults are never written into it; (2) the merged config is, key by key,
the model's `merged defaults call`: the per-call entry where there is one, the signer's default otherwise. -/
theorem source_mergeConfig_refines_model (s : c11.signer.PluginSigner) (config : SMap)
    (hd : keysNodup s.pluginConfig) (hc : keysNodup config) :
    (c11.signer.PluginSigner.mergeConfig s config).2 = config ∧
    ∀ k, look k (toAnn (c11.signer.PluginSigner.mergeConfig s config).1) =
      look k (merged (toAnn s.pluginConfig) (toAnn config)) := by
  unfold c11.signer.PluginSigner.mergeConfig
  simp only [Id.run, List.forIn_pure_yield_eq_foldl, pure_bind]
  simp only [GoLite.idPure, GoLite.idBind]
  refine ⟨by first | rfl | simp [GoLite.idPure], ?_⟩
  intro k
  have h := look_foldl_set k config (s.pluginConfig.foldl (fun b a => GoLite.Map.set b a.1 a.2) []) hc
  have h2 := look_foldl_set k s.pluginConfig [] hd
  rw [look_merged k _ _ (distinctKeys_toAnn config hc)]
  first
    | (rw [h, h2]; cases look k (toAnn config) <;> cases look k (toAnn s.pluginConfig) <;> rfl)
    | (simp only [h, h2]; cases look k (toAnn config) <;> cases look k (toAnn s.pluginConfig) <;> rfl)

/-- every requested annotation is in the signed payload under its value (the loop of `isDescriptorSubset`) -/
def srcCovers (o n : SMap) : Bool := o.all (fun kv => hasKey n kv.1 && kv.2 == (GoLite.Map.lookup n kv.1).1)

/-- TIE (translated source): `isPayloadDescriptorValid` / `isDescriptorSubset`, re-translated from signer/plugin.go on
every run: the payload an envelope plugin signed is accepted exactly when it is over the same size, digest and media
type and has EVERY annotation of the requested descriptor under the requested value - a missing annotation is as
fatal as a changed one; additional annotations are tolerated. -/
theorem source_isPayloadDescriptorValid_refines_model (o n : ocispec.Descriptor) :
    c11.signer.isPayloadDescriptorValid o n = (c11.content.Equal o n && srcCovers o.Annotations n.Annotations) := by
  unfold c11.signer.isPayloadDescriptorValid c11.signer.isDescriptorSubset
  simp only [Id.run]
  cases he : c11.content.Equal o n
  · simp [GoLite.idPure]
  · simp only [Bool.not_true, Bool.false_eq_true, if_false, Bool.true_and, lookup_snd]
    -- the loop, seen as a fold that stops at the first annotation the payload does not carry under its value
    rw [GoLite.forIn_eq_foldE' _ (fun (_ : Unit) (kv : String × String) =>
        if hasKey n.Annotations kv.1 && kv.2 == (GoLite.Map.lookup n.Annotations kv.1).1 then Except.ok () else Except.error ())
      (fun _ => ((none : Option Bool), ())) (fun _ _ => (some false, ())) ?h o.Annotations _ () rfl]
    case h =>
      intro a t
      have hsym : ((GoLite.Map.lookup n.Annotations a.1).1 == a.2) = (a.2 == (GoLite.Map.lookup n.Annotations a.1).1) := by
        rw [Bool.eq_iff_iff]; constructor <;> (intro h; simp at h ⊢; first | exact h | exact h.symm)
      cases h1 : hasKey n.Annotations a.1 <;> cases h2 : (a.2 == (GoLite.Map.lookup n.Annotations a.1).1) <;>
        simp [h1, h2, hsym, GoLite.idPure, GoLite.idBind, bne] <;> (try rfl)
    have hfold : ∀ l : SMap,
        (match GoLite.foldE (fun (_ : Unit) (kv : String × String) =>
            if hasKey n.Annotations kv.1 && kv.2 == (GoLite.Map.lookup n.Annotations kv.1).1 then Except.ok () else Except.error ()) l () with
          | .ok _ => true
          | .error _ => false) = srcCovers l n.Annotations := by
      intro l
      induction l with
      | nil => rfl
      | cons p l ih =>
        simp only [GoLite.foldE, srcCovers, List.all_cons]
        cases hp : (hasKey n.Annotations p.1 && p.2 == (GoLite.Map.lookup n.Annotations p.1).1)
        · simp
        · simp only [if_true, Bool.true_and]; exact ih
    rw [← hfold]
    cases GoLite.foldE _ o.Annotations () with
    | ok _ => simp [GoLite.idPure, GoLite.idBind]
    | error e => obtain ⟨_, _⟩ := e; simp [GoLite.idPure, GoLite.idBind]

/-- ... and the source's test is the model's `covers` (for requested annotations with pairwise different keys) -/
theorem srcCovers_eq_covers (o n : SMap) (hn : keysNodup o) : srcCovers o n = covers (toAnn o) (toAnn n) := by
  unfold srcCovers covers
  show _ = ((o.map _).all _)
  rw [List.all_map]
  apply all_congr_mem
  intro kv hkv
  obtain ⟨k, v⟩ := kv
  simp only [Function.comp]
  -- the first (and only) entry of `o` under `k` is `v`
  have ho : look k.toList (toAnn o) = some v.toList := by
    have hmem : (k.toList, v.toList) ∈ toAnn o := List.mem_map.2 ⟨(k, v), hkv, rfl⟩
    exact look_of_mem (distinctKeys_toAnn o hn) hmem
  rw [ho, look_toAnn_get?]
  unfold GoLite.Map.lookup
  rw [← lookup_snd]
  unfold GoLite.Map.lookup
  cases hg : GoLite.Map.get? n k with
  | none => simp
  | some w =>
    simp only [Option.map_some, Bool.true_and]
    by_cases hvw : v = w
    · subst hvw; simp
    · have : ¬ w.toList = v.toList := fun e => hvw (String.toList_inj.1 e).symm
      have b1 : (v == w) = false := by simpa using hvw
      have b2 : (w.toList == v.toList) = false := by simpa using this
      simp [b1, b2]

/-- TIE (translated source): `envelope.SanitizeTargetArtifact`, re-translated from internal/envelope/envelope.go on every
run, hands on media type, digest, size and the annotation map AS IT IS - no entry is left out or changed, blank keys
and blank values included. -/
theorem source_SanitizeTargetArtifact_refines_model (d : ocispec.Descriptor) :
    c11.envelope.SanitizeTargetArtifact d = d := by
  unfold c11.envelope.SanitizeTargetArtifact
  simp [Id.run, GoLite.idPure]

example : c11.signer.PluginSigner.mergeConfig ⟨[("vault", "a"), ("region", "eu")]⟩ [("vault", "b")] =
    ([("vault", "b"), ("region", "eu")], [("vault", "b")]) := by decide

example : c11.signer.isPayloadDescriptorValid
    { MediaType := "m", Digest := "d", Size := 3, Annotations := [("a", "1"), ("r", "")] }
    { MediaType := "m", Digest := "d", Size := 3, Annotations := [("a", "1")] } = false := by decide

example : (c11.envelope.SanitizeTargetArtifact { MediaType := "m", Digest := "d", Size := 3, Annotations := [("r", ""), ("", "x")] }).Annotations =
    [("r", ""), ("", "x")] := by decide

end Tie

end NotationModel.C11

/- C11 - property theorems (stub: not built yet) -/
import NotationModel.Model.C11

namespace NotationModel.C11

end NotationModel.C11

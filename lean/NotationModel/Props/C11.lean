/-
C11 - Signing an OCI artifact signs exactly what was resolved and changes nothing else.
Property theorems only; the model is in `Model/C11.lean`.

Structure: heap lemmas (a write through an address beyond a prefix of the heap leaves the prefix alone),
specifications of the pieces of `SignOCI` (`mergeLoop_spec`, `addUserMetadata_spec`, `resolve_spec`,
`annotateAndPush_spec`), the per-call theorem `signOCI_spec` under the sequence invariant `Inv`, the closed form
of a whole sequence `run_eq_spec` (induction over the call list, any length), `model_holds`, and the readable
corollaries `signs_resolved_plus_metadata`, `refusals`, `frame` / `frame_heap`, `idempotent_history`,
`pushed_annotations_exact`, `merge_order_irrelevant`.
Well-formedness hypothesis (explicit, decidable): `wf i` - the keys of every UserMetadata map are pairwise
different (true of any Go map; the harness builds the lists from Go maps).
-/
import NotationModel.Model.C11
set_option linter.unusedSimpArgs false
namespace NotationModel.C11

theorem facts_merge_allocates_fresh_map : mergeCopies = true := by decide

theorem look_put (k v k' : Text) : ∀ m : AnnMap, look k' (put k v m) = if k' = k then some v else look k' m := by
  intro m
  induction m with
  | nil => simp [put, look]
  | cons p r ih =>
    obtain ⟨k1, v1⟩ := p
    simp only [put]
    by_cases h1 : k = k1
    · subst h1
      by_cases h2 : k' = k <;> simp [look, h2]
    · simp only [h1, beq_iff_eq, if_false]
      by_cases h2 : tlt k k1
      · simp [h2, look]
      · rw [if_neg h2]
        simp only [look]
        rw [ih]
        by_cases h3 : k' = k1
        · subst h3
          have : ¬ k' = k := fun h => h1 h.symm
          simp [this]
        · simp [h3]

/-! ### heap lemmas -/

def validRef (h : Heap) : MapRef → Prop
  | none => True
  | some a => a < h.cells.length

theorem prefix_getD {α} {l l' : List α} (hp : l <+: l') {a : Nat} (ha : a < l.length) (d : α) :
    l'.getD a d = l.getD a d := by
  obtain ⟨t, rfl⟩ := hp
  simp [List.getD, List.getElem?_append_left ha]

theorem read_of_prefix {h h' : Heap} (hp : h.cells <+: h'.cells) {r : MapRef} (hv : validRef h r) :
    h'.read r = h.read r := by
  cases r with
  | none => rfl
  | some a => exact prefix_getD hp hv []

theorem validRef_of_prefix {h h' : Heap} (hp : h.cells <+: h'.cells) {r : MapRef} (hv : validRef h r) :
    validRef h' r := by
  cases r with
  | none => trivial
  | some a => exact Nat.lt_of_lt_of_le hv hp.length_le

theorem alloc_cells (h : Heap) (m : AnnMap) : (h.alloc m).1.cells = h.cells ++ [m] := rfl
theorem alloc_addr (h : Heap) (m : AnnMap) : (h.alloc m).2 = h.cells.length := rfl
theorem alloc_prefix (h : Heap) (m : AnnMap) : h.cells <+: (h.alloc m).1.cells := ⟨[m], rfl⟩
theorem alloc_read (h : Heap) (m : AnnMap) : (h.alloc m).1.read (some (h.alloc m).2) = m := by
  simp [Heap.read, Heap.alloc, List.getD]

theorem write_length (h : Heap) (a : Nat) (k v : Text) :
    (h.write (some a) k v).cells.length = h.cells.length := by
  simp [Heap.write]

theorem write_read (h : Heap) (a : Nat) (k v : Text) (ha : a < h.cells.length) :
    (h.write (some a) k v).read (some a) = put k v (h.read (some a)) := by
  simp [Heap.write, Heap.read, List.getD, ha]

/-- a write through an address beyond a prefix leaves the prefix alone -/
theorem write_prefix (h : Heap) (a : Nat) (k v : Text) {l : List AnnMap} (hp : l <+: h.cells) (hl : l.length ≤ a) :
    l <+: (h.write (some a) k v).cells := by
  obtain ⟨t, ht⟩ := hp
  simp only [Heap.write, ← ht]
  rw [List.set_append_right _ _ hl]
  exact ⟨_, rfl⟩


/-! ### the metadata merge -/

def collidesWith (m : AnnMap) (kv : Text × Text) : Bool := (look kv.1 m).isSome

theorem any_collides_put (k v : Text) (m : AnnMap) : ∀ rest : AnnMap,
    rest.any (fun kv => kv.1 == k) = false →
    rest.any (collidesWith (put k v m)) = rest.any (collidesWith m) := by
  intro rest
  induction rest with
  | nil => simp
  | cons p r ih =>
    intro h
    simp only [List.any_cons, Bool.or_eq_false_iff] at h
    simp only [List.any_cons, ih h.2]
    have : ¬ p.1 = k := by simpa using h.1
    simp [collidesWith, look_put, this]

theorem merged_cons (m : AnnMap) (k v : Text) (rest : AnnMap) :
    merged m ((k, v) :: rest) = merged (put k v m) rest := rfl

theorem mergeLoop_length (r : MapRef) : ∀ (md : AnnMap) (h : Heap),
    (mergeLoop h r md).1.cells.length = h.cells.length := by
  intro md
  induction md with
  | nil => intro h; rfl
  | cons p rest ih =>
    intro h
    obtain ⟨k, v⟩ := p
    simp only [mergeLoop]
    split
    · rfl
    · split
      · rfl
      · rw [ih]
        cases r with
        | none => rfl
        | some a => exact write_length h a k v

/-- what the merge loop does to a map of its own at address `a` -/
theorem mergeLoop_spec (a : Nat) : ∀ (md : AnnMap) (h : Heap), a < h.cells.length → distinctKeys md = true →
    (mergeLoop h (some a) md).2 =
      (!(md.any (fun kv => isReserved kv.1)) && !(md.any (collidesWith (h.read (some a))))) ∧
    (∀ l, l <+: h.cells → l.length ≤ a → l <+: (mergeLoop h (some a) md).1.cells) ∧
    ((mergeLoop h (some a) md).2 = true →
      (mergeLoop h (some a) md).1.read (some a) = merged (h.read (some a)) md) := by
  intro md
  induction md with
  | nil => intro h _ _; exact ⟨by simp [mergeLoop], fun l hl _ => hl, fun _ => by simp [mergeLoop, merged]⟩
  | cons p rest ih =>
    intro h ha hd
    obtain ⟨k, v⟩ := p
    simp only [distinctKeys, Bool.and_eq_true, Bool.not_eq_true'] at hd
    simp only [mergeLoop]
    by_cases hr : isReserved k = true
    · exact ⟨by simp [hr], fun l hl _ => by simpa [hr] using hl, by simp [hr]⟩
    · by_cases hc : (look k (h.read (some a))).isSome = true
      · exact ⟨by simp [hr, hc, collidesWith], fun l hl _ => by simpa [hr, hc] using hl, by simp [hr, hc]⟩
      · have ha' : a < (h.write (some a) k v).cells.length := by rw [write_length]; exact ha
        obtain ⟨h1, h2, h3⟩ := ih (h.write (some a) k v) ha' hd.2
        simp only [hr, hc, if_false, Bool.false_eq_true]
        rw [write_read h a k v ha] at h1 h3
        refine ⟨?_, ?_, ?_⟩
        · rw [h1, any_collides_put k v _ rest hd.1]
          simp [hr, hc, collidesWith]
        · intro l hl hla
          exact h2 l (write_prefix h a k v hl hla) hla
        · intro hok
          rw [h3 hok, merged_cons]

theorem addUserMetadata_spec (h : Heap) (ann : MapRef) (md : AnnMap) (hv : validRef h ann)
    (hd : distinctKeys md = true) :
    h.cells <+: (addUserMetadata h ann md).1.cells ∧
    validRef (addUserMetadata h ann md).1 (addUserMetadata h ann md).2.1 ∧
    (addUserMetadata h ann md).2.2 =
      (!(md.any (fun kv => isReserved kv.1)) && !(md.any (collidesWith (h.read ann)))) ∧
    ((addUserMetadata h ann md).2.2 = true →
      (addUserMetadata h ann md).1.read (addUserMetadata h ann md).2.1 = merged (h.read ann) md) := by
  unfold addUserMetadata
  by_cases he : md.isEmpty = true
  · have : md = [] := by simpa using he
    subst this
    simp [merged, hv]
  · simp only [he, facts_merge_allocates_fresh_map, if_true, if_false, Bool.false_eq_true]
    have ha : h.cells.length < (h.alloc (h.read ann)).1.cells.length := by simp [alloc_cells]
    obtain ⟨h1, h2, h3⟩ := mergeLoop_spec h.cells.length md (h.alloc (h.read ann)).1 ha hd
    have hrd : (h.alloc (h.read ann)).1.read (some h.cells.length) = h.read ann := alloc_read h _
    rw [hrd] at h1 h3
    refine ⟨?_, ?_, ?_, ?_⟩
    · exact h2 _ (alloc_prefix h _) (Nat.le_refl _)
    · show h.cells.length < _
      rw [mergeLoop_length]
      exact ha
    · exact h1
    · exact h3


/-! ### Resolve -/

def viewAnn (r : Repo) (arg : Arg) (m : AnnMap) : AnnMap :=
  match arg with
  | .tag => m
  | _ => if r.plainByDigest then [] else m

def resolvableArg (r : Repo) : Arg → Bool
  | .tag | .digest => true
  | .otherDigest => r.anyDigest
  | _ => false

theorem handOut_spec (r : Repo) (h : Heap) (hlen : 0 < h.cells.length) :
    h.cells <+: (resolve.handOut r h).1.cells ∧ validRef (resolve.handOut r h).1 (resolve.handOut r h).2 ∧
    (resolve.handOut r h).1.read (resolve.handOut r h).2 = h.read (some 0) := by
  unfold resolve.handOut
  by_cases ha : r.aliased = true
  · simp [ha, env, validRef, hlen]
  · simp only [ha, if_false, Bool.false_eq_true]
    refine ⟨alloc_prefix h _, ?_, ?_⟩
    · show h.cells.length < _
      simp [alloc_cells]
    · exact alloc_read h _

theorem resolve_spec (r : Repo) (h : Heap) (arg : Arg) (hlen : 0 < h.cells.length) :
    match resolve r h arg with
    | none => resolvableArg r arg = false
    | some (h1, res) => resolvableArg r arg = true ∧ h.cells <+: h1.cells ∧ validRef h1 res ∧
        h1.read res = viewAnn r arg (h.read (some 0)) := by
  have ho := handOut_spec r h hlen
  cases arg
  · -- tag
    simp only [resolve, resolvableArg, viewAnn]
    exact ⟨trivial, ho⟩
  · -- digest
    simp only [resolve, resolvableArg, viewAnn]
    by_cases hp : r.plainByDigest = true
    · simp [hp, validRef, Heap.read]
    · simp only [hp, if_false, Bool.false_eq_true]
      exact ⟨trivial, ho⟩
  · -- otherDigest
    simp only [resolve, resolvableArg, viewAnn]
    by_cases hany : r.anyDigest = true
    · simp only [hany, if_true]
      by_cases hp : r.plainByDigest = true
      · simp [hp, validRef, Heap.read]
      · simp only [hp, if_false, Bool.false_eq_true]
        exact ⟨trivial, ho⟩
    · simp [hany]
  · simp [resolve, resolvableArg]
  · simp [resolve, resolvableArg]

/-! ### annotations and push -/

theorem annotateAndPush_spec (i : Input) (w : World) (ra : Option Arg) (sg : Option AnnMap) (resolved : MapRef)
    (hv : validRef w.heap resolved) :
    w.heap.cells <+: (annotateAndPush i w { resolveArg := ra, signed := sg } resolved).1.heap.cells ∧
    (annotateAndPush i w { resolveArg := ra, signed := sg } resolved).1.handed = w.handed ∧
    (annotateAndPush i w { resolveArg := ra, signed := sg } resolved).1.sigCount =
      w.sigCount + (if i.signer.kind == .ok && i.repo.push != .fails then 1 else 0) ∧
    (annotateAndPush i w { resolveArg := ra, signed := sg } resolved).2 =
      { resolveArg := ra, signed := sg,
        ok := i.signer.kind == .ok && i.repo.push == .ok,
        subject := if i.signer.kind == .ok then some (w.heap.read resolved) else none,
        pushAnn := if i.signer.kind == .ok then some (expectedPushAnn i) else none,
        returnedResolved := i.signer.kind == .ok && i.repo.push != .fails } := by
  have hpre := alloc_prefix w.heap i.signer.pluginAnn
  have hlen : w.heap.cells.length < (w.heap.alloc i.signer.pluginAnn).1.cells.length := by simp [alloc_cells]
  have hw1 := write_prefix (w.heap.alloc i.signer.pluginAnn).1 w.heap.cells.length Facts.c11ThumbprintKey
    (jsonArray i.signer.thumbs) hpre (Nat.le_refl _)
  have hlen2 : w.heap.cells.length <
      ((w.heap.alloc i.signer.pluginAnn).1.write (some w.heap.cells.length) Facts.c11ThumbprintKey (jsonArray i.signer.thumbs)).cells.length := by
    rw [write_length]; exact hlen
  have hw2 := write_prefix _ w.heap.cells.length Facts.c11CreatedKey (rfc3339 i.signer.time) hw1 (Nat.le_refl _)
  have hread : (((w.heap.alloc i.signer.pluginAnn).1.write (some w.heap.cells.length) Facts.c11ThumbprintKey
      (jsonArray i.signer.thumbs)).write (some w.heap.cells.length) Facts.c11CreatedKey (rfc3339 i.signer.time)).read
      (some w.heap.cells.length) = expectedPushAnn i := by
    rw [write_read _ _ _ _ hlen2, write_read _ _ _ _ hlen]
    have := alloc_read w.heap i.signer.pluginAnn
    rw [alloc_addr] at this
    rw [this]
    rfl
  have hres := read_of_prefix (h := w.heap) hw2 hv
  unfold annotateAndPush
  cases hk : i.signer.kind
  · -- ok
    simp only [alloc_addr]
    cases hp : i.repo.push <;> simp [hw2, hread, hres]
  · simp
  · simp
  · simp [alloc_addr, hw1]


/-! ### one call -/

/-- the invariant of a sequence: the cells set up at the start are a prefix of the heap (so they
still have their contents), and every annotation map handed out still reads as it did then -/
def Inv (i : Input) (w : World) : Prop :=
  initCells i <+: w.heap.cells ∧ ∀ p ∈ w.handed, validRef w.heap p.1 ∧ w.heap.read p.1 = p.2

theorem Inv_init (i : Input) : Inv i (initWorld i) :=
  ⟨List.prefix_refl _, by intro p hp; simp [initWorld] at hp⟩

theorem Inv_ext {i : Input} {w : World} (hinv : Inv i w) {h' : Heap} (hp : w.heap.cells <+: h'.cells) (n : Nat) :
    Inv i { heap := h', handed := w.handed, sigCount := n } := by
  refine ⟨List.IsPrefix.trans hinv.1 hp, ?_⟩
  intro p hpm
  obtain ⟨hv, hr⟩ := hinv.2 p hpm
  exact ⟨validRef_of_prefix hp hv, by rw [read_of_prefix hp hv, hr]⟩

theorem Inv_hand {i : Input} {w : World} (hinv : Inv i w) {r : MapRef} (hv : validRef w.heap r) :
    Inv i { heap := w.heap, handed := w.handed ++ [(r, w.heap.read r)], sigCount := w.sigCount } := by
  refine ⟨hinv.1, ?_⟩
  intro p hpm
  simp only [List.mem_append, List.mem_singleton] at hpm
  rcases hpm with hpm | rfl
  · exact hinv.2 p hpm
  · exact ⟨hv, rfl⟩

theorem Inv_repo {i : Input} {w : World} (hinv : Inv i w) : w.heap.read (some 0) = i.art.ann := by
  have := prefix_getD hinv.1 (a := 0) (by simp [initCells]) ([] : AnnMap)
  simpa [Heap.read, initCells] using this

theorem Inv_nonempty {i : Input} {w : World} (hinv : Inv i w) : 0 < w.heap.cells.length :=
  Nat.lt_of_lt_of_le (by simp [initCells]) hinv.1.length_le

theorem resolvable_eq (i : Input) (c : Call) : resolvable i c = resolvableArg i.repo (refArg c.ref) := by
  unfold resolvable resolvableArg
  cases refArg c.ref <;> rfl

theorem resolvedAnn_eq (i : Input) (c : Call) : resolvedAnn i c = viewAnn i.repo (refArg c.ref) i.art.ann := by
  unfold resolvedAnn viewAnn
  cases refArg c.ref <;> rfl

theorem collides_eq (i : Input) (c : Call) : collides i c = c.md.any (collidesWith (resolvedAnn i c)) := rfl

/-- the closed form of what a call shows: a function of the input, the call and the number of signatures before it -/
def expectedTrace (i : Input) (c : Call) : Trace :=
  { ok := expectedOk i c,
    resolveArg := if optsValid c.opts then some (refArg c.ref) else none,
    signed := if reachesSigner i c then some (merged (resolvedAnn i c) c.md) else none,
    subject := if reachesPush i c then some (resolvedAnn i c) else none,
    pushAnn := if reachesPush i c then some (expectedPushAnn i) else none,
    returnedResolved := pushes i c }

theorem signOCI_spec (i : Input) (w : World) (c : Call) (hinv : Inv i w) (hd : distinctKeys c.md = true) :
    Inv i (signOCI i w c).1 ∧
    w.heap.cells <+: (signOCI i w c).1.heap.cells ∧
    (signOCI i w c).1.sigCount = w.sigCount + (if pushes i c then 1 else 0) ∧
    (signOCI i w c).2 = expectedTrace i c := by
  unfold signOCI
  by_cases hov : optsValid c.opts = true
  · simp only [hov, Bool.not_true, Bool.false_eq_true, if_false]
    have hres := resolve_spec i.repo w.heap (refArg c.ref) (Inv_nonempty hinv)
    cases hr : resolve i.repo w.heap (refArg c.ref) with
    | none =>
      rw [hr] at hres
      simp only [] at hres
      refine ⟨hinv, List.prefix_refl _, ?_, ?_⟩
      · simp [pushes, reachesPush, reachesSigner, resolvable_eq, hres]
      · simp [expectedTrace, expectedOk, pushes, reachesPush, reachesSigner, resolvable_eq, hres, hov]
    | some pr =>
      obtain ⟨h1, resolved⟩ := pr
      rw [hr] at hres
      simp only [] at hres
      obtain ⟨hrs, hp1, hv1, hrd1⟩ := hres
      rw [Inv_repo hinv, ← resolvedAnn_eq] at hrd1
      have hinv1 : Inv i { heap := h1, handed := w.handed ++ [(resolved, h1.read resolved)], sigCount := w.sigCount } :=
        Inv_hand (w := { heap := h1, handed := w.handed, sigCount := w.sigCount }) (Inv_ext hinv hp1 _) hv1
      simp only []
      by_cases harg : refArg c.ref = .otherDigest
      · simp only [harg, beq_self_eq_true, if_true]
        refine ⟨hinv1, hp1, ?_, ?_⟩
        · simp [pushes, reachesPush, reachesSigner, refused, digestMismatch, harg]
        · simp [expectedTrace, expectedOk, pushes, reachesPush, reachesSigner, refused, digestMismatch, harg, hov]
      · have hne : (refArg c.ref == Arg.otherDigest) = false := by simpa using harg
        simp only [hne, Bool.false_eq_true, if_false]
        obtain ⟨hp2, hv2, hok, hmerged⟩ := addUserMetadata_spec h1 resolved c.md hv1 hd
        rw [hrd1] at hok hmerged
        generalize haum : addUserMetadata h1 resolved c.md = res at hp2 hv2 hok hmerged
        obtain ⟨h2, toSign, ok⟩ := res
        simp only [] at hp2 hv2 hok hmerged ⊢
        have hinv2 : Inv i { heap := h2, handed := w.handed ++ [(resolved, h1.read resolved)], sigCount := w.sigCount } :=
          Inv_ext hinv1 hp2 _
        have hrefused : refused i c = !ok := by
          simp [refused, digestMismatch, hne, hasReserved, collides_eq, hok]
        cases hokv : ok with
        | false =>
          simp only [Bool.not_false, if_true]
          refine ⟨hinv2, List.IsPrefix.trans hp1 hp2, ?_, ?_⟩
          · simp [pushes, reachesPush, reachesSigner, hrefused, hokv]
          · simp [expectedTrace, expectedOk, pushes, reachesPush, reachesSigner, hrefused, hokv, hov]
        | true =>
          simp only [Bool.not_true, Bool.false_eq_true, if_false]
          have hv2' : validRef h2 resolved := validRef_of_prefix hp2 hv1
          obtain ⟨hp3, hh3, hs3, ht3⟩ := annotateAndPush_spec i
            { heap := h2, handed := w.handed ++ [(resolved, h1.read resolved)], sigCount := w.sigCount }
            (some (refArg c.ref)) (some (h2.read toSign)) resolved hv2'
          refine ⟨?_, ?_, ?_, ?_⟩
          · have := Inv_ext hinv2 hp3 (annotateAndPush i
              { heap := h2, handed := w.handed ++ [(resolved, h1.read resolved)], sigCount := w.sigCount }
              { resolveArg := some (refArg c.ref), signed := some (h2.read toSign) } resolved).1.sigCount
            rw [← hh3] at this
            exact this
          · exact List.IsPrefix.trans hp1 (List.IsPrefix.trans hp2 hp3)
          · rw [hs3]
            simp [pushes, reachesPush, reachesSigner, hrefused, hokv, hov, resolvable_eq, hrs]
          · rw [ht3, hmerged (by rw [hokv]), read_of_prefix hp2 hv1, hrd1]
            simp [expectedTrace, expectedOk, pushes, reachesPush, reachesSigner, hrefused, hokv, hov, resolvable_eq, hrs]
  · have hov' : optsValid c.opts = false := by simpa using hov
    simp only [hov', Bool.not_false, if_true]
    refine ⟨hinv, List.prefix_refl _, ?_, ?_⟩
    · simp [pushes, reachesPush, reachesSigner, hov']
    · simp [expectedTrace, expectedOk, pushes, reachesPush, reachesSigner, hov']


/-! ### sequences -/

def expectedObs (i : Input) (c : Call) (before : Nat) : CallObs :=
  { ok := expectedOk i c,
    resolveArg := if optsValid c.opts then some (refArg c.ref) else none,
    signed := if reachesSigner i c then some (mkDesc i.art (merged (resolvedAnn i c) c.md)) else none,
    subject := if reachesPush i c then some (mkDesc i.art (resolvedAnn i c)) else none,
    pushAnn := if reachesPush i c then some (expectedPushAnn i) else none,
    returned := if pushes i c then .resolved else .zero,
    repoViewSame := true, handedSame := true, optsSame := true,
    sigCount := before + (if pushes i c then 1 else 0) }

/-- the whole sequence in closed form -/
def specCalls (i : Input) : List Call → Nat → List CallObs
  | [], _ => []
  | c :: cs, n => expectedObs i c n :: specCalls i cs (n + (if pushes i c then 1 else 0))

theorem observe_of_Inv (i : Input) (w : World) (t : Trace) (hinv : Inv i w) :
    observe i w t =
      { ok := t.ok, resolveArg := t.resolveArg, signed := t.signed.map (mkDesc i.art),
        subject := t.subject.map (mkDesc i.art), pushAnn := t.pushAnn,
        returned := if t.returnedResolved then .resolved else .zero,
        repoViewSame := true, handedSame := true, optsSame := true, sigCount := w.sigCount } := by
  have h0 : (w.heap.read (some env.repoAnn) == i.art.ann) = true := by
    simp [env, Inv_repo hinv]
  have h1 : (w.handed.all fun x => match x with | (r, snap) => w.heap.read r == snap) = true := by
    rw [List.all_eq_true]
    intro p hp
    obtain ⟨r, snap⟩ := p
    simpa using (hinv.2 _ hp).2
  have h2 : (w.heap.read (some env.cfg) == i.pluginConfig) = true := by
    have := prefix_getD hinv.1 (a := 1) (by simp [initCells]) ([] : AnnMap)
    simp [Heap.read, initCells, env] at this ⊢
    exact this
  have h3 : ((w.heap.cells.drop env.metaBase).take i.calls.length == i.calls.map (·.md)) = true := by
    obtain ⟨t, ht⟩ := hinv.1
    simp [← ht, initCells, env]
  simp only [observe, h0, h1, h2, h3, Bool.and_self]

theorem runCalls_spec (i : Input) : ∀ (cs : List Call) (w : World), Inv i w →
    (cs.all (fun c => distinctKeys c.md)) = true → runCalls i w cs = specCalls i cs w.sigCount := by
  intro cs
  induction cs with
  | nil => intro w _ _; rfl
  | cons c cs ih =>
    intro w hinv hwf
    simp only [List.all_cons, Bool.and_eq_true] at hwf
    obtain ⟨hinv', _, hs, ht⟩ := signOCI_spec i w c hinv hwf.1
    simp only [runCalls, specCalls]
    rw [ih _ hinv' hwf.2, observe_of_Inv i _ _ hinv', hs, ht]
    simp only [expectedTrace, expectedObs]
    congr 2
    · by_cases h : reachesSigner i c <;> simp [h]
    · by_cases h : reachesPush i c <;> simp [h]

/-- **history independence**: what each call of a sequence shows is a function of the input, that call and the
number of signatures pushed before it - nothing an earlier call did to maps can be seen by a later one. -/
theorem run_eq_spec (i : Input) (hwf : wf i = true) : run i = { calls := specCalls i i.calls 0 } := by
  unfold run
  rw [runCalls_spec i i.calls (initWorld i) (Inv_init i) hwf]
  rfl


/-! ### the property -/

def allTrue : CallVerdict := ⟨true, true, true, true, true, true, true, true⟩

theorem callVerdict_expected (i : Input) (c : Call) (n : Nat) :
    callVerdict i c n (expectedObs i c n) = allTrue := by
  cases ha : optsValid c.opts <;> cases hb : resolvable i c <;> cases hd : refused i c <;>
    cases he : (i.signer.kind == SignerKind.ok) <;> cases hp : i.repo.push <;>
    simp [allTrue, callVerdict, expectedObs, expectedOk, pushes, reachesPush, reachesSigner, ha, hb, hd, he, hp]

theorem specCalls_length (i : Input) : ∀ (cs : List Call) (n : Nat), (specCalls i cs n).length = cs.length := by
  intro cs
  induction cs with
  | nil => intro n; rfl
  | cons c cs ih => intro n; simp [specCalls, ih]

theorem allCalls_spec (i : Input) (f : CallVerdict → Bool)
    (hf : f allTrue = true) :
    ∀ (cs : List Call) (n : Nat), allCalls i f cs n (specCalls i cs n) = true := by
  intro cs
  induction cs with
  | nil => intro n; rfl
  | cons c cs ih =>
    intro n
    simp only [specCalls, allCalls, callVerdict_expected, hf, Bool.true_and]
    exact ih _

/-- **C11, the whole property**: every clause of `Holds` is true of the model's behaviour, for every repository
behaviour, artifact, signer, option maps and every sequence of calls of any length (hypothesis: the keys of each
UserMetadata map are pairwise different, as in any Go map; the harness emits maps). -/
theorem model_holds (i : Input) (hwf : wf i = true) : Holds i (run i) = true := by
  rw [run_eq_spec i hwf]
  have h1 := allCalls_spec i (·.signsResolvedPlusMetadata) rfl i.calls 0
  have h2 := allCalls_spec i (·.subjectIsResolved) rfl i.calls 0
  have h3 := allCalls_spec i (·.pushedAnnotationsExact) rfl i.calls 0
  have h4 := allCalls_spec i (·.refusals) rfl i.calls 0
  have h5 := allCalls_spec i (·.frame) rfl i.calls 0
  have h6 := allCalls_spec i (·.oneSignature) rfl i.calls 0
  have h7 := allCalls_spec i (·.succeedsIndependentOfHistory) rfl i.calls 0
  have h8 := allCalls_spec i (·.resolveAsked) rfl i.calls 0
  simp [Holds, clauses, Clauses.holds, specCalls_length, hwf, h1, h2, h3, h4, h5, h6, h7, h8]


/-! ### readable corollaries -/

/-- signatures pushed by the first `j` calls -/
def sigsBefore (i : Input) (cs : List Call) (j : Nat) : Nat := ((cs.take j).filter (pushes i)).length

theorem specCalls_get (i : Input) : ∀ (cs : List Call) (n j : Nat),
    (specCalls i cs n)[j]? = (cs[j]?).map (fun c => expectedObs i c (n + sigsBefore i cs j)) := by
  intro cs
  induction cs with
  | nil => intro n j; simp [specCalls]
  | cons c cs ih =>
    intro n j
    cases j with
    | zero => simp [specCalls, sigsBefore]
    | succ j =>
      simp only [specCalls, List.getElem?_cons_succ, ih]
      cases cs[j]? with
      | none => rfl
      | some c' =>
        simp only [Option.map_some, sigsBefore, List.take_succ_cons, List.filter_cons]
        by_cases hp : pushes i c = true
        · simp [hp]; congr 1; omega
        · simp [hp]

/-- the observation of the `j`-th call of any sequence, in closed form -/
theorem call_obs (i : Input) (hwf : wf i = true) {j : Nat} {c : Call} {o : CallObs}
    (hc : i.calls[j]? = some c) (ho : (run i).calls[j]? = some o) :
    o = expectedObs i c (sigsBefore i i.calls j) := by
  rw [run_eq_spec i hwf] at ho
  simp only [specCalls_get, hc, Option.map_some, Nat.zero_add] at ho
  exact (Option.some.inj ho).symm

theorem look_none_of_not_any (k : Text) : ∀ m : AnnMap, m.any (fun kv => kv.1 == k) = false → look k m = none := by
  intro m
  induction m with
  | nil => intro _; rfl
  | cons p r ih =>
    intro h
    simp only [List.any_cons, Bool.or_eq_false_iff] at h
    have : ¬ k = p.1 := by
      have := h.1
      intro hk
      simp [hk] at this
    simp [look, this, ih h.2]

/-- the merged map, read key by key: the metadata's value where the metadata has the key, the resolved
descriptor's otherwise -/
theorem look_merged (k : Text) : ∀ (md base : AnnMap), distinctKeys md = true →
    look k (merged base md) = (match look k md with | some v => some v | none => look k base) := by
  intro md
  induction md with
  | nil => intro base _; simp [merged, look]
  | cons p rest ih =>
    intro base hd
    obtain ⟨k1, v1⟩ := p
    simp only [distinctKeys, Bool.and_eq_true, Bool.not_eq_true'] at hd
    rw [merged_cons, ih _ hd.2, look_put]
    by_cases hk : k = k1
    · subst hk
      simp [look, look_none_of_not_any k rest hd.1]
    · simp [look, hk]

/-- **signs exactly what was resolved plus the metadata** - at any position of any sequence: the descriptor
handed to the signer is the resolved descriptor (media type, digest, size) whose annotations are the resolved
annotations + user metadata; the subject pushed is the resolved descriptor itself (without the metadata). -/
theorem signs_resolved_plus_metadata (i : Input) (hwf : wf i = true) {j : Nat} {c : Call} {o : CallObs}
    (hc : i.calls[j]? = some c) (ho : (run i).calls[j]? = some o) :
    (∀ d, o.signed = some d → d = mkDesc i.art (merged (resolvedAnn i c) c.md)) ∧
    (∀ s, o.subject = some s → s = mkDesc i.art (resolvedAnn i c)) ∧
    (o.ok = true → o.signed.isSome = true ∧ o.subject.isSome = true ∧ o.returned = .resolved) := by
  rw [call_obs i hwf hc ho]
  refine ⟨?_, ?_, ?_⟩
  · intro d hdd
    by_cases h : reachesSigner i c = true <;> simp [expectedObs, h] at hdd
    exact hdd.symm
  · intro s hs
    by_cases h : reachesPush i c = true <;> simp [expectedObs, h] at hs
    exact hs.symm
  · intro hok
    simp only [expectedObs, expectedOk, Bool.and_eq_true] at hok
    have hrs : reachesSigner i c = true := by
      have := hok.1
      simp only [reachesPush, Bool.and_eq_true] at this
      exact this.1
    have hp : pushes i c = true := by
      simp only [pushes, hok.1, Bool.true_and]
      have := hok.2
      cases hpk : i.repo.push <;> simp [hpk] at this ⊢
    simp [expectedObs, hrs, hok.1, hp]

/-- **refusals**: metadata under the reserved prefix, metadata that would overwrite an annotation of the artifact
and a digest reference resolving to another digest each end in an error; the signer is not called, nothing is
pushed, the signature count stays. -/
theorem refusals (i : Input) (hwf : wf i = true) {j : Nat} {c : Call} {o : CallObs}
    (hc : i.calls[j]? = some c) (ho : (run i).calls[j]? = some o)
    (h : hasReserved c = true ∨ collides i c = true ∨ digestMismatch c = true) :
    o.ok = false ∧ o.signed = none ∧ o.subject = none ∧ o.pushAnn = none ∧ o.returned = .zero ∧
    o.sigCount = sigsBefore i i.calls j := by
  have hr : refused i c = true := by
    rcases h with h | h | h <;> simp [refused, h]
  rw [call_obs i hwf hc ho]
  simp [expectedObs, expectedOk, pushes, reachesPush, reachesSigner, hr]

/-- **frame, as observed**: after every call of every sequence - successful or not - the repository resolves the
artifact exactly as before the first call, every descriptor it handed out is unchanged, and so are the caller's
UserMetadata and PluginConfig maps; the signature count grows by one exactly when the call pushed. -/
theorem frame (i : Input) (hwf : wf i = true) {j : Nat} {c : Call} {o : CallObs}
    (hc : i.calls[j]? = some c) (ho : (run i).calls[j]? = some o) :
    o.repoViewSame = true ∧ o.handedSame = true ∧ o.optsSame = true ∧
    o.sigCount = sigsBefore i i.calls j + (if pushes i c then 1 else 0) := by
  rw [call_obs i hwf hc ho]
  simp [expectedObs]

/-- **frame, on the heap**: a call leaves every map object that existed before it with exactly the contents it
had - the repository's, the caller's, whatever else - because the metadata merge and the annotation generation
write only into cells they allocated (this is where `facts_merge_allocates_fresh_map` is used); the one other
effect is at most one more signature. Holds from any state reachable in a sequence. -/
theorem frame_heap (i : Input) (w : World) (c : Call) (hinv : Inv i w) (hd : distinctKeys c.md = true) :
    w.heap.cells <+: (signOCI i w c).1.heap.cells ∧
    (∀ r, validRef w.heap r → (signOCI i w c).1.heap.read r = w.heap.read r) ∧
    (signOCI i w c).1.sigCount = w.sigCount + (if pushes i c then 1 else 0) := by
  obtain ⟨_, hp, hs, _⟩ := signOCI_spec i w c hinv hd
  exact ⟨hp, fun r hv => read_of_prefix hp hv, hs⟩

/-- **idempotent history**: any number of signing calls with the same reference and options, where the call
succeeds in the first place, succeeds every time, and the `j`-th of them leaves `j+1` signatures. -/
theorem idempotent_history (i : Input) (hwf : wf i = true) (c : Call) (n : Nat)
    (hcalls : i.calls = List.replicate n c) (hok : expectedOk i c = true) :
    (run i).calls.length = n ∧
    ∀ j o, (run i).calls[j]? = some o → o.ok = true ∧ o.sigCount = j + 1 := by
  have hp : pushes i c = true := by
    simp only [expectedOk, Bool.and_eq_true] at hok
    simp only [pushes, hok.1, Bool.true_and]
    have := hok.2
    cases hpk : i.repo.push <;> simp [hpk] at this ⊢
  refine ⟨by rw [run_eq_spec i hwf]; simp [specCalls_length, hcalls], ?_⟩
  intro j o ho
  have hj : j < n := by
    rw [run_eq_spec i hwf] at ho
    have := (List.getElem?_eq_some_iff.1 ho).1
    simpa [specCalls_length, hcalls] using this
  have hc : i.calls[j]? = some c := by simp [hcalls, hj]
  rw [call_obs i hwf hc ho]
  have hsb : sigsBefore i i.calls j = j := by
    simp only [sigsBefore, hcalls, List.take_replicate]
    rw [List.filter_eq_self.2]
    · simp; omega
    · intro a ha
      rw [(List.mem_replicate.1 ha).2]; exact hp
  simp [expectedObs, hok, hp, hsb]

/-- whether a call succeeds does not depend on its position or on what was signed before -/
theorem success_independent_of_history (i : Input) (hwf : wf i = true) {j : Nat} {c : Call} {o : CallObs}
    (hc : i.calls[j]? = some c) (ho : (run i).calls[j]? = some o) : o.ok = expectedOk i c := by
  rw [call_obs i hwf hc ho]; rfl

theorem facts_annotation_keys :
    Facts.c11ThumbprintKey ≠ Facts.c11CreatedKey ∧ isReserved Facts.c11ThumbprintKey = true ∧
    isReserved Facts.c11CreatedKey = false := by decide

/-- **the pushed annotations, exactly**: the plugin's annotations with the thumbprint list (JSON array of the
SHA-256 hex of each chain certificate, in chain order) and `created` (signing time, RFC 3339, UTC) written over
them - nothing else. -/
theorem pushed_annotations_exact (i : Input) (hwf : wf i = true) {j : Nat} {c : Call} {o : CallObs}
    (hc : i.calls[j]? = some c) (ho : (run i).calls[j]? = some o) (a : AnnMap) (ha : o.pushAnn = some a) :
    a = expectedPushAnn i ∧
    look Facts.c11ThumbprintKey a = some (jsonArray i.signer.thumbs) ∧
    look Facts.c11CreatedKey a = some (rfc3339 i.signer.time) ∧
    ∀ k, k ≠ Facts.c11ThumbprintKey → k ≠ Facts.c11CreatedKey → look k a = look k i.signer.pluginAnn := by
  rw [call_obs i hwf hc ho] at ha
  have hae : a = expectedPushAnn i := by
    by_cases h : reachesPush i c = true <;> simp [expectedObs, h] at ha
    exact ha.symm
  subst hae
  refine ⟨rfl, ?_, ?_, ?_⟩
  · simp [expectedPushAnn, look_put, facts_annotation_keys.1]
  · simp [expectedPushAnn, look_put]
  · intro k h1 h2
    simp [expectedPushAnn, look_put, h1, h2]


/-! ### Go's random map iteration order does not matter -/

theorem mem_of_look {k v : Text} : ∀ {m : AnnMap}, look k m = some v → (k, v) ∈ m := by
  intro m
  induction m with
  | nil => intro h; simp [look] at h
  | cons p r ih =>
    obtain ⟨k1, v1⟩ := p
    intro h
    by_cases hk : k = k1
    · subst hk
      simp [look] at h
      simp [h]
    · simp [look, hk] at h
      exact List.mem_cons_of_mem _ (ih h)

theorem look_of_mem {k v : Text} : ∀ {m : AnnMap}, distinctKeys m = true → (k, v) ∈ m → look k m = some v := by
  intro m
  induction m with
  | nil => intro _ h; simp at h
  | cons p r ih =>
    obtain ⟨k1, v1⟩ := p
    intro hd h
    simp only [distinctKeys, Bool.and_eq_true, Bool.not_eq_true'] at hd
    rcases List.mem_cons.1 h with hm | hm
    · injection hm with h1 h2
      subst h1; subst h2
      simp [look]
    · have hk : ¬ k = k1 := by
        intro hk
        subst hk
        have hn := look_none_of_not_any k r hd.1
        rw [ih hd.2 hm] at hn
        simp at hn
      simp [look, hk, ih hd.2 hm]

theorem look_perm {m m' : AnnMap} (hp : m.Perm m') (hd : distinctKeys m = true) (hd' : distinctKeys m' = true)
    (k : Text) : look k m = look k m' := by
  cases h : look k m with
  | some v => exact (look_of_mem hd' (hp.mem_iff.1 (mem_of_look h))).symm
  | none =>
    cases h' : look k m' with
    | none => rfl
    | some v =>
      have hs := look_of_mem hd (hp.mem_iff.2 (mem_of_look h'))
      rw [h] at hs
      simp at hs

/-- `addUserMetadataToDescriptor` ranges over a Go map, i.e. in arbitrary order. For any two orders of the same
metadata the merge succeeds or fails alike and, when it succeeds, yields the same map (read key by key). -/
theorem merge_order_irrelevant (h : Heap) (ann : MapRef) (md md' : AnnMap) (hv : validRef h ann)
    (hp : md.Perm md') (hd : distinctKeys md = true) (hd' : distinctKeys md' = true) :
    (addUserMetadata h ann md).2.2 = (addUserMetadata h ann md').2.2 ∧
    ((addUserMetadata h ann md).2.2 = true → ∀ k,
      look k ((addUserMetadata h ann md).1.read (addUserMetadata h ann md).2.1) =
      look k ((addUserMetadata h ann md').1.read (addUserMetadata h ann md').2.1)) := by
  obtain ⟨_, _, hok, hm⟩ := addUserMetadata_spec h ann md hv hd
  obtain ⟨_, _, hok', hm'⟩ := addUserMetadata_spec h ann md' hv hd'
  have hsame : (addUserMetadata h ann md).2.2 = (addUserMetadata h ann md').2.2 := by
    rw [hok, hok', hp.any_eq, hp.any_eq]
  refine ⟨hsame, ?_⟩
  intro hokt k
  rw [hm hokt, hm' (hsame ▸ hokt), look_merged k md _ hd, look_merged k md' _ hd', look_perm hp hd hd' k]

/-! ### the ties to the Go source (regenerated on every run) -/

theorem facts_reserved_prefixes :
    Facts.c11ReservedPrefixes = [['i', 'o', '.', 'c', 'n', 'c', 'f', '.', 'n', 'o', 't', 'a', 'r', 'y']] := by decide

/-- the signer gets the merged descriptor, the push gets the one `Resolve` returned, and they are different variables -/
theorem facts_dataflow :
    Facts.c11MergeInput = Facts.c11ResolveVar ∧ Facts.c11SignerDescArg = Facts.c11MergeOutput ∧
    Facts.c11PushSubjectArg = Facts.c11ResolveVar ∧ Facts.c11MergeOutput ≠ Facts.c11ResolveVar := by decide

theorem facts_generated_annotations :
    Facts.c11GeneratedKeys = ["envelope.AnnotationX509ChainThumbprint", "ocispec.AnnotationCreated"] ∧
    Facts.c11ThumbprintHash = "sha256.Sum256(cert.Raw)" ∧ Facts.c11CreatedLayout = "time.RFC3339" ∧
    Facts.c11SigningTimeIsUTC = true := by decide

theorem facts_merge_loop : Facts.c11MergeLoopWrites = 1 ∧ Facts.c11MergeDescByValue = true := by decide

/-- the merge loop never writes through a nil map: a non-empty metadata gives the descriptor a map of its own -/
theorem write_target_is_a_map (h : Heap) (ann : MapRef) (md : AnnMap) (hne : md ≠ []) :
    (addUserMetadata h ann md).2.1 = some h.cells.length := by
  unfold addUserMetadata
  have : md.isEmpty = false := by cases md <;> simp_all
  simp [this, facts_merge_allocates_fresh_map, alloc_addr]

/-! ### non-vacuity -/

def exArt : Art := { mediaType := ['m'], digest := ['d'], size := 3, ann := [(['a'], ['1'])] }
def exCall (r : Ref) (md : AnnMap) : Call := { ref := r, md := md, opts := .jws }
def exInput (calls : List Call) : Input :=
  { backend := "mock", art := exArt, repo := { aliased := true, plainByDigest := false, anyDigest := true, push := .ok },
    signer := { kind := .ok, thumbs := [['a', 'b']], time := 951782400, pluginAnn := [] }, pluginConfig := [], calls := calls }

/-- signing the same tag three times with the same metadata succeeds three times -/
example : ((run (exInput (List.replicate 3 (exCall .fullTag [(['b'], ['2'])])))).calls.map (fun o => (o.ok, o.sigCount))) =
    [(true, 1), (true, 2), (true, 3)] := by decide

example : ((run (exInput [exCall .fullTag [(['b'], ['2'])]])).calls.map (·.signed)) =
    [some { mediaType := ['m'], digest := ['d'], size := 3, ann := [(['a'], ['1']), (['b'], ['2'])] }] := by decide

example : ((run (exInput [exCall .digest []])).calls.map (·.pushAnn)) =
    [some [(Facts.c11ThumbprintKey, "[\"ab\"]".toList), (Facts.c11CreatedKey, "2000-02-29T00:00:00Z".toList)]] := by decide

/-- a collision, a reserved key and a digest mismatch are refused, and a later good call is unaffected -/
example : ((run (exInput [exCall .tag [(['a'], ['2'])], exCall .tag [("io.cncf.notary.x".toList, [])],
      exCall .fullOtherDigest [], exCall .tag [(['b'], ['2'])]])).calls.map (fun o => (o.ok, o.sigCount))) =
    [(false, 0), (false, 0), (false, 0), (true, 1)] := by decide

example : Holds (exInput [exCall .tag [(['b'], ['2'])]]) (run (exInput [exCall .tag [(['b'], ['2'])]])) = true := by decide

/-- `Holds` rejects the behaviour of the code before 303ff26: metadata written into the repository's map
(subject carries it, repository view changed), second call refused -/
example : Holds (exInput [exCall .tag [(['b'], ['2'])], exCall .tag [(['b'], ['2'])]])
    { calls := [
      { ok := true, resolveArg := some .tag,
        signed := some { mediaType := ['m'], digest := ['d'], size := 3, ann := [(['a'], ['1']), (['b'], ['2'])] },
        subject := some { mediaType := ['m'], digest := ['d'], size := 3, ann := [(['a'], ['1']), (['b'], ['2'])] },
        pushAnn := some (expectedPushAnn (exInput [])), returned := .resolved,
        repoViewSame := false, handedSame := false, optsSame := true, sigCount := 1 },
      { ok := false, resolveArg := some .tag, signed := none, subject := none, pushAnn := none, returned := .zero,
        repoViewSame := false, handedSame := false, optsSame := true, sigCount := 1 }] } = false := by decide

/-- ... and names the clauses -/
example : (clauses (exInput [exCall .tag [(['b'], ['2'])]])
    { calls := [
      { ok := true, resolveArg := some .tag,
        signed := some { mediaType := ['m'], digest := ['d'], size := 3, ann := [(['a'], ['1']), (['b'], ['2'])] },
        subject := some { mediaType := ['m'], digest := ['d'], size := 3, ann := [(['a'], ['1']), (['b'], ['2'])] },
        pushAnn := some (expectedPushAnn (exInput [])), returned := .resolved,
        repoViewSame := false, handedSame := true, optsSame := true, sigCount := 1 }] }).failed =
    ["subject_is_resolved_descriptor", "frame"] := by decide

end NotationModel.C11

/- C02 - property theorems (stub: not built yet) -/
import NotationModel.Model.C02

namespace NotationModel.C02

end NotationModel.C02

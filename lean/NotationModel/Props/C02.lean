/-
C02 - The verification level alone decides which failed validations reject.
Property theorems only; model in `Model/C02.lean`, stage lemmas in `Lemmas/C02.lean`.
-/
import NotationModel.Lemmas.C02Process
import NotationModel.Generated.SrcProcess
import NotationModel.Lemmas.C02
import NotationModel.Generated.SrcLevels
import NotationModel.Generated.SrcVerifier
import NotationModel.Generated.SrcAttrs
set_option linter.unusedSimpArgs false
set_option linter.unusedVariables false
set_option maxRecDepth 4000

namespace NotationModel.C02

theorem holds_error_exit (i : Input) (enf : Enf) (s : St)
    (hs : s = {} ∨ s = { managerGets := 1 })
    (hrej : inDomain i = true → (named i = true ∧ pluginUsable i = false)) :
    (clausesFor i enf (s.obs false)).holds = true := by
  have hp : inDomain i = true → pluginOK i enf = false := by
    intro h; obtain ⟨h1, h2⟩ := hrej h; simp [pluginOK, h1, h2]
  rcases hs with rfl | rfl <;>
  · cases hd : inDomain i
    · simp [clausesFor, Clauses.holds, St.obs, resultOf, enforcedFailure, hd]
    · simp [clausesFor, Clauses.holds, St.obs, resultOf, enforcedFailure, hd, hp hd, acceptSpec]

/-- type names are pairwise distinct (the regenerated constants) -/
theorem types_distinct :
    Facts.typeAuthenticity ≠ Facts.typeExpiry ∧ Facts.typeAuthenticity ≠ Facts.typeAuthenticTimestamp ∧
    Facts.typeAuthenticity ≠ Facts.typeRevocation ∧ Facts.typeExpiry ≠ Facts.typeAuthenticTimestamp ∧
    Facts.typeExpiry ≠ Facts.typeRevocation ∧ Facts.typeAuthenticTimestamp ≠ Facts.typeRevocation ∧
    Facts.actionEnforce ≠ Facts.actionSkip := by decide

theorem native_rev_facts (i : Input) (enf : Enf) (h : nativeRev i enf = true) :
    revSkippedBy enf = false ∧ (named i && i.capRevocation) = false := by
  unfold nativeRev capsOf at h
  unfold named
  cases hs : revSkippedBy enf <;> cases hp : i.pluginAttr <;> cases hc : i.capRevocation <;>
    cases hi : i.capIdentity <;> simp_all [capRevocation, capIdentity]

/-- a validation stopped the workflow: the clauses hold at that exit -/
theorem holds_validation_exit (i : Input) (enf : Enf) (s : St)
    (hs : (s = S1 i enf ∧ isCritical (authR i enf) = true) ∨
          (s = S2 i enf ∧ isCritical (expR i enf) = true) ∨
          (s = S3 i enf ∧ isCritical (tsR i enf) = true) ∨
          (s = S4 i enf ∧ nativeRev i enf = true ∧ isCritical (revR i enf) = true)) :
    (clausesFor i enf (s.obs false)).holds = true := by
  obtain ⟨t1, t2, t3, t4, t5, t6, t7⟩ := types_distinct
  have hacc : acceptSpec i enf = false := by
    rcases hs with ⟨_, h⟩ | ⟨_, h⟩ | ⟨_, h⟩ | ⟨_, hn, h⟩
    · simp only [isCritical, authR_action, authR_failed, nativeId_eq, Bool.and_eq_true, beq_iff_eq] at h
      unfold acceptSpec enforced authFailedTruth
      cases ha : askedIdentity i <;> simp_all <;> grind
    · simp only [isCritical, expR_action, expR_failed, Bool.and_eq_true, beq_iff_eq] at h
      simp [acceptSpec, enforced, h.1, h.2]
    · simp only [isCritical, tsR_action, tsR_failed, Bool.and_eq_true, beq_iff_eq] at h
      simp [acceptSpec, enforced, h.1, h.2]
    · simp only [isCritical, revR_action, revR_failed, Bool.and_eq_true, beq_iff_eq] at h
      rw [nativeRev_eq] at hn
      simp only [Bool.and_eq_true, Bool.not_eq_true'] at hn
      have har : askedRevocation i enf = false := by
        unfold askedRevocation
        cases hnm : named i <;> cases hcr : i.capRevocation <;> simp_all
      simp [acceptSpec, enforced, h.1, h.2, hn.1, revFailedTruth, har]
  rcases hs with ⟨rfl, h⟩ | ⟨rfl, h⟩ | ⟨rfl, h⟩ | ⟨rfl, hn, h⟩
  · simp [clausesFor, Clauses.holds, St.obs, S1, S0, resultOf, enforcedFailure, h, hacc, *]
  · simp [clausesFor, Clauses.holds, St.obs, S2, S1, S0, resultOf, enforcedFailure, h, hacc, *]
  · simp [clausesFor, Clauses.holds, St.obs, S3, S1, S0, resultOf, enforcedFailure, h, hacc, *]
  · obtain ⟨n1, n2⟩ := native_rev_facts i enf hn
    simp [clausesFor, Clauses.holds, St.obs, S4, S3, S1, S0, resultOf, enforcedFailure, h, hn, n1, n2, hacc, *]

/-- common tail of the plugin-stage case analysis -/
macro "c02_finish" : tactic => `(tactic|
  (simp [clausesFor, Clauses.holds, St.obs, resultOf, enforcedFailure, pluginOK, pluginExecuted,
        askedIdentity, askedRevocation, authFailedTruth, revFailedTruth, isCritical, nativeId, capsOf,
        capIdentity, capRevocation, knownFinding, named, *] at *))

theorem toVerify_eq (i : Input) (enf : Enf) (hpa : i.pluginAttr = .named) :
    toVerify i enf = (if i.capIdentity then [capIdentity] else []) ++
                     (if i.capRevocation && !revSkippedBy enf then [capRevocation] else []) := by
  unfold toVerify capsOf
  cases i.capIdentity <;> cases i.capRevocation <;> cases revSkippedBy enf <;>
    simp [hpa, capIdentity, capRevocation]

/-- state in which the plugin is executed -/
def S5 (i : Input) (enf : Enf) : St :=
  { S4 i enf with pluginVerifyCaps := some (toVerify i enf),
                  pluginAttrsToProcess := some (sortKeys (i.extAttrs.map (·.key))) }

theorem pluginStage_named (i : Input) (enf : Enf) (hpa : i.pluginAttr = .named) :
    pluginStage i enf (S4 i enf) =
      if (toVerify i enf).isEmpty then .ok (S4 i enf)
      else if i.pluginCallError then .error (S5 i enf)
      else if i.extAttrs.any (fun a => !i.processed.contains a.key) then .error (S5 i enf)
      else respondCaps i enf (toVerify i enf) (S5 i enf) := by
  unfold pluginStage processResponse S5
  simp only [hpa, beq_self_eq_true, if_true]

/-- evaluate the response loop on the explicit state -/
macro "c02_resp" : tactic => `(tactic|
  (simp [respondCaps, respondCap, S5, S4, S3, S1, S0, capIdentity, capRevocation, failAuthenticity, authResult,
     isCritical, *]))

/-- evaluate the clauses on an explicit final state -/
macro "c02_leaf" : tactic => `(tactic|
  (simp_all [clausesFor, Clauses.holds, St.obs, resultOf, enforcedFailure, pluginOK, pluginExecuted,
      askedIdentity, askedRevocation, authFailedTruth, revFailedTruth, isCritical, capIdentity, capRevocation,
      knownFinding, acceptSpec, enforced, S5, S4, S3, S1, S0]))

/-- hypotheses shared by the four shapes of the capability list -/
structure Ctx (i : Input) (enf : Enf) : Prop where
  hpa : i.pluginAttr = .named
  h1 : isCritical (authR i enf) = false
  h2 : isCritical (expR i enf) = false
  h3 : isCritical (tsR i enf) = false
  h4 : (nativeRev i enf && isCritical (revR i enf)) = false
  hdom : inDomain i = true → pluginUsable i = true
  hF : knownFinding i enf = false

set_option maxHeartbeats 1600000 in
theorem holds_tv_nil (i : Input) (enf : Enf) (c : Ctx i enf) (htv : toVerify i enf = [])
    (hc : (i.capIdentity = false ∧ i.capRevocation = false) ∨
          (i.capIdentity = false ∧ i.capRevocation = true ∧ revSkippedBy enf = true)) :
    (clausesFor i enf ((S4 i enf).obs true)).holds = true := by
  obtain ⟨hpa, h1, h2, h3, h4, hdom, hF⟩ := c
  obtain ⟨t1, t2, t3, t4, t5, t6, t7⟩ := types_distinct
  have hnamed : named i = true := by simp [named, hpa]
  by_cases hcR : enf.get Facts.typeRevocation = Facts.actionEnforce <;>
  rcases hc with ⟨hci, hcr⟩ | ⟨hci, hcr, hs⟩
  all_goals
    have hnid : nativeId i = true := by simp [nativeId, capsOf, hpa, hci, hcr, capIdentity, capRevocation]
    have hnr : nativeRev i enf = (!revSkippedBy enf && !i.capRevocation) := by
      simp [nativeRev, capsOf, hpa, hci, hcr, capIdentity, capRevocation]
    simp only [isCritical, authR_action, authR_failed, expR_action, expR_failed, tsR_action, tsR_failed,
      revR_action, revR_failed, hnid, hnr] at h1 h2 h3 h4
    cases hs' : revSkippedBy enf <;> c02_leaf
    all_goals grind

set_option maxHeartbeats 3200000 in
theorem holds_tv_exec (i : Input) (enf : Enf) (c : Ctx i enf)
    (hc : (i.capIdentity = true ∧ i.capRevocation = false ∧ revSkippedBy enf = false) ∨
          (i.capIdentity = true ∧ i.capRevocation = false ∧ revSkippedBy enf = true) ∨
          (i.capIdentity = true ∧ i.capRevocation = true ∧ revSkippedBy enf = true) ∨
          (i.capIdentity = false ∧ i.capRevocation = true ∧ revSkippedBy enf = false) ∨
          (i.capIdentity = true ∧ i.capRevocation = true ∧ revSkippedBy enf = false)) :
    match (if i.pluginCallError then Except.error (S5 i enf)
           else if i.extAttrs.any (fun a => !i.processed.contains a.key) then .error (S5 i enf)
           else respondCaps i enf (toVerify i enf) (S5 i enf)) with
    | .ok s => (clausesFor i enf (s.obs true)).holds = true
    | .error s => (clausesFor i enf (s.obs false)).holds = true := by
  obtain ⟨hpa, h1, h2, h3, h4, hdom, hF⟩ := c
  obtain ⟨t1, t2, t3, t4, t5, t6, t7⟩ := types_distinct
  have hnamed : named i = true := by simp [named, hpa]
  have htv := toVerify_eq i enf hpa
  by_cases hcA : enf.get Facts.typeAuthenticity = Facts.actionEnforce <;>
  by_cases hcR : enf.get Facts.typeRevocation = Facts.actionEnforce <;>
  rcases hc with ⟨hci, hcr, hs⟩ | ⟨hci, hcr, hs⟩ | ⟨hci, hcr, hs⟩ | ⟨hci, hcr, hs⟩ | ⟨hci, hcr, hs⟩
  all_goals
    have hnid : nativeId i = !i.capIdentity := by
      simp [nativeId, capsOf, hpa, hci, hcr, capIdentity, capRevocation]
    have hnr : nativeRev i enf = (!revSkippedBy enf && !i.capRevocation) := by
      simp [nativeRev, capsOf, hpa, hci, hcr, capIdentity, capRevocation]
    simp only [isCritical, authR_action, authR_failed, expR_action, expR_failed, tsR_action, tsR_failed,
      revR_action, revR_failed, hnid, hnr] at h1 h2 h3 h4
    simp [hci, hcr, hs] at htv
    cases hce : i.pluginCallError
    · cases hup : i.extAttrs.any (fun a => !i.processed.contains a.key)
      · cases hvi : i.verdictIdentity <;> cases hvr : i.verdictRevocation <;>
          c02_resp <;> c02_leaf <;> grind
      · c02_resp <;> c02_leaf <;> grind
    · c02_resp <;> c02_leaf <;> grind

/-- plugin named: the clauses hold at every exit of the plugin stage -/
theorem holds_plugin_named (i : Input) (enf : Enf) (c : Ctx i enf) :
    match pluginStage i enf (S4 i enf) with
    | .ok s => (clausesFor i enf (s.obs true)).holds = true
    | .error s => (clausesFor i enf (s.obs false)).holds = true := by
  rw [pluginStage_named i enf c.hpa]
  have htv := toVerify_eq i enf c.hpa
  cases hci : i.capIdentity <;> cases hcr : i.capRevocation <;> cases hs : revSkippedBy enf <;>
    simp [hci, hcr, hs] at htv
  case false.false.false => simp only [htv, List.isEmpty, if_true]; exact holds_tv_nil i enf c htv (Or.inl ⟨hci, hcr⟩)
  case false.false.true => simp only [htv, List.isEmpty, if_true]; exact holds_tv_nil i enf c htv (Or.inl ⟨hci, hcr⟩)
  case false.true.true => simp only [htv, List.isEmpty, if_true]; exact holds_tv_nil i enf c htv (Or.inr ⟨hci, hcr, hs⟩)
  all_goals
    have hne : (toVerify i enf).isEmpty = false := by simp [htv]
    simp only [hne, Bool.false_eq_true, if_false]
    apply holds_tv_exec i enf c
    simp [hci, hcr, hs]

/-- all validations passed without a critical failure: the clauses hold at every exit of the
plugin stage (outside the known finding) -/
theorem holds_plugin_stage (i : Input) (enf : Enf)
    (h1 : isCritical (authR i enf) = false) (h2 : isCritical (expR i enf) = false)
    (h3 : isCritical (tsR i enf) = false)
    (h4 : (nativeRev i enf && isCritical (revR i enf)) = false)
    (hdom : inDomain i = true → (named i = false ∨ pluginUsable i = true))
    (hF : knownFinding i enf = false) :
    match pluginStage i enf (S4 i enf) with
    | .ok s => (clausesFor i enf (s.obs true)).holds = true
    | .error s => (clausesFor i enf (s.obs false)).holds = true := by
  obtain ⟨t1, t2, t3, t4, t5, t6, t7⟩ := types_distinct
  cases hpa : i.pluginAttr
  case named =>
    exact holds_plugin_named i enf ⟨hpa, h1, h2, h3, h4, (fun hd => by
        have hn : named i = true := by simp [named, hpa]
        rcases hdom hd with h | h
        · simp [hn] at h
        · exact h), hF⟩
  all_goals
    unfold pluginStage
    simp only [hpa, reduceCtorEq, beq_iff_eq, if_false]
    have hnamed : named i = false := by simp [named, hpa]
    have hcaps : capsOf i = [] := by simp [capsOf, hpa]
    have hpo : pluginOK i enf = !i.extAttrs.any (·.critical) := by simp [pluginOK, hnamed]
    have hai : askedIdentity i = false := by simp [askedIdentity, hnamed]
    have har : askedRevocation i enf = false := by simp [askedRevocation, hnamed]
    have hnid : nativeId i = true := by simp [nativeId, hcaps]
    simp only [isCritical, authR_action, authR_failed, expR_action, expR_failed, tsR_action, tsR_failed,
      revR_action, revR_failed, hnid, Bool.true_and] at h1 h2 h3 h4
    cases hs : revSkippedBy enf <;> cases hc : i.extAttrs.any (·.critical) <;>
      simp [clausesFor, Clauses.holds, St.obs, S4, S3, S1, S0, resultOf, enforcedFailure, nativeRev, hcaps,
        hs, hc, hpo, hnamed, authFailedTruth, revFailedTruth, hai, har, isCritical, hnid, acceptSpec, enforced,
        knownFinding, *] at h4 ⊢
    all_goals by_cases hh : enf.get Facts.typeRevocation = Facts.actionEnforce <;> simp_all
    all_goals grind

/-- the property's clauses hold of the model of `processSignature` for every scenario outside
the known finding, for *every* enforcement map (not only the 24 reachable ones) -/
theorem holds_process (i : Input) (enf : Enf) (hF : knownFinding i enf = false) :
    (clausesFor i enf (process i enf)).holds = true := by
  unfold process
  rcases discover_cases i with hd | hd | hd
  · -- discovery passed
    have hdom : inDomain i = true → (named i = false ∨ pluginUsable i = true) := by
      intro h
      simp only [inDomain, Bool.and_eq_true, Bool.or_eq_true, beq_iff_eq] at h
      exact (discover_ok_iff i h.1.1.2 h.1.2).1 hd
    rw [processE_ok i enf hd, validations_closed]
    by_cases h1 : isCritical (authR i enf) = true
    · simp only [h1, if_true, bind, Except.bind]
      exact holds_validation_exit i enf _ (Or.inl ⟨rfl, h1⟩)
    · rw [if_neg h1]
      by_cases h2 : isCritical (expR i enf) = true
      · simp only [h2, if_true, bind, Except.bind]
        exact holds_validation_exit i enf _ (Or.inr (Or.inl ⟨rfl, h2⟩))
      · rw [if_neg h2]
        by_cases h3 : isCritical (tsR i enf) = true
        · simp only [h3, if_true, bind, Except.bind]
          exact holds_validation_exit i enf _ (Or.inr (Or.inr (Or.inl ⟨rfl, h3⟩)))
        · rw [if_neg h3]
          by_cases h4 : (nativeRev i enf && isCritical (revR i enf)) = true
          · simp only [h4, if_true, bind, Except.bind]
            simp only [Bool.and_eq_true] at h4
            exact holds_validation_exit i enf _ (Or.inr (Or.inr (Or.inr ⟨rfl, h4.1, h4.2⟩)))
          · rw [if_neg h4]
            simp only [bind, Except.bind]
            have := holds_plugin_stage i enf (by simpa using h1) (by simpa using h2) (by simpa using h3)
              (by simpa using h4) hdom hF
            split at this <;> simp_all
  all_goals
    have hrej : inDomain i = true → (named i = true ∧ pluginUsable i = false) := by
      intro h
      simp only [inDomain, Bool.and_eq_true, Bool.or_eq_true, beq_iff_eq] at h
      have hiff := discover_ok_iff i h.1.1.2 h.1.2
      have hne : ¬ discover i {} = .ok (S0 i) := by rw [hd]; simp
      have := mt hiff.2 hne
      simp only [not_or] at this
      exact ⟨by simpa using this.1, by simpa using this.2⟩
    rw [processE_err i enf _ hd]
    first
      | exact holds_error_exit i enf _ (Or.inl rfl) hrej
      | exact holds_error_exit i enf _ (Or.inr rfl) hrej

/-! ### property theorems -/

/-- **C02, the whole property**: every clause of `Holds` is true of the model's behaviour for
every scenario outside the known finding F-C02b. -/
theorem model_holds (i : Input) (hF : knownFinding i (enfOf i) = false) : Holds i (run i) = true := by
  unfold Holds clauses run
  cases heff : effective i.level i.override with
  | error e =>
    have hd : inDomain i = false := by simp [inDomain, levelOK, heff]
    simp [clausesFor, Clauses.holds, St.obs, resultOf, enforcedFailure, hd]
  | ok p =>
    obtain ⟨nm, enf⟩ := p
    have henf : enfOf i = enf := by simp [enfOf, heff]
    rw [henf] at hF ⊢
    exact holds_process i enf hF

/-- the known finding is real in the model: a usable plugin that is never executed lets a critical
extended attribute through (this is what the unchanged code does; KNOWN_FINDINGS.txt F-C02b) -/
def findingWitness : Input :=
  { level := "strict", override := [("revocation", "skip")], pluginAttr := .named, minVerAttr := .absent,
    extAttrs := [{ key := "com.example.mustUnderstand", critical := true }], pluginState := .installed,
    pluginVersion := .ok, capIdentity := false, capRevocation := true, trust := .found,
    identityMatch := true, wildcardIdentity := false, expired := false, timestampOk := true, revocation := .ok,
    pluginCallError := false, processed := [], verdictIdentity := .success, verdictRevocation := .success }

theorem finding_counterexample :
    knownFinding findingWitness (enfOf findingWitness) = true ∧ Holds findingWitness (run findingWitness) = false := by
  decide

/-- reading of the main clause: inside the property's domain and outside the known finding, the
signature is accepted iff no reported result with action enforce failed and the plugin conditions hold -/
theorem reject_iff (i : Input) (hd : inDomain i = true) (hF : knownFinding i (enfOf i) = false) :
    (run i).accepted = true ↔
      ((run i).results.all (fun r => !(r.action == Facts.actionEnforce && r.failed)) = true ∧ pluginOK i (enfOf i) = true) := by
  have := model_holds i hF
  simp only [Holds, clauses, clausesFor, Clauses.holds, List.all_cons, Bool.and_eq_true] at this
  have h1 := this.1
  simp only [hd, Bool.not_true, Bool.false_or, beq_iff_eq] at h1
  rw [h1]
  simp [enforcedFailure, isCritical, List.all_eq_not_any_not]

/-- every reported result carries the action the level assigns to its type -/
theorem results_carry_level_action (i : Input) (hF : knownFinding i (enfOf i) = false) :
    ∀ r ∈ (run i).results, r.action = (enfOf i).get r.type := by
  have := model_holds i hF
  simp only [Holds, clauses, clausesFor, Clauses.holds, List.all_cons, Bool.and_eq_true] at this
  simpa using this.2.2.1

/-- a skipped revocation validation is not performed at all, natively or by plugin -/
theorem skip_revocation_not_performed (i : Input) (hF : knownFinding i (enfOf i) = false)
    (hs : revSkippedBy (enfOf i) = true) :
    (run i).validatorCalls = 0 ∧ (run i).results.all (fun r => r.type != Facts.typeRevocation) = true ∧
    ∀ caps, (run i).pluginVerifyCaps = some caps → capRevocation ∉ caps := by
  have := model_holds i hF
  simp only [Holds, clauses, clausesFor, Clauses.holds, List.all_cons, Bool.and_eq_true] at this
  have h := this.2.2.2.2.2.2.2.1
  simp only [hs, Bool.not_true, Bool.false_or, Bool.and_eq_true, beq_iff_eq] at h
  refine ⟨h.1.1, ?_, ?_⟩
  · have := h.1.2
    simp [resultOf] at this
    simpa using this
  · intro caps hc
    have := h.2
    simp [hc] at this
    exact this

/-- a revocation capability declared by the named plugin replaces the native validator -/
theorem capability_replaces_native (i : Input) (hF : knownFinding i (enfOf i) = false)
    (hn : named i = true) (hc : i.capRevocation = true) : (run i).validatorCalls = 0 := by
  have := model_holds i hF
  simp only [Holds, clauses, clausesFor, Clauses.holds, List.all_cons, Bool.and_eq_true] at this
  have h := this.2.2.2.2.2.2.2.2.1
  simpa [hn, hc] using h

/-! ### monotonicity -/

/-- `enf'` is pointwise weaker than `enf`: whatever `enf'` enforces `enf` enforces too, and both
skip revocation or neither does -/
def Weaker (enf enf' : Enf) : Prop :=
  (∀ t, enforced enf' t = true → enforced enf t = true) ∧ revSkippedBy enf = revSkippedBy enf'

theorem pluginOK_congr (i : Input) (enf enf' : Enf) (h : revSkippedBy enf = revSkippedBy enf') :
    pluginOK i enf = pluginOK i enf' ∧ revFailedTruth i enf = revFailedTruth i enf' ∧
    knownFinding i enf = knownFinding i enf' := by
  simp [pluginOK, revFailedTruth, knownFinding, pluginExecuted, askedRevocation, h]

theorem acceptSpec_mono (i : Input) (enf enf' : Enf) (hw : Weaker enf enf')
    (h : acceptSpec i enf = true) : acceptSpec i enf' = true := by
  obtain ⟨he, hs⟩ := hw
  obtain ⟨hp, hr, _⟩ := pluginOK_congr i enf enf' hs
  unfold acceptSpec at h ⊢
  rw [← hp, ← hr, ← hs]
  have a1 := he Facts.typeAuthenticity
  have a2 := he Facts.typeExpiry
  have a3 := he Facts.typeAuthenticTimestamp
  have a4 := he Facts.typeRevocation
  revert h a1 a2 a3 a4
  cases enforced enf Facts.typeAuthenticity <;> cases enforced enf' Facts.typeAuthenticity <;>
  cases enforced enf Facts.typeExpiry <;> cases enforced enf' Facts.typeExpiry <;>
  cases enforced enf Facts.typeAuthenticTimestamp <;> cases enforced enf' Facts.typeAuthenticTimestamp <;>
  cases enforced enf Facts.typeRevocation <;> cases enforced enf' Facts.typeRevocation <;> simp <;> grind

/-- **C02, monotonicity**: weakening the level (enforce -> log, same skipped types) never turns an
accepted signature into a rejected one - for all enforcement maps, not only the preset ones. -/
theorem accept_mono (i : Input) (enf enf' : Enf) (hd : inDomain i = true)
    (hF : knownFinding i enf = false) (hw : Weaker enf enf')
    (h : (process i enf).accepted = true) : (process i enf').accepted = true := by
  have hF' : knownFinding i enf' = false := by rw [← (pluginOK_congr i enf enf' hw.2).2.2]; exact hF
  have c1 := holds_process i enf hF
  have c2 := holds_process i enf' hF'
  simp only [clausesFor, Clauses.holds, List.all_cons, Bool.and_eq_true] at c1 c2
  have e1 := c1.2.1
  have e2 := c2.2.1
  simp only [hd, hF, hF', Bool.not_true, Bool.false_or, beq_iff_eq] at e1 e2
  rw [e2]
  exact acceptSpec_mono i enf enf' hw (by rw [← e1]; exact h)

/-! ### levels (over the tables regenerated from trustpolicy.go) -/

/-- the tables have the expected shape: five types, three actions, four levels in order -/
theorem level_tables_shape :
    Facts.validationTypes = [Facts.typeIntegrity, Facts.typeAuthenticity, Facts.typeAuthenticTimestamp,
      Facts.typeExpiry, Facts.typeRevocation] ∧
    Facts.validationActions = [Facts.actionEnforce, Facts.actionLog, Facts.actionSkip] ∧
    Facts.levels.map (·.1) = ["strict", "permissive", "audit", "skip"] ∧
    (Facts.levels.all fun l => Facts.validationTypes.all fun t => Facts.validationActions.contains (Enf.get l.2 t)) = true := by
  decide

/-- every preset level other than skip enforces integrity; skip skips everything -/
theorem presets_enforce_integrity :
    (Facts.levels.all fun l => l.1 == "skip" || Enf.get l.2 Facts.typeIntegrity == Facts.actionEnforce) = true ∧
    (Facts.levels.all fun l => l.1 != "skip" ||
      Facts.validationTypes.all fun t => Enf.get l.2 t == Facts.actionSkip) = true := by
  decide

/-- strict is stronger than permissive, permissive stronger than audit, pointwise, and none of
the three skips revocation (`Weaker` on the regenerated tables) -/
theorem presets_ordered :
    ∀ e1 e2 e3, Facts.levels.lookup "strict" = some e1 → Facts.levels.lookup "permissive" = some e2 →
      Facts.levels.lookup "audit" = some e3 →
      (Facts.validationTypes.all fun t =>
        (!enforced e2 t || enforced e1 t) && (!enforced e3 t || enforced e2 t)) = true ∧
      revSkippedBy e1 = false ∧ revSkippedBy e2 = false ∧ revSkippedBy e3 = false := by
  intro e1 e2 e3 h1 h2 h3
  simp only [Facts.levels, List.lookup] at h1 h2 h3
  simp at h1 h2 h3
  subst h1 h2 h3
  decide

theorem lookup_map_set (e : Enf) (t a t' : String) :
    (e.map (fun p => if p.1 == t then (t, a) else p)).lookup t' =
      if t' = t then (if e.any (·.1 == t) then some a else none) else e.lookup t' := by
  induction e with
  | nil => simp
  | cons p rest ih =>
    simp only [List.map_cons, List.any_cons]
    by_cases hp : p.1 = t
    · subst hp
      by_cases ht : t' = p.1
      · subst ht; simp [List.lookup]
      · have h1 : (t' == p.1) = false := by simp [ht]
        simp only [beq_self_eq_true, if_true, List.lookup, h1, ih, ht, if_false]
    · have h0 : (p.1 == t) = false := by simp [hp]
      simp only [h0, Bool.false_eq_true, if_false, Bool.false_or]
      by_cases ht : t' = p.1
      · subst ht
        simp [List.lookup, hp]
      · have h1 : (t' == p.1) = false := by simp [ht]
        cases hpp : p with
        | mk k v =>
          simp only [hpp] at h1
          simp only [List.lookup, h1, ih]

theorem lookup_append_single (e : Enf) (t a t' : String) (h : e.any (·.1 == t) = false) :
    (e ++ [(t, a)]).lookup t' = if t' = t then some a else e.lookup t' := by
  induction e with
  | nil => by_cases ht : t' = t <;> simp [List.lookup, ht]
  | cons p rest ih =>
    simp only [List.any_cons, Bool.or_eq_false_iff] at h
    cases hpp : p with
    | mk k v =>
      simp only [hpp] at h
      have hk : k ≠ t := by simpa using h.1
      by_cases ht : t' = k
      · subst ht
        simp [List.lookup, hk]
      · have h1 : (t' == k) = false := by simp [ht]
        simp only [List.cons_append, List.lookup, h1, ih h.2]

theorem Enf.get_set (e : Enf) (t a t' : String) :
    (e.set t a).get t' = if t' = t then a else e.get t' := by
  unfold Enf.set Enf.get
  by_cases h : e.any (·.1 == t) = true
  · simp only [h, if_true, lookup_map_set]
    by_cases ht : t' = t <;> simp [ht]
  · have h' : e.any (·.1 == t) = false := Bool.eq_false_iff.2 h
    simp only [h', Bool.false_eq_true, if_false, lookup_append_single e t a t' h']
    by_cases ht : t' = t <;> simp [ht]

/-- `GetVerificationLevel`: whatever overrides are given (any list, any order, duplicates), a
level that is accepted and is not the skip preset enforces integrity; only revocation can be skip -/
theorem effective_enforces_integrity (level : String) (override : List (String × String))
    (nm : String) (enf : Enf) (h : effective level override = .ok (nm, enf)) (hns : nm ≠ "skip") :
    enf.get Facts.typeIntegrity = Facts.actionEnforce := by
  unfold effective at h
  split at h
  · simp at h
  · split at h
    · simp at h
    · rename_i name enf0 hfl
      have hbase : name ≠ "skip" → enf0.get Facts.typeIntegrity = Facts.actionEnforce := by
        intro hn
        unfold findLevel at hfl
        have := presets_enforce_integrity.1
        have hmem : (name, enf0) ∈ Facts.levels := by
          have := List.mem_of_getLast? hfl
          exact (List.mem_filter.1 this).1
        have := List.all_eq_true.1 this (name, enf0) hmem
        simp at this
        rcases this with h1 | h1
        · exact absurd h1 hn
        · exact h1
      split at h
      · simp only [Except.ok.injEq, Prod.mk.injEq] at h
        obtain ⟨rfl, rfl⟩ := h
        exact hbase hns
      · split at h
        · simp at h
        · rename_i hnskip
          have hname : name ≠ "skip" := by simpa using hnskip
          -- the fold keeps the invariant
          have inv : ∀ (ov : List (String × String)) (acc : Enf),
              acc.get Facts.typeIntegrity = Facts.actionEnforce →
              ∀ r, ov.foldl applyOverride (.ok acc) = .ok r → r.get Facts.typeIntegrity = Facts.actionEnforce := by
            intro ov
            induction ov with
            | nil => intro acc ha r hr; simp at hr; subst hr; exact ha
            | cons kv rest ih =>
              intro acc ha r hr
              simp only [List.foldl_cons] at hr
              cases hstep : applyOverride (.ok acc) kv with
              | error e =>
                rw [hstep] at hr
                have : ∀ l : List (String × String), l.foldl applyOverride (.error e) = .error e := by
                  intro l; induction l with
                  | nil => rfl
                  | cons x xs ihx => simp [List.foldl_cons, applyOverride, ihx]
                rw [this] at hr; simp at hr
              | ok acc' =>
                rw [hstep] at hr
                refine ih acc' ?_ r hr
                unfold applyOverride at hstep
                simp only at hstep
                split at hstep
                · simp at hstep
                · split at hstep
                  · simp at hstep
                  · split at hstep
                    · simp at hstep
                    · rename_i hni
                      split at hstep
                      · simp at hstep
                      · simp only [Except.ok.injEq] at hstep
                        subst hstep
                        rw [Enf.get_set]
                        have : Facts.typeIntegrity ≠ kv.1 := by
                          intro e; apply hni; simp [e]
                        simp [this, ha]
          split at h
          · simp at h
          · rename_i enf' hfold
            simp only [Except.ok.injEq, Prod.mk.injEq] at h
            obtain ⟨_, rfl⟩ := h
            exact inv override enf0 (hbase hname) _ hfold

/-! ### non-vacuity -/

/-- a scenario inside the domain, outside the finding, accepted with a logged failure -/
def sampleAccepted : Input :=
  { level := "permissive", override := [], pluginAttr := .named, minVerAttr := .valid,
    extAttrs := [{ key := "com.example.a", critical := true }], pluginState := .installed,
    pluginVersion := .ok, capIdentity := true, capRevocation := true, trust := .found,
    identityMatch := false, wildcardIdentity := false, expired := true, timestampOk := true, revocation := .revoked,
    pluginCallError := false, processed := ["com.example.a"], verdictIdentity := .success,
    verdictRevocation := .failure }

example : inDomain sampleAccepted = true ∧ knownFinding sampleAccepted (enfOf sampleAccepted) = false ∧
    (run sampleAccepted).accepted = true ∧ (run sampleAccepted).validatorCalls = 0 ∧
    (run sampleAccepted).results.length = 4 := by decide

/-- the same scenario under strict is rejected (revocation verdict of the plugin is enforced) -/
example : (run { sampleAccepted with level := "strict" }).accepted = false := by decide

/-- `Holds` is not trivially true: claiming acceptance of the strict run is refuted -/
example : Holds { sampleAccepted with level := "strict" }
    { (run { sampleAccepted with level := "strict" }) with accepted := true } = false := by decide

/-! ### tie to the translated source -/

namespace Tie
open NotationModel.Src NotationModel.Src.trustpolicy

/-- the fact tables and the translated declarations say the same -/
theorem levels_agree : Facts.levels = VerificationLevels.map (fun l => (l.Name, l.Enforcement)) := by decide
theorem types_agree : Facts.validationTypes = ValidationTypes := by decide
theorem actions_agree : Facts.validationActions = ValidationActions := by decide

/-- result shape: the level (if any) and whether an error is returned -/
def shape (r : Option VerificationLevel × Option GoLite.Err) : Option (String × Enf) × Bool :=
  (r.1.map (fun l => (l.Name, l.Enforcement)), r.2.isSome)

def ofModel : Except String (String × Enf) → Option (String × Enf) × Bool
  | .ok p => (some p, false)
  | .error _ => (none, true)

theorem foldl_error (e : String) (l : List (String × String)) :
    l.foldl applyOverride (.error e) = .error e := by
  induction l with
  | nil => rfl
  | cons a l ih => simpa [List.foldl, applyOverride] using ih

theorem foldE_foldl (l : List (String × String)) (t : Enf) :
    (match GoLite.foldE (fun t kv => applyOverride (.ok t) kv) l t with
      | .ok t' => Except.ok t'
      | .error (_, e) => Except.error e) = l.foldl applyOverride (.ok t) := by
  induction l generalizing t with
  | nil => simp [GoLite.foldE]
  | cons a l ih =>
    simp only [GoLite.foldE, List.foldl]
    cases h : applyOverride (.ok t) a with
    | ok t' => simpa using ih t'
    | error e => simp [foldl_error]

theorem findLevel_src (lvl : String) :
    findLevel lvl = ((VerificationLevels.filter (fun l => l.Name == lvl)).getLast?).map (fun l => (l.Name, l.Enforcement)) := by
  unfold findLevel
  rw [levels_agree, List.filter_map, List.getLast?_map]
  rfl

/-- the loop state of the override loop, seen from the model: the enforcement map built so far -/
abbrev absSt (t : Enf) : Option (Option VerificationLevel × Option GoLite.Err) × VerificationLevel :=
  (none, { Name := "custom", Enforcement := t })
abbrev stopSt (t : Enf) (_e : String) : Option (Option VerificationLevel × Option GoLite.Err) × VerificationLevel :=
  (some (none, some (GoLite.errorf "")), { Name := "custom", Enforcement := t })

/-- TIE (translated source): `SignatureVerification.GetVerificationLevel`, translated from
verifier/trustpolicy/trustpolicy.go on every run (`Generated/SrcLevels.lean`, together with the
level tables and the lists of types and actions), returns for EVERY level name and override map
exactly the level and enforcement map of the hand-written `effective`, and an error exactly when
`effective` fails. (Override maps are association lists: the statement holds for every iteration
order Go may choose.) -/
theorem source_GetVerificationLevel_refines_model (sv : SignatureVerification) : shape (GetVerificationLevel sv) = ofModel (effective sv.VerificationLevel sv.Override) := by
  unfold GetVerificationLevel
  simp only [Id.run]
  simp only [GoLite.forIn_lastMatch, GoLite.forIn_firstEq, pure_bind]
  unfold effective
  rw [findLevel_src]
  by_cases h0 : sv.VerificationLevel = ""
  · simp [h0, shape, ofModel, GoLite.idPure]
  · have hne : (sv.VerificationLevel == "") = false := by simpa using h0
    simp only [hne, Bool.false_eq_true, if_false]
    cases hb : (VerificationLevels.filter (fun l => l.Name == sv.VerificationLevel)).getLast? with
    | none => simp [shape, ofModel, GoLite.idPure]
    | some b =>
      have hmem : b ∈ VerificationLevels.filter (fun l => l.Name == sv.VerificationLevel) := List.mem_of_getLast? hb
      simp only [Option.isNone_some, Bool.false_eq_true, if_false, Option.map_some]
      by_cases hov : sv.Override = []
      · simp [hov, shape, ofModel, GoLite.idPure]
      · have hlen : (GoLite.len sv.Override == 0) = false := by
          cases h : sv.Override with
          | nil => exact absurd h hov
          | cons a l => simp [GoLite.len]; omega
        have hemp : sv.Override.isEmpty = false := by simp [hov]
        simp only [hlen, hemp, Bool.false_eq_true, if_false]
        have hb4 : b = LevelStrict ∨ b = LevelPermissive ∨ b = LevelAudit ∨ b = LevelSkip := by
          have := (List.mem_filter.1 hmem).1
          simpa [VerificationLevels] using this
        have hcopy : (forIn (GoLite.deref (some b)).Enforcement ({ Name := "custom", Enforcement := [] } : VerificationLevel)
              (fun x __s => (pure (ForInStep.yield { Name := __s.Name, Enforcement := __s.Enforcement.set x.fst x.snd }) : Id _))) =
            pure ({ Name := "custom", Enforcement := b.Enforcement } : VerificationLevel) := by
          rcases hb4 with rfl | rfl | rfl | rfl <;> rfl
        rw [hcopy]
        simp only [pure_bind]
        rw [GoLite.forIn_eq_foldE' _ (fun t kv => applyOverride (.ok t) kv) absSt stopSt ?h _ _ b.Enforcement rfl]
        case h =>
          intro x t
          have hT : ValidationTypes = Facts.validationTypes := types_agree.symm
          have hA : ValidationActions = Facts.validationActions := actions_agree.symm
          have hI : TypeIntegrity = Facts.typeIntegrity := by decide
          have hR : TypeRevocation = Facts.typeRevocation := by decide
          have hS : ActionSkip = Facts.actionSkip := by decide
          rcases x with ⟨k, v⟩
          simp only [hT, hA, hI, hR, hS, applyOverride, Enf.set, GoLite.Map.set]
          by_cases c1 : k ∈ Facts.validationTypes
          · by_cases c2 : v ∈ Facts.validationActions
            · simp [Facts.validationTypes] at c1
              simp [Facts.validationActions] at c2
              rcases c1 with rfl | rfl | rfl | rfl | rfl <;> rcases c2 with rfl | rfl | rfl <;>
                simp [Facts.validationTypes, Facts.validationActions, Facts.typeIntegrity, Facts.typeRevocation,
                  Facts.actionSkip, GoLite.errorf, absSt, stopSt] <;> (try rfl)
            · have c2' := c2
              simp [Facts.validationActions] at c2'
              simp [Facts.validationTypes] at c1
              rcases c1 with rfl | rfl | rfl | rfl | rfl <;>
                simp [Facts.validationTypes, Facts.validationActions, Facts.typeIntegrity, Facts.typeRevocation,
                  Facts.actionSkip, GoLite.errorf, absSt, stopSt, c2, c2'] <;> (try rfl)
          · have c1' := c1
            simp [Facts.validationTypes] at c1'
            simp [Facts.validationTypes, Facts.validationActions, Facts.typeIntegrity, Facts.typeRevocation,
                  Facts.actionSkip, GoLite.errorf, absSt, stopSt, c1, c1'] <;> (try rfl)
        have hskip : (some b == some LevelSkip) = (b.Name == "skip") := by
          rcases hb4 with rfl | rfl | rfl | rfl <;> decide
        rw [hskip, ← foldE_foldl]
        by_cases hs : (b.Name == "skip") = true
        · simp [hs, shape, ofModel, GoLite.idPure]
        · simp only [hs, Bool.false_eq_true, if_false, pure_bind]
          cases hf : GoLite.foldE (fun t kv => applyOverride (Except.ok t) kv) sv.Override b.Enforcement with
          | ok t' => simp [shape, ofModel, GoLite.idPure, absSt]
          | error p => obtain ⟨t', e⟩ := p; simp [shape, ofModel, GoLite.idPure, stopSt]

/-- TIE (translated source): `verifier.isCriticalFailure` is the model's `isCritical` -/
theorem source_isCriticalFailure_refines_model (r : «notation».ValidationResult) :
    verifier.isCriticalFailure r = isCritical { type := r.«Type», action := r.Action, failed := r.Error.isSome } := by
  simp [verifier.isCriticalFailure, isCritical, Id.run, GoLite.idPure]
  rfl

/-- non-vacuity: the translated function on a customised level -/
example : (GetVerificationLevel { VerificationLevel := "strict", Override := [("revocation", "skip")] }).1.map (·.Enforcement) =
    some [("integrity", "enforce"), ("authenticity", "enforce"), ("authenticTimestamp", "enforce"),
          ("expiry", "enforce"), ("revocation", "skip")] := by decide
example : (GetVerificationLevel { VerificationLevel := "audit", Override := [("integrity", "log")] }).2.isSome = true := by decide

/-! #### reading the verification-plugin attributes -/
section Attrs
open NotationModel.Src.verifier NotationModel.Src.signature

/-- what a signature's extended attributes say about the verification plugin, as the model's input puts it -/
def classifyPlugin (si : SignerInfo) : PluginAttr :=
  match si.SignedAttributes.ExtendedAttributes.find? (fun a => a.Key == .str HeaderVerificationPlugin) with
  | none => .absent
  | some a =>
    if !a.Critical then .notCritical
    else match a.Value with
      | .other _ => .notString
      | .str s => if GoLite.trimSpace s == "" then .blank else .named

def classifyMinVer (isValidSemver : String → Bool) (si : SignerInfo) : MinVerAttr :=
  match si.SignedAttributes.ExtendedAttributes.find? (fun a => a.Key == .str HeaderVerificationPluginMinVersion) with
  | none => .absent
  | some a =>
    if !a.Critical then .notCritical
    else match a.Value with
      | .other _ => .notString
      | .str s => if GoLite.trimSpace s == "" then .blank else if !isValidSemver s then .invalidSemver else .valid

/-- TIE: `getVerificationPlugin` (with `extractCriticalStringExtendedAttribute`) classifies the plugin
attribute exactly as the model's input enumeration does: absent -> the not-exist sentinel (no plugin
demanded), a critical non-blank string -> that name, everything else -> another error -/
theorem source_getVerificationPlugin_refines_model (si : SignerInfo) :
    (classifyPlugin si = .absent → getVerificationPlugin si = ("", some errExtendedAttributeNotExist)) ∧
    (classifyPlugin si = .named → (getVerificationPlugin si).2 = none ∧
        ∃ a, si.SignedAttributes.ExtendedAttributes.find? (fun a => a.Key == .str HeaderVerificationPlugin) = some a ∧
          a.Value = .str (getVerificationPlugin si).1) ∧
    (classifyPlugin si ≠ .absent → classifyPlugin si ≠ .named →
        (getVerificationPlugin si).1 = "" ∧ (getVerificationPlugin si).2.isSome = true ∧
        (getVerificationPlugin si).2 ≠ some errExtendedAttributeNotExist) := by
  unfold getVerificationPlugin extractCriticalStringExtendedAttribute classifyPlugin SignerInfo.ExtendedAttribute
  simp only [Id.run]
  cases hf : si.SignedAttributes.ExtendedAttributes.find? (fun a => a.Key == .str HeaderVerificationPlugin) with
  | none => simp [GoLite.idPure, GoLite.idBind]
  | some a =>
    cases hc : a.Critical with
    | false => simp [hc, GoLite.idPure, GoLite.idBind, GoLite.errorf, errExtendedAttributeNotExist]
    | true =>
      cases hv : a.Value with
      | other t => simp [hc, hv, AVal.asString, GoLite.idPure, GoLite.idBind, GoLite.errorf, errExtendedAttributeNotExist]
      | str s =>
        by_cases hb : (GoLite.trimSpace s == "") = true
        · simp [hc, hv, hb, AVal.asString, GoLite.idPure, GoLite.idBind, GoLite.errorf, errExtendedAttributeNotExist]
        · simp [hc, hv, hb, AVal.asString, GoLite.idPure, GoLite.idBind, GoLite.errorf, errExtendedAttributeNotExist]

theorem source_getVerificationPluginMinVersion_refines_model (isValidSemver : String → Bool) (si : SignerInfo) :
    (classifyMinVer isValidSemver si = .absent →
        getVerificationPluginMinVersion isValidSemver si = ("", some errExtendedAttributeNotExist)) ∧
    (classifyMinVer isValidSemver si = .valid → (getVerificationPluginMinVersion isValidSemver si).2 = none ∧
        ∃ a, si.SignedAttributes.ExtendedAttributes.find? (fun a => a.Key == .str HeaderVerificationPluginMinVersion) = some a ∧
          a.Value = .str (getVerificationPluginMinVersion isValidSemver si).1) ∧
    (classifyMinVer isValidSemver si ≠ .absent → classifyMinVer isValidSemver si ≠ .valid →
        (getVerificationPluginMinVersion isValidSemver si).1 = "" ∧
        (getVerificationPluginMinVersion isValidSemver si).2.isSome = true ∧
        (getVerificationPluginMinVersion isValidSemver si).2 ≠ some errExtendedAttributeNotExist) := by
  unfold getVerificationPluginMinVersion extractCriticalStringExtendedAttribute classifyMinVer SignerInfo.ExtendedAttribute
  simp only [Id.run]
  cases hf : si.SignedAttributes.ExtendedAttributes.find? (fun a => a.Key == .str HeaderVerificationPluginMinVersion) with
  | none => simp [GoLite.idPure, GoLite.idBind]
  | some a =>
    cases hc : a.Critical with
    | false => simp [hc, GoLite.idPure, GoLite.idBind, GoLite.errorf, errExtendedAttributeNotExist]
    | true =>
      cases hv : a.Value with
      | other t => simp [hc, hv, AVal.asString, GoLite.idPure, GoLite.idBind, GoLite.errorf, errExtendedAttributeNotExist]
      | str s =>
        by_cases hb : (GoLite.trimSpace s == "") = true
        · simp [hc, hv, hb, AVal.asString, GoLite.idPure, GoLite.idBind, GoLite.errorf, errExtendedAttributeNotExist]
        · by_cases hs : isValidSemver s = true
          · simp [hc, hv, hb, hs, AVal.asString, GoLite.idPure, GoLite.idBind, GoLite.errorf, errExtendedAttributeNotExist]
          · simp [hc, hv, hb, hs, AVal.asString, GoLite.idPure, GoLite.idBind, GoLite.errorf, errExtendedAttributeNotExist]

/-- TIE: the attributes handed to the plugin for processing are ALL extended attributes with a string
key other than the two plugin headers - critical or not, in signature order (the function's name
notwithstanding) -/
theorem source_getNonPluginExtendedCriticalAttributes_refines_model (si : SignerInfo) :
    getNonPluginExtendedCriticalAttributes si =
      si.SignedAttributes.ExtendedAttributes.filter (fun a =>
        match a.Key with
        | .str k => !(VerificationPluginHeaders.contains k)
        | .other _ => false) := by
  unfold getNonPluginExtendedCriticalAttributes
  simp only [Id.run]
  rw [GoLite.forIn_appendIf]
  simp only [pure_bind]
  show ([] ++ List.filter _ _) = _
  rw [List.nil_append]
  apply List.filter_congr
  intro a _
  cases a.Key <;> simp [AVal.asString, GoLite.contains]

/-- non-vacuity: a critical attribute with a sharing-the-prefix key is NOT a plugin header and is handed on -/
example : (getNonPluginExtendedCriticalAttributes { SignedAttributes := { ExtendedAttributes :=
    [{ Key := .str "io.cncf.notary.verificationPlugin", Critical := true, Value := .str "p" },
     { Key := .str "io.cncf.notary.verificationPluginConfigDigest", Critical := true, Value := .str "x" },
     { Key := .other 7, Critical := true, Value := .str "y" }] } }).map (·.Key) =
    [.str "io.cncf.notary.verificationPluginConfigDigest"] := by decide
example : getVerificationPlugin { SignedAttributes := { ExtendedAttributes :=
    [{ Key := .str "io.cncf.notary.verificationPlugin", Critical := true, Value := .str "  " }] } } =
    ("", some ⟨"error"⟩) := by decide
end Attrs

end Tie

end NotationModel.C02

/-! ### tie to the translated source: `processSignature` as a whole

`Generated/SrcProcess.lean` holds `processSignature` and `processPluginResponse` translated from
verifier/verifier.go on every run (pointers into `outcome.VerificationResults` tracked by ghost
positions, see go2lean.go `ptrSlice`). Everything they call that is not translated elsewhere is an
oracle (`Src/TypesProcess.lean`); the theorems quantify over all oracles. -/
open NotationModel.Src NotationModel.Src.verifier NotationModel.Src.«notation» NotationModel.Src.pluginframework
open NotationModel.Src.signature
open NotationModel.C02 NotationModel.C02.Process NotationModel.C02.Tie

namespace GoLite
theorem forIn_appendUnless {α : Type} (l : List α) (p : α → Bool) (acc : List α) :
    (forIn l acc (fun a r => if p a = true then (pure (ForInStep.yield r) : Id _) else pure (ForInStep.yield (r ++ [a])))) =
      pure (acc ++ l.filter (fun a => !p a)) := by
  induction l generalizing acc with
  | nil => simp
  | cons a l ih =>
    rw [List.forIn_cons]
    by_cases hp : p a = true
    · simp only [hp, if_true, pure_bind, ih]; simp [hp]
    · simp only [hp, Bool.false_eq_true, if_false, pure_bind, ih]
      simp [hp]
end GoLite

namespace NotationModel.C02.Tie
section Process

/-- the other arguments of `processSignature`, handed on to the oracles -/
structure Args where
  sigBlob : SigBlob
  mt : String
  pn : String
  tis : List String
  tss : List String
  sv : trustpolicy.SignatureVerification
  pc : GoLite.Map String String

def keyOf (a : Attribute) : String := match a.Key with | .str k => k | .other _ => ""
def strOf : AVal → Option String | .str s => some s | .other _ => none

/-- the verification capabilities in the plugin's metadata, as `processSignature` filters them -/
def verifCaps (md : GetMetadataResponse) : List String :=
  md.Capabilities.filter (fun c => c == CapabilityRevocationCheckVerifier || c == CapabilityTrustedIdentityVerifier)

/-- what the oracles answer, in the order `processSignature` asks them (`TraceOK` ties each field to its call) -/
structure Trace where
  name : String
  minVer : String
  got : Option VerifyPlugin × Option GoLite.Err
  md : GetMetadataResponse × Option GoLite.Err
  ld : List x509.Certificate × Option GoLite.Err
  rA0 : ValidationResult
  ierr : Option GoLite.Err
  rE : ValidationResult
  rT : ValidationResult
  rR : ValidationResult
  ex : VerifySignatureResponse × Option GoLite.Err

/-- the verification capabilities `processSignature` keeps: those of the plugin's metadata when the signature names one -/
def Trace.pcaps (t : Trace) (si : SignerInfo) : List String :=
  if classifyPlugin si = .named then verifCaps t.md.1 else []

/-- the authenticity result after the native identity check (which overwrites the error of the SAME result object) -/
def Trace.rA (t : Trace) (si : SignerInfo) : ValidationResult :=
  if !(t.pcaps si).contains CapabilityTrustedIdentityVerifier && t.ierr.isSome then { t.rA0 with Error := t.ierr } else t.rA0

def revSkipped (enf : GoLite.Map String String) : Bool :=
  GoLite.Map.get enf trustpolicy.TypeRevocation == trustpolicy.ActionSkip

def Trace.toVerify (t : Trace) (si : SignerInfo) (enf : GoLite.Map String String) : List String :=
  (t.pcaps si).filter (fun c => !(revSkipped enf && c == CapabilityRevocationCheckVerifier))

/-- every field of the trace is what the corresponding oracle answers, asked with the arguments the Go code
hands it at that point (the outcome as it stands then) -/
structure TraceOK (env : Env) (v : Verifier) (a : Args) (o0 : Outcome) (ec : EnvelopeContent) (rI : ValidationResult)
    (t : Trace) : Prop where
  name : t.name = (getVerificationPlugin ec.SignerInfo).1
  minVer : t.minVer = (getVerificationPluginMinVersion env.isValidSemver ec.SignerInfo).1
  got : t.got = (GoLite.deref v.pluginManager).Get t.name
  md : t.md = (GoLite.deref t.got.1).GetMetadata { PluginConfig := a.pc }
  ld : t.ld = env.loadX509TrustStores ec.SignerInfo.SignedAttributes.SigningScheme a.pn a.tss v.trustStore
  rA0 : t.rA0 = if t.ld.2.isSome then
      { «Type» := trustpolicy.TypeAuthenticity, Action := GoLite.Map.get o0.VerificationLevel.Enforcement trustpolicy.TypeAuthenticity, Error := t.ld.2 }
    else env.verifyAuthenticity t.ld.1 { EnvelopeContent := some ec, VerificationLevel := o0.VerificationLevel, VerificationResults := [rI] }
  ierr : t.ierr = env.verifyX509TrustedIdentities a.pn a.tis ec.SignerInfo.CertificateChain
  rE : t.rE = env.verifyExpiry { EnvelopeContent := some ec, VerificationLevel := o0.VerificationLevel, VerificationResults := [rI, t.rA ec.SignerInfo] }
  rT : t.rT = env.verifyAuthenticTimestamp a.pn a.tss a.sv v.trustStore v.revocationTimestampingValidator
      { EnvelopeContent := some ec, VerificationLevel := o0.VerificationLevel, VerificationResults := [rI, t.rA ec.SignerInfo, t.rE] }
  rR : t.rR = v.verifyRevocation { EnvelopeContent := some ec, VerificationLevel := o0.VerificationLevel, VerificationResults := [rI, t.rA ec.SignerInfo, t.rE, t.rT] }
  ex : t.ex = env.executePlugin t.got.1 (t.toVerify ec.SignerInfo o0.VerificationLevel.Enforcement) (some ec) a.tis a.pc

/-- the scenario of the model (`Input`) that a call of `processSignature` amounts to -/
def toInput (env : Env) (v : Verifier) (si : SignerInfo) (t : Trace) : Input :=
  { level := "", override := [],
    pluginAttr := classifyPlugin si,
    minVerAttr := classifyMinVer env.isValidSemver si,
    extAttrs := (getNonPluginExtendedCriticalAttributes si).map (fun x => { key := keyOf x, critical := x.Critical }),
    pluginState := if v.pluginManager.isNone then .managerNil else if t.got.2.isSome then .notInstalled
      else if t.md.2.isSome then .metadataError else .installed,
    pluginVersion := if !env.isValidSemver t.md.1.Version then .invalidSemver
      else if !env.isRequiredVerificationPluginVer t.md.1.Version t.minVer then .tooOld else .ok,
    capIdentity := (verifCaps t.md.1).contains CapabilityTrustedIdentityVerifier,
    capRevocation := (verifCaps t.md.1).contains CapabilityRevocationCheckVerifier,
    trust := if t.ld.2.isSome then .storeError else if t.rA0.Error.isSome then .notFound else .found,
    identityMatch := t.ierr.isNone,
    wildcardIdentity := false,
    expired := t.rE.Error.isSome,
    timestampOk := t.rT.Error.isNone,
    revocation := if t.rR.Error.isSome then .revoked else .ok,
    pluginCallError := t.ex.2.isSome,
    processed := t.ex.1.ProcessedAttributes.filterMap strOf,
    verdictIdentity := verdictOf t.ex.1 CapabilityTrustedIdentityVerifier,
    verdictRevocation := verdictOf t.ex.1 CapabilityRevocationCheckVerifier }

/-- what the tie assumes of the oracles (each is a fact about a callee of `processSignature`, not about it) -/
structure Contracts (env : Env) (v : Verifier) : Prop where
  /-- every validation reports under its own type, with the action the outcome's level gives that type -/
  auth : ∀ cs o, (env.verifyAuthenticity cs o).«Type» = trustpolicy.TypeAuthenticity ∧
    (env.verifyAuthenticity cs o).Action = GoLite.Map.get o.VerificationLevel.Enforcement trustpolicy.TypeAuthenticity
  expiry : ∀ o, (env.verifyExpiry o).«Type» = trustpolicy.TypeExpiry ∧
    (env.verifyExpiry o).Action = GoLite.Map.get o.VerificationLevel.Enforcement trustpolicy.TypeExpiry
  timestamp : ∀ p t s x y o, (env.verifyAuthenticTimestamp p t s x y o).«Type» = trustpolicy.TypeAuthenticTimestamp ∧
    (env.verifyAuthenticTimestamp p t s x y o).Action = GoLite.Map.get o.VerificationLevel.Enforcement trustpolicy.TypeAuthenticTimestamp
  revocation : ∀ o, (v.verifyRevocation o).«Type» = trustpolicy.TypeRevocation ∧
    (v.verifyRevocation o).Action = GoLite.Map.get o.VerificationLevel.Enforcement trustpolicy.TypeRevocation
  /-- a plugin manager that reports no error hands out a plugin -/
  got : ∀ m n, v.pluginManager = some m → (m.Get n).2 = none → (m.Get n).1.isSome = true
  /-- no minimum version demanded: every valid version will do (`semver.Compare(v, "v") = +1`) -/
  noMin : ∀ ver, env.isValidSemver ver = true → env.isRequiredVerificationPluginVer ver "" = true


/-- the plugin lists each verification capability at most once, trusted identity first (the shapes the
model's two capability flags can express) -/
def NormalCaps (l : List String) : Prop :=
  l = (if l.contains CapabilityTrustedIdentityVerifier then [CapabilityTrustedIdentityVerifier] else []) ++
      (if l.contains CapabilityRevocationCheckVerifier then [CapabilityRevocationCheckVerifier] else [])

theorem resOf_auth (env : Env) (v : Verifier) (hc : Contracts env v) (cs : List x509.Certificate) (o : Outcome) :
    resOf (env.verifyAuthenticity cs o) = ⟨Facts.typeAuthenticity, Enf.get o.VerificationLevel.Enforcement Facts.typeAuthenticity, (env.verifyAuthenticity cs o).Error.isSome⟩ := by
  simp [resOf, (hc.auth cs o).1, (hc.auth cs o).2, typeAuth_eq, mapGet_eq_enfGet]
theorem resOf_expiry (env : Env) (v : Verifier) (hc : Contracts env v) (o : Outcome) :
    resOf (env.verifyExpiry o) = ⟨Facts.typeExpiry, Enf.get o.VerificationLevel.Enforcement Facts.typeExpiry, (env.verifyExpiry o).Error.isSome⟩ := by
  have : trustpolicy.TypeExpiry = Facts.typeExpiry := by decide
  simp [resOf, (hc.expiry o).1, (hc.expiry o).2, this, mapGet_eq_enfGet]
theorem resOf_timestamp (env : Env) (v : Verifier) (hc : Contracts env v) (p : String) (t : List String) (s : trustpolicy.SignatureVerification) (x y : Nat) (o : Outcome) :
    resOf (env.verifyAuthenticTimestamp p t s x y o) = ⟨Facts.typeAuthenticTimestamp, Enf.get o.VerificationLevel.Enforcement Facts.typeAuthenticTimestamp, (env.verifyAuthenticTimestamp p t s x y o).Error.isSome⟩ := by
  have : trustpolicy.TypeAuthenticTimestamp = Facts.typeAuthenticTimestamp := by decide
  simp [resOf, (hc.timestamp p t s x y o).1, (hc.timestamp p t s x y o).2, this, mapGet_eq_enfGet]
theorem resOf_revocation (env : Env) (v : Verifier) (hc : Contracts env v) (o : Outcome) :
    resOf (v.verifyRevocation o) = ⟨Facts.typeRevocation, Enf.get o.VerificationLevel.Enforcement Facts.typeRevocation, (v.verifyRevocation o).Error.isSome⟩ := by
  simp [resOf, (hc.revocation o).1, (hc.revocation o).2, typeRev_eq, mapGet_eq_enfGet]

theorem trimSpace_empty : GoLite.trimSpace "" = "" := by decide

/-- what the tie compares: accepted or not, and the results recorded after the integrity result -/
def view (r : Option GoLite.Err × Outcome) : Bool × List Result :=
  (r.1.isNone, (r.2.VerificationResults.drop 1).map resOf)

theorem capsOf_toInput (env : Env) (v : Verifier) (si : SignerInfo) (t : Trace)
    (hcaps : NormalCaps (verifCaps t.md.1)) :
    capsOf (toInput env v si t) = t.pcaps si := by
  unfold capsOf Trace.pcaps toInput
  simp only []
  by_cases hn : classifyPlugin si = .named
  · simp only [hn, beq_self_eq_true, if_true]
    exact hcaps.symm
  · have : (classifyPlugin si == PluginAttr.named) = false := by simpa using hn
    simp [this, hn]

theorem forIn_anyReturnC {α ρ : Type} (l : List α) (q : α → Bool) (v : ρ) :
    forIn l ((none : Option ρ), ()) (fun a _ => if q a = true then (pure (ForInStep.done (some v, ())) : Id _) else pure (ForInStep.yield (none, ()))) =
      pure (if l.any q = true then (some v, ()) else (none, ())) :=
  GoLite.forIn_anyReturn l q v _ (fun _ _ => rfl)

theorem ite_cases {α : Sort _} {c : Prop} [Decidable c] {a b r : α} (h1 : c → a = r) (h2 : ¬c → b = r) :
    (if c then a else b) = r := by
  by_cases h : c
  · rw [if_pos h]; exact h1 h
  · rw [if_neg h]; exact h2 h

theorem trust_failed (a b : Bool) :
    ((if a = true then Trust.storeError else if b = true then Trust.notFound else Trust.found) != Trust.found) = (a || b) := by
  cases a <;> cases b <;> decide
theorem trust_failed2 (b : Bool) :
    ((if b = true then Trust.notFound else Trust.found) != Trust.found) = b := by
  cases b <;> decide
theorem revocation_failed (a : Bool) :
    ((if a = true then Revocation.revoked else Revocation.ok) != Revocation.ok) = a := by
  cases a <;> decide

theorem trust_ne1 : (Trust.storeError != Trust.found) = true := by decide
theorem trust_ne2 : (Trust.notFound != Trust.found) = true := by decide
theorem trust_ne3 : (Trust.found != Trust.found) = false := by decide
theorem rev_ne1 : (Revocation.revoked != Revocation.ok) = true := by decide
theorem rev_ne2 : (Revocation.ok != Revocation.ok) = false := by decide

theorem critFail_isSome (r : ValidationResult) (h : isCriticalFailure r = true) : r.Error.isSome = true := by
  rw [isCriticalFailure_eq] at h
  simp [isCritical, resOf] at h
  exact h.2

theorem contains_default (x : String) : GoLite.contains (default : List String) x = false := rfl
theorem contains_nil (x : String) : GoLite.contains ([] : List String) x = false := rfl

theorem deref_some {α : Type} [Inhabited α] (x : α) : GoLite.deref (some x) = x := rfl

/-- the model's answer, as the tie compares it -/
def modelView (i : Input) (enf : Enf) : Bool × List Result := ((process i enf).accepted, (process i enf).results)

set_option hygiene false in
macro "leaf_simp" : tactic => `(tactic| simp_all [-List.any_eq_true, -List.any_eq_false, List.any_map, hcomp, contains_default, contains_nil, typeRev_eq, htE, htT, haS, actEnforce_eq, GoLite.setAt, GoLite.len, failAuthenticity, trust_ne1, trust_ne2, trust_ne3, rev_ne1, rev_ne2, authStage, expiryStage, timestampStage, revocationStage, pluginStage, toVerify, revSkippedBy, St.push, St.obs,
        toInput, view, GoLite.idPure, isCriticalFailure_eq, resOf, trust_failed, trust_failed2, revocation_failed, typeAuth_eq, mapGet_eq_enfGet, Trace.rA, Trace.pcaps, Trace.toVerify])

set_option maxHeartbeats 4000000 in
theorem source_processSignature_refines_model_partial (env : Env) (v : Verifier) (a : Args) (o0 : Outcome)
    (ec : EnvelopeContent) (rI : ValidationResult) (t : Trace)
    (hc : Contracts env v) (ht : TraceOK env v a o0 ec rI t)
    (hI : env.verifyIntegrity a.sigBlob a.mt o0 = (some ec, rI)) (hIok : rI.Error = none) (hIty : isAuth rI = false)
    (hres : o0.VerificationResults = [])
    (hcaps : NormalCaps (verifCaps t.md.1))
    (hnp : classifyPlugin ec.SignerInfo ≠ .named) :
    view (processSignature env v a.sigBlob a.mt a.pn a.tis a.tss a.sv a.pc o0) =
      modelView (toInput env v ec.SignerInfo t) o0.VerificationLevel.Enforcement := by
  have hgp := source_getVerificationPlugin_refines_model ec.SignerInfo
  have hgm := source_getVerificationPluginMinVersion_refines_model env.isValidSemver ec.SignerInfo
  have hcapsOf := capsOf_toInput env v ec.SignerInfo t hcaps
  obtain ⟨s0, hs0, hdisc⟩ := discover_spec (toInput env v ec.SignerInfo t)
  unfold processSignature
  simp only [Id.run]
  simp only [GoLite.forIn_appendIf, GoLite.forIn_appendUnless, forIn_anyReturnC, pure_bind]
  simp only [hI, hIok, hres, Option.isSome_none, Bool.false_eq_true, if_false, deref_some, List.nil_append]
  simp only [← ht.name, ← ht.minVer, ← ht.got, ← ht.md, ← ht.ld, ← ht.ierr]
  have hA1 := fun cs o => (hc.auth cs o).1
  have hA2 := fun cs o => (hc.auth cs o).2
  have hE1 := fun o => (hc.expiry o).1
  have hE2 := fun o => (hc.expiry o).2
  have hT1 := fun p t s x y o => (hc.timestamp p t s x y o).1
  have hT2 := fun p t s x y o => (hc.timestamp p t s x y o).2
  have hR1 := fun o => (hc.revocation o).1
  have hR2 := fun o => (hc.revocation o).2
  have hcomp : ((fun (x : ExtAttr) => x.critical) ∘ fun (x : Attribute) => ({ key := keyOf x, critical := x.Critical } : ExtAttr)) =
      fun a => a.Critical := rfl
  have haS : trustpolicy.ActionSkip = Facts.actionSkip := by decide
  have htE : trustpolicy.TypeExpiry = Facts.typeExpiry := by decide
  have htT : trustpolicy.TypeAuthenticTimestamp = Facts.typeAuthenticTimestamp := by decide
  have hrA0 := ht.rA0
  have hrE := ht.rE
  have hrT := ht.rT
  have hrR := ht.rR
  have hex := ht.ex
  have hne : (some errExtendedAttributeNotExist != some errExtendedAttributeNotExist) = false := by decide
  have hee : (("" : String) != "") = false := by decide
  -- plugin discovery
  cases hpa : classifyPlugin ec.SignerInfo with
  | absent =>
    have h1 := hgp.1 hpa
    have hn : t.name = "" := by rw [ht.name, h1]
    have hd : discOK (toInput env v ec.SignerInfo t) = true := by simp [discOK, toInput, hpa]
    have hp0 : t.pcaps ec.SignerInfo = [] := by simp [Trace.pcaps, hpa]
    simp only [h1, hn, hne, hee, Option.isSome_some, Bool.and_false, Bool.false_eq_true, if_false]
    simp only [apply_ite view]
    repeat' (refine ite_cases (fun _ => ?_) (fun _ => ?_))
    all_goals (
      simp only [modelView, process, processE, hdisc, hd, if_true, bind, Except.bind]
      clear hgp hgm hd hdisc ht hc
      rename_i hlast
      try (have hlf := critFail_isSome _ hlast)
      try leaf_simp
      try (by_cases hcr : ((getNonPluginExtendedCriticalAttributes ec.SignerInfo).any fun a => a.Critical) = true)
      all_goals try leaf_simp)
  | named => exact absurd hpa hnp
  | notCritical | notString | blank =>
    obtain ⟨h1, h2, h3⟩ := hgp.2.2 (by rw [hpa]; decide) (by rw [hpa]; decide)
    have h3' : ((getVerificationPlugin ec.SignerInfo).2 != some errExtendedAttributeNotExist) = true := by
      simpa [bne_iff_ne] using h3
    have hd : discOK (toInput env v ec.SignerInfo t) = false := by simp [discOK, toInput, hpa]
    simp only [h2, h3', Bool.and_self, if_true]
    simp only [modelView, process, processE, hdisc, hd, Bool.false_eq_true, if_false, bind, Except.bind]
    simp [view, GoLite.idPure, St.obs, hs0]
    simpa using h2

/-- the trace of a call: every oracle asked exactly as `processSignature` asks it -/
def traceOf (env : Env) (v : Verifier) (a : Args) (o0 : Outcome) (ec : EnvelopeContent) (rI : ValidationResult) : Trace :=
  let si := ec.SignerInfo
  let mk (rs : List ValidationResult) : Outcome := { EnvelopeContent := some ec, VerificationLevel := o0.VerificationLevel, VerificationResults := rs }
  let name := (getVerificationPlugin si).1
  let got := (GoLite.deref v.pluginManager).Get name
  let md := (GoLite.deref got.1).GetMetadata { PluginConfig := a.pc }
  let ld := env.loadX509TrustStores si.SignedAttributes.SigningScheme a.pn a.tss v.trustStore
  let rA0 : ValidationResult := if ld.2.isSome then
      { «Type» := trustpolicy.TypeAuthenticity, Action := GoLite.Map.get o0.VerificationLevel.Enforcement trustpolicy.TypeAuthenticity, Error := ld.2 }
    else env.verifyAuthenticity ld.1 (mk [rI])
  let ierr := env.verifyX509TrustedIdentities a.pn a.tis si.CertificateChain
  let t0 : Trace := ⟨name, (getVerificationPluginMinVersion env.isValidSemver si).1, got, md, ld, rA0, ierr, default, default, default, default⟩
  let rA := t0.rA si
  let rE := env.verifyExpiry (mk [rI, rA])
  let rT := env.verifyAuthenticTimestamp a.pn a.tss a.sv v.trustStore v.revocationTimestampingValidator (mk [rI, rA, rE])
  let rR := v.verifyRevocation (mk [rI, rA, rE, rT])
  let ex := env.executePlugin got.1 (t0.toVerify si o0.VerificationLevel.Enforcement) (some ec) a.tis a.pc
  { t0 with rE := rE, rT := rT, rR := rR, ex := ex }

/-- the hypothesis `TraceOK` of the tie is satisfiable for every call (so the tie speaks about every call) -/
theorem traceOf_ok (env : Env) (v : Verifier) (a : Args) (o0 : Outcome) (ec : EnvelopeContent) (rI : ValidationResult) :
    TraceOK env v a o0 ec rI (traceOf env v a o0 ec rI) :=
  ⟨rfl, rfl, rfl, rfl, rfl, rfl, rfl, rfl, rfl, rfl, rfl⟩

/-- TIE (translated source, no plugin named), in closed form: for EVERY verifier, environment of callees, argument
list and level, a call of the translated `processSignature` on a signature that passed integrity and names no
(well-formed) verification plugin is accepted exactly when the model accepts the scenario the oracles' answers
amount to, and records exactly the model's results after the integrity result -/
theorem source_processSignature_refines_model_no_plugin (env : Env) (v : Verifier) (a : Args) (o0 : Outcome)
    (ec : EnvelopeContent) (rI : ValidationResult)
    (hc : Contracts env v)
    (hI : env.verifyIntegrity a.sigBlob a.mt o0 = (some ec, rI)) (hIok : rI.Error = none) (hIty : isAuth rI = false)
    (hres : o0.VerificationResults = [])
    (hcaps : NormalCaps (verifCaps (traceOf env v a o0 ec rI).md.1))
    (hnp : classifyPlugin ec.SignerInfo ≠ .named) :
    view (processSignature env v a.sigBlob a.mt a.pn a.tis a.tss a.sv a.pc o0) =
      modelView (toInput env v ec.SignerInfo (traceOf env v a o0 ec rI)) o0.VerificationLevel.Enforcement :=
  source_processSignature_refines_model_partial env v a o0 ec rI _ hc (traceOf_ok env v a o0 ec rI) hI hIok hIty hres hcaps hnp

/-- TIE (translated source): `processPluginResponse`, for EVERY list of verification capabilities, plugin response and
outcome: it returns an error exactly when the model's `processResponse` stops, and leaves behind exactly the model's
results (the trusted-identity verdict written into the authenticity result recorded earlier - through the pointer the
Go code finds in the outcome -, the revocation verdict appended) -/
theorem source_processPluginResponse_refines_model (i : Input) (resp : VerifySignatureResponse) (pre : List ValidationResult)
    (caps : List String) (o : Outcome) (s : St)
    (hrel : Rel pre o s) (hpre : pre.all (fun r => !isAuth r) = true)
    (hvi : i.verdictIdentity = verdictOf resp CapabilityTrustedIdentityVerifier)
    (hvr : i.verdictRevocation = verdictOf resp CapabilityRevocationCheckVerifier)
    (hcaps : ∀ c ∈ caps, c = CapabilityTrustedIdentityVerifier ∨ c = CapabilityRevocationCheckVerifier)
    (hauth : hasAuth s)
    (hplug : (getVerificationPlugin (GoLite.deref o.EnvelopeContent).SignerInfo).2 = none)
    (hext : i.extAttrs.any (fun a => !i.processed.contains a.key) =
      (getNonPluginExtendedCriticalAttributes (GoLite.deref o.EnvelopeContent).SignerInfo).any
        (fun a => !slices.ContainsAny resp.ProcessedAttributes a.Key)) :
    match processResponse i o.VerificationLevel.Enforcement caps s with
    | .ok s' => (processPluginResponse caps resp o).1 = none ∧ Rel pre (processPluginResponse caps resp o).2 s'
    | .error s' => (processPluginResponse caps resp o).1.isSome = true ∧ Rel pre (processPluginResponse caps resp o).2 s' := by
  rw [processPluginResponse_eq_spec]
  exact respSpec_sim i resp pre caps o s hrel hpre hvi hvr hcaps hauth hplug hext

/-! non-vacuity: the translated functions run on concrete oracles -/
section Examples
def ec0 : EnvelopeContent := { SignerInfo := { SignedAttributes := { ExtendedAttributes := [] } } }
def env0 (expiryErr : Option GoLite.Err) : Env :=
  { verifyIntegrity := fun _ _ _ => (some ec0, ⟨"integrity", "enforce", none⟩),
    isValidSemver := fun _ => true,
    isRequiredVerificationPluginVer := fun _ _ => true,
    loadX509TrustStores := fun _ _ _ _ => ([], none),
    verifyAuthenticity := fun _ o => ⟨trustpolicy.TypeAuthenticity, GoLite.Map.get o.VerificationLevel.Enforcement trustpolicy.TypeAuthenticity, none⟩,
    verifyX509TrustedIdentities := fun _ _ _ => none,
    verifyExpiry := fun o => ⟨trustpolicy.TypeExpiry, GoLite.Map.get o.VerificationLevel.Enforcement trustpolicy.TypeExpiry, expiryErr⟩,
    verifyAuthenticTimestamp := fun _ _ _ _ _ o => ⟨trustpolicy.TypeAuthenticTimestamp, GoLite.Map.get o.VerificationLevel.Enforcement trustpolicy.TypeAuthenticTimestamp, none⟩,
    executePlugin := fun _ _ _ _ _ => (default, none) }
def v0 : Verifier :=
  { pluginManager := none,
    verifyRevocation := fun o => ⟨trustpolicy.TypeRevocation, GoLite.Map.get o.VerificationLevel.Enforcement trustpolicy.TypeRevocation, none⟩,
    trustStore := 0, revocationTimestampingValidator := 0 }
def out0 (expiryAction : String) : Outcome :=
  { EnvelopeContent := none,
    VerificationLevel := { Name := "custom", Enforcement := [("integrity", "enforce"), ("authenticity", "enforce"),
      ("authenticTimestamp", "enforce"), ("expiry", expiryAction), ("revocation", "enforce")] },
    VerificationResults := [] }

/-- an expired signature under `expiry: log` is accepted, the failure recorded; under `expiry: enforce` it is rejected
and the later validations are not reached -/
example : view (processSignature (env0 (some ⟨"expired"⟩)) v0 ⟨0⟩ "" "p" [] [] default [] (out0 "log")) =
    (true, [⟨"authenticity", "enforce", false⟩, ⟨"expiry", "log", true⟩, ⟨"authenticTimestamp", "enforce", false⟩,
            ⟨"revocation", "enforce", false⟩]) := by decide
example : view (processSignature (env0 (some ⟨"expired"⟩)) v0 ⟨0⟩ "" "p" [] [] default [] (out0 "enforce")) =
    (false, [⟨"authenticity", "enforce", false⟩, ⟨"expiry", "enforce", true⟩]) := by decide
end Examples

end Process
end NotationModel.C02.Tie

/-
C02 - The verification level alone decides which failed validations reject.
Property theorems only; model in `Model/C02.lean`, stage lemmas in `Lemmas/C02.lean`.
-/
import NotationModel.Lemmas.C02
import NotationModel.Generated.SrcLevels
import NotationModel.Generated.SrcVerifier
import NotationModel.Generated.SrcAttrs
set_option linter.unusedSimpArgs false
set_option linter.unusedVariables false
set_option maxRecDepth 4000

namespace NotationModel.C02

theorem holds_error_exit (i : Input) (enf : Enf) (s : St)
    (hs : s = {} ∨ s = { managerGets := 1 })
    (hrej : inDomain i = true → (named i = true ∧ pluginUsable i = false)) :
    (clausesFor i enf (s.obs false)).holds = true := by
  have hp : inDomain i = true → pluginOK i enf = false := by
    intro h; obtain ⟨h1, h2⟩ := hrej h; simp [pluginOK, h1, h2]
  rcases hs with rfl | rfl <;>
  · cases hd : inDomain i
    · simp [clausesFor, Clauses.holds, St.obs, resultOf, enforcedFailure, hd]
    · simp [clausesFor, Clauses.holds, St.obs, resultOf, enforcedFailure, hd, hp hd, acceptSpec]

/-- type names are pairwise distinct (the regenerated constants) -/
theorem types_distinct :
    Facts.typeAuthenticity ≠ Facts.typeExpiry ∧ Facts.typeAuthenticity ≠ Facts.typeAuthenticTimestamp ∧
    Facts.typeAuthenticity ≠ Facts.typeRevocation ∧ Facts.typeExpiry ≠ Facts.typeAuthenticTimestamp ∧
    Facts.typeExpiry ≠ Facts.typeRevocation ∧ Facts.typeAuthenticTimestamp ≠ Facts.typeRevocation ∧
    Facts.actionEnforce ≠ Facts.actionSkip := by decide

theorem native_rev_facts (i : Input) (enf : Enf) (h : nativeRev i enf = true) :
    revSkippedBy enf = false ∧ (named i && i.capRevocation) = false := by
  unfold nativeRev capsOf at h
  unfold named
  cases hs : revSkippedBy enf <;> cases hp : i.pluginAttr <;> cases hc : i.capRevocation <;>
    cases hi : i.capIdentity <;> simp_all [capRevocation, capIdentity]

/-- a validation stopped the workflow: the clauses hold at that exit -/
theorem holds_validation_exit (i : Input) (enf : Enf) (s : St)
    (hs : (s = S1 i enf ∧ isCritical (authR i enf) = true) ∨
          (s = S2 i enf ∧ isCritical (expR i enf) = true) ∨
          (s = S3 i enf ∧ isCritical (tsR i enf) = true) ∨
          (s = S4 i enf ∧ nativeRev i enf = true ∧ isCritical (revR i enf) = true)) :
    (clausesFor i enf (s.obs false)).holds = true := by
  obtain ⟨t1, t2, t3, t4, t5, t6, t7⟩ := types_distinct
  have hacc : acceptSpec i enf = false := by
    rcases hs with ⟨_, h⟩ | ⟨_, h⟩ | ⟨_, h⟩ | ⟨_, hn, h⟩
    · simp only [isCritical, authR_action, authR_failed, nativeId_eq, Bool.and_eq_true, beq_iff_eq] at h
      unfold acceptSpec enforced authFailedTruth
      cases ha : askedIdentity i <;> simp_all <;> grind
    · simp only [isCritical, expR_action, expR_failed, Bool.and_eq_true, beq_iff_eq] at h
      simp [acceptSpec, enforced, h.1, h.2]
    · simp only [isCritical, tsR_action, tsR_failed, Bool.and_eq_true, beq_iff_eq] at h
      simp [acceptSpec, enforced, h.1, h.2]
    · simp only [isCritical, revR_action, revR_failed, Bool.and_eq_true, beq_iff_eq] at h
      rw [nativeRev_eq] at hn
      simp only [Bool.and_eq_true, Bool.not_eq_true'] at hn
      have har : askedRevocation i enf = false := by
        unfold askedRevocation
        cases hnm : named i <;> cases hcr : i.capRevocation <;> simp_all
      simp [acceptSpec, enforced, h.1, h.2, hn.1, revFailedTruth, har]
  rcases hs with ⟨rfl, h⟩ | ⟨rfl, h⟩ | ⟨rfl, h⟩ | ⟨rfl, hn, h⟩
  · simp [clausesFor, Clauses.holds, St.obs, S1, S0, resultOf, enforcedFailure, h, hacc, *]
  · simp [clausesFor, Clauses.holds, St.obs, S2, S1, S0, resultOf, enforcedFailure, h, hacc, *]
  · simp [clausesFor, Clauses.holds, St.obs, S3, S1, S0, resultOf, enforcedFailure, h, hacc, *]
  · obtain ⟨n1, n2⟩ := native_rev_facts i enf hn
    simp [clausesFor, Clauses.holds, St.obs, S4, S3, S1, S0, resultOf, enforcedFailure, h, hn, n1, n2, hacc, *]

/-- common tail of the plugin-stage case analysis -/
macro "c02_finish" : tactic => `(tactic|
  (simp [clausesFor, Clauses.holds, St.obs, resultOf, enforcedFailure, pluginOK, pluginExecuted,
        askedIdentity, askedRevocation, authFailedTruth, revFailedTruth, isCritical, nativeId, capsOf,
        capIdentity, capRevocation, knownFinding, named, *] at *))

theorem toVerify_eq (i : Input) (enf : Enf) (hpa : i.pluginAttr = .named) :
    toVerify i enf = (if i.capIdentity then [capIdentity] else []) ++
                     (if i.capRevocation && !revSkippedBy enf then [capRevocation] else []) := by
  unfold toVerify capsOf
  cases i.capIdentity <;> cases i.capRevocation <;> cases revSkippedBy enf <;>
    simp [hpa, capIdentity, capRevocation]

/-- state in which the plugin is executed -/
def S5 (i : Input) (enf : Enf) : St :=
  { S4 i enf with pluginVerifyCaps := some (toVerify i enf),
                  pluginAttrsToProcess := some (sortKeys (i.extAttrs.map (·.key))) }

theorem pluginStage_named (i : Input) (enf : Enf) (hpa : i.pluginAttr = .named) :
    pluginStage i enf (S4 i enf) =
      if (toVerify i enf).isEmpty then .ok (S4 i enf)
      else if i.pluginCallError then .error (S5 i enf)
      else if i.extAttrs.any (fun a => !i.processed.contains a.key) then .error (S5 i enf)
      else respondCaps i enf (toVerify i enf) (S5 i enf) := by
  unfold pluginStage processResponse S5
  simp only [hpa, beq_self_eq_true, if_true]

/-- evaluate the response loop on the explicit state -/
macro "c02_resp" : tactic => `(tactic|
  (simp [respondCaps, respondCap, S5, S4, S3, S1, S0, capIdentity, capRevocation, failAuthenticity, authResult,
     isCritical, *]))

/-- evaluate the clauses on an explicit final state -/
macro "c02_leaf" : tactic => `(tactic|
  (simp_all [clausesFor, Clauses.holds, St.obs, resultOf, enforcedFailure, pluginOK, pluginExecuted,
      askedIdentity, askedRevocation, authFailedTruth, revFailedTruth, isCritical, capIdentity, capRevocation,
      knownFinding, acceptSpec, enforced, S5, S4, S3, S1, S0]))

/-- hypotheses shared by the four shapes of the capability list -/
structure Ctx (i : Input) (enf : Enf) : Prop where
  hpa : i.pluginAttr = .named
  h1 : isCritical (authR i enf) = false
  h2 : isCritical (expR i enf) = false
  h3 : isCritical (tsR i enf) = false
  h4 : (nativeRev i enf && isCritical (revR i enf)) = false
  hdom : inDomain i = true → pluginUsable i = true
  hF : knownFinding i enf = false

set_option maxHeartbeats 1600000 in
theorem holds_tv_nil (i : Input) (enf : Enf) (c : Ctx i enf) (htv : toVerify i enf = [])
    (hc : (i.capIdentity = false ∧ i.capRevocation = false) ∨
          (i.capIdentity = false ∧ i.capRevocation = true ∧ revSkippedBy enf = true)) :
    (clausesFor i enf ((S4 i enf).obs true)).holds = true := by
  obtain ⟨hpa, h1, h2, h3, h4, hdom, hF⟩ := c
  obtain ⟨t1, t2, t3, t4, t5, t6, t7⟩ := types_distinct
  have hnamed : named i = true := by simp [named, hpa]
  by_cases hcR : enf.get Facts.typeRevocation = Facts.actionEnforce <;>
  rcases hc with ⟨hci, hcr⟩ | ⟨hci, hcr, hs⟩
  all_goals
    have hnid : nativeId i = true := by simp [nativeId, capsOf, hpa, hci, hcr, capIdentity, capRevocation]
    have hnr : nativeRev i enf = (!revSkippedBy enf && !i.capRevocation) := by
      simp [nativeRev, capsOf, hpa, hci, hcr, capIdentity, capRevocation]
    simp only [isCritical, authR_action, authR_failed, expR_action, expR_failed, tsR_action, tsR_failed,
      revR_action, revR_failed, hnid, hnr] at h1 h2 h3 h4
    cases hs' : revSkippedBy enf <;> c02_leaf
    all_goals grind

set_option maxHeartbeats 3200000 in
theorem holds_tv_exec (i : Input) (enf : Enf) (c : Ctx i enf)
    (hc : (i.capIdentity = true ∧ i.capRevocation = false ∧ revSkippedBy enf = false) ∨
          (i.capIdentity = true ∧ i.capRevocation = false ∧ revSkippedBy enf = true) ∨
          (i.capIdentity = true ∧ i.capRevocation = true ∧ revSkippedBy enf = true) ∨
          (i.capIdentity = false ∧ i.capRevocation = true ∧ revSkippedBy enf = false) ∨
          (i.capIdentity = true ∧ i.capRevocation = true ∧ revSkippedBy enf = false)) :
    match (if i.pluginCallError then Except.error (S5 i enf)
           else if i.extAttrs.any (fun a => !i.processed.contains a.key) then .error (S5 i enf)
           else respondCaps i enf (toVerify i enf) (S5 i enf)) with
    | .ok s => (clausesFor i enf (s.obs true)).holds = true
    | .error s => (clausesFor i enf (s.obs false)).holds = true := by
  obtain ⟨hpa, h1, h2, h3, h4, hdom, hF⟩ := c
  obtain ⟨t1, t2, t3, t4, t5, t6, t7⟩ := types_distinct
  have hnamed : named i = true := by simp [named, hpa]
  have htv := toVerify_eq i enf hpa
  by_cases hcA : enf.get Facts.typeAuthenticity = Facts.actionEnforce <;>
  by_cases hcR : enf.get Facts.typeRevocation = Facts.actionEnforce <;>
  rcases hc with ⟨hci, hcr, hs⟩ | ⟨hci, hcr, hs⟩ | ⟨hci, hcr, hs⟩ | ⟨hci, hcr, hs⟩ | ⟨hci, hcr, hs⟩
  all_goals
    have hnid : nativeId i = !i.capIdentity := by
      simp [nativeId, capsOf, hpa, hci, hcr, capIdentity, capRevocation]
    have hnr : nativeRev i enf = (!revSkippedBy enf && !i.capRevocation) := by
      simp [nativeRev, capsOf, hpa, hci, hcr, capIdentity, capRevocation]
    simp only [isCritical, authR_action, authR_failed, expR_action, expR_failed, tsR_action, tsR_failed,
      revR_action, revR_failed, hnid, hnr] at h1 h2 h3 h4
    simp [hci, hcr, hs] at htv
    cases hce : i.pluginCallError
    · cases hup : i.extAttrs.any (fun a => !i.processed.contains a.key)
      · cases hvi : i.verdictIdentity <;> cases hvr : i.verdictRevocation <;>
          c02_resp <;> c02_leaf <;> grind
      · c02_resp <;> c02_leaf <;> grind
    · c02_resp <;> c02_leaf <;> grind

/-- plugin named: the clauses hold at every exit of the plugin stage -/
theorem holds_plugin_named (i : Input) (enf : Enf) (c : Ctx i enf) :
    match pluginStage i enf (S4 i enf) with
    | .ok s => (clausesFor i enf (s.obs true)).holds = true
    | .error s => (clausesFor i enf (s.obs false)).holds = true := by
  rw [pluginStage_named i enf c.hpa]
  have htv := toVerify_eq i enf c.hpa
  cases hci : i.capIdentity <;> cases hcr : i.capRevocation <;> cases hs : revSkippedBy enf <;>
    simp [hci, hcr, hs] at htv
  case false.false.false => simp only [htv, List.isEmpty, if_true]; exact holds_tv_nil i enf c htv (Or.inl ⟨hci, hcr⟩)
  case false.false.true => simp only [htv, List.isEmpty, if_true]; exact holds_tv_nil i enf c htv (Or.inl ⟨hci, hcr⟩)
  case false.true.true => simp only [htv, List.isEmpty, if_true]; exact holds_tv_nil i enf c htv (Or.inr ⟨hci, hcr, hs⟩)
  all_goals
    have hne : (toVerify i enf).isEmpty = false := by simp [htv]
    simp only [hne, Bool.false_eq_true, if_false]
    apply holds_tv_exec i enf c
    simp [hci, hcr, hs]

/-- all validations passed without a critical failure: the clauses hold at every exit of the
plugin stage (outside the known finding) -/
theorem holds_plugin_stage (i : Input) (enf : Enf)
    (h1 : isCritical (authR i enf) = false) (h2 : isCritical (expR i enf) = false)
    (h3 : isCritical (tsR i enf) = false)
    (h4 : (nativeRev i enf && isCritical (revR i enf)) = false)
    (hdom : inDomain i = true → (named i = false ∨ pluginUsable i = true))
    (hF : knownFinding i enf = false) :
    match pluginStage i enf (S4 i enf) with
    | .ok s => (clausesFor i enf (s.obs true)).holds = true
    | .error s => (clausesFor i enf (s.obs false)).holds = true := by
  obtain ⟨t1, t2, t3, t4, t5, t6, t7⟩ := types_distinct
  cases hpa : i.pluginAttr
  case named =>
    exact holds_plugin_named i enf ⟨hpa, h1, h2, h3, h4, (fun hd => by
        have hn : named i = true := by simp [named, hpa]
        rcases hdom hd with h | h
        · simp [hn] at h
        · exact h), hF⟩
  all_goals
    unfold pluginStage
    simp only [hpa, reduceCtorEq, beq_iff_eq, if_false]
    have hnamed : named i = false := by simp [named, hpa]
    have hcaps : capsOf i = [] := by simp [capsOf, hpa]
    have hpo : pluginOK i enf = !i.extAttrs.any (·.critical) := by simp [pluginOK, hnamed]
    have hai : askedIdentity i = false := by simp [askedIdentity, hnamed]
    have har : askedRevocation i enf = false := by simp [askedRevocation, hnamed]
    have hnid : nativeId i = true := by simp [nativeId, hcaps]
    simp only [isCritical, authR_action, authR_failed, expR_action, expR_failed, tsR_action, tsR_failed,
      revR_action, revR_failed, hnid, Bool.true_and] at h1 h2 h3 h4
    cases hs : revSkippedBy enf <;> cases hc : i.extAttrs.any (·.critical) <;>
      simp [clausesFor, Clauses.holds, St.obs, S4, S3, S1, S0, resultOf, enforcedFailure, nativeRev, hcaps,
        hs, hc, hpo, hnamed, authFailedTruth, revFailedTruth, hai, har, isCritical, hnid, acceptSpec, enforced,
        knownFinding, *] at h4 ⊢
    all_goals by_cases hh : enf.get Facts.typeRevocation = Facts.actionEnforce <;> simp_all
    all_goals grind

/-- the property's clauses hold of the model of `processSignature` for every scenario outside
the known finding, for *every* enforcement map (not only the 24 reachable ones) -/
theorem holds_process (i : Input) (enf : Enf) (hF : knownFinding i enf = false) :
    (clausesFor i enf (process i enf)).holds = true := by
  unfold process
  rcases discover_cases i with hd | hd | hd
  · -- discovery passed
    have hdom : inDomain i = true → (named i = false ∨ pluginUsable i = true) := by
      intro h
      simp only [inDomain, Bool.and_eq_true, Bool.or_eq_true, beq_iff_eq] at h
      exact (discover_ok_iff i h.1.1.2 h.1.2).1 hd
    rw [processE_ok i enf hd, validations_closed]
    by_cases h1 : isCritical (authR i enf) = true
    · simp only [h1, if_true, bind, Except.bind]
      exact holds_validation_exit i enf _ (Or.inl ⟨rfl, h1⟩)
    · rw [if_neg h1]
      by_cases h2 : isCritical (expR i enf) = true
      · simp only [h2, if_true, bind, Except.bind]
        exact holds_validation_exit i enf _ (Or.inr (Or.inl ⟨rfl, h2⟩))
      · rw [if_neg h2]
        by_cases h3 : isCritical (tsR i enf) = true
        · simp only [h3, if_true, bind, Except.bind]
          exact holds_validation_exit i enf _ (Or.inr (Or.inr (Or.inl ⟨rfl, h3⟩)))
        · rw [if_neg h3]
          by_cases h4 : (nativeRev i enf && isCritical (revR i enf)) = true
          · simp only [h4, if_true, bind, Except.bind]
            simp only [Bool.and_eq_true] at h4
            exact holds_validation_exit i enf _ (Or.inr (Or.inr (Or.inr ⟨rfl, h4.1, h4.2⟩)))
          · rw [if_neg h4]
            simp only [bind, Except.bind]
            have := holds_plugin_stage i enf (by simpa using h1) (by simpa using h2) (by simpa using h3)
              (by simpa using h4) hdom hF
            split at this <;> simp_all
  all_goals
    have hrej : inDomain i = true → (named i = true ∧ pluginUsable i = false) := by
      intro h
      simp only [inDomain, Bool.and_eq_true, Bool.or_eq_true, beq_iff_eq] at h
      have hiff := discover_ok_iff i h.1.1.2 h.1.2
      have hne : ¬ discover i {} = .ok (S0 i) := by rw [hd]; simp
      have := mt hiff.2 hne
      simp only [not_or] at this
      exact ⟨by simpa using this.1, by simpa using this.2⟩
    rw [processE_err i enf _ hd]
    first
      | exact holds_error_exit i enf _ (Or.inl rfl) hrej
      | exact holds_error_exit i enf _ (Or.inr rfl) hrej

/-! ### property theorems -/

/-- **C02, the whole property**: every clause of `Holds` is true of the model's behaviour for
every scenario outside the known finding F-C02b. -/
theorem model_holds (i : Input) (hF : knownFinding i (enfOf i) = false) : Holds i (run i) = true := by
  unfold Holds clauses run
  cases heff : effective i.level i.override with
  | error e =>
    have hd : inDomain i = false := by simp [inDomain, levelOK, heff]
    simp [clausesFor, Clauses.holds, St.obs, resultOf, enforcedFailure, hd]
  | ok p =>
    obtain ⟨nm, enf⟩ := p
    have henf : enfOf i = enf := by simp [enfOf, heff]
    rw [henf] at hF ⊢
    exact holds_process i enf hF

/-- the known finding is real in the model: a usable plugin that is never executed lets a critical
extended attribute through (this is what the unchanged code does; KNOWN_FINDINGS.txt F-C02b) -/
def findingWitness : Input :=
  { level := "strict", override := [("revocation", "skip")], pluginAttr := .named, minVerAttr := .absent,
    extAttrs := [{ key := "com.example.mustUnderstand", critical := true }], pluginState := .installed,
    pluginVersion := .ok, capIdentity := false, capRevocation := true, trust := .found,
    identityMatch := true, wildcardIdentity := false, expired := false, timestampOk := true, revocation := .ok,
    pluginCallError := false, processed := [], verdictIdentity := .success, verdictRevocation := .success }

theorem finding_counterexample :
    knownFinding findingWitness (enfOf findingWitness) = true ∧ Holds findingWitness (run findingWitness) = false := by
  decide

/-- reading of the main clause: inside the property's domain and outside the known finding, the
signature is accepted iff no reported result with action enforce failed and the plugin conditions hold -/
theorem reject_iff (i : Input) (hd : inDomain i = true) (hF : knownFinding i (enfOf i) = false) :
    (run i).accepted = true ↔
      ((run i).results.all (fun r => !(r.action == Facts.actionEnforce && r.failed)) = true ∧ pluginOK i (enfOf i) = true) := by
  have := model_holds i hF
  simp only [Holds, clauses, clausesFor, Clauses.holds, List.all_cons, Bool.and_eq_true] at this
  have h1 := this.1
  simp only [hd, Bool.not_true, Bool.false_or, beq_iff_eq] at h1
  rw [h1]
  simp [enforcedFailure, isCritical, List.all_eq_not_any_not]

/-- every reported result carries the action the level assigns to its type -/
theorem results_carry_level_action (i : Input) (hF : knownFinding i (enfOf i) = false) :
    ∀ r ∈ (run i).results, r.action = (enfOf i).get r.type := by
  have := model_holds i hF
  simp only [Holds, clauses, clausesFor, Clauses.holds, List.all_cons, Bool.and_eq_true] at this
  simpa using this.2.2.1

/-- a skipped revocation validation is not performed at all, natively or by plugin -/
theorem skip_revocation_not_performed (i : Input) (hF : knownFinding i (enfOf i) = false)
    (hs : revSkippedBy (enfOf i) = true) :
    (run i).validatorCalls = 0 ∧ (run i).results.all (fun r => r.type != Facts.typeRevocation) = true ∧
    ∀ caps, (run i).pluginVerifyCaps = some caps → capRevocation ∉ caps := by
  have := model_holds i hF
  simp only [Holds, clauses, clausesFor, Clauses.holds, List.all_cons, Bool.and_eq_true] at this
  have h := this.2.2.2.2.2.2.2.1
  simp only [hs, Bool.not_true, Bool.false_or, Bool.and_eq_true, beq_iff_eq] at h
  refine ⟨h.1.1, ?_, ?_⟩
  · have := h.1.2
    simp [resultOf] at this
    simpa using this
  · intro caps hc
    have := h.2
    simp [hc] at this
    exact this

/-- a revocation capability declared by the named plugin replaces the native validator -/
theorem capability_replaces_native (i : Input) (hF : knownFinding i (enfOf i) = false)
    (hn : named i = true) (hc : i.capRevocation = true) : (run i).validatorCalls = 0 := by
  have := model_holds i hF
  simp only [Holds, clauses, clausesFor, Clauses.holds, List.all_cons, Bool.and_eq_true] at this
  have h := this.2.2.2.2.2.2.2.2.1
  simpa [hn, hc] using h

/-! ### monotonicity -/

/-- `enf'` is pointwise weaker than `enf`: whatever `enf'` enforces `enf` enforces too, and both
skip revocation or neither does -/
def Weaker (enf enf' : Enf) : Prop :=
  (∀ t, enforced enf' t = true → enforced enf t = true) ∧ revSkippedBy enf = revSkippedBy enf'

theorem pluginOK_congr (i : Input) (enf enf' : Enf) (h : revSkippedBy enf = revSkippedBy enf') :
    pluginOK i enf = pluginOK i enf' ∧ revFailedTruth i enf = revFailedTruth i enf' ∧
    knownFinding i enf = knownFinding i enf' := by
  simp [pluginOK, revFailedTruth, knownFinding, pluginExecuted, askedRevocation, h]

theorem acceptSpec_mono (i : Input) (enf enf' : Enf) (hw : Weaker enf enf')
    (h : acceptSpec i enf = true) : acceptSpec i enf' = true := by
  obtain ⟨he, hs⟩ := hw
  obtain ⟨hp, hr, _⟩ := pluginOK_congr i enf enf' hs
  unfold acceptSpec at h ⊢
  rw [← hp, ← hr, ← hs]
  have a1 := he Facts.typeAuthenticity
  have a2 := he Facts.typeExpiry
  have a3 := he Facts.typeAuthenticTimestamp
  have a4 := he Facts.typeRevocation
  revert h a1 a2 a3 a4
  cases enforced enf Facts.typeAuthenticity <;> cases enforced enf' Facts.typeAuthenticity <;>
  cases enforced enf Facts.typeExpiry <;> cases enforced enf' Facts.typeExpiry <;>
  cases enforced enf Facts.typeAuthenticTimestamp <;> cases enforced enf' Facts.typeAuthenticTimestamp <;>
  cases enforced enf Facts.typeRevocation <;> cases enforced enf' Facts.typeRevocation <;> simp <;> grind

/-- **C02, monotonicity**: weakening the level (enforce -> log, same skipped types) never turns an
accepted signature into a rejected one - for all enforcement maps, not only the preset ones. -/
theorem accept_mono (i : Input) (enf enf' : Enf) (hd : inDomain i = true)
    (hF : knownFinding i enf = false) (hw : Weaker enf enf')
    (h : (process i enf).accepted = true) : (process i enf').accepted = true := by
  have hF' : knownFinding i enf' = false := by rw [← (pluginOK_congr i enf enf' hw.2).2.2]; exact hF
  have c1 := holds_process i enf hF
  have c2 := holds_process i enf' hF'
  simp only [clausesFor, Clauses.holds, List.all_cons, Bool.and_eq_true] at c1 c2
  have e1 := c1.2.1
  have e2 := c2.2.1
  simp only [hd, hF, hF', Bool.not_true, Bool.false_or, beq_iff_eq] at e1 e2
  rw [e2]
  exact acceptSpec_mono i enf enf' hw (by rw [← e1]; exact h)

/-! ### levels (over the tables regenerated from trustpolicy.go) -/

/-- the tables have the expected shape: five types, three actions, four levels in order -/
theorem level_tables_shape :
    Facts.validationTypes = [Facts.typeIntegrity, Facts.typeAuthenticity, Facts.typeAuthenticTimestamp,
      Facts.typeExpiry, Facts.typeRevocation] ∧
    Facts.validationActions = [Facts.actionEnforce, Facts.actionLog, Facts.actionSkip] ∧
    Facts.levels.map (·.1) = ["strict", "permissive", "audit", "skip"] ∧
    (Facts.levels.all fun l => Facts.validationTypes.all fun t => Facts.validationActions.contains (Enf.get l.2 t)) = true := by
  decide

/-- every preset level other than skip enforces integrity; skip skips everything -/
theorem presets_enforce_integrity :
    (Facts.levels.all fun l => l.1 == "skip" || Enf.get l.2 Facts.typeIntegrity == Facts.actionEnforce) = true ∧
    (Facts.levels.all fun l => l.1 != "skip" ||
      Facts.validationTypes.all fun t => Enf.get l.2 t == Facts.actionSkip) = true := by
  decide

/-- strict is stronger than permissive, permissive stronger than audit, pointwise, and none of
the three skips revocation (`Weaker` on the regenerated tables) -/
theorem presets_ordered :
    ∀ e1 e2 e3, Facts.levels.lookup "strict" = some e1 → Facts.levels.lookup "permissive" = some e2 →
      Facts.levels.lookup "audit" = some e3 →
      (Facts.validationTypes.all fun t =>
        (!enforced e2 t || enforced e1 t) && (!enforced e3 t || enforced e2 t)) = true ∧
      revSkippedBy e1 = false ∧ revSkippedBy e2 = false ∧ revSkippedBy e3 = false := by
  intro e1 e2 e3 h1 h2 h3
  simp only [Facts.levels, List.lookup] at h1 h2 h3
  simp at h1 h2 h3
  subst h1 h2 h3
  decide

theorem lookup_map_set (e : Enf) (t a t' : String) :
    (e.map (fun p => if p.1 == t then (t, a) else p)).lookup t' =
      if t' = t then (if e.any (·.1 == t) then some a else none) else e.lookup t' := by
  induction e with
  | nil => simp
  | cons p rest ih =>
    simp only [List.map_cons, List.any_cons]
    by_cases hp : p.1 = t
    · subst hp
      by_cases ht : t' = p.1
      · subst ht; simp [List.lookup]
      · have h1 : (t' == p.1) = false := by simp [ht]
        simp only [beq_self_eq_true, if_true, List.lookup, h1, ih, ht, if_false]
    · have h0 : (p.1 == t) = false := by simp [hp]
      simp only [h0, Bool.false_eq_true, if_false, Bool.false_or]
      by_cases ht : t' = p.1
      · subst ht
        simp [List.lookup, hp]
      · have h1 : (t' == p.1) = false := by simp [ht]
        cases hpp : p with
        | mk k v =>
          simp only [hpp] at h1
          simp only [List.lookup, h1, ih]

theorem lookup_append_single (e : Enf) (t a t' : String) (h : e.any (·.1 == t) = false) :
    (e ++ [(t, a)]).lookup t' = if t' = t then some a else e.lookup t' := by
  induction e with
  | nil => by_cases ht : t' = t <;> simp [List.lookup, ht]
  | cons p rest ih =>
    simp only [List.any_cons, Bool.or_eq_false_iff] at h
    cases hpp : p with
    | mk k v =>
      simp only [hpp] at h
      have hk : k ≠ t := by simpa using h.1
      by_cases ht : t' = k
      · subst ht
        simp [List.lookup, hk]
      · have h1 : (t' == k) = false := by simp [ht]
        simp only [List.cons_append, List.lookup, h1, ih h.2]

theorem Enf.get_set (e : Enf) (t a t' : String) :
    (e.set t a).get t' = if t' = t then a else e.get t' := by
  unfold Enf.set Enf.get
  by_cases h : e.any (·.1 == t) = true
  · simp only [h, if_true, lookup_map_set]
    by_cases ht : t' = t <;> simp [ht]
  · have h' : e.any (·.1 == t) = false := Bool.eq_false_iff.2 h
    simp only [h', Bool.false_eq_true, if_false, lookup_append_single e t a t' h']
    by_cases ht : t' = t <;> simp [ht]

/-- `GetVerificationLevel`: whatever overrides are given (any list, any order, duplicates), a
level that is accepted and is not the skip preset enforces integrity; only revocation can be skip -/
theorem effective_enforces_integrity (level : String) (override : List (String × String))
    (nm : String) (enf : Enf) (h : effective level override = .ok (nm, enf)) (hns : nm ≠ "skip") :
    enf.get Facts.typeIntegrity = Facts.actionEnforce := by
  unfold effective at h
  split at h
  · simp at h
  · split at h
    · simp at h
    · rename_i name enf0 hfl
      have hbase : name ≠ "skip" → enf0.get Facts.typeIntegrity = Facts.actionEnforce := by
        intro hn
        unfold findLevel at hfl
        have := presets_enforce_integrity.1
        have hmem : (name, enf0) ∈ Facts.levels := by
          have := List.mem_of_getLast? hfl
          exact (List.mem_filter.1 this).1
        have := List.all_eq_true.1 this (name, enf0) hmem
        simp at this
        rcases this with h1 | h1
        · exact absurd h1 hn
        · exact h1
      split at h
      · simp only [Except.ok.injEq, Prod.mk.injEq] at h
        obtain ⟨rfl, rfl⟩ := h
        exact hbase hns
      · split at h
        · simp at h
        · rename_i hnskip
          have hname : name ≠ "skip" := by simpa using hnskip
          -- the fold keeps the invariant
          have inv : ∀ (ov : List (String × String)) (acc : Enf),
              acc.get Facts.typeIntegrity = Facts.actionEnforce →
              ∀ r, ov.foldl applyOverride (.ok acc) = .ok r → r.get Facts.typeIntegrity = Facts.actionEnforce := by
            intro ov
            induction ov with
            | nil => intro acc ha r hr; simp at hr; subst hr; exact ha
            | cons kv rest ih =>
              intro acc ha r hr
              simp only [List.foldl_cons] at hr
              cases hstep : applyOverride (.ok acc) kv with
              | error e =>
                rw [hstep] at hr
                have : ∀ l : List (String × String), l.foldl applyOverride (.error e) = .error e := by
                  intro l; induction l with
                  | nil => rfl
                  | cons x xs ihx => simp [List.foldl_cons, applyOverride, ihx]
                rw [this] at hr; simp at hr
              | ok acc' =>
                rw [hstep] at hr
                refine ih acc' ?_ r hr
                unfold applyOverride at hstep
                simp only at hstep
                split at hstep
                · simp at hstep
                · split at hstep
                  · simp at hstep
                  · split at hstep
                    · simp at hstep
                    · rename_i hni
                      split at hstep
                      · simp at hstep
                      · simp only [Except.ok.injEq] at hstep
                        subst hstep
                        rw [Enf.get_set]
                        have : Facts.typeIntegrity ≠ kv.1 := by
                          intro e; apply hni; simp [e]
                        simp [this, ha]
          split at h
          · simp at h
          · rename_i enf' hfold
            simp only [Except.ok.injEq, Prod.mk.injEq] at h
            obtain ⟨_, rfl⟩ := h
            exact inv override enf0 (hbase hname) _ hfold

/-! ### non-vacuity -/

/-- a scenario inside the domain, outside the finding, accepted with a logged failure -/
def sampleAccepted : Input :=
  { level := "permissive", override := [], pluginAttr := .named, minVerAttr := .valid,
    extAttrs := [{ key := "com.example.a", critical := true }], pluginState := .installed,
    pluginVersion := .ok, capIdentity := true, capRevocation := true, trust := .found,
    identityMatch := false, wildcardIdentity := false, expired := true, timestampOk := true, revocation := .revoked,
    pluginCallError := false, processed := ["com.example.a"], verdictIdentity := .success,
    verdictRevocation := .failure }

example : inDomain sampleAccepted = true ∧ knownFinding sampleAccepted (enfOf sampleAccepted) = false ∧
    (run sampleAccepted).accepted = true ∧ (run sampleAccepted).validatorCalls = 0 ∧
    (run sampleAccepted).results.length = 4 := by decide

/-- the same scenario under strict is rejected (revocation verdict of the plugin is enforced) -/
example : (run { sampleAccepted with level := "strict" }).accepted = false := by decide

/-- `Holds` is not trivially true: claiming acceptance of the strict run is refuted -/
example : Holds { sampleAccepted with level := "strict" }
    { (run { sampleAccepted with level := "strict" }) with accepted := true } = false := by decide

/-! ### tie to the translated source -/

/-! ### concretisation (round-5 follow-up): several trust stores, constructors, revocation supply -/

section Irrel
variable (i : Input) (st : List StoreKind) (impl ctor supply : String) (sch : String) (cl bc : Nat) (bh : String) (ts : Bool) (vt bb eg : String)

theorem respondCaps_irrel (enf : Enf) (l : List String) (s : St) :
    respondCaps { i with stores := st, storeImpl := impl, ctor := ctor, revSupply := supply, scheme := sch, chainLen := cl, badCert := bc, badHow := bh, tsaStore := ts, verifyTimestamp := vt, badBy := bb, edge := eg } enf l s = respondCaps i enf l s := by
  induction l generalizing s with
  | nil => rfl
  | cons c rest ih => simp only [respondCaps, respondCap, ih]

theorem process_irrel (enf : Enf) :
    process { i with stores := st, storeImpl := impl, ctor := ctor, revSupply := supply, scheme := sch, chainLen := cl, badCert := bc, badHow := bh, tsaStore := ts, verifyTimestamp := vt, badBy := bb, edge := eg } enf = process i enf := by
  have h1 : discover { i with stores := st, storeImpl := impl, ctor := ctor, revSupply := supply, scheme := sch, chainLen := cl, badCert := bc, badHow := bh, tsaStore := ts, verifyTimestamp := vt, badBy := bb, edge := eg } = discover i := by
    funext s; rfl
  have h2 : authStage { i with stores := st, storeImpl := impl, ctor := ctor, revSupply := supply, scheme := sch, chainLen := cl, badCert := bc, badHow := bh, tsaStore := ts, verifyTimestamp := vt, badBy := bb, edge := eg } enf = authStage i enf := by
    funext s; rfl
  have h3 : expiryStage { i with stores := st, storeImpl := impl, ctor := ctor, revSupply := supply, scheme := sch, chainLen := cl, badCert := bc, badHow := bh, tsaStore := ts, verifyTimestamp := vt, badBy := bb, edge := eg } enf = expiryStage i enf := by
    funext s; rfl
  have h4 : timestampStage { i with stores := st, storeImpl := impl, ctor := ctor, revSupply := supply, scheme := sch, chainLen := cl, badCert := bc, badHow := bh, tsaStore := ts, verifyTimestamp := vt, badBy := bb, edge := eg } enf = timestampStage i enf := by
    funext s; rfl
  have h5 : revocationStage { i with stores := st, storeImpl := impl, ctor := ctor, revSupply := supply, scheme := sch, chainLen := cl, badCert := bc, badHow := bh, tsaStore := ts, verifyTimestamp := vt, badBy := bb, edge := eg } enf = revocationStage i enf := by
    funext s; rfl
  have h6 : pluginStage { i with stores := st, storeImpl := impl, ctor := ctor, revSupply := supply, scheme := sch, chainLen := cl, badCert := bc, badHow := bh, tsaStore := ts, verifyTimestamp := vt, badBy := bb, edge := eg } enf = pluginStage i enf := by
    have hp : ∀ caps s, processResponse { i with stores := st, storeImpl := impl, ctor := ctor, revSupply := supply, scheme := sch, chainLen := cl, badCert := bc, badHow := bh, tsaStore := ts, verifyTimestamp := vt, badBy := bb, edge := eg } enf caps s =
        processResponse i enf caps s := by
      intro caps s; unfold processResponse; rw [respondCaps_irrel]
    funext s; unfold pluginStage; simp only [hp]; try rfl
  simp only [process, processE, h1, h2, h3, h4, h5, h6]

theorem clausesFor_irrel (enf : Enf) (o : Obs) :
    clausesFor { i with stores := st, storeImpl := impl, ctor := ctor, revSupply := supply, scheme := sch, chainLen := cl, badCert := bc, badHow := bh, tsaStore := ts, verifyTimestamp := vt, badBy := bb, edge := eg } enf o = clausesFor i enf o := by
  rfl

/-- The verdict, every reported result and every clause of the property are the same whatever
the concrete configuration that realises the scenario: how many trust stores the statement
lists and where the unloadable one stands, which trust store implementation serves them, which
public constructor built the verifier, through which option the revocation checker was
supplied, and - once the truth of the authentic-timestamp validation is given - under which scheme, chain,
timestamp configuration of the statement (tsa store, verifyTimestamp) and distance from the end points of a
validity period that truth came about. (The harness varies exactly these and the real code has to agree with the model.) -/
theorem concretisation_irrelevant (o : Obs) :
    run { i with stores := st, storeImpl := impl, ctor := ctor, revSupply := supply, scheme := sch, chainLen := cl, badCert := bc, badHow := bh, tsaStore := ts, verifyTimestamp := vt, badBy := bb, edge := eg } = run i ∧
    clauses { i with stores := st, storeImpl := impl, ctor := ctor, revSupply := supply, scheme := sch, chainLen := cl, badCert := bc, badHow := bh, tsaStore := ts, verifyTimestamp := vt, badBy := bb, edge := eg } o = clauses i o ∧
    inDomain { i with stores := st, storeImpl := impl, ctor := ctor, revSupply := supply, scheme := sch, chainLen := cl, badCert := bc, badHow := bh, tsaStore := ts, verifyTimestamp := vt, badBy := bb, edge := eg } = inDomain i := by
  refine ⟨?_, ?_, ?_⟩
  · simp only [run, process_irrel]
  · simp only [clauses, enfOf, clausesFor_irrel]
  · rfl
end Irrel

/-! #### round 7: end points of a validity period, the statement's timestamp configuration -/

theorem all_range_single (n b : Nat) (hb : b < n) (f : Nat → Bool) (h : ∀ k, k ≠ b → f k = true) :
    ((List.range n).map f).all id = f b := by
  cases hf : f b with
  | true =>
    rw [List.all_eq_true]
    intro x hx
    rw [List.mem_map] at hx
    obtain ⟨k, _, rfl⟩ := hx
    by_cases hk : k = b
    · subst hk; simpa using hf
    · simpa using h k hk
  | false =>
    rw [List.all_eq_false]
    exact ⟨false, List.mem_map.mpr ⟨b, List.mem_range.mpr hb, hf⟩, by simp⟩

theorem any_range_single (n b : Nat) (hb : b < n) (f : Nat → Bool) (h : ∀ k, k ≠ b → f k = false) :
    ((List.range n).map f).any id = f b := by
  cases hf : f b with
  | false =>
    rw [List.any_eq_false]
    intro x hx
    rw [List.mem_map] at hx
    obtain ⟨k, _, rfl⟩ := hx
    by_cases hk : k = b
    · subst hk; simpa using hf
    · simpa using h k hk
  | true =>
    rw [List.any_eq_true]
    exact ⟨true, List.mem_map.mpr ⟨b, List.mem_range.mpr hb, hf⟩, rfl⟩

theorem certWindow_other (i : Input) (k : Nat) (hk : k ≠ i.badCert) : certWindow i k = (-far, far) := by
  simp [certWindow, hk]

/-- only certificate `badCert` decides: every other certificate of the minted chain is valid -/
theorem windows_all_validAt (i : Input) (hb : i.badCert < chainLenOf i) :
    (windows i).all validAt = validAt (certWindow i i.badCert) := by
  have := all_range_single (chainLenOf i) i.badCert hb (fun k => validAt (certWindow i k))
    (fun k hk => by rw [certWindow_other i k hk]; decide)
  simpa [windows, List.all_map, Function.comp_def] using this

theorem windows_any_expiredAt (i : Input) (hb : i.badCert < chainLenOf i) :
    (windows i).any expiredAt = expiredAt (certWindow i i.badCert) := by
  have := any_range_single (chainLenOf i) i.badCert hb (fun k => expiredAt (certWindow i k))
    (fun k hk => by rw [certWindow_other i k hk]; decide)
  simpa [windows, List.any_map, Function.comp_def] using this

/-- BOTH end points of a validity period belong to it (seeded change C02-21 counts them as outside) ... -/
theorem end_points_belong (a b : Int) (ha : 0 ≤ a) (hb : b ≤ 0) : validAt (0, a) = true ∧ validAt (b, 0) = true := by
  simp [validAt, ha, hb]

/-- ... and one second beyond either end point is outside, however long the period -/
theorem one_second_outside (a b : Int) : validAt (1, a) = false ∧ validAt (b, -1) = false := by
  simp [validAt]

/-- a certificate is outside its period exactly when it has expired or is not yet valid: the two ways are
exclusive for a non-empty period and neither is "more harmless" -/
theorem not_validAt_iff (w : Int × Int) : validAt w = false ↔ (expiredAt w = true ∨ notYetValidAt w = true) := by
  simp only [validAt, expiredAt, notYetValidAt, Bool.and_eq_false_iff, decide_eq_false_iff_not, decide_eq_true_eq]
  omega

/-- The family of seeded change C02-20: WHATEVER the scheme, the tsa store and the verifyTimestamp option, a
chain with a certificate that is not valid at the prescribed time (expired OR not yet valid) never passes the
authentic-timestamp validation of a signature without countersignature. -/
theorem invalid_certificate_never_passes (i : Input) (ws : List (Int × Int)) (w : Int × Int)
    (hw : w ∈ ws) (hv : validAt w = false) : timestampSpec i ws = false := by
  have : ws.all validAt = false := List.all_eq_false.mpr ⟨w, hw, by simp [hv]⟩
  unfold timestampSpec
  split <;> simp [this]

/-- under `notary.x509` the option `afterCertExpiry` over a chain without an expired certificate judges exactly
like a statement without tsa store ... -/
theorem afterCertExpiry_unexpired_as_without_tsa (i : Input) (ws : List (Int × Int))
    (ho : i.verifyTimestamp = "afterCertExpiry") (he : ws.any expiredAt = false) :
    timestampSpec i ws = timestampSpec { i with tsaStore := false } ws := by
  simp [timestampSpec, timestampDemanded, ho, he, isSA]

/-- ... and every statement that demands a timestamp fails a signature that has none, valid chain or not -/
theorem demanded_timestamp_missing_fails (i : Input) (ws : List (Int × Int)) (hs : isSA i = false)
    (hd : timestampDemanded i ws = true) : timestampSpec i ws = false := by
  simp [timestampSpec, hs, hd]

/-- the signing-authority scheme does not look at the statement's timestamp configuration -/
theorem timestampSpec_signingAuthority_config_irrelevant (i : Input) (ws : List (Int × Int)) (ts : Bool) (vt : String)
    (hs : isSA i = true) : timestampSpec { i with tsaStore := ts, verifyTimestamp := vt } ws = timestampSpec i ws := by
  have : isSA { i with tsaStore := ts, verifyTimestamp := vt } = true := hs
  simp [timestampSpec, hs, this]

/-- what the concretisation mints realises `timestampOk`: whichever certificate is the special one (leaf, middle,
LAST, only - seeded change C02-18 forgets the last), whether it lies outside by half an hour or by one second,
whether the prescribed time is an end point of its period (C02-21), and whichever timestamp configuration the
statement has (C02-20: a not-yet-valid certificate under tsa store + afterCertExpiry) -/
theorem timestampSpec_realised (i : Input) (h : concretisationOK i = true) :
    timestampSpec i (windows i) = i.timestampOk := by
  simp only [concretisationOK, Bool.and_eq_true, Bool.or_eq_true, decide_eq_true_eq, beq_iff_eq, bne_iff_ne,
    Bool.not_eq_true', ne_eq] at h
  obtain ⟨⟨⟨⟨⟨⟨⟨⟨hedge, hsa⟩, hnc⟩, hok⟩, hb⟩, _⟩, _⟩, _⟩, _⟩ := h
  have hb' : i.badCert < chainLenOf i := by simpa [chainLenOf] using hb
  unfold timestampSpec
  rw [windows_all_validAt i hb']
  unfold timestampDemanded
  rw [windows_any_expiredAt i hb']
  cases hts : i.timestampOk with
  | true =>
    have hw : validAt (certWindow i i.badCert) = true ∧ expiredAt (certWindow i i.badCert) = false := by
      simp only [certWindow, hts, bne_self_eq_false, Bool.false_eq_true, if_false, if_true]
      split
      · decide
      · split <;> decide
    rw [hw.1, hw.2]
    cases hS : isSA i <;> cases hT : i.tsaStore <;> simp_all
  | false =>
    by_cases hn : i.badHow = "noCountersignature"
    · rcases hnc with hnc | hnc
      · rcases hnc with hnc | hnc
        · simp [hts] at hnc
        · exact absurd hn hnc
      · obtain ⟨⟨hS, hT⟩, hV⟩ := hnc
        simp [hS, hT, hV]
    · have hw : validAt (certWindow i i.badCert) = false := by
        simp only [certWindow, hts, bne_self_eq_false, Bool.false_eq_true, if_false, beq_iff_eq, hn]
        split
        · split <;> decide
        · split <;> decide
      rw [hw]; simp

theorem timestampTruth_chainValidity (i : Input) (h : concretisationOK i = true) :
    timestampTruth (chainValidity i) = (i.timestampOk || i.badHow == "noCountersignature") := by
  have hr := timestampSpec_realised i h
  simp only [concretisationOK, Bool.and_eq_true, decide_eq_true_eq] at h
  have hb' : i.badCert < chainLenOf i := by simpa [chainLenOf] using h.1.1.1.1.2
  have : timestampTruth (chainValidity i) = validAt (certWindow i i.badCert) := by
    rw [← windows_all_validAt i hb']
    simp [timestampTruth, chainValidity, List.all_map, Function.comp_def]
  rw [this]
  cases hts : i.timestampOk with
  | true =>
    simp only [certWindow, hts, bne_self_eq_false, Bool.false_eq_true, if_false, if_true, Bool.true_or]
    split
    · decide
    · split <;> decide
  | false =>
    by_cases hn : i.badHow = "noCountersignature"
    · simp [certWindow, hts, hn]; decide
    · have hbeq : (i.badHow == "noCountersignature") = false := by simp [hn]
      rw [hbeq]
      simp only [certWindow, hts, bne_self_eq_false, Bool.false_eq_true, if_false, beq_iff_eq, hn, Bool.false_or]
      split
      · split <;> decide
      · split <;> decide

/-- dropping the last certificate from the check is observable: a chain whose only bad certificate is the last one -/
example : timestampTruth [true, true, false] = false ∧ timestampTruth ([true, true, false].dropLast) = true := by decide

/-- an unloadable store of the needed type fails the load at every position of the list -/
theorem trustOf_broken_anywhere (pre post : List StoreKind) :
    trustOf (pre ++ .broken :: post) = .storeError := by
  simp [trustOf]

/-- stores of another type never matter, loadable or not -/
theorem trustOf_ignores_other_types (l : List StoreKind) :
    trustOf (l.filter (fun k => k != .otherType && k != .otherTypeBroken && k != .dup)) = trustOf l := by
  simp [trustOf, List.contains_eq_mem, List.mem_filter]

/-- without an unloadable store the anchor is found wherever its store stands -/
theorem trustOf_anchor_anywhere (pre post : List StoreKind)
    (h : (pre ++ post).contains .broken = false) :
    trustOf (pre ++ .anchor :: post) = .found := by
  have h1 : pre.contains StoreKind.broken = false ∧ post.contains StoreKind.broken = false := by
    simpa [List.contains_eq_mem] using h
  simp [trustOf, List.contains_eq_mem] at h1 ⊢
  exact ⟨h1.1, h1.2⟩

/-- a well-formed multi-store scenario with the unloadable store listed BEFORE the good one
(seeded change C02-13) is rejected under strict and accepted with a logged failure under audit -/
def plainAccepted : Input :=
  { level := "strict", override := [], pluginAttr := .absent, minVerAttr := .absent, extAttrs := [],
    pluginState := .installed, pluginVersion := .ok, capIdentity := false, capRevocation := false, trust := .found,
    identityMatch := true, wildcardIdentity := false, expired := false, timestampOk := true, revocation := .ok,
    pluginCallError := false, processed := [], verdictIdentity := .success, verdictRevocation := .success,
    stores := [.otherTypeBroken, .other, .anchor, .dup], storeImpl := "fs", ctor := "NewFromConfig", revSupply := "none" }
example : concretisationOK plainAccepted = true ∧ inDomain plainAccepted = true ∧
    (run plainAccepted).accepted = true := by decide
def brokenBeforeGood : Input :=
  { plainAccepted with
    trust := .storeError, stores := [.broken, .anchor],
    storeImpl := "fake", ctor := "NewVerifierWithOptions", revSupply := "validator" }
example : concretisationOK brokenBeforeGood = true ∧ (run brokenBeforeGood).accepted = false := by decide
example : (run { brokenBeforeGood with level := "audit" }).accepted = true ∧
    (run { brokenBeforeGood with level := "audit" }).results.head? =
      some { type := "authenticity", action := "log", failed := true } := by decide
/-- an observation that accepts it under strict (what C02-13 makes the code do) violates the property -/
example : Holds brokenBeforeGood { (run { brokenBeforeGood with trust := .found }) with accepted := true } = false := by decide
/-- a self-signed signing certificate that had expired before the signing time, signing-authority scheme
(seeded change C02-18): rejected under strict, reported with action log under audit -/
def selfSignedExpiredSA : Input :=
  { plainAccepted with
    timestampOk := false, scheme := "signingAuthority", chainLen := 1, badCert := 0, badHow := "expired",
    stores := [.anchor], storeImpl := "fake", ctor := "NewVerifierWithOptions", revSupply := "validator" }
example : concretisationOK selfSignedExpiredSA = true ∧ (run selfSignedExpiredSA).accepted = false ∧
    chainValidity selfSignedExpiredSA = [false] := by decide
example : (run { selfSignedExpiredSA with level := "audit" }).accepted = true ∧
    (run { selfSignedExpiredSA with level := "audit" }).results.contains
      { type := "authenticTimestamp", action := "log", failed := true } = true := by decide
/-- what C02-18 makes the code report (the validation passed) violates the property -/
example : Holds selfSignedExpiredSA (run { selfSignedExpiredSA with timestampOk := true }) = false := by decide
/-- a signing certificate that becomes valid only in an hour, no certificate expired, under a statement with a tsa
store and verifyTimestamp = afterCertExpiry (seeded change C02-20): no timestamp is demanded, and the validation fails -/
def notYetValidAfterCertExpiry : Input :=
  { plainAccepted with
    timestampOk := false, scheme := "x509", chainLen := 2, badCert := 0, badHow := "notYetValid",
    tsaStore := true, verifyTimestamp := "afterCertExpiry",
    stores := [.anchor], storeImpl := "fake", ctor := "NewVerifierWithOptions", revSupply := "validator" }
example : concretisationOK notYetValidAfterCertExpiry = true ∧ (run notYetValidAfterCertExpiry).accepted = false ∧
    timestampDemanded notYetValidAfterCertExpiry (windows notYetValidAfterCertExpiry) = false ∧
    timestampSpec notYetValidAfterCertExpiry (windows notYetValidAfterCertExpiry) = false := by decide
/-- what C02-20 makes the code do (report the validation as passed and accept) violates the property -/
example : Holds notYetValidAfterCertExpiry (run { notYetValidAfterCertExpiry with timestampOk := true }) = false := by decide
/-- the same valid chain under tsa store + always: the timestamp is demanded and missing -/
example : concretisationOK { notYetValidAfterCertExpiry with badHow := "noCountersignature", verifyTimestamp := "always" } = true ∧
    chainValidity { notYetValidAfterCertExpiry with badHow := "noCountersignature", verifyTimestamp := "always" } = [true, true] ∧
    timestampSpec { notYetValidAfterCertExpiry with badHow := "noCountersignature", verifyTimestamp := "always" }
      (windows { notYetValidAfterCertExpiry with badHow := "noCountersignature", verifyTimestamp := "always" }) = false := by decide
/-- a signing-authority signature produced in the very second the root's validity begins (seeded change C02-21):
every validation passes, the signature is accepted under strict -/
def signedAtNotBefore : Input :=
  { plainAccepted with
    scheme := "signingAuthority", chainLen := 2, badCert := 1, edge := "notBefore",
    stores := [.anchor], storeImpl := "fake", ctor := "NewVerifierWithOptions", revSupply := "validator" }
example : concretisationOK signedAtNotBefore = true ∧ (run signedAtNotBefore).accepted = true ∧
    windows signedAtNotBefore = [(-far, far), (0, far)] ∧
    timestampSpec signedAtNotBefore (windows signedAtNotBefore) = true := by decide
/-- what C02-21 makes the code do (report a failed authentic-timestamp validation, reject under strict) violates
the property - also under audit, where the signature is still accepted but a failure is reported that did not happen -/
example : Holds signedAtNotBefore (run { signedAtNotBefore with timestampOk := false }) = false ∧
    Holds { signedAtNotBefore with level := "audit" } (run { signedAtNotBefore with level := "audit", timestampOk := false }) = false := by decide
/-- one second later than notAfter is outside -/
example : concretisationOK { signedAtNotBefore with timestampOk := false, badHow := "expired", badBy := "second", edge := "" } = true ∧
    windows { signedAtNotBefore with timestampOk := false, badHow := "expired", badBy := "second", edge := "" } = [(-far, far), (-far - far, -1)] := by decide
/-- deprecated constructor + deprecated client reporting revoked (seeded change C02-14): rejected under strict -/
def clientRevoked : Input :=
  { plainAccepted with revocation := .revoked, ctor := "NewWithOptions", revSupply := "client", storeImpl := "fake" }
example : concretisationOK clientRevoked = true ∧ (run clientRevoked).accepted = false ∧
    (run clientRevoked).validatorCalls = 1 := by decide
example : Holds clientRevoked (run { clientRevoked with revocation := .ok }) = false := by decide

namespace Tie
open NotationModel.Src NotationModel.Src.trustpolicy

/-- the fact tables and the translated declarations say the same -/
theorem levels_agree : Facts.levels = VerificationLevels.map (fun l => (l.Name, l.Enforcement)) := by decide
theorem types_agree : Facts.validationTypes = ValidationTypes := by decide
theorem actions_agree : Facts.validationActions = ValidationActions := by decide

/-- result shape: the level (if any) and whether an error is returned -/
def shape (r : Option VerificationLevel × Option GoLite.Err) : Option (String × Enf) × Bool :=
  (r.1.map (fun l => (l.Name, l.Enforcement)), r.2.isSome)

def ofModel : Except String (String × Enf) → Option (String × Enf) × Bool
  | .ok p => (some p, false)
  | .error _ => (none, true)

theorem foldl_error (e : String) (l : List (String × String)) :
    l.foldl applyOverride (.error e) = .error e := by
  induction l with
  | nil => rfl
  | cons a l ih => simpa [List.foldl, applyOverride] using ih

theorem foldE_foldl (l : List (String × String)) (t : Enf) :
    (match GoLite.foldE (fun t kv => applyOverride (.ok t) kv) l t with
      | .ok t' => Except.ok t'
      | .error (_, e) => Except.error e) = l.foldl applyOverride (.ok t) := by
  induction l generalizing t with
  | nil => simp [GoLite.foldE]
  | cons a l ih =>
    simp only [GoLite.foldE, List.foldl]
    cases h : applyOverride (.ok t) a with
    | ok t' => simpa using ih t'
    | error e => simp [foldl_error]

theorem findLevel_src (lvl : String) :
    findLevel lvl = ((VerificationLevels.filter (fun l => l.Name == lvl)).getLast?).map (fun l => (l.Name, l.Enforcement)) := by
  unfold findLevel
  rw [levels_agree, List.filter_map, List.getLast?_map]
  rfl

/-- the loop state of the override loop, seen from the model: the enforcement map built so far -/
abbrev absSt (t : Enf) : Option (Option VerificationLevel × Option GoLite.Err) × VerificationLevel :=
  (none, { Name := "custom", Enforcement := t })
abbrev stopSt (t : Enf) (_e : String) : Option (Option VerificationLevel × Option GoLite.Err) × VerificationLevel :=
  (some (none, some (GoLite.errorf "")), { Name := "custom", Enforcement := t })

/-- TIE (translated source): `SignatureVerification.GetVerificationLevel`, translated from
verifier/trustpolicy/trustpolicy.go on every run (`Generated/SrcLevels.lean`, together with the
level tables and the lists of types and actions), returns for EVERY level name and override map
exactly the level and enforcement map of the hand-written `effective`, and an error exactly when
`effective` fails. (Override maps are association lists: the statement holds for every iteration
order Go may choose.) -/
theorem source_GetVerificationLevel_refines_model (sv : SignatureVerification) : shape (GetVerificationLevel sv) = ofModel (effective sv.VerificationLevel sv.Override) := by
  unfold GetVerificationLevel
  simp only [Id.run]
  simp only [GoLite.forIn_lastMatch, GoLite.forIn_firstEq, pure_bind]
  unfold effective
  rw [findLevel_src]
  by_cases h0 : sv.VerificationLevel = ""
  · simp [h0, shape, ofModel, GoLite.idPure]
  · have hne : (sv.VerificationLevel == "") = false := by simpa using h0
    simp only [hne, Bool.false_eq_true, if_false]
    cases hb : (VerificationLevels.filter (fun l => l.Name == sv.VerificationLevel)).getLast? with
    | none => simp [shape, ofModel, GoLite.idPure]
    | some b =>
      have hmem : b ∈ VerificationLevels.filter (fun l => l.Name == sv.VerificationLevel) := List.mem_of_getLast? hb
      simp only [Option.isNone_some, Bool.false_eq_true, if_false, Option.map_some]
      by_cases hov : sv.Override = []
      · simp [hov, shape, ofModel, GoLite.idPure]
      · have hlen : (GoLite.len sv.Override == 0) = false := by
          cases h : sv.Override with
          | nil => exact absurd h hov
          | cons a l => simp [GoLite.len]; omega
        have hemp : sv.Override.isEmpty = false := by simp [hov]
        simp only [hlen, hemp, Bool.false_eq_true, if_false]
        have hb4 : b = LevelStrict ∨ b = LevelPermissive ∨ b = LevelAudit ∨ b = LevelSkip := by
          have := (List.mem_filter.1 hmem).1
          simpa [VerificationLevels] using this
        have hcopy : (forIn (GoLite.deref (some b)).Enforcement ({ Name := "custom", Enforcement := [] } : VerificationLevel)
              (fun x __s => (pure (ForInStep.yield { Name := __s.Name, Enforcement := __s.Enforcement.set x.fst x.snd }) : Id _))) =
            pure ({ Name := "custom", Enforcement := b.Enforcement } : VerificationLevel) := by
          rcases hb4 with rfl | rfl | rfl | rfl <;> rfl
        rw [hcopy]
        simp only [pure_bind]
        rw [GoLite.forIn_eq_foldE' _ (fun t kv => applyOverride (.ok t) kv) absSt stopSt ?h _ _ b.Enforcement rfl]
        case h =>
          intro x t
          have hT : ValidationTypes = Facts.validationTypes := types_agree.symm
          have hA : ValidationActions = Facts.validationActions := actions_agree.symm
          have hI : TypeIntegrity = Facts.typeIntegrity := by decide
          have hR : TypeRevocation = Facts.typeRevocation := by decide
          have hS : ActionSkip = Facts.actionSkip := by decide
          rcases x with ⟨k, v⟩
          simp only [hT, hA, hI, hR, hS, applyOverride, Enf.set, GoLite.Map.set]
          by_cases c1 : k ∈ Facts.validationTypes
          · by_cases c2 : v ∈ Facts.validationActions
            · simp [Facts.validationTypes] at c1
              simp [Facts.validationActions] at c2
              rcases c1 with rfl | rfl | rfl | rfl | rfl <;> rcases c2 with rfl | rfl | rfl <;>
                simp [Facts.validationTypes, Facts.validationActions, Facts.typeIntegrity, Facts.typeRevocation,
                  Facts.actionSkip, GoLite.errorf, absSt, stopSt] <;> (try rfl)
            · have c2' := c2
              simp [Facts.validationActions] at c2'
              simp [Facts.validationTypes] at c1
              rcases c1 with rfl | rfl | rfl | rfl | rfl <;>
                simp [Facts.validationTypes, Facts.validationActions, Facts.typeIntegrity, Facts.typeRevocation,
                  Facts.actionSkip, GoLite.errorf, absSt, stopSt, c2, c2'] <;> (try rfl)
          · have c1' := c1
            simp [Facts.validationTypes] at c1'
            simp [Facts.validationTypes, Facts.validationActions, Facts.typeIntegrity, Facts.typeRevocation,
                  Facts.actionSkip, GoLite.errorf, absSt, stopSt, c1, c1'] <;> (try rfl)
        have hskip : (some b == some LevelSkip) = (b.Name == "skip") := by
          rcases hb4 with rfl | rfl | rfl | rfl <;> decide
        rw [hskip, ← foldE_foldl]
        by_cases hs : (b.Name == "skip") = true
        · simp [hs, shape, ofModel, GoLite.idPure]
        · simp only [hs, Bool.false_eq_true, if_false, pure_bind]
          cases hf : GoLite.foldE (fun t kv => applyOverride (Except.ok t) kv) sv.Override b.Enforcement with
          | ok t' => simp [shape, ofModel, GoLite.idPure, absSt]
          | error p => obtain ⟨t', e⟩ := p; simp [shape, ofModel, GoLite.idPure, stopSt]

/-- TIE (translated source): `verifier.isCriticalFailure` is the model's `isCritical` -/
theorem source_isCriticalFailure_refines_model (r : «notation».ValidationResult) :
    verifier.isCriticalFailure r = isCritical { type := r.«Type», action := r.Action, failed := r.Error.isSome } := by
  simp [verifier.isCriticalFailure, isCritical, Id.run, GoLite.idPure]
  rfl

/-- non-vacuity: the translated function on a customised level -/
example : (GetVerificationLevel { VerificationLevel := "strict", Override := [("revocation", "skip")] }).1.map (·.Enforcement) =
    some [("integrity", "enforce"), ("authenticity", "enforce"), ("authenticTimestamp", "enforce"),
          ("expiry", "enforce"), ("revocation", "skip")] := by decide
example : (GetVerificationLevel { VerificationLevel := "audit", Override := [("integrity", "log")] }).2.isSome = true := by decide

/-! #### reading the verification-plugin attributes -/
section Attrs
open NotationModel.Src.verifier NotationModel.Src.signature

/-- what a signature's extended attributes say about the verification plugin, as the model's input puts it -/
def classifyPlugin (si : SignerInfo) : PluginAttr :=
  match si.SignedAttributes.ExtendedAttributes.find? (fun a => a.Key == .str HeaderVerificationPlugin) with
  | none => .absent
  | some a =>
    if !a.Critical then .notCritical
    else match a.Value with
      | .other _ => .notString
      | .str s => if GoLite.trimSpace s == "" then .blank else .named

def classifyMinVer (isValidSemver : String → Bool) (si : SignerInfo) : MinVerAttr :=
  match si.SignedAttributes.ExtendedAttributes.find? (fun a => a.Key == .str HeaderVerificationPluginMinVersion) with
  | none => .absent
  | some a =>
    if !a.Critical then .notCritical
    else match a.Value with
      | .other _ => .notString
      | .str s => if GoLite.trimSpace s == "" then .blank else if !isValidSemver s then .invalidSemver else .valid

/-- TIE: `getVerificationPlugin` (with `extractCriticalStringExtendedAttribute`) classifies the plugin
attribute exactly as the model's input enumeration does: absent -> the not-exist sentinel (no plugin
demanded), a critical non-blank string -> that name, everything else -> another error -/
theorem source_getVerificationPlugin_refines_model (si : SignerInfo) :
    (classifyPlugin si = .absent → getVerificationPlugin si = ("", some errExtendedAttributeNotExist)) ∧
    (classifyPlugin si = .named → (getVerificationPlugin si).2 = none ∧
        ∃ a, si.SignedAttributes.ExtendedAttributes.find? (fun a => a.Key == .str HeaderVerificationPlugin) = some a ∧
          a.Value = .str (getVerificationPlugin si).1) ∧
    (classifyPlugin si ≠ .absent → classifyPlugin si ≠ .named →
        (getVerificationPlugin si).1 = "" ∧ (getVerificationPlugin si).2.isSome = true ∧
        (getVerificationPlugin si).2 ≠ some errExtendedAttributeNotExist) := by
  unfold getVerificationPlugin extractCriticalStringExtendedAttribute classifyPlugin SignerInfo.ExtendedAttribute
  simp only [Id.run]
  cases hf : si.SignedAttributes.ExtendedAttributes.find? (fun a => a.Key == .str HeaderVerificationPlugin) with
  | none => simp [GoLite.idPure, GoLite.idBind]
  | some a =>
    cases hc : a.Critical with
    | false => simp [hc, GoLite.idPure, GoLite.idBind, GoLite.errorf, errExtendedAttributeNotExist]
    | true =>
      cases hv : a.Value with
      | other t => simp [hc, hv, AVal.asString, GoLite.idPure, GoLite.idBind, GoLite.errorf, errExtendedAttributeNotExist]
      | str s =>
        by_cases hb : (GoLite.trimSpace s == "") = true
        · simp [hc, hv, hb, AVal.asString, GoLite.idPure, GoLite.idBind, GoLite.errorf, errExtendedAttributeNotExist]
        · simp [hc, hv, hb, AVal.asString, GoLite.idPure, GoLite.idBind, GoLite.errorf, errExtendedAttributeNotExist]

theorem source_getVerificationPluginMinVersion_refines_model (isValidSemver : String → Bool) (si : SignerInfo) :
    (classifyMinVer isValidSemver si = .absent →
        getVerificationPluginMinVersion isValidSemver si = ("", some errExtendedAttributeNotExist)) ∧
    (classifyMinVer isValidSemver si = .valid → (getVerificationPluginMinVersion isValidSemver si).2 = none ∧
        ∃ a, si.SignedAttributes.ExtendedAttributes.find? (fun a => a.Key == .str HeaderVerificationPluginMinVersion) = some a ∧
          a.Value = .str (getVerificationPluginMinVersion isValidSemver si).1) ∧
    (classifyMinVer isValidSemver si ≠ .absent → classifyMinVer isValidSemver si ≠ .valid →
        (getVerificationPluginMinVersion isValidSemver si).1 = "" ∧
        (getVerificationPluginMinVersion isValidSemver si).2.isSome = true ∧
        (getVerificationPluginMinVersion isValidSemver si).2 ≠ some errExtendedAttributeNotExist) := by
  unfold getVerificationPluginMinVersion extractCriticalStringExtendedAttribute classifyMinVer SignerInfo.ExtendedAttribute
  simp only [Id.run]
  cases hf : si.SignedAttributes.ExtendedAttributes.find? (fun a => a.Key == .str HeaderVerificationPluginMinVersion) with
  | none => simp [GoLite.idPure, GoLite.idBind]
  | some a =>
    cases hc : a.Critical with
    | false => simp [hc, GoLite.idPure, GoLite.idBind, GoLite.errorf, errExtendedAttributeNotExist]
    | true =>
      cases hv : a.Value with
      | other t => simp [hc, hv, AVal.asString, GoLite.idPure, GoLite.idBind, GoLite.errorf, errExtendedAttributeNotExist]
      | str s =>
        by_cases hb : (GoLite.trimSpace s == "") = true
        · simp [hc, hv, hb, AVal.asString, GoLite.idPure, GoLite.idBind, GoLite.errorf, errExtendedAttributeNotExist]
        · by_cases hs : isValidSemver s = true
          · simp [hc, hv, hb, hs, AVal.asString, GoLite.idPure, GoLite.idBind, GoLite.errorf, errExtendedAttributeNotExist]
          · simp [hc, hv, hb, hs, AVal.asString, GoLite.idPure, GoLite.idBind, GoLite.errorf, errExtendedAttributeNotExist]

/-- TIE: the attributes handed to the plugin for processing are ALL extended attributes with a string
key other than the two plugin headers - critical or not, in signature order (the function's name
notwithstanding) -/
theorem source_getNonPluginExtendedCriticalAttributes_refines_model (si : SignerInfo) :
    getNonPluginExtendedCriticalAttributes si =
      si.SignedAttributes.ExtendedAttributes.filter (fun a =>
        match a.Key with
        | .str k => !(VerificationPluginHeaders.contains k)
        | .other _ => false) := by
  unfold getNonPluginExtendedCriticalAttributes
  simp only [Id.run]
  rw [GoLite.forIn_appendIf]
  simp only [pure_bind]
  show ([] ++ List.filter _ _) = _
  rw [List.nil_append]
  apply List.filter_congr
  intro a _
  cases a.Key <;> simp [AVal.asString, GoLite.contains]

/-- non-vacuity: a critical attribute with a sharing-the-prefix key is NOT a plugin header and is handed on -/
example : (getNonPluginExtendedCriticalAttributes { SignedAttributes := { ExtendedAttributes :=
    [{ Key := .str "io.cncf.notary.verificationPlugin", Critical := true, Value := .str "p" },
     { Key := .str "io.cncf.notary.verificationPluginConfigDigest", Critical := true, Value := .str "x" },
     { Key := .other 7, Critical := true, Value := .str "y" }] } }).map (·.Key) =
    [.str "io.cncf.notary.verificationPluginConfigDigest"] := by decide
example : getVerificationPlugin { SignedAttributes := { ExtendedAttributes :=
    [{ Key := .str "io.cncf.notary.verificationPlugin", Critical := true, Value := .str "  " }] } } =
    ("", some ⟨"error"⟩) := by decide
end Attrs

end Tie

end NotationModel.C02

/-
C03 - `verifyAuthenticity` (verifier/verifier.go) translated on every run (Generated/SrcC03v.lean; the
translator's type-switch rule was added for it) and tied for every list of trust certificates,
every outcome and every behaviour of notation-core-go's `signature.VerifyAuthenticity`:

* the authenticity validation passes exactly when the list of trust certificates handed in is
  NOT EMPTY and the library finds the chain authentic AGAINST THAT LIST - nothing else is consulted
  (no certificate pool of the system, no cache, no second list);
* an empty list fails closed before the library is asked; every error of the library is a failed
  result, whatever its kind; the result carries type authenticity and the action of the level.
Which certificates are in the list is the business of the trust-store ties of `Props/C03.lean`
(`source_loadX509TrustStores_refines_model`: only the stores the statement lists, typed by scheme).
-/
import NotationModel.Generated.SrcC03v
set_option linter.unusedSimpArgs false
set_option linter.unusedVariables false

namespace NotationModel.C03.TieA
open NotationModel.Src

def actionOf (outcome : c03v.VerificationOutcome) : trustpolicy.ValidationAction :=
  GoLite.Map.get outcome.VerificationLevel.Enforcement trustpolicy.TypeAuthenticity

/-- **Tie.** Passing = a non-empty list and the library's verdict on exactly that list. -/
theorem source_verifyAuthenticity_passes_iff (trustCerts : List x509.Certificate)
    (outcome : c03v.VerificationOutcome) :
    (c03v.verifyAuthenticity trustCerts outcome).Error = none ↔
      trustCerts ≠ [] ∧ outcome.EnvelopeContent.SignerInfo.verify trustCerts = none := by
  unfold c03v.verifyAuthenticity
  cases trustCerts with
  | nil => simp [Id.run, GoLite.idPure, GoLite.len]
  | cons c cs =>
    have hlen : ¬ ((GoLite.len (c :: cs)) < (1 : Int)) := by simp [GoLite.len]; omega
    cases hv : outcome.EnvelopeContent.SignerInfo.verify (c :: cs) with
    | none => simp [Id.run, GoLite.idPure, hlen, c03v.VerifyAuthenticity, hv]; rfl
    | some e =>
      by_cases hk : c03v.isAuthenticityError (some e) = true <;>
        simp [Id.run, GoLite.idPure, hlen, c03v.VerifyAuthenticity, hv, hk]

/-- **An empty list of trust certificates fails closed**, whatever the library would say. -/
theorem source_verifyAuthenticity_empty_fails (outcome : c03v.VerificationOutcome) :
    (c03v.verifyAuthenticity [] outcome).Error.isSome := by
  have := source_verifyAuthenticity_passes_iff [] outcome
  cases h : (c03v.verifyAuthenticity [] outcome).Error <;> simp_all

/-- the result carries type authenticity and the action the level gives it -/
theorem source_verifyAuthenticity_type_action (trustCerts : List x509.Certificate)
    (outcome : c03v.VerificationOutcome) :
    (c03v.verifyAuthenticity trustCerts outcome).«Type» = trustpolicy.TypeAuthenticity ∧
      (c03v.verifyAuthenticity trustCerts outcome).Action = actionOf outcome := by
  unfold c03v.verifyAuthenticity actionOf
  simp only [Id.run, GoLite.idPure]
  repeat' split
  all_goals simp

/-- **Only the list handed in matters**: two outcomes whose signer infos answer alike on this list
get the same verdict (no other source of trust is consulted). -/
theorem source_verifyAuthenticity_only_this_list (trustCerts : List x509.Certificate)
    (o1 o2 : c03v.VerificationOutcome)
    (h : o1.EnvelopeContent.SignerInfo.verify trustCerts = o2.EnvelopeContent.SignerInfo.verify trustCerts) :
    ((c03v.verifyAuthenticity trustCerts o1).Error = none ↔ (c03v.verifyAuthenticity trustCerts o2).Error = none) := by
  simp [source_verifyAuthenticity_passes_iff, h]

end NotationModel.C03.TieA

/-
C03 - Trust comes only from the stores the applicable policy names, typed by scheme.
Property theorems only; the model is in `Model/C03.lean`.
-/
import NotationModel.Model.C03
import NotationModel.Generated.SrcC03
set_option linter.unusedSimpArgs false
set_option linter.unusedVariables false

namespace NotationModel.C03

/-! ### the extracted facts the model is defined in terms of, pinned -/

/-- the three store type constants have the values the property speaks of, `Types` lists exactly
them, and the loading loop cuts at ":". (What the scheme switches map to is proved against their
translation: `Tie.source_loadX509TrustStores_refines_model`, `Tie.source_loadX509TSATrustStores_refines_model`.) -/
theorem facts_pinned :
    Facts.c03Types = [Facts.c03TypeCA, Facts.c03TypeSigningAuthority, Facts.c03TypeTSA] ∧
    Facts.c03TypeCA = ['c', 'a'] ∧
    Facts.c03TypeSigningAuthority = ['s', 'i', 'g', 'n', 'i', 'n', 'g', 'A', 'u', 't', 'h', 'o', 'r', 'i', 't', 'y'] ∧
    Facts.c03TypeTSA = ['t', 's', 'a'] ∧
    Facts.c03Separator = ':' := by decide

/-- the store type the code loads is the one the property demands -/
theorem storeTypeOf_eq (s : Scheme) : storeTypeOf s = requiredType s := by
  cases s <;> decide

/-- no store type contains the separator, the two trust-anchor types differ from each other and from tsa -/
theorem requiredType_facts (s : Scheme) :
    Facts.c03Separator ∉ requiredType s ∧ requiredType s ≠ Facts.c03TypeTSA ∧
    requiredType s ∈ Facts.c03Types ∧ requiredType .x509 ≠ requiredType .signingAuthority := by
  cases s <;> decide

/-! ### `strings.Cut` -/

/-- the value `t:n` -/
def entry (t n : Text) : Text := t ++ Facts.c03Separator :: n

theorem cut_some_iff (e t n : Text) :
    cut e = some (t, n) ↔ e = entry t n ∧ Facts.c03Separator ∉ t := by
  induction e generalizing t with
  | nil => simp [cut, entry]
  | cons c rest ih =>
    unfold cut
    by_cases hc : c = Facts.c03Separator
    · subst hc
      simp only [if_true, Option.some.injEq, Prod.mk.injEq]
      constructor
      · rintro ⟨rfl, rfl⟩; simp [entry]
      · rintro ⟨he, hn⟩
        cases t with
        | nil => simp [entry] at he; exact ⟨rfl, he⟩
        | cons a t' =>
          simp [entry] at he
          exact absurd (by simp [he.1]) hn
    · simp only [hc, if_false]
      cases hr : cut rest with
      | none =>
        simp only [false_iff, reduceCtorEq]
        rintro ⟨he, hn⟩
        cases t with
        | nil => simp [entry] at he; exact hc he.1
        | cons a t' =>
          simp only [entry, List.cons_append, List.cons.injEq] at he
          have := (ih t').2 ⟨he.2, fun h => hn (List.mem_cons_of_mem _ h)⟩
          rw [hr] at this; cases this
      | some p =>
        obtain ⟨t0, n0⟩ := p
        simp only [Option.some.injEq, Prod.mk.injEq]
        constructor
        · rintro ⟨rfl, rfl⟩
          have := (ih t0).1 hr
          exact ⟨by simp [entry, this.1], by simp [Ne.symm hc, this.2]⟩
        · rintro ⟨he, hn⟩
          cases t with
          | nil => simp [entry] at he; exact absurd he.1 hc
          | cons a t' =>
            simp only [entry, List.cons_append, List.cons.injEq] at he
            have := (ih t').2 ⟨he.2, fun h => hn (List.mem_cons_of_mem _ h)⟩
            rw [hr] at this
            simp only [Option.some.injEq, Prod.mk.injEq] at this
            exact ⟨by rw [he.1, this.1], this.2⟩

theorem cut_none_iff (e : Text) : cut e = none ↔ Facts.c03Separator ∉ e := by
  induction e with
  | nil => simp [cut]
  | cons c rest ih =>
    unfold cut
    by_cases hc : c = Facts.c03Separator
    · simp [hc]
    · cases hr : cut rest with
      | none => simp [hc, Ne.symm hc, ih.1 hr]
      | some p =>
        have : ¬ (Facts.c03Separator ∉ rest) := fun h => by rw [ih.2 h] at hr; cases hr
        simp only [hc, if_false, reduceCtorEq, false_iff, List.mem_cons, not_or, not_and]
        intro _; exact this

/-- membership in the wanted names = some listed value cuts into (want, n) -/
theorem mem_wantedNames (want : Text) (l : List Text) (n : Text) :
    n ∈ wantedNames want l ↔ ∃ e ∈ l, cut e = some (want, n) := by
  unfold wantedNames
  rw [List.mem_filterMap]
  constructor
  · rintro ⟨e, he, h⟩
    refine ⟨e, he, ?_⟩
    cases hc : cut e with
    | none => simp [hc] at h
    | some p =>
      obtain ⟨t, n'⟩ := p
      simp only [hc] at h
      by_cases ht : want = t
      · simp [ht] at h; simp [ht, h]
      · simp [ht] at h
  · rintro ⟨e, he, h⟩
    exact ⟨e, he, by simp [h]⟩

/-- for a type without separator: `n` is wanted iff the value `want:n` is in the list -/
theorem mem_wantedNames_entry (want : Text) (hw : Facts.c03Separator ∉ want) (l : List Text) (n : Text) :
    n ∈ wantedNames want l ↔ entry want n ∈ l := by
  rw [mem_wantedNames]
  constructor
  · rintro ⟨e, he, h⟩
    rw [((cut_some_iff e want n).1 h).1] at he; exact he
  · intro h
    exact ⟨_, h, (cut_some_iff _ want n).2 ⟨rfl, hw⟩⟩

theorem wantedNames_cons_wanted (want e n : Text) (rest : List Text) (h : cut e = some (want, n)) :
    wantedNames want (e :: rest) = n :: wantedNames want rest := by
  simp [wantedNames, List.filterMap_cons, h]

theorem wantedNames_cons_other (want e t n : Text) (rest : List Text) (h : cut e = some (t, n)) (ht : want ≠ t) :
    wantedNames want (e :: rest) = wantedNames want rest := by
  simp [wantedNames, List.filterMap_cons, h, ht]

theorem wantedNames_cons_none (want e : Text) (rest : List Text) (h : cut e = none) :
    wantedNames want (e :: rest) = wantedNames want rest := by
  simp [wantedNames, List.filterMap_cons, h]

theorem wantedNames_sublist_cons (want e : Text) (rest : List Text) :
    (wantedNames want rest).Sublist (wantedNames want (e :: rest)) := by
  unfold wantedNames
  exact List.Sublist.filterMap _ (List.sublist_cons_self e rest)

/-! ### the loop of `loadX509TrustStoresWithType`, for lists of any length -/

/-- every call is for the wanted type and a listed, not yet processed value -/
theorem loadLoop_calls (w : World) (want : Text) (l p : List Text) :
    ∀ c ∈ (loadLoop w want l p).1, c.ty = want ∧ entry want c.name ∈ l ∧ entry want c.name ∉ p ∧
      cut (entry want c.name) = some (want, c.name) := by
  induction l generalizing p with
  | nil => simp [loadLoop]
  | cons e rest ih =>
    intro c hc
    unfold loadLoop at hc
    by_cases hp : p.contains e = true
    · simp only [hp, if_true] at hc
      obtain ⟨h1, h2, h3, h4⟩ := ih p c hc
      exact ⟨h1, List.mem_cons_of_mem _ h2, h3, h4⟩
    · simp only [hp, Bool.false_eq_true, if_false] at hc
      cases hcut : cut e with
      | none => simp [hcut] at hc
      | some tn =>
        obtain ⟨t, n⟩ := tn
        simp only [hcut] at hc
        by_cases ht : want = t
        · subst ht
          have he : e = entry want n := ((cut_some_iff e want n).1 hcut).1
          simp only [ne_eq, not_true_eq_false, if_false] at hc
          cases hw : w want n with
          | none =>
            simp only [hw, List.mem_singleton] at hc
            subst hc
            exact ⟨rfl, by simp [← he], by simpa [← he] using hp, by rw [← he]; exact hcut⟩
          | some cs =>
            simp only [hw, List.mem_cons] at hc
            rcases hc with hc | hc
            · subst hc
              exact ⟨rfl, by simp [← he], by simpa [← he] using hp, by rw [← he]; exact hcut⟩
            · obtain ⟨h1, h2, h3, h4⟩ := ih (e :: p) c hc
              exact ⟨h1, List.mem_cons_of_mem _ h2, fun h => h3 (List.mem_cons_of_mem _ h), h4⟩
        · simp only [ne_eq, ht, not_false_eq_true, if_true] at hc
          obtain ⟨h1, h2, h3, h4⟩ := ih p c hc
          exact ⟨h1, List.mem_cons_of_mem _ h2, h3, h4⟩

/-- case analysis of one round of the loop, as an induction principle: the five ways an
iteration can go (value processed already / no separator / other type / load fails / load succeeds) -/
theorem loadLoop_induct (w : World) (want : Text)
    (motive : List Text → List Text → List Call × Option (List CertId) → Prop)
    (nil : ∀ p, motive [] p ([], some []))
    (processed : ∀ e rest p, p.contains e = true → motive rest p (loadLoop w want rest p) →
      motive (e :: rest) p (loadLoop w want rest p))
    (nosep : ∀ e rest p, p.contains e = false → cut e = none → motive (e :: rest) p ([], none))
    (other : ∀ e rest p t n, p.contains e = false → cut e = some (t, n) → want ≠ t →
      motive rest p (loadLoop w want rest p) → motive (e :: rest) p (loadLoop w want rest p))
    (fail : ∀ e rest p n, p.contains e = false → cut e = some (want, n) → w want n = none →
      motive (e :: rest) p ([⟨want, n⟩], none))
    (ok : ∀ e rest p n cs, p.contains e = false → cut e = some (want, n) → w want n = some cs →
      motive rest (e :: p) (loadLoop w want rest (e :: p)) →
      motive (e :: rest) p (⟨want, n⟩ :: (loadLoop w want rest (e :: p)).1,
        (loadLoop w want rest (e :: p)).2.map (cs ++ ·))) :
    ∀ l p, motive l p (loadLoop w want l p) := by
  intro l
  induction l with
  | nil => intro p; simpa [loadLoop] using nil p
  | cons e rest ih =>
    intro p
    unfold loadLoop
    by_cases hp : p.contains e = true
    · simp only [hp, if_true]; exact processed e rest p hp (ih p)
    · have hp' : p.contains e = false := by simpa using hp
      simp only [hp, Bool.false_eq_true, if_false]
      cases hcut : cut e with
      | none => exact nosep e rest p hp' hcut
      | some tn =>
        obtain ⟨t, n⟩ := tn
        by_cases ht : want = t
        · subst ht
          simp only [ne_eq, not_true_eq_false, if_false]
          cases hw : w want n with
          | none => exact fail e rest p n hp' hcut hw
          | some cs => exact ok e rest p n cs hp' hcut hw (ih (e :: p))
        · simp only [ne_eq, ht, not_false_eq_true, if_true]
          exact other e rest p t n hp' hcut ht (ih p)

/-- no store is loaded twice -/
theorem loadLoop_nodup (w : World) (want : Text) (l p : List Text) :
    ((loadLoop w want l p).1.map (·.name)).Nodup := by
  induction l generalizing p with
  | nil => simp [loadLoop]
  | cons e rest ih =>
    unfold loadLoop
    by_cases hp : p.contains e = true
    · simp only [hp, if_true]; exact ih p
    · simp only [hp, Bool.false_eq_true, if_false]
      cases hcut : cut e with
      | none => simp
      | some tn =>
        obtain ⟨t, n⟩ := tn
        by_cases ht : want = t
        · subst ht
          simp only [ne_eq, not_true_eq_false, if_false]
          cases hw : w want n with
          | none => simp
          | some cs =>
            simp only [List.map_cons, List.nodup_cons]
            refine ⟨?_, ih (e :: p)⟩
            intro hmem
            obtain ⟨c, hc, hcn⟩ := List.mem_map.1 hmem
            have := (loadLoop_calls w want rest (e :: p) c hc).2.2.1
            apply this
            have he : e = entry want n := ((cut_some_iff e want n).1 hcut).1
            rw [hcn, ← he]; exact List.mem_cons_self
        · simp only [ne_eq, ht, not_false_eq_true, if_true]; exact ih p

/-- the loads follow the order of the list -/
theorem loadLoop_sublist (w : World) (want : Text) :
    ∀ l p, ((loadLoop w want l p).1.map (·.name)).Sublist (wantedNames want l) := by
  apply loadLoop_induct w want (fun l p r => (r.1.map (·.name)).Sublist (wantedNames want l))
  · intro p; simp [wantedNames]
  · intro e rest p _ ih; exact ih.trans (wantedNames_sublist_cons want e rest)
  · intro e rest p _ _; simp
  · intro e rest p t n _ hc ht ih; rw [wantedNames_cons_other want e t n rest hc ht]; exact ih
  · intro e rest p n _ hc _; rw [wantedNames_cons_wanted want e n rest hc]; simp
  · intro e rest p n cs _ hc _ ih
    rw [wantedNames_cons_wanted want e n rest hc]
    simpa using ih

theorem all_dropLast_cons {α : Type} (q : α → Prop) (a : α) (l : List α) (ha : q a)
    (hl : ∀ x ∈ l.dropLast, q x) : ∀ x ∈ (a :: l).dropLast, q x := by
  cases l with
  | nil => simp
  | cons b l' =>
    intro x hx
    rw [List.dropLast_cons_of_ne_nil (by simp)] at hx
    rcases List.mem_cons.1 hx with h | h
    · subst h; exact ha
    · exact hl x h

/-- the loop stops at the first load that fails: every call but the last succeeded, and when no
error is returned every call succeeded -/
theorem loadLoop_prefix_ok (w : World) (want : Text) :
    ∀ l p, (∀ c ∈ (loadLoop w want l p).1.dropLast, (w want c.name).isSome = true) ∧
      ((loadLoop w want l p).2.isSome = true → ∀ c ∈ (loadLoop w want l p).1, (w want c.name).isSome = true) := by
  apply loadLoop_induct w want (fun l p r => (∀ c ∈ r.1.dropLast, (w want c.name).isSome = true) ∧
      (r.2.isSome = true → ∀ c ∈ r.1, (w want c.name).isSome = true))
  · intro p; simp
  · intro e rest p _ ih; exact ih
  · intro e rest p _ _; simp
  · intro e rest p t n _ _ _ ih; exact ih
  · intro e rest p n _ _ _; simp
  · intro e rest p n cs _ _ hw ih
    refine ⟨all_dropLast_cons (fun (c : Call) => (w want c.name).isSome = true) _ _ (by simp [hw]) ih.1, ?_⟩
    intro hs c hc
    rcases List.mem_cons.1 hc with h | h
    · subst h; simp [hw]
    · refine ih.2 ?_ c h
      cases h2 : (loadLoop w want rest (e :: p)).2 <;> simp [h2] at hs ⊢

/-- when an error is returned, either a value had no separator or the last call is a load that failed -/
theorem loadLoop_error (w : World) (want : Text) :
    ∀ l p, (loadLoop w want l p).2 = none →
      (∃ e ∈ l, e ∉ p ∧ cut e = none) ∨
      (∃ c, (loadLoop w want l p).1.getLast? = some c ∧ w want c.name = none) := by
  apply loadLoop_induct w want (fun l p r => r.2 = none →
      (∃ e ∈ l, e ∉ p ∧ cut e = none) ∨ (∃ c, r.1.getLast? = some c ∧ w want c.name = none))
  · intro p h; simp at h
  · intro e rest p _ ih h
    rcases ih h with ⟨e', h1, h2, h3⟩ | h'
    · exact .inl ⟨e', List.mem_cons_of_mem _ h1, h2, h3⟩
    · exact .inr h'
  · intro e rest p hp hc _
    exact .inl ⟨e, List.mem_cons_self, by simpa using hp, hc⟩
  · intro e rest p t n _ _ _ ih h
    rcases ih h with ⟨e', h1, h2, h3⟩ | h'
    · exact .inl ⟨e', List.mem_cons_of_mem _ h1, h2, h3⟩
    · exact .inr h'
  · intro e rest p n _ _ hw _
    exact .inr ⟨⟨want, n⟩, by simp, hw⟩
  · intro e rest p n cs _ hcut _ ih h
    have h' : (loadLoop w want rest (e :: p)).2 = none := by
      cases h2 : (loadLoop w want rest (e :: p)).2 <;> simp [h2] at h ⊢
    rcases ih h' with ⟨e', h1, h2, h3⟩ | ⟨c, h1, h2⟩
    · exact .inl ⟨e', List.mem_cons_of_mem _ h1, fun hm => h2 (List.mem_cons_of_mem _ hm), h3⟩
    · refine .inr ⟨c, ?_, h2⟩
      cases hl : (loadLoop w want rest (e :: p)).1 with
      | nil => simp [hl] at h1
      | cons b l' => rw [hl] at h1; simpa [List.getLast?_cons_cons] using h1

/-- when no error is returned: every value has a separator, every listed store of the wanted
type that was not processed before has been loaded, and the trusted set is exactly what those loads returned -/
theorem loadLoop_ok (w : World) (want : Text) :
    ∀ l p, ∀ ts, (loadLoop w want l p).2 = some ts →
      (∀ e ∈ l, e ∉ p → ∃ t n, cut e = some (t, n) ∧ (t = want → (⟨want, n⟩ : Call) ∈ (loadLoop w want l p).1)) ∧
      (∀ x, x ∈ ts ↔ ∃ c ∈ (loadLoop w want l p).1, ∃ cs, w want c.name = some cs ∧ x ∈ cs) := by
  apply loadLoop_induct w want (fun l p r => ∀ ts, r.2 = some ts →
      (∀ e ∈ l, e ∉ p → ∃ t n, cut e = some (t, n) ∧ (t = want → (⟨want, n⟩ : Call) ∈ r.1)) ∧
      (∀ x, x ∈ ts ↔ ∃ c ∈ r.1, ∃ cs, w want c.name = some cs ∧ x ∈ cs))
  · intro p ts h
    simp only [Option.some.injEq] at h; subst h; simp
  · intro e rest p hp ih ts h
    obtain ⟨h1, h2⟩ := ih ts h
    refine ⟨?_, h2⟩
    intro e' he' hn
    rcases List.mem_cons.1 he' with heq | hmem
    · subst heq; exact absurd (List.contains_iff_mem.1 hp) hn
    · exact h1 e' hmem hn
  · intro e rest p _ _ ts h; simp at h
  · intro e rest p t n _ hc ht ih ts h
    obtain ⟨h1, h2⟩ := ih ts h
    refine ⟨?_, h2⟩
    intro e' he' hn
    rcases List.mem_cons.1 he' with heq | hmem
    · subst heq; exact ⟨t, n, hc, fun h => absurd h.symm ht⟩
    · exact h1 e' hmem hn
  · intro e rest p n _ _ _ ts h; simp at h
  · intro e rest p n cs hp hc hw ih ts h
    cases h2 : (loadLoop w want rest (e :: p)).2 with
    | none => simp [h2] at h
    | some ts' =>
      simp only [h2, Option.map_some, Option.some.injEq] at h
      obtain ⟨h1, h3⟩ := ih ts' h2
      constructor
      · intro e' he' hn
        rcases List.mem_cons.1 he' with heq | hmem
        · subst heq; exact ⟨want, n, hc, fun _ => List.mem_cons_self⟩
        · by_cases hee : e' = e
          · subst hee; exact ⟨want, n, hc, fun _ => List.mem_cons_self⟩
          · obtain ⟨t, n', h4, h5⟩ := h1 e' hmem (by simp [hee, hn])
            exact ⟨t, n', h4, fun ht => List.mem_cons_of_mem _ (h5 ht)⟩
      · intro x
        subst h
        simp only [List.mem_append, List.mem_cons, exists_eq_or_imp, hw, Option.some.injEq, exists_eq_left', h3 x]

/-- conversely: if every (unprocessed) value has a separator and every (unprocessed) listed
store of the wanted type loads, no error is returned -/
theorem loadLoop_ok_if (w : World) (want : Text) :
    ∀ l p, (∀ e ∈ l, e ∉ p → (cut e).isSome = true) →
      (∀ e ∈ l, e ∉ p → ∀ n, cut e = some (want, n) → (w want n).isSome = true) →
      (loadLoop w want l p).2.isSome = true := by
  apply loadLoop_induct w want (fun l p r => (∀ e ∈ l, e ∉ p → (cut e).isSome = true) →
      (∀ e ∈ l, e ∉ p → ∀ n, cut e = some (want, n) → (w want n).isSome = true) → r.2.isSome = true)
  · intro p _ _; simp
  · intro e rest p _ ih h1 h2
    exact ih (fun e' he' => h1 e' (List.mem_cons_of_mem _ he')) (fun e' he' => h2 e' (List.mem_cons_of_mem _ he'))
  · intro e rest p hp hc h1 _
    have := h1 e List.mem_cons_self (by simpa using hp)
    simp [hc] at this
  · intro e rest p t n _ _ _ ih h1 h2
    exact ih (fun e' he' => h1 e' (List.mem_cons_of_mem _ he')) (fun e' he' => h2 e' (List.mem_cons_of_mem _ he'))
  · intro e rest p n hp hc hw _ h2
    have := h2 e List.mem_cons_self (by simpa using hp) n hc
    simp [hw] at this
  · intro e rest p n cs _ _ _ ih h1 h2
    have := ih (fun e' he' hn => h1 e' (List.mem_cons_of_mem _ he') (fun h => hn (List.mem_cons_of_mem _ h)))
      (fun e' he' hn => h2 e' (List.mem_cons_of_mem _ he') (fun h => hn (List.mem_cons_of_mem _ h)))
    cases h3 : (loadLoop w want rest (e :: p)).2 <;> simp [h3] at this ⊢

/-- the loop consults the world only at (want, listed name): worlds that agree there are
indistinguishable -/
theorem loadLoop_congr (w w' : World) (want : Text) (l : List Text)
    (h : ∀ n ∈ wantedNames want l, w want n = w' want n) :
    ∀ p, loadLoop w want l p = loadLoop w' want l p := by
  induction l with
  | nil => intro p; simp [loadLoop]
  | cons e rest ih =>
    intro p
    have hrest : ∀ n ∈ wantedNames want rest, w want n = w' want n :=
      fun n hn => h n ((wantedNames_sublist_cons want e rest).subset hn)
    unfold loadLoop
    by_cases hp : p.contains e = true
    · simp only [hp, if_true]; exact ih hrest p
    · simp only [hp, Bool.false_eq_true, if_false]
      cases hcut : cut e with
      | none => rfl
      | some tn =>
        obtain ⟨t, n⟩ := tn
        by_cases ht : want = t
        · subst ht
          have hn : w want n = w' want n := h n (by rw [wantedNames_cons_wanted want e n rest hcut]; exact List.mem_cons_self)
          simp only [ne_eq, not_true_eq_false, if_false, ← hn, ih hrest (e :: p)]
        · simp only [ne_eq, ht, not_false_eq_true, if_true]; exact ih hrest p

/-! ### `verifyAuthenticity` and the authenticity decision -/

theorem authentic_iff (chain trusted : List CertId) :
    authentic chain trusted = true ↔ ∃ c ∈ chain, c ∈ trusted := by
  unfold authentic
  simp only [Bool.and_eq_true, Bool.not_eq_true', List.any_eq_true, List.contains_iff_mem]
  constructor
  · rintro ⟨_, c, h1, h2⟩; exact ⟨c, h1, h2⟩
  · rintro ⟨c, h1, h2⟩
    refine ⟨?_, c, h1, h2⟩
    cases trusted with
    | nil => cases h2
    | cons a t => rfl

theorem authenticity_calls (w : World) (scheme : Scheme) (chain : List CertId) (l : List Text) :
    (authenticity w scheme chain l).2 = (loadLoop w (requiredType scheme) l []).1 := by
  unfold authenticity loadStores
  rw [storeTypeOf_eq]
  rcases h : loadLoop w (requiredType scheme) l [] with ⟨calls, r⟩
  cases r <;> rfl

theorem confers_iff (w : World) (want : Text) (chain : List CertId) (n : Text) :
    confers w want chain n = true ↔ ∃ cs, w want n = some cs ∧ ∃ c ∈ chain, c ∈ cs := by
  unfold confers
  cases h : w want n with
  | none => simp
  | some cs => simp [List.any_eq_true, List.contains_iff_mem]

/-- **the authenticity decision, exactly**: it passes iff every value of the list has a separator,
every listed store of the required type loads, and one of them holds a certificate of the chain -/
theorem auth_pass_iff (w : World) (scheme : Scheme) (chain : List CertId) (l : List Text) :
    (authenticity w scheme chain l).1 = true ↔
      (∀ e ∈ l, (cut e).isSome = true) ∧
      (∀ n ∈ wantedNames (requiredType scheme) l, (w (requiredType scheme) n).isSome = true) ∧
      (∃ n ∈ wantedNames (requiredType scheme) l, confers w (requiredType scheme) chain n = true) := by
  have hcalls := loadLoop_calls w (requiredType scheme) l []
  have hok := loadLoop_ok w (requiredType scheme) l []
  have hpre := loadLoop_prefix_ok w (requiredType scheme) l []
  have hif := loadLoop_ok_if w (requiredType scheme) l []
  unfold authenticity loadStores
  rw [storeTypeOf_eq]
  generalize requiredType scheme = want at *
  rcases h : loadLoop w want l [] with ⟨calls, r⟩
  rw [h] at hcalls hok hpre hif
  simp only at hcalls hok hpre hif
  -- a wanted name has been loaded when no error was returned
  have loaded : ∀ ts, r = some ts → ∀ n ∈ wantedNames want l, (⟨want, n⟩ : Call) ∈ calls := by
    intro ts hr n hn
    obtain ⟨e, he, hc⟩ := (mem_wantedNames want l n).1 hn
    obtain ⟨t', n', h1, h2⟩ := (hok ts hr).1 e he (by simp)
    rw [hc] at h1
    simp only [Option.some.injEq, Prod.mk.injEq] at h1
    obtain ⟨rfl, rfl⟩ := h1
    exact h2 rfl
  cases r with
  | none =>
    simp only [Bool.false_eq_true, false_iff, not_and, not_exists]
    intro h1 h2
    have := hif (fun e he _ => h1 e he)
      (fun e he _ n hc => h2 n ((mem_wantedNames want l n).2 ⟨e, he, hc⟩))
    simp at this
  | some ts =>
    simp only
    rw [authentic_iff]
    obtain ⟨hsep, hts⟩ := hok ts rfl
    constructor
    · rintro ⟨c, hc, hct⟩
      obtain ⟨call, hcall, cs, hw, hx⟩ := (hts c).1 hct
      obtain ⟨_, hmem, _, hcut⟩ := hcalls call hcall
      refine ⟨?_, ?_, call.name, (mem_wantedNames want l _).2 ⟨_, hmem, hcut⟩, (confers_iff _ _ _ _).2 ⟨cs, hw, c, hc, hx⟩⟩
      · intro e he
        obtain ⟨t, n, h1, _⟩ := hsep e he (by simp)
        simp [h1]
      · intro n hn
        exact hpre.2 rfl _ (loaded ts rfl n hn)
    · rintro ⟨_, _, n, hn, hconf⟩
      obtain ⟨cs, hw, c, hc, hx⟩ := (confers_iff _ _ _ _).1 hconf
      exact ⟨c, hc, (hts c).2 ⟨⟨want, n⟩, loaded ts rfl n hn, cs, hw, hx⟩⟩

/-- a pass has consulted every listed store of the required type -/
theorem auth_pass_loaded_all (w : World) (scheme : Scheme) (chain : List CertId) (l : List Text)
    (h : (authenticity w scheme chain l).1 = true) :
    ∀ n ∈ wantedNames (requiredType scheme) l, (⟨requiredType scheme, n⟩ : Call) ∈ (authenticity w scheme chain l).2 := by
  rw [authenticity_calls]
  have hok := loadLoop_ok w (requiredType scheme) l []
  unfold authenticity loadStores at h
  rw [storeTypeOf_eq] at h
  generalize requiredType scheme = want at *
  rcases hl : loadLoop w want l [] with ⟨calls, r⟩
  rw [hl] at hok h
  cases r with
  | none => simp at h
  | some ts =>
    intro n hn
    obtain ⟨e, he, hc⟩ := (mem_wantedNames want l n).1 hn
    obtain ⟨t', n', h1, h2⟩ := (hok ts rfl).1 e he (by simp)
    rw [hc] at h1
    simp only [Option.some.injEq, Prod.mk.injEq] at h1
    obtain ⟨rfl, rfl⟩ := h1
    exact h2 rfl

/-! ### the applicable statement -/

theorem selectLoop_spec (repo : Text) : ∀ (stmts : List Stmt) (acc : Option Stmt × Option Stmt),
    ((selectLoop repo stmts acc).1 = acc.1 ∨
      ∃ s ∈ stmts, (selectLoop repo stmts acc).1 = some s ∧ wildcardScope ∈ s.scopes) ∧
    ((selectLoop repo stmts acc).2 = acc.2 ∨
      ∃ s ∈ stmts, (selectLoop repo stmts acc).2 = some s ∧ wildcardScope ∉ s.scopes ∧ repo ∈ s.scopes) ∧
    ((selectLoop repo stmts acc).1 = none → ∀ s ∈ stmts, wildcardScope ∉ s.scopes) ∧
    ((selectLoop repo stmts acc).2 = none → ∀ s ∈ stmts, wildcardScope ∈ s.scopes ∨ repo ∉ s.scopes) := by
  intro stmts
  induction stmts with
  | nil => intro acc; simp [selectLoop]
  | cons s rest ih =>
    intro acc
    obtain ⟨wild, exact⟩ := acc
    unfold selectLoop
    by_cases hw : s.scopes.contains wildcardScope = true
    · have hw' := List.contains_iff_mem.1 hw
      simp only [hw, if_true]
      obtain ⟨h1, h2, h3, h4⟩ := ih (some s, exact)
      refine ⟨?_, ?_, ?_, ?_⟩
      · rcases h1 with h | ⟨s', hs', h, hh⟩
        · exact .inr ⟨s, List.mem_cons_self, h, hw'⟩
        · exact .inr ⟨s', List.mem_cons_of_mem _ hs', h, hh⟩
      · rcases h2 with h | ⟨s', hs', h, hh⟩
        · exact .inl h
        · exact .inr ⟨s', List.mem_cons_of_mem _ hs', h, hh⟩
      · intro hn
        rcases h1 with h | ⟨s', hs', h, hh⟩
        · rw [hn] at h; cases h
        · exact absurd (h3 hn s' hs') (fun x => x hh)
      · intro hn s' hs'
        rcases List.mem_cons.1 hs' with rfl | hm
        · exact .inl hw'
        · exact h4 hn s' hm
    · have hw' : wildcardScope ∉ s.scopes := fun h => hw (List.contains_iff_mem.2 h)
      simp only [hw, Bool.false_eq_true, if_false]
      by_cases hr : s.scopes.contains repo = true
      · have hr' := List.contains_iff_mem.1 hr
        simp only [hr, if_true]
        obtain ⟨h1, h2, h3, h4⟩ := ih (wild, some s)
        refine ⟨?_, ?_, ?_, ?_⟩
        · rcases h1 with h | ⟨s', hs', h, hh⟩
          · exact .inl h
          · exact .inr ⟨s', List.mem_cons_of_mem _ hs', h, hh⟩
        · rcases h2 with h | ⟨s', hs', h, hh⟩
          · exact .inr ⟨s, List.mem_cons_self, h, hw', hr'⟩
          · exact .inr ⟨s', List.mem_cons_of_mem _ hs', h, hh⟩
        · intro hn s' hs'
          rcases List.mem_cons.1 hs' with rfl | hm
          · exact hw'
          · exact h3 hn s' hm
        · intro hn
          rcases h2 with h | ⟨s', hs', h, hh⟩
          · rw [hn] at h; cases h
          · rw [hn] at h; cases h
      · have hr' : repo ∉ s.scopes := fun h => hr (List.contains_iff_mem.2 h)
        simp only [hr, Bool.false_eq_true, if_false]
        obtain ⟨h1, h2, h3, h4⟩ := ih (wild, exact)
        refine ⟨?_, ?_, ?_, ?_⟩
        · rcases h1 with h | ⟨s', hs', h, hh⟩
          · exact .inl h
          · exact .inr ⟨s', List.mem_cons_of_mem _ hs', h, hh⟩
        · rcases h2 with h | ⟨s', hs', h, hh⟩
          · exact .inl h
          · exact .inr ⟨s', List.mem_cons_of_mem _ hs', h, hh⟩
        · intro hn s' hs'
          rcases List.mem_cons.1 hs' with rfl | hm
          · exact hw'
          · exact h3 hn s' hm
        · intro hn s' hs'
          rcases List.mem_cons.1 hs' with rfl | hm
          · exact .inr hr'
          · exact h4 hn s' hm

/-- **applicable_sound**: the statement used is one of the document's statements; it names the
repository in its scopes, or it is the wildcard statement and then no statement names the repository -/
theorem applicable_sound (stmts : List Stmt) (repo : Text) (s : Stmt) (h : applicable stmts repo = some s) :
    s ∈ stmts ∧ ((wildcardScope ∉ s.scopes ∧ repo ∈ s.scopes) ∨
      (wildcardScope ∈ s.scopes ∧ ∀ s' ∈ stmts, wildcardScope ∈ s'.scopes ∨ repo ∉ s'.scopes)) := by
  unfold applicable at h
  obtain ⟨h1, h2, h3, h4⟩ := selectLoop_spec repo stmts (none, none)
  rcases hsel : selectLoop repo stmts (none, none) with ⟨wild, exact⟩
  rw [hsel] at h h1 h2 h3 h4
  cases exact with
  | some x =>
    simp only [Option.some.injEq] at h; subst h
    rcases h2 with h | ⟨s', hs', h, hh⟩
    · cases h
    · simp only [Option.some.injEq] at h; subst h; exact ⟨hs', .inl hh⟩
  | none =>
    simp only at h; subst h
    rcases h1 with h | ⟨s', hs', h, hh⟩
    · cases h
    · simp only [Option.some.injEq] at h; subst h
      exact ⟨hs', .inr ⟨hh, h4 rfl⟩⟩

/-- no statement applies exactly when no statement names the repository or the wildcard -/
theorem applicable_none_iff (stmts : List Stmt) (repo : Text) :
    applicable stmts repo = none ↔ ∀ s ∈ stmts, wildcardScope ∉ s.scopes ∧ repo ∉ s.scopes := by
  unfold applicable
  obtain ⟨h1, h2, h3, h4⟩ := selectLoop_spec repo stmts (none, none)
  rcases hsel : selectLoop repo stmts (none, none) with ⟨wild, exact⟩
  rw [hsel] at h1 h2 h3 h4
  constructor
  · intro h
    cases exact with
    | some x => cases h
    | none =>
      simp only at h; subst h
      intro s hs
      have a := h3 rfl s hs
      rcases h4 rfl s hs with b | b
      · exact absurd b a
      · exact ⟨a, b⟩
  · intro h
    cases exact with
    | some x =>
      rcases h2 with hh | ⟨s', hs', _, _, hh⟩
      · cases hh
      · exact absurd hh (h s' hs').2
    | none =>
      cases wild with
      | none => rfl
      | some x =>
        rcases h1 with hh | ⟨s', hs', _, hh⟩
        · cases hh
        · exact absurd hh (h s' hs').1

theorem selected_some (stmts : List Stmt) (repo : Text) (ok : Bool) (s : Stmt)
    (h : selected stmts repo ok = some s) : ok = true ∧ applicable stmts repo = some s := by
  unfold selected at h
  cases ok <;> simp_all

/-! ### the whole property -/

theorem nodupB_iff (l : List Text) : nodupB l = true ↔ l.Nodup := by
  induction l with
  | nil => simp [nodupB]
  | cons a as ih => simp [nodupB, List.nodup_cons, ih, List.contains_iff_mem]

/-- what the call log of the authenticity part looks like, for lists of any length -/
theorem authenticity_log (w : World) (scheme : Scheme) (chain : List CertId) (l : List Text) :
    let calls := (authenticity w scheme chain l).2
    let want := requiredType scheme
    (∀ c ∈ calls, c.ty = want ∧ c.name ∈ wantedNames want l) ∧
    (calls.map (·.name)).Nodup ∧
    (calls.map (·.name)).Sublist (wantedNames want l) ∧
    (∀ n ∈ (calls.map (·.name)).dropLast, (w want n).isSome = true) := by
  simp only
  rw [authenticity_calls]
  refine ⟨?_, loadLoop_nodup _ _ _ _, loadLoop_sublist _ _ _ _, ?_⟩
  · intro c hc
    obtain ⟨h1, h2, _, h4⟩ := loadLoop_calls w (requiredType scheme) l [] c hc
    exact ⟨h1, (mem_wantedNames _ _ _).2 ⟨_, h2, h4⟩⟩
  · intro n hn
    rw [← List.map_dropLast] at hn
    obtain ⟨c, hc, rfl⟩ := List.mem_map.1 hn
    exact (loadLoop_prefix_ok w (requiredType scheme) l []).1 c hc

/-- **C03**: every clause of `Holds` is true of the model's behaviour - for every world, every
policy document, every trust store list of any length, both schemes -/
theorem model_holds (i : Input) : Holds i (run i) = true := by
  unfold Holds clauses run
  cases happ : selected i.statements i.repo i.refOk with
  | none => simp [Clauses.holds]
  | some s =>
    have hiff := auth_pass_iff (lookup i.world) i.scheme i.chain s.trustStores
    have hall := auth_pass_loaded_all (lookup i.world) i.scheme i.chain s.trustStores
    obtain ⟨l1, l2, l3, l4⟩ := authenticity_log (lookup i.world) i.scheme i.chain s.trustStores
    simp only [Clauses.holds, List.all_cons, List.all_nil, Bool.and_true, Bool.and_eq_true]
    generalize authenticity (lookup i.world) i.scheme i.chain s.trustStores = r at *
    obtain ⟨pass, calls⟩ := r
    simp only at hiff hall l1 l2 l3 l4
    have hlog : (calls.all fun c => c.ty == requiredType i.scheme &&
        (wantedNames (requiredType i.scheme) s.trustStores).contains c.name) = true := by
      rw [List.all_eq_true]
      intro c hc
      obtain ⟨h1, h2⟩ := l1 c hc
      simp [h1, List.contains_iff_mem.2 h2, h2]
    have hnodup := (nodupB_iff _).2 l2
    have hsub := List.isSublist_iff_sublist.2 l3
    have hpre : ((calls.map (·.name)).dropLast.all (loadable (lookup i.world) (requiredType i.scheme))) = true := by
      rw [List.all_eq_true]; intro n hn; exact l4 n hn
    cases pass with
    | false =>
      have hno := (not_congr hiff).1 (by simp)
      refine ⟨by simp, by simp, by simp, by simp, ?_, by simp, hlog, hnodup, hsub, hpre, by simp, ?_⟩
      · simp only [Bool.false_and, Bool.false_eq_true, if_false, Bool.or_eq_true, Bool.not_eq_true', beq_iff_eq,
          reduceCtorEq, or_false]
        refine .inl (Bool.eq_false_iff.2 ?_)
        intro hc
        simp only [Bool.and_eq_true, List.all_eq_true, List.any_eq_true] at hc
        exact hno ⟨hc.1.1.1, fun n hn => hc.1.1.2 n hn, hc.1.2⟩
      · cases hid : i.identityOk <;> cases hlg : s.logged <;> simp
    | true =>
      obtain ⟨h1, h2, h3⟩ := hiff.1 rfl
      have h1' : (s.trustStores.all fun e => (cut e).isSome) = true := List.all_eq_true.2 h1
      have h2' : ((wantedNames (requiredType i.scheme) s.trustStores).all (loadable (lookup i.world) (requiredType i.scheme))) = true :=
        List.all_eq_true.2 h2
      have h3' : ((wantedNames (requiredType i.scheme) s.trustStores).any (confers (lookup i.world) (requiredType i.scheme) i.chain)) = true :=
        List.any_eq_true.2 h3
      cases hid : i.identityOk with
      | false =>
        refine ⟨by simp, by simp, by simp, by simp, by simp, by simp, hlog, hnodup, hsub, hpre, by simp, ?_⟩
        cases hlg : s.logged <;> simp
      | true =>
        refine ⟨by simp, by simp [h3'], by simp [h2'], by simp [h1'], by simp, by simp, hlog, hnodup, hsub, hpre, ?_, by simp⟩
        simp only [and_self, if_true, bne_self_eq_false, Bool.false_or]
        rw [List.all_eq_true]
        intro n hn
        have := hall rfl n hn
        exact List.contains_iff_mem.2 (List.mem_map.2 ⟨_, this, rfl⟩)

/-! ### the readable theorems (DESIGN.md section 5, C03)

`w` is any world (function from (type, name) to a load result), `l` the `trustStores` list of the
applicable statement - of any length, with duplicates, other types, malformed values. -/

theorem mem_wanted_entry (scheme : Scheme) (l : List Text) (n : Text) :
    n ∈ wantedNames (requiredType scheme) l ↔ entry (requiredType scheme) n ∈ l :=
  mem_wantedNames_entry _ (requiredType_facts scheme).1 l n

/-- **auth_pass_sound**: authenticity passes only if some certificate of the chain is held in a
store `t:n` that the list names, with `t` the type the scheme requires, and every listed store
of that type loaded -/
theorem auth_pass_sound (w : World) (scheme : Scheme) (chain : List CertId) (l : List Text)
    (h : (authenticity w scheme chain l).1 = true) :
    (∃ c ∈ chain, ∃ n cs, entry (requiredType scheme) n ∈ l ∧
        w (requiredType scheme) n = some cs ∧ c ∈ cs) ∧
    (∀ n, entry (requiredType scheme) n ∈ l → ∃ cs, w (requiredType scheme) n = some cs) ∧
    (∀ e ∈ l, Facts.c03Separator ∈ e) := by
  obtain ⟨h1, h2, n, hn, hc⟩ := (auth_pass_iff w scheme chain l).1 h
  obtain ⟨cs, hw, c, hcc, hx⟩ := (confers_iff _ _ _ _).1 hc
  refine ⟨⟨c, hcc, n, cs, (mem_wanted_entry scheme l n).1 hn, hw, hx⟩, ?_, ?_⟩
  · intro n' hn'
    have := h2 n' ((mem_wanted_entry scheme l n').2 hn')
    cases hw' : w (requiredType scheme) n' with
    | none => simp [hw'] at this
    | some cs' => exact ⟨cs', rfl⟩
  · intro e he
    have := h1 e he
    by_cases hs : Facts.c03Separator ∈ e
    · exact hs
    · rw [(cut_none_iff e).2 hs] at this; cases this

/-- **auth_pass_complete** (converse): if every value has a separator (as in every validated
policy), every listed store of the required type loads and one of them holds a chain
certificate, authenticity passes -/
theorem auth_pass_complete (w : World) (scheme : Scheme) (chain : List CertId) (l : List Text)
    (hsep : ∀ e ∈ l, Facts.c03Separator ∈ e)
    (hload : ∀ n, entry (requiredType scheme) n ∈ l → ∃ cs, w (requiredType scheme) n = some cs)
    (htrust : ∃ c ∈ chain, ∃ n cs, entry (requiredType scheme) n ∈ l ∧
        w (requiredType scheme) n = some cs ∧ c ∈ cs) :
    (authenticity w scheme chain l).1 = true := by
  apply (auth_pass_iff w scheme chain l).2
  refine ⟨?_, ?_, ?_⟩
  · intro e he
    cases hc : cut e with
    | none => exact absurd (hsep e he) ((cut_none_iff e).1 hc)
    | some x => rfl
  · intro n hn
    obtain ⟨cs, h⟩ := hload n ((mem_wanted_entry scheme l n).1 hn)
    simp [h]
  · obtain ⟨c, hc, n, cs, h1, h2, h3⟩ := htrust
    exact ⟨n, (mem_wanted_entry scheme l n).2 h1, (confers_iff _ _ _ _).2 ⟨cs, h2, c, hc, h3⟩⟩

/-- **other_types_never_loaded**: the trust store sees only calls `(t, n)` with `t` the type the
scheme requires and `t:n` in the list - never `tsa`, never the other trust-anchor type, never an
unlisted name - each store at most once, in list order -/
theorem other_types_never_loaded (w : World) (scheme : Scheme) (chain : List CertId) (l : List Text) :
    (∀ c ∈ (authenticity w scheme chain l).2,
        c.ty = requiredType scheme ∧ c.ty ≠ Facts.c03TypeTSA ∧ entry (requiredType scheme) c.name ∈ l) ∧
    ((authenticity w scheme chain l).2.map (·.name)).Nodup ∧
    ((authenticity w scheme chain l).2.map (·.name)).Sublist (wantedNames (requiredType scheme) l) := by
  obtain ⟨h1, h2, h3, _⟩ := authenticity_log w scheme chain l
  refine ⟨?_, h2, h3⟩
  intro c hc
  obtain ⟨a, b⟩ := h1 c hc
  exact ⟨a, by rw [a]; exact (requiredType_facts scheme).2.1, (mem_wanted_entry scheme l _).1 b⟩

/-- **unlisted_irrelevant**: two worlds that agree on the listed stores of the required type
give the same result and the same call log - whatever they hold in stores of another type
(tsa included), in stores the list does not name, or in stores named only with another type -/
theorem unlisted_irrelevant (w w' : World) (scheme : Scheme) (chain : List CertId) (l : List Text)
    (h : ∀ n, entry (requiredType scheme) n ∈ l → w (requiredType scheme) n = w' (requiredType scheme) n) :
    authenticity w scheme chain l = authenticity w' scheme chain l := by
  unfold authenticity loadStores
  rw [storeTypeOf_eq]
  rw [loadLoop_congr w w' (requiredType scheme) l (fun n hn => h n ((mem_wanted_entry scheme l n).1 hn)) []]

/-- **load_error_fails**: a listed store of the required type that cannot be loaded makes
authenticity fail; the failed load is the last call (no later store is loaded) -/
theorem load_error_fails (w : World) (scheme : Scheme) (chain : List CertId) (l : List Text) (n : Text)
    (hl : entry (requiredType scheme) n ∈ l) (hw : w (requiredType scheme) n = none) :
    (authenticity w scheme chain l).1 = false ∧
    (∀ c ∈ (authenticity w scheme chain l).2, w (requiredType scheme) c.name = none →
        (authenticity w scheme chain l).2.getLast? = some c) ∧
    ((∀ e ∈ l, Facts.c03Separator ∈ e) →
        ∃ c, (authenticity w scheme chain l).2.getLast? = some c ∧ w (requiredType scheme) c.name = none) := by
  have hfail : (authenticity w scheme chain l).1 = false := by
    apply Bool.eq_false_iff.2
    intro hp
    obtain ⟨cs, h⟩ := (auth_pass_sound w scheme chain l hp).2.1 n hl
    rw [hw] at h; cases h
  refine ⟨hfail, ?_, ?_⟩
  · intro c hc hnone
    have hpre := (loadLoop_prefix_ok w (requiredType scheme) l []).1
    rw [authenticity_calls] at hc ⊢
    generalize (loadLoop w (requiredType scheme) l []).1 = calls at *
    have hne : calls ≠ [] := fun h => by rw [h] at hc; cases hc
    rw [List.getLast?_eq_some_getLast hne]
    have hsplit := List.dropLast_concat_getLast hne
    rw [← hsplit] at hc
    rcases List.mem_append.1 hc with h | h
    · have := hpre c h; rw [hnone] at this; cases this
    · simp only [List.mem_singleton] at h; rw [h]
  · intro hsep
    have herr := loadLoop_error w (requiredType scheme) l []
    have hif := loadLoop_ok_if w (requiredType scheme) l []
    rw [authenticity_calls]
    unfold authenticity loadStores at hfail
    rw [storeTypeOf_eq] at hfail
    rcases hr : loadLoop w (requiredType scheme) l [] with ⟨calls, r⟩
    rw [hr] at herr hif hfail
    cases r with
    | some ts =>
      -- no error although a listed store does not load: impossible
      have hok := loadLoop_ok w (requiredType scheme) l [] ts (by rw [hr])
      have hpre := (loadLoop_prefix_ok w (requiredType scheme) l []).2 (by rw [hr]; rfl)
      rw [hr] at hok hpre
      obtain ⟨t', n', h1, h2⟩ := hok.1 _ hl (by simp)
      rw [(cut_some_iff _ _ _).2 ⟨rfl, (requiredType_facts scheme).1⟩] at h1
      simp only [Option.some.injEq, Prod.mk.injEq] at h1
      obtain ⟨rfl, rfl⟩ := h1
      have := hpre _ (h2 rfl)
      rw [hw] at this; cases this
    | none =>
      rcases herr rfl with ⟨e, he, _, hc⟩ | h
      · exact absurd (hsep e he) ((cut_none_iff e).1 hc)
      · exact h

/-! ### the same, for the whole scenario -/

theorem lookup_some (ws : List Store) (t n : Text) (cs : List CertId) (h : lookup ws t n = some cs) :
    ∃ st ∈ ws, st.ty = t ∧ st.name = n ∧ st.ok = true ∧ st.certs = cs := by
  induction ws with
  | nil => simp [lookup] at h
  | cons st rest ih =>
    unfold lookup at h
    by_cases hk : st.ty = t ∧ st.name = n
    · simp only [hk, and_self, if_true] at h
      by_cases hok : st.ok = true
      · simp only [hok, if_true, Option.some.injEq] at h
        exact ⟨st, List.mem_cons_self, hk.1, hk.2, hok, h⟩
      · simp [hok] at h
    · simp only [hk, if_false] at h
      obtain ⟨st', h1, h2⟩ := ih h
      exact ⟨st', List.mem_cons_of_mem _ h1, h2⟩

/-- **run_pass_sound**: in the whole scenario, an authenticity pass means: a statement of the
document applies; some certificate of the chain is held by a store of the world whose type is the
one the scheme requires and whose `type:name` is in THAT statement's list; and every store of that
type the statement lists loaded -/
theorem run_pass_sound (i : Input) (h : (run i).result = .pass) :
    i.refOk = true ∧ ∃ s, applicable i.statements i.repo = some s ∧ s ∈ i.statements ∧
      (∃ c ∈ i.chain, ∃ st ∈ i.world, st.ty = requiredType i.scheme ∧ st.ok = true ∧ c ∈ st.certs ∧
          entry st.ty st.name ∈ s.trustStores) ∧
      (∀ n, entry (requiredType i.scheme) n ∈ s.trustStores →
          ∃ cs, lookup i.world (requiredType i.scheme) n = some cs) := by
  unfold run at h
  cases happ : selected i.statements i.repo i.refOk with
  | none => simp [happ] at h
  | some s =>
    simp only [happ] at h
    have hp : (authenticity (lookup i.world) i.scheme i.chain s.trustStores).1 = true := by
      cases hb : (authenticity (lookup i.world) i.scheme i.chain s.trustStores).1 <;> simp [hb] at h ⊢
    obtain ⟨⟨c, hc, n, cs, h1, h2, h3⟩, h4, _⟩ := auth_pass_sound _ _ _ _ hp
    obtain ⟨st, hst, a, b, d, e⟩ := lookup_some _ _ _ _ h2
    obtain ⟨hok, happ'⟩ := selected_some _ _ _ _ happ
    refine ⟨hok, s, happ', (applicable_sound _ _ _ happ').1, ⟨c, hc, st, hst, a, d, by rw [e]; exact h3, by rw [a, b]; exact h1⟩, h4⟩

/-- **run_refused_reference**: a reference that is refused (not `<scope-format path>@<digest>`)
runs under no statement: nothing is loaded, nothing is accepted - in particular it does not fall
under the wildcard statement -/
theorem run_refused_reference (i : Input) (h : i.refOk = false) :
    run i = { result := .noPolicy, calls := [], accepted := false } := by
  unfold run selected; simp [h]

/-- **exact_spelling**: the statement applied names the artifact path exactly as spelled, or is the
wildcard statement while NO statement names that spelling: another spelling of "the same" registry
(an alias, another letter case, a default port) in a statement's scopes plays no role -/
theorem run_statement_by_exact_spelling (i : Input) (s : Stmt)
    (h : selected i.statements i.repo i.refOk = some s) :
    (i.repo ∈ s.scopes ∧ wildcardScope ∉ s.scopes) ∨
    (wildcardScope ∈ s.scopes ∧ ∀ s' ∈ i.statements, i.repo ∈ s'.scopes → wildcardScope ∈ s'.scopes) := by
  obtain ⟨_, happ⟩ := selected_some _ _ _ _ h
  rcases (applicable_sound _ _ _ happ).2 with ⟨a, b⟩ | ⟨a, b⟩
  · exact .inl ⟨b, a⟩
  · refine .inr ⟨a, fun s' hs' hr => ?_⟩
    rcases b s' hs' with x | x
    · exact x
    · exact absurd hr x

/-- **run_accepted_only_if**: the signature is accepted only if the authenticity result passed or
the applicable statement merely logs authenticity (level audit, or an override) -/
theorem run_accepted_only_if (i : Input) (h : (run i).accepted = true) :
    (run i).result = .pass ∨ ∃ s, selected i.statements i.repo i.refOk = some s ∧ s.logged = true := by
  unfold run at h ⊢
  cases happ : selected i.statements i.repo i.refOk with
  | none => simp [happ] at h
  | some s =>
    simp only [happ] at h ⊢
    cases hlg : s.logged
    · simp only [hlg, Bool.or_false, Bool.and_eq_true] at h
      simp [h.1, h.2]
    · exact .inr ⟨s, rfl, hlg⟩

/-- **run_pass_needs_both**: the authenticity result passes exactly when the trust store check
passes AND the identity verdict is good: a good identity verdict (native, or a verification
plugin answering success) never repairs a trust store failure, whatever the action -/
theorem run_pass_iff (i : Input) :
    (run i).result = .pass ↔ ∃ s, selected i.statements i.repo i.refOk = some s ∧
      (authenticity (lookup i.world) i.scheme i.chain s.trustStores).1 = true ∧ i.identityOk = true := by
  unfold run
  cases happ : selected i.statements i.repo i.refOk with
  | none => simp
  | some s =>
    cases hb : (authenticity (lookup i.world) i.scheme i.chain s.trustStores).1 <;>
      cases hid : i.identityOk <;> simp [hb, hid]

/-- the identity verdict, the plugin and the action never change which stores are consulted -/
theorem run_calls_independent_of_identity (i : Input) (b : Bool) (p : String) :
    (run { i with identityOk := b, plugin := p }).calls = (run i).calls := by
  unfold run
  cases happ : selected i.statements i.repo i.refOk <;> simp [happ]

/-- **run_unlisted_irrelevant**: changing the world anywhere but at the stores `(required type, n)`
with `type:n` listed by the applicable statement - that is: in stores of another type, in stores
no statement lists, in stores only OTHER statements list - changes neither result nor call log -/
theorem run_unlisted_irrelevant (i : Input) (world' : List Store) (s : Stmt)
    (happ : selected i.statements i.repo i.refOk = some s)
    (h : ∀ n, entry (requiredType i.scheme) n ∈ s.trustStores →
      lookup i.world (requiredType i.scheme) n = lookup world' (requiredType i.scheme) n) :
    run { i with world := world' } = run i := by
  unfold run
  simp only [happ]
  rw [unlisted_irrelevant (lookup world') (lookup i.world) i.scheme i.chain s.trustStores (fun n hn => (h n hn).symm)]

/-- **run_other_statements_irrelevant**: two documents whose applicable statements carry the same
list and level behave alike, whatever their other statements list -/
theorem run_other_statements_irrelevant (i : Input) (stmts' : List Stmt) (s s' : Stmt)
    (happ : selected i.statements i.repo i.refOk = some s) (happ' : selected stmts' i.repo i.refOk = some s')
    (hl : s'.trustStores = s.trustStores) (hv : s'.level = s.level) (ha : s'.authLog = s.authLog) :
    run { i with statements := stmts' } = run i := by
  unfold run
  simp only [happ, happ', hl, Stmt.logged, hv, ha]

/-- **run_history_irrelevant**: the prediction for a verification does not depend on what the
same verifier instance verified before (nor on the annotations): the model is stateless, and
the correspondence run holds the implementation to it - a verifier that remembers trust
certificates, results or store contents across calls disagrees with this prediction -/
theorem run_history_irrelevant (i : Input) (h : List String) (b f k : String) :
    run { i with history := h, backend := b, format := f, kind := k } = run i := rfl

/-- **run_sameKey_irrelevant**: which certificates share a public key (or a name) with which plays
no role - a store confers trust only through a certificate IDENTICAL to one of the chain
(`auth_pass_sound`: `c ∈ chain` and `c ∈ cs` for the same `c`) -/
theorem run_sameKey_irrelevant (i : Input) (g : List (List CertId)) :
    run { i with sameKey := g } = run i := rfl

/-- **run_copyEdits_irrelevant**: what callers wrote into statements that the verifier's documents
handed out (`GetApplicableTrustPolicy` / `GetGlobalTrustPolicy`: deep copies) plays no role - the
verification runs under the statement of the DOCUMENT. The correspondence run holds the
implementation to this prediction after such edits: an accessor that hands out the loop variable,
a pointer into the document, or a clone that shares a slice / the override map disagrees, and its
observation (a store the document never listed is loaded, trust comes from it, another statement
or none applies, the action changed) violates the clauses below, which read `statements` only. -/
theorem run_copyEdits_irrelevant (i : Input) (e : List CopyEdit) :
    run { i with copyEdits := e } = run i := rfl

/-- the property does not read the edits either: no edit of a copy can excuse an observation -/
theorem holds_copyEdits_irrelevant (i : Input) (e : List CopyEdit) (o : Obs) :
    Holds { i with copyEdits := e } o = Holds i o := rfl

/-! What a LEAK would look like: the statement list a document would read if the edits of the
copies had been made to the document itself (fields the model knows: `trustStores`, `scopes`).
Used to show that the clauses convict such an implementation (examples below) and that, with no
edits, nothing is leaked. -/

def modifyAt (f : Stmt → Stmt) : Nat → List Stmt → List Stmt
  | _, [] => []
  | 0, s :: r => f s :: r
  | n + 1, s :: r => s :: modifyAt f n r

def leakOne (kind : String) (stmts : List Stmt) (e : CopyEdit) : List Stmt :=
  if e.doc.toList = kind.toList then
    if e.field.toList = "trustStores".toList then modifyAt (fun s => { s with trustStores := e.values }) e.stmt stmts
    else if e.field.toList = "registryScopes".toList then modifyAt (fun s => { s with scopes := e.values }) e.stmt stmts
    else stmts
  else stmts

/-- the input as a leaking implementation would see it -/
def leaked (i : Input) : Input :=
  { i with statements := i.copyEdits.foldl (leakOne i.kind) i.statements }

theorem leaked_no_edits (i : Input) (h : i.copyEdits = []) : leaked i = i := by
  cases i; simp only [leaked] at *; subst h; rfl

/-- edits of copies of the OTHER document's statements could not even leak into this one -/
theorem leaked_other_document (i : Input) (h : ∀ e ∈ i.copyEdits, e.doc.toList ≠ i.kind.toList) :
    leaked i = i := by
  unfold leaked
  have : ∀ (es : List CopyEdit) (st : List Stmt), (∀ e ∈ es, e.doc.toList ≠ i.kind.toList) →
      es.foldl (leakOne i.kind) st = st := by
    intro es
    induction es with
    | nil => intro st _; rfl
    | cons e es ih =>
      intro st hh
      have he : leakOne i.kind st e = st := by
        unfold leakOne; rw [if_neg (hh e (List.mem_cons_self ..))]
      rw [List.foldl_cons, he]
      exact ih st (fun e' he' => hh e' (List.mem_cons_of_mem _ he'))
  rw [this i.copyEdits i.statements h]

/-- hence any two verifications that differ only in their history are predicted alike -/
theorem run_eq_of_same_call (i j : Input) (hs : i.scheme = j.scheme) (hc : i.chain = j.chain)
    (hst : i.statements = j.statements) (hr : i.repo = j.repo) (hw : i.world = j.world)
    (hi : i.identityOk = j.identityOk) (hk : i.refOk = j.refOk) :
    run i = run j := by
  unfold run; rw [hs, hc, hst, hr, hw, hi, hk]

/-! ### non-vacuity -/

section examples

def exWorld : List Store :=
  [ ⟨"ca".toList, "alpha".toList, true, [2]⟩,                  -- the signer's root, as a CA store
    ⟨"signingAuthority".toList, "alpha".toList, true, [2]⟩,    -- same name under another type
    ⟨"tsa".toList, "alpha".toList, true, [2]⟩,
    ⟨"ca".toList, "beta".toList, false, []⟩,                   -- a store that does not load
    ⟨"ca".toList, "gamma".toList, true, [6]⟩ ]                 -- an unrelated certificate

def exInput (scheme : Scheme) (l : List String) : Input :=
  { scheme := scheme, chain := [0, 1, 2], repo := "reg.example/a".toList, world := exWorld,
    statements := [ ⟨["reg.example/a".toList], l.map String.toList, .strict, false⟩,
                    ⟨["*".toList], ["ca:alpha".toList, "signingAuthority:alpha".toList], .strict, false⟩ ],
    refOk := true, sameKey := [], identityOk := true, plugin := "none", backend := "mem", format := "jws", kind := "oci",
    copyEdits := [], history := [] }

/-- trusted: the root is in the listed ca store -/
example : run (exInput .x509 ["ca:gamma", "tsa:alpha", "ca:alpha", "ca:gamma"]) =
    { result := .pass, calls := [⟨"ca".toList, "gamma".toList⟩, ⟨"ca".toList, "alpha".toList⟩], accepted := true } := by decide
/-- the same certificate under the same name but the wrong types confers nothing, and is never loaded -/
example : run (exInput .x509 ["signingAuthority:alpha", "tsa:alpha", "ca:gamma"]) =
    { result := .fail, calls := [⟨"ca".toList, "gamma".toList⟩], accepted := false } := by decide
/-- the signing authority scheme reads the signingAuthority store of that name -/
example : run (exInput .signingAuthority ["ca:alpha", "signingAuthority:alpha"]) =
    { result := .pass, calls := [⟨"signingAuthority".toList, "alpha".toList⟩], accepted := true } := by decide
/-- a store listed only by the other (wildcard) statement confers nothing -/
example : (run (exInput .x509 ["ca:gamma"])).result = .fail := by decide
/-- a listed store that does not load fails the validation although a later store would confer trust -/
example : run (exInput .x509 ["ca:beta", "ca:alpha"]) =
    { result := .fail, calls := [⟨"ca".toList, "beta".toList⟩], accepted := false } := by decide
/-- `Holds` accepts the model's observation ... -/
example : Holds (exInput .x509 ["signingAuthority:alpha", "ca:gamma"])
    { result := .fail, calls := [⟨"ca".toList, "gamma".toList⟩], accepted := false } = true := by decide
/-- ... and refuses wrong ones: trust from a store of the wrong type, -/
example : Holds (exInput .x509 ["signingAuthority:alpha", "ca:gamma"])
    { result := .pass, calls := [⟨"ca".toList, "gamma".toList⟩], accepted := true } = false := by decide
/-- a load of a store of another type, -/
example : Holds (exInput .x509 ["signingAuthority:alpha", "ca:gamma"])
    { result := .fail, calls := [⟨"signingAuthority".toList, "alpha".toList⟩, ⟨"ca".toList, "gamma".toList⟩], accepted := false } = false := by decide
/-- a failed load that was ignored, -/
example : Holds (exInput .x509 ["ca:beta", "ca:alpha"])
    { result := .pass, calls := [⟨"ca".toList, "beta".toList⟩, ⟨"ca".toList, "alpha".toList⟩], accepted := true } = false := by decide
/-- and acceptance without authenticity under an enforcing level -/
example : Holds (exInput .x509 ["ca:gamma"])
    { result := .fail, calls := [⟨"ca".toList, "gamma".toList⟩], accepted := true } = false := by decide

/-- a plugin's good identity verdict under a logging statement does not repair a trust store failure:
the result stays `fail` (accepted, because only logged), and `Holds` refuses a `pass` there -/
example : run { exInput .x509 ["tsa:alpha", "ca:gamma"] with
      statements := [⟨["reg.example/a".toList], ["tsa:alpha".toList, "ca:gamma".toList], .permissive, true⟩],
      plugin := "identity-success" } =
    { result := .fail, calls := [⟨"ca".toList, "gamma".toList⟩], accepted := true } := by decide
example : Holds { exInput .x509 ["tsa:alpha", "ca:gamma"] with
      statements := [⟨["reg.example/a".toList], ["tsa:alpha".toList, "ca:gamma".toList], .permissive, true⟩],
      plugin := "identity-success" }
    { result := .pass, calls := [⟨"ca".toList, "gamma".toList⟩], accepted := true } = false := by decide
/-- a value whose name part is a path names no store: nothing it could resolve to counts -/
example : (run (exInput .x509 ["ca:../tsa/alpha", "ca:alpha"])).result = .fail := by decide

/-- a statement scoped to an ENCLOSING path (reg.example/ns for reg.example/ns/app) does not apply:
the wildcard statement does, with its stores - and without a wildcard statement none does -/
example : (run { exInput .x509 [] with
      repo := "reg.example/ns/app".toList
      statements := [⟨["reg.example/ns".toList], ["ca:alpha".toList], .strict, false⟩,
                     ⟨["*".toList], ["ca:gamma".toList], .strict, false⟩] }) =
    { result := .fail, calls := [⟨"ca".toList, "gamma".toList⟩], accepted := false } := by decide
example : (run { exInput .x509 [] with
      repo := "reg.example/ns/app".toList
      statements := [⟨["reg.example/ns".toList], ["ca:alpha".toList], .strict, false⟩] }).result = .noPolicy := by decide

/-- a caller edited ITS copy of the applicable statement (in place: every element of trustStores
became `ca:alpha`, the store that holds the signer's root): the prediction is that of the document,
which lists `ca:gamma` only - fail, `ca:gamma` loaded - -/
def exEdited : Input :=
  { exInput .x509 ["ca:gamma"] with
    copyEdits := [⟨"oci", "GetApplicableTrustPolicy", 0, "trustStores", "element", ["ca:alpha".toList]⟩] }
example : run exEdited = { result := .fail, calls := [⟨"ca".toList, "gamma".toList⟩], accepted := false } := by decide
/-- ... a verifier whose document took the edit passes with a load of `ca:alpha`, -/
example : run (leaked exEdited) = { result := .pass, calls := [⟨"ca".toList, "alpha".toList⟩], accepted := true } := by decide
/-- ... and the property (which reads the document's list) convicts exactly that observation: trust from,
and a load of, a store the applicable statement does not list -/
example : Holds exEdited (run (leaked exEdited)) = false := by decide
example : ((clauses exEdited (run (leaked exEdited))).filter (fun c => !c.2)).map (·.1) =
    ["pass_only_if_chain_certificate_in_listed_store_of_required_type",
     "only_listed_stores_of_required_type_are_loaded", "loads_follow_list_order",
     "pass_has_loaded_every_listed_store_of_required_type"] := by decide
/-- an edited scope of the copy: a leak makes the statement inapplicable (no policy) - convicted as well -/
example : Holds { exInput .x509 ["ca:alpha"] with
      statements := [⟨["reg.example/a".toList], ["ca:alpha".toList], .strict, false⟩],
      copyEdits := [⟨"oci", "GetApplicableTrustPolicy", 0, "registryScopes", "element", ["reg.example/z".toList]⟩] }
    (run (leaked { exInput .x509 ["ca:alpha"] with
      statements := [⟨["reg.example/a".toList], ["ca:alpha".toList], .strict, false⟩],
      copyEdits := [⟨"oci", "GetApplicableTrustPolicy", 0, "registryScopes", "element", ["reg.example/z".toList]⟩] })) = false := by decide
/-- an edit of a copy taken from the blob document cannot concern a Verify against the OCI document -/
example : leaked { exEdited with copyEdits := [⟨"blob", "GetGlobalTrustPolicy", 0, "trustStores", "assign", ["ca:alpha".toList]⟩] } =
    { exEdited with copyEdits := [⟨"blob", "GetGlobalTrustPolicy", 0, "trustStores", "assign", ["ca:alpha".toList]⟩] } := by
  apply leaked_other_document; decide

end examples

/-TIE-BEGIN-/
/-! ### tie to the translated source -/

namespace Tie
open NotationModel.Src NotationModel.Src.verifier

abbrev Cert := x509.Certificate

/-- the world an oracle `GetCertificates` stands for: a load succeeds iff the error is nil -/
def worldOf (ctx : context.Context) (st : truststore.X509TrustStore) : Text → Text → Option (List Cert) :=
  fun t n => match st.GetCertificates ctx (String.ofList t) (String.ofList n) with
    | (cs, none) => some cs
    | (_, some _) => none

/-- the constants of the translated source are the extracted facts -/
theorem consts_agree :
    truststore.TypeCA.toList = Facts.c03TypeCA ∧ truststore.TypeSigningAuthority.toList = Facts.c03TypeSigningAuthority ∧
    truststore.TypeTSA.toList = Facts.c03TypeTSA ∧ truststore.Types.map String.toList = Facts.c03Types ∧
    Char.ofNat 58 = Facts.c03Separator ∧
    signature.SigningSchemeX509 ≠ signature.SigningSchemeX509SigningAuthority := by decide

/-- `GoLite.cut` (on strings) and the model's `cut` (on character lists) -/
theorem cut_eq_takeWhile (cs : List Char) :
    cut cs = if cs.contains Facts.c03Separator then
      some (cs.takeWhile (· != Facts.c03Separator), (cs.dropWhile (· != Facts.c03Separator)).drop 1) else none := by
  induction cs with
  | nil => simp [cut]
  | cons c rest ih =>
    unfold cut
    by_cases hc : c = Facts.c03Separator
    · subst hc; simp
    · have h1 : (c != Facts.c03Separator) = true := by simpa using hc
      have h2 : (Facts.c03Separator == c) = false := by
        cases h : (Facts.c03Separator == c) with
        | false => rfl
        | true => exact absurd (by simpa using h : Facts.c03Separator = c).symm hc
      simp only [hc, if_false, ih, List.contains_cons, h2, Bool.false_or, List.takeWhile_cons, h1, if_true,
        List.dropWhile_cons]
      by_cases hr : Facts.c03Separator ∈ rest <;> simp [hr]

theorem cut_src (s : String) :
    cut s.toList = if (GoLite.cut s (Char.ofNat 58)).2.2 = true then
      some ((GoLite.cut s (Char.ofNat 58)).1.toList, (GoLite.cut s (Char.ofNat 58)).2.1.toList) else none := by
  rw [cut_eq_takeWhile, consts_agree.2.2.2.2.1]
  unfold GoLite.cut
  by_cases h : Facts.c03Separator ∈ s.toList <;> simp [h, String.toList_ofList]

/-- one round of the translated loop, seen through the abstraction (processed values, certificates so far) -/
def srcStep (early : Bool) (ctx : context.Context) (ty : String) (st : truststore.X509TrustStore)
    (t : List String × List Cert) (e : String) : Except (GoLite.Err × List String) (List String × List Cert) :=
  -- `early`: the value is put into the processed set before the load (harmless: a failing load
  -- returns at once); the error carries the processed set the loop stopped with, which nobody reads
  if t.1.contains e then .ok t
  else if (GoLite.cut e (Char.ofNat 58)).2.2 = false then .error (GoLite.errT "truststore.TrustStoreError" "", t.1)
  else if ty ≠ (GoLite.cut e (Char.ofNat 58)).1 then .ok t
  else match (st.GetCertificates ctx ty (GoLite.cut e (Char.ofNat 58)).2.1).2 with
    | some err => .error (err, if early then e :: t.1 else t.1)
    | none => .ok (e :: t.1, t.2 ++ (st.GetCertificates ctx ty (GoLite.cut e (Char.ofNat 58)).2.1).1)

theorem contains_map_toList (p : List String) (e : String) :
    (p.map String.toList).contains e.toList = p.contains e := by
  induction p with
  | nil => rfl
  | cons a p ih =>
    simp only [List.map_cons, List.contains_cons, ih]
    congr 1
    cases h : (e == a) with
    | true => have : e = a := by simpa using h
              simp [this]
    | false =>
      have : e ≠ a := by simpa using h
      have h' : ¬ e.toList = a.toList := fun x => this (String.toList_inj.1 x)
      simpa using h'

/-- the abstract fold of the source loop is the model's loop (which accumulates from the back) -/
theorem foldE_loadLoop (early : Bool) (ctx : context.Context) (ty : String) (st : truststore.X509TrustStore) (l : List String) :
    ∀ (p : List String) (acc : List Cert),
    (match GoLite.foldE (srcStep early ctx ty st) l (p, acc) with
      | .ok t => some t.2
      | .error _ => none) =
    (loadLoop (worldOf ctx st) ty.toList (l.map String.toList) (p.map String.toList)).2.map (acc ++ ·) := by
  induction l with
  | nil => intro p acc; simp [GoLite.foldE, loadLoop]
  | cons e rest ih =>
    intro p acc
    simp only [List.map_cons, GoLite.foldE]
    generalize hq : srcStep early ctx ty st (p, acc) e = q
    unfold srcStep at hq
    unfold loadLoop
    rw [contains_map_toList, cut_src]
    by_cases hp : p.contains e = true
    · simp only [hp, if_true] at hq ⊢
      subst hq; exact ih p acc
    · simp only [hp, Bool.false_eq_true, if_false] at hq ⊢
      cases hf : (GoLite.cut e (Char.ofNat 58)).2.2 with
      | false =>
        simp only [hf, if_true] at hq
        subst hq; simp
      | true =>
        simp only [hf, Bool.true_eq_false, if_false, if_true] at hq ⊢
        by_cases ht : ty = (GoLite.cut e (Char.ofNat 58)).1
        · have ht' : ty.toList = (GoLite.cut e (Char.ofNat 58)).1.toList := by rw [← ht]
          simp only [ne_eq, ht', not_true_eq_false, if_false]
          simp only [← ht, ne_eq, not_true_eq_false, if_false, worldOf, String.ofList_toList] at hq ⊢
          rcases hg : st.GetCertificates ctx ty (GoLite.cut e (Char.ofNat 58)).2.1 with ⟨cs, err⟩
          rw [hg] at hq
          cases err with
          | some x => simp only at hq; subst hq; simp
          | none =>
            simp only at hq ⊢
            subst hq
            have := ih (e :: p) (acc ++ cs)
            simp only [List.map_cons] at this
            simp only [this]
            cases (loadLoop (worldOf ctx st) ty.toList (rest.map String.toList) (e.toList :: p.map String.toList)).2 <;> simp
        · have ht' : ¬ ty.toList = (GoLite.cut e (Char.ofNat 58)).1.toList := fun x => ht (String.toList_inj.1 x)
          simp only [ne_eq, ht, ht', not_false_eq_true, if_true] at hq ⊢
          subst hq; exact ih p acc

/-- what is compared: the certificates (nil on error) and whether an error is returned -/
def shape (r : Option (List Cert) × Option GoLite.Err) : Option (List Cert) × Bool := (r.1, r.2.isSome)

def ofModel (m : Option (List Cert)) : Option (List Cert) × Bool := (m, m.isNone)

abbrev absA (t : List String × List Cert) : Option (Option (List Cert) × Option GoLite.Err) × set.Set × List Cert :=
  (none, ⟨t.1⟩, t.2)
abbrev stopA (t : List String × List Cert) (e : GoLite.Err × List String) : Option (Option (List Cert) × Option GoLite.Err) × set.Set × List Cert :=
  (some (none, some e.1), ⟨e.2⟩, t.2)
/-- the same with the two mutable variables declared in the other order -/
abbrev absB (t : List String × List Cert) : Option (Option (List Cert) × Option GoLite.Err) × List Cert × set.Set :=
  (none, t.2, ⟨t.1⟩)
abbrev stopB (t : List String × List Cert) (e : GoLite.Err × List String) : Option (Option (List Cert) × Option GoLite.Err) × List Cert × set.Set :=
  (some (none, some e.1), t.2, ⟨e.2⟩)

/- `tie_loop`: rewrite the translated loop into `foldE (srcStep early ..)` through the abstraction
`abs`/`stop`, discharge the side condition by case analysis, finish with the model lemma `hm`
(unhygienic on purpose: it speaks about the variables of the theorem below) -/
set_option hygiene false in
local macro "tie_loop " early:term ", " abs:term ", " stop:term : tactic =>
  `(tactic| (
    rw [GoLite.forIn_eq_foldE' _ (srcStep $early ctx ty st) $abs $stop ?h _ _ ([], []) rfl]
    case h =>
      intro e t
      simp only [srcStep, set.Set.Contains, set.Set.Add, id]
      by_cases h1 : t.1.contains e = true <;>
      cases h2 : (GoLite.cut e (Char.ofNat 58)).2.2 <;>
      by_cases h3 : ty = (GoLite.cut e (Char.ofNat 58)).1 <;>
      cases h4 : (st.GetCertificates ctx ty (GoLite.cut e (Char.ofNat 58)).2.1).2 <;>
      (first | have h3' := Ne.symm h3 | skip) <;>
      simp_all
    rw [← hm $early]
    cases GoLite.foldE (srcStep $early ctx ty st) l ([], []) with
    | ok t => simp [shape, ofModel, GoLite.idPure, GoLite.idBind, bind]
    | error p => obtain ⟨t, e⟩ := p; simp [shape, ofModel, GoLite.idPure, GoLite.idBind, bind]))

/-- TIE (translated source): `loadX509TrustStoresWithType`, translated from verifier/helpers.go on
every run (`Generated/SrcC03.lean`), returns - for EVERY store type, EVERY trust store list and
EVERY trust store oracle `GetCertificates` - exactly the certificates the model's `loadLoop`
returns for the world the oracle stands for (same certificates in the same order), and an error
(with nil certificates) exactly when the model's loop fails. -/
theorem source_loadX509TrustStoresWithType_refines_model (ctx : context.Context) (ty pn : String) (l : List String)
    (st : truststore.X509TrustStore) :
    shape (loadX509TrustStoresWithType ctx ty pn l st) =
      ofModel (loadLoop (worldOf ctx st) ty.toList (l.map String.toList) []).2 := by
  have hm : ∀ early, (match GoLite.foldE (srcStep early ctx ty st) l ([], []) with
      | .ok t => some t.2
      | .error _ => none) = (loadLoop (worldOf ctx st) ty.toList (l.map String.toList) []).2 := by
    intro early
    have := foldE_loadLoop early ctx ty st l [] []
    simpa using this
  unfold loadX509TrustStoresWithType
  have hd : (default : List Cert) = [] := rfl
  simp only [Id.run, set.New, hd]
  -- the loop as the fold of `srcStep`: the two mutable variables in either order, the value
  -- marked as processed after or before the load
  first
  | tie_loop false, absA, stopA
  | tie_loop false, absB, stopB
  | tie_loop true, absA, stopA
  | tie_loop true, absB, stopB

/-- non-vacuity: the translated loop on a concrete list and oracle (ca/alpha holds one certificate,
ca/beta does not load): duplicates and other types are passed over, the first failing load stops it -/
def exStore : truststore.X509TrustStore :=
  ⟨fun _ ty n => if ty == "ca" && n == "alpha" then ([⟨⟨"CN=root"⟩⟩], none)
    else if ty == "ca" && n == "gamma" then ([⟨⟨"CN=other"⟩⟩], none) else ([], some ⟨"truststore.TrustStoreError"⟩)⟩
example : loadX509TrustStoresWithType () "ca" "p" ["ca:alpha", "tsa:alpha", "ca:alpha", "ca:gamma"] exStore =
    (some [⟨⟨"CN=root"⟩⟩, ⟨⟨"CN=other"⟩⟩], none) := by decide
example : loadX509TrustStoresWithType () "ca" "p" ["ca:alpha", "ca:beta", "ca:gamma"] exStore =
    (none, some ⟨"truststore.TrustStoreError"⟩) := by decide
example : (loadX509TrustStoresWithType () "signingAuthority" "p" ["ca:alpha", "nosep"] exStore).2.isSome = true := by decide

/-! #### the scheme switches in front of the loop -/

/-- the scheme constant a model scheme stands for -/
def schemeName : Scheme → signature.SigningScheme
  | .x509 => signature.SigningSchemeX509
  | .signingAuthority => signature.SigningSchemeX509SigningAuthority

theorem storeTypeOf_src (s : Scheme) :
    storeTypeOf s = (match s with
      | .x509 => truststore.TypeCA
      | .signingAuthority => truststore.TypeSigningAuthority).toList := by
  cases s <;> decide

/-- TIE: `loadX509TrustStores` (translated) maps each of the two schemes to the store type the
model's `storeTypeOf` names and then returns what the model's `loadStores` returns - for every
list and oracle -/
theorem source_loadX509TrustStores_refines_model (ctx : context.Context) (s : Scheme) (pn : String) (l : List String)
    (st : truststore.X509TrustStore) :
    shape (loadX509TrustStores ctx (schemeName s) pn l st) =
      ofModel (loadStores (worldOf ctx st) s (l.map String.toList)).2 := by
  unfold loadStores
  rw [storeTypeOf_src, ← source_loadX509TrustStoresWithType_refines_model ctx _ pn l st]
  unfold loadX509TrustStores
  have d1 : (signature.SigningSchemeX509SigningAuthority == signature.SigningSchemeX509) = false := by decide
  have d2 : (signature.SigningSchemeX509 == signature.SigningSchemeX509SigningAuthority) = false := by decide
  cases s <;> simp [schemeName, Id.run, GoLite.idPure, d1, d2]

/-- ... and any other scheme is an error, nothing is loaded -/
theorem source_loadX509TrustStores_other_scheme (ctx : context.Context) (scheme pn : String) (l : List String)
    (st : truststore.X509TrustStore) (h1 : scheme ≠ signature.SigningSchemeX509)
    (h2 : scheme ≠ signature.SigningSchemeX509SigningAuthority) :
    shape (loadX509TrustStores ctx scheme pn l st) = (none, true) := by
  unfold loadX509TrustStores
  have h1' := Ne.symm h1
  have h2' := Ne.symm h2
  simp [Id.run, h1, h2, h1', h2', shape, GoLite.idPure]

/-- TIE: `loadX509TSATrustStores` (the timestamp path) loads the stores of type `tsa` for
notary.x509 and fails for every other scheme -/
theorem source_loadX509TSATrustStores_refines_model (ctx : context.Context) (pn : String) (l : List String)
    (st : truststore.X509TrustStore) :
    shape (loadX509TSATrustStores ctx signature.SigningSchemeX509 pn l st) =
      ofModel (loadLoop (worldOf ctx st) Facts.c03TypeTSA (l.map String.toList) []).2 ∧
    ∀ scheme, scheme ≠ signature.SigningSchemeX509 →
      shape (loadX509TSATrustStores ctx scheme pn l st) = (none, true) := by
  constructor
  · rw [show Facts.c03TypeTSA = truststore.TypeTSA.toList by decide,
      ← source_loadX509TrustStoresWithType_refines_model ctx _ pn l st]
    unfold loadX509TSATrustStores
    simp [Id.run, GoLite.idPure]
  · intro scheme h
    unfold loadX509TSATrustStores
    have h' := Ne.symm h
    simp [Id.run, h, h', shape, GoLite.idPure]

example : loadX509TrustStores () "notary.x509.signingAuthority" "p" ["ca:alpha", "signingAuthority:alpha"] exStore =
    (none, some ⟨"truststore.TrustStoreError"⟩) := by decide
example : (loadX509TrustStores () "notary.x509" "p" ["ca:alpha", "signingAuthority:alpha"] exStore).1.isSome = true := by decide

/-! #### `isTSATrustStoreInPolicy` -/

def tsaStep (_u : Unit) (e : String) : Except (Bool × Option GoLite.Err) Unit :=
  if (GoLite.cut e (Char.ofNat 58)).2.2 = false then .error (false, some (GoLite.errT "truststore.TrustStoreError" ""))
  else if (GoLite.cut e (Char.ofNat 58)).1 = truststore.TypeTSA then .error (true, none)
  else .ok ()

def ofTsa : Option Bool → Bool × Bool
  | some b => (b, false)
  | none => (false, true)

theorem foldE_tsa (l : List String) :
    (match GoLite.foldE tsaStep l () with
      | .ok _ => ((false, false) : Bool × Bool)
      | .error (_, r) => (r.1, r.2.isSome)) = ofTsa (tsaInPolicy (l.map String.toList)) := by
  induction l with
  | nil => simp [GoLite.foldE, tsaInPolicy, ofTsa]
  | cons e rest ih =>
    simp only [List.map_cons, GoLite.foldE, tsaInPolicy]
    generalize hq : tsaStep () e = q
    unfold tsaStep at hq
    rw [cut_src]
    cases hf : (GoLite.cut e (Char.ofNat 58)).2.2 with
    | false => simp only [hf, if_true] at hq; subst hq; simp [ofTsa, GoLite.errT]
    | true =>
      simp only [hf, Bool.true_eq_false, if_false, if_true] at hq ⊢
      rw [← consts_agree.2.2.1]
      by_cases ht : (GoLite.cut e (Char.ofNat 58)).1 = truststore.TypeTSA
      · simp only [ht, if_true] at hq ⊢; subst hq; simp [ofTsa]
      · have ht' : ¬ (GoLite.cut e (Char.ofNat 58)).1.toList = truststore.TypeTSA.toList :=
          fun x => ht (String.toList_inj.1 x)
        simp only [ht, ht', if_false] at hq ⊢
        subst hq; exact ih

/-- TIE: `isTSATrustStoreInPolicy` (translated) answers what the model's `tsaInPolicy` answers:
true at the first value of type tsa, an error at a value without separator met before that -/
theorem source_isTSATrustStoreInPolicy_refines_model (pn : String) (l : List String) :
    ((isTSATrustStoreInPolicy pn l).1, (isTSATrustStoreInPolicy pn l).2.isSome) =
      ofTsa (tsaInPolicy (l.map String.toList)) := by
  rw [← foldE_tsa]
  unfold isTSATrustStoreInPolicy
  simp only [Id.run]
  rw [GoLite.forIn_eq_foldE' _ tsaStep (fun _ => (none, ())) (fun _ r => (some r, ())) ?h _ _ () rfl]
  case h =>
    intro e t
    simp only [tsaStep, id]
    cases h2 : (GoLite.cut e (Char.ofNat 58)).2.2 <;>
    by_cases h3 : (GoLite.cut e (Char.ofNat 58)).1 = truststore.TypeTSA <;>
    (first | have h3' := Ne.symm h3 | skip) <;>
    simp_all
  cases GoLite.foldE tsaStep l () with
  | ok t => simp [GoLite.idPure, GoLite.idBind, bind]
  | error p => obtain ⟨t, r⟩ := p; simp [GoLite.idPure, GoLite.idBind, bind]

example : isTSATrustStoreInPolicy "p" ["ca:alpha", "tsa:beta", "nosep"] = (true, none) := by decide
example : isTSATrustStoreInPolicy "p" ["ca:alpha", "nosep", "tsa:beta"] = (false, some ⟨"truststore.TrustStoreError"⟩) := by decide
example : isTSATrustStoreInPolicy "p" ["ca:tsa", "signingAuthority:alpha"] = (false, none) := by decide

/-- the model's `tsaInPolicy` says `true` only for lists that name a tsa store -/
theorem tsaInPolicy_true (l : List Text) (h : tsaInPolicy l = some true) :
    ∃ n, entry Facts.c03TypeTSA n ∈ l := by
  induction l with
  | nil => simp [tsaInPolicy] at h
  | cons e rest ih =>
    unfold tsaInPolicy at h
    cases hc : cut e with
    | none => simp [hc] at h
    | some tn =>
      obtain ⟨t, n⟩ := tn
      simp only [hc] at h
      by_cases ht : t = Facts.c03TypeTSA
      · subst ht
        exact ⟨n, by rw [← ((cut_some_iff e _ n).1 hc).1]; exact List.mem_cons_self⟩
      · simp only [ht, if_false] at h
        obtain ⟨n', hn'⟩ := ih h
        exact ⟨n', List.mem_cons_of_mem _ hn'⟩

end Tie
/-TIE-END-/

end NotationModel.C03

/- C03 - property theorems (stub: not built yet) -/
import NotationModel.Model.C03

namespace NotationModel.C03

end NotationModel.C03

/-
C05 - `(*verifier).verifyRevocation` (verifier/verifier.go) translated on every run
(Generated/SrcC05b.lean) and tied, for EVERY pair of configured checkers, every outcome and every
answer of the checkers, to what the property needs of it:

* the checker consulted is the one the caller supplied: the context-aware validator when there is
  one, else the deprecated client - never a different object, never both;
* it is consulted with the COMPLETE certificate chain of the signature and the authentic signing
  time (the zero time unless the scheme is signingAuthority);
* no checker at all, or a checker that reports an error, yields a FAILED revocation result
  (fail closed), carrying the action the level gives revocation;
* otherwise the result fails exactly when `revocationFinalResult` of the answers over the chain is
  not OK - and that function is tied to the model's aggregation for every result vector in
  `Props/C05.lean` (`source_revocationFinalResult_refines_model`), which `source_verifyRevocation_model`
  composes.
-/
import NotationModel.Props.C05
import NotationModel.Generated.SrcC05b
set_option linter.unusedSimpArgs false
set_option linter.unusedVariables false

namespace NotationModel.C05.TieV
open NotationModel.Src NotationModel.C05.Tie

/-- what a checker answers: one entry per certificate; an entry may be nil (`[]*CertRevocationResult`) -/
abbrev CRs := List (Option revocationresult.CertRevocationResult)

/-- the action the outcome's level gives the revocation validation -/
def actionOf (outcome : c05.VerificationOutcome) : trustpolicy.ValidationAction :=
  GoLite.Map.get outcome.VerificationLevel.Enforcement trustpolicy.TypeRevocation

def chainOf (outcome : c05.VerificationOutcome) : List x509.Certificate :=
  outcome.EnvelopeContent.SignerInfo.CertificateChain

/-- the signing time handed to the checker -/
def timeOf (outcome : c05.VerificationOutcome) : time.Time :=
  if outcome.EnvelopeContent.SignerInfo.SignedAttributes.SigningScheme == signature.SigningSchemeX509SigningAuthority
  then outcome.EnvelopeContent.SignerInfo.AuthenticSigningTime.1 else default

/-- what the supplied checker answers - `none`: there is no checker -/
def answerOf (v : c05.verifier) (outcome : c05.VerificationOutcome) : Option (CRs × Option GoLite.Err) :=
  match v.revocationCodeSigningValidator, v.revocationClient with
  | some val, _ => some (val.validate { CertChain := chainOf outcome, AuthenticSigningTime := timeOf outcome })
  | none, some c => some (c.validate (chainOf outcome) (timeOf outcome))
  | none, none => none

def failed (outcome : c05.VerificationOutcome) : «notation».ValidationResult :=
  { «Type» := trustpolicy.TypeRevocation, Action := actionOf outcome, Error := some ⟨"error"⟩ }

def passed (outcome : c05.VerificationOutcome) : «notation».ValidationResult :=
  { «Type» := trustpolicy.TypeRevocation, Action := actionOf outcome, Error := none }

/-- the specification -/
def spec (v : c05.verifier) (outcome : c05.VerificationOutcome) : «notation».ValidationResult :=
  match answerOf v outcome with
  | none => failed outcome
  | some (_, some _) => failed outcome
  | some (rs, none) =>
    if (verifier.revocationFinalResult rs (chainOf outcome)).1 == revocationresult.ResultOK then passed outcome
    else failed outcome

theorem default_error : (default : «notation».ValidationResult).Error = none := rfl

/-- **Tie.** The translated `verifyRevocation` is the specification, for every verifier, outcome
and checker behaviour. -/
theorem source_verifyRevocation_refines_spec (v : c05.verifier) (outcome : c05.VerificationOutcome) :
    c05v.verifyRevocation v outcome = spec v outcome := by
  obtain ⟨val, cl⟩ := v
  unfold c05v.verifyRevocation spec answerOf
  cases val with
  | none =>
    cases cl with
    | none => simp [Id.run, GoLite.idPure, failed, actionOf, GoLite.errorf]
    | some c =>
      cases hs : (outcome.EnvelopeContent.SignerInfo.SignedAttributes.SigningScheme == signature.SigningSchemeX509SigningAuthority) <;>
      · simp only [timeOf, chainOf, hs]
        cases ha : c.validate outcome.EnvelopeContent.SignerInfo.CertificateChain _ with
        | mk rs e =>
          cases e with
          | some e => simp_all [Id.run, GoLite.idPure, default_error, failed, passed, actionOf, GoLite.errorf, GoLite.deref, c05.Client.Validate]
          | none =>
            cases hf : (verifier.revocationFinalResult rs outcome.EnvelopeContent.SignerInfo.CertificateChain).1 <;>
              simp_all [Id.run, GoLite.idPure, default_error, failed, passed, actionOf, GoLite.errorf, GoLite.deref, c05.Client.Validate]
  | some va =>
    cases hs : (outcome.EnvelopeContent.SignerInfo.SignedAttributes.SigningScheme == signature.SigningSchemeX509SigningAuthority) <;>
    · simp only [timeOf, chainOf, hs]
      cases ha : va.validate _ with
      | mk rs e =>
        cases e with
        | some e => simp_all [Id.run, GoLite.idPure, default_error, failed, passed, actionOf, GoLite.errorf, GoLite.deref, revocation.Validator.ValidateContext]
        | none =>
          cases hf : (verifier.revocationFinalResult rs outcome.EnvelopeContent.SignerInfo.CertificateChain).1 <;>
            simp_all [Id.run, GoLite.idPure, default_error, failed, passed, actionOf, GoLite.errorf, GoLite.deref, revocation.Validator.ValidateContext]

/-- **Fail closed**: without a checker, or when the checker reports an error, the result is a failure. -/
theorem source_verifyRevocation_fails_closed (v : c05.verifier) (outcome : c05.VerificationOutcome)
    (h : answerOf v outcome = none ∨ ∃ rs e, answerOf v outcome = some (rs, some e)) :
    (c05v.verifyRevocation v outcome).Error.isSome := by
  rw [source_verifyRevocation_refines_spec]
  unfold spec
  rcases h with h | ⟨rs, e, h⟩ <;> simp [h, failed]

/-- **The supplied validator decides, alone**: when a context-aware validator is configured the
deprecated client is never consulted - the result does not depend on it. -/
theorem source_verifyRevocation_validator_first (val : revocation.Validator) (c1 c2 : Option c05.Client)
    (outcome : c05.VerificationOutcome) :
    c05v.verifyRevocation ⟨some val, c1⟩ outcome = c05v.verifyRevocation ⟨some val, c2⟩ outcome := by
  simp [source_verifyRevocation_refines_spec, spec, answerOf]

/-- **The whole chain is checked**: the result passes exactly when the checker answered without
an error and the MODEL's aggregation of its answers over the complete chain is OK - a nil answer
for a certificate counting as `unknown` (`resOf`), so a vector with a nil entry never passes
(composition with `source_revocationFinalResult_refines_model`). -/
theorem source_verifyRevocation_model (v : c05.verifier) (outcome : c05.VerificationOutcome) :
    (c05v.verifyRevocation v outcome).Error = none ↔
      ∃ rs, answerOf v outcome = some (rs, none) ∧
        (revocationFinalFor (chainOf outcome).length (rs.map resOf)).1 = .ok := by
  rw [source_verifyRevocation_refines_spec]
  unfold spec
  cases ha : answerOf v outcome with
  | none => simp [failed]
  | some p =>
    obtain ⟨rs, e⟩ := p
    cases e with
    | some e => simp [failed]
    | none =>
      simp only [source_revocationFinalResult_refines_model]
      cases hf : (revocationFinalFor (chainOf outcome).length (rs.map resOf)).1 <;>
        simp [hf, passed, failed, ofFinal]

/-- **A nil entry fails closed**: a checker that answers, without an error, a vector holding a nil
entry yields a FAILED revocation result - whatever the other entries say. -/
theorem source_verifyRevocation_nil_entry_fails (v : c05.verifier) (outcome : c05.VerificationOutcome)
    (rs : CRs) (ha : answerOf v outcome = some (rs, none)) (hn : none ∈ rs) :
    (c05v.verifyRevocation v outcome).Error.isSome := by
  have h := source_verifyRevocation_model v outcome
  cases he : (c05v.verifyRevocation v outcome).Error with
  | some e => rfl
  | none =>
    exfalso
    obtain ⟨rs', ha', hok⟩ := h.mp he
    have e : rs' = rs := by
      have := ha.symm.trans ha'
      simp only [Option.some.injEq, Prod.mk.injEq] at this
      exact this.1.symm
    subst e
    by_cases hl : (rs'.map resOf).length = (chainOf outcome).length
    · rw [← hl, final_complete] at hok
      have hall := (final_ok_iff (rs'.map resOf)).mp hok
      rw [List.all_eq_true] at hall
      have := hall (resOf none) (List.mem_map_of_mem hn)
      simp [resOf, R.good] at this
    · rw [final_incomplete _ _ hl] at hok
      simp at hok

/-- every result carries type revocation and the action of the level -/
theorem source_verifyRevocation_type_action (v : c05.verifier) (outcome : c05.VerificationOutcome) :
    (c05v.verifyRevocation v outcome).«Type» = trustpolicy.TypeRevocation ∧
      (c05v.verifyRevocation v outcome).Action = actionOf outcome := by
  rw [source_verifyRevocation_refines_spec]
  unfold spec
  repeat' split
  all_goals simp [failed, passed]

end NotationModel.C05.TieV

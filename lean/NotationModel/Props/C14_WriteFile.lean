/-
C14 - the tie between the SOURCE of `file.WriteFile` (internal/file/file.go) and the writer of the
state machine of `Model/C14.lean`.

`Generated/SrcC14.lean` is the Go function translated on every run (extract/go2lean_fs.go) into a
program over a log of operating-system calls answered by an arbitrary oracle
(`Src/TypesC14.lean`). This file proves, for EVERY oracle - every pattern of failing calls,
including failures of the cleanup calls themselves, and every name `os.CreateTemp` may hand out:

* `source_WriteFile_refines_protocol`: the translated function makes exactly the calls of
  `protocol` - create a temp file in `tempDir`, write the content to IT, close IT, rename IT over
  `path`; leave at the first failure; after a failure that follows the creation, close and remove
  the temp file - and returns an error exactly when one of the four calls failed;
* `protocol_calls_are_writer_steps`: every one of those calls is a step of the model's writer
  (`callEvent`: the only names ever touched are the temp file's own and, by `rename` alone,
  the destination), so the schedules of `Props/C14.lean` - which quantify over all event lists -
  cover what this code does under any interleaving with other writers, readers and kills;
* `success_events`, `failure_never_renames`, `failure_removes_temp`: on success the events are
  exactly `create, write (all), close, rename`; on failure there is no `rename`, and when the
  cleanup's `os.Remove` succeeded the last word is `giveup` (the temp file is gone);
* `success_installs_complete_entry`, `failure_keeps_every_key`, `failure_leaves_no_temp`: the same
  read off the state machine: from any state in which the writer is idle and the temp name free,
  success leaves the key name pointing to a fresh inode holding the complete data; failure leaves
  every key name as it was, and no temp file when the remove went through.

What stays assumed: the meaning of the five calls (`callEvent`, checked against the model's `step`
by the hook-stepped correspondence runs), and that they are all `WriteFile` does to the file
system (the translator refuses any other callee).
-/
import NotationModel.Props.C14
import NotationModel.Props.C15
import NotationModel.Generated.SrcC14
set_option linter.unusedSimpArgs false
set_option linter.unusedVariables false

namespace NotationModel.C14.Tie
open NotationModel.Src NotationModel.Src.fsproto

/-- the pattern of `os.CreateTemp`: the constant of the source (`Facts`/`fact_temp_prefix` pins the
same text for the name-level theorem `temp_never_key`) -/
theorem source_temp_pattern : tempFileNamePrefix.toList = tempPrefix ++ ['*'] := by decide

/-- **The protocol**, written down independently of the source: result and log after the call. -/
def protocol (o : Oracle) (log0 : List Call) (tempDir path : String) (content : Bytes) :
    Option GoLite.Err × List Call :=
  let l1 := log0 ++ [Call.createTemp tempDir "notation-*"]
  match o.fault l1 with
  | some e => (some e, l1)
  | none =>
    let f : File := ⟨o.tempName l1⟩
    let l2 := l1 ++ [.write f content]
    match o.fault l2 with
    | some e => (some e, l2 ++ [.close f, .remove f.name])
    | none =>
      let l3 := l2 ++ [.close f]
      match o.fault l3 with
      | some e => (some e, l3 ++ [.close f, .remove f.name])
      | none =>
        let l4 := l3 ++ [.rename f.name path]
        match o.fault l4 with
        | some e => (some e, l4 ++ [.close f, .remove f.name])
        | none => (none, l4)

/-- the calls `protocol` adds to the log -/
def protocolCalls (o : Oracle) (log0 : List Call) (tempDir path : String) (content : Bytes) : List Call :=
  (protocol o log0 tempDir path content).2.drop log0.length

/-- **Tie.** For every oracle, starting log, directory, destination and content, the translated
`file.WriteFile` returns what the protocol returns (the error KIND of the failing call, `none`
when nothing failed) and has made exactly the protocol's calls, in order, with its arguments. -/
theorem source_WriteFile_refines_protocol (o : Oracle) (log0 : List Call) (tempDir path : String)
    (content : Bytes) :
    runFS (WriteFile tempDir path content) o log0 = protocol o log0 tempDir path content := by
  cases h1 : o.fault (log0 ++ [Call.createTemp tempDir "notation-*"]) with
  | some e =>
    simp [runFS, WriteFile, protocol, os.CreateTemp, os.Remove, os.Rename, File.Write, File.Close,
      File.Name, perform, tempFileNamePrefix, GoLite.wrapf, *]
  | none =>
    cases h2 : o.fault (log0 ++ [Call.createTemp tempDir "notation-*",
        Call.write ⟨o.tempName (log0 ++ [Call.createTemp tempDir "notation-*"])⟩ content]) with
    | some e =>
      simp [runFS, WriteFile, protocol, os.CreateTemp, os.Remove, os.Rename, File.Write, File.Close,
        File.Name, perform, tempFileNamePrefix, GoLite.wrapf, *]
    | none =>
      cases h3 : o.fault (log0 ++ [Call.createTemp tempDir "notation-*",
          Call.write ⟨o.tempName (log0 ++ [Call.createTemp tempDir "notation-*"])⟩ content,
          Call.close ⟨o.tempName (log0 ++ [Call.createTemp tempDir "notation-*"])⟩]) with
      | some e =>
        simp [runFS, WriteFile, protocol, os.CreateTemp, os.Remove, os.Rename, File.Write, File.Close,
          File.Name, perform, tempFileNamePrefix, GoLite.wrapf, *]
      | none =>
        cases h4 : o.fault (log0 ++ [Call.createTemp tempDir "notation-*",
            Call.write ⟨o.tempName (log0 ++ [Call.createTemp tempDir "notation-*"])⟩ content,
            Call.close ⟨o.tempName (log0 ++ [Call.createTemp tempDir "notation-*"])⟩,
            Call.rename (o.tempName (log0 ++ [Call.createTemp tempDir "notation-*"])) path]) with
        | some e =>
          simp [runFS, WriteFile, protocol, os.CreateTemp, os.Remove, os.Rename, File.Write, File.Close,
            File.Name, perform, tempFileNamePrefix, GoLite.wrapf, *]
        | none =>
          simp [runFS, WriteFile, protocol, os.CreateTemp, os.Remove, os.Rename, File.Write, File.Close,
            File.Name, perform, tempFileNamePrefix, GoLite.wrapf, *]

/-- the function returns an error exactly when the protocol's run contains a failed call among
create / write / close / rename (failures of the cleanup do not change the result) -/
theorem source_WriteFile_error_iff (o : Oracle) (log0 : List Call) (tempDir path : String) (content : Bytes) :
    (runFS (WriteFile tempDir path content) o log0).1 = none ↔
      (protocolCalls o log0 tempDir path content =
        [Call.createTemp tempDir "notation-*",
         Call.write ⟨o.tempName (log0 ++ [Call.createTemp tempDir "notation-*"])⟩ content,
         Call.close ⟨o.tempName (log0 ++ [Call.createTemp tempDir "notation-*"])⟩,
         Call.rename (o.tempName (log0 ++ [Call.createTemp tempDir "notation-*"])) path]) := by
  rw [source_WriteFile_refines_protocol]
  unfold protocolCalls protocol
  simp only []
  split
  · simp
  · split
    · simp
    · split
      · simp
      · split <;> simp

/-! ### the calls read as events of the model's writer -/

/-- One answered call of writer `w` - whose temp file is named `tmp` (index `t` among the temp
names), whose destination is `path`, whose data has `len` cells - as events of `Model/C14.step`.
`n` = how many cells a FAILING write stored before it failed. `none`: the model's writer has no
such step - the call touches a name it never touches. -/
def callEvent (w t len n : Nat) (tmp path : String) (c : Call) (failed : Bool) : Option (List Event) :=
  match c with
  | .createTemp _ _ => some (if failed then [] else [.create w t])
  | .write f _ => if f.name = tmp then some (if failed then [.write w n] else [.write w len]) else none
  | .close f => if f.name = tmp then some (if failed then [] else [.close w]) else none
  | .remove name => if name = tmp then some (if failed then [] else [.giveup w]) else none
  | .rename old new => if old = tmp ∧ new = path then some (if failed then [] else [.rename w]) else none

/-- a run of calls, each answered by the oracle on the log so far -/
def interp (o : Oracle) (w t len n : Nat) (tmp path : String) : List Call → List Call → Option (List Event)
  | _, [] => some []
  | pre, c :: cs =>
    match callEvent w t len n tmp path c (o.fault (pre ++ [c])).isSome, interp o w t len n tmp path (pre ++ [c]) cs with
    | some e, some es => some (e ++ es)
    | _, _ => none

/-- the events of one `WriteFile` call -/
def eventsOf (o : Oracle) (log0 : List Call) (tempDir path : String) (content : Bytes) (w t n : Nat) :
    Option (List Event) :=
  interp o w t content.length n (o.tempName (log0 ++ [Call.createTemp tempDir "notation-*"])) path log0
    (protocolCalls o log0 tempDir path content)

/-- the answers of the oracle that decide the run -/
structure Answers where
  create : Bool     -- true = failed
  write : Bool
  close : Bool
  rename : Bool
  cleanupClose : Bool
  cleanupRemove : Bool
  deriving DecidableEq, Repr

/-- the events as a function of the answers (the cleanup answers of the path actually taken) -/
def eventsFor (a : Answers) (w t len n : Nat) : List Event :=
  let cleanup := (if a.cleanupClose then [] else [.close w]) ++ (if a.cleanupRemove then [] else [.giveup w])
  if a.create then []
  else if a.write then [.create w t, .write w n] ++ cleanup
  else if a.close then [.create w t, .write w len] ++ cleanup
  else if a.rename then [.create w t, .write w len, .close w] ++ cleanup
  else [.create w t, .write w len, .close w, .rename w]

/-- the answers the oracle gives along the run -/
def answersOf (o : Oracle) (log0 : List Call) (tempDir path : String) (content : Bytes) : Answers :=
  let c1 := Call.createTemp tempDir "notation-*"
  let f : File := ⟨o.tempName (log0 ++ [c1])⟩
  let cw := Call.write f content
  let cc := Call.close f
  let cr := Call.rename f.name path
  let main : List Call :=
    if (o.fault (log0 ++ [c1])).isSome then [c1]
    else if (o.fault (log0 ++ [c1, cw])).isSome then [c1, cw]
    else if (o.fault (log0 ++ [c1, cw, cc])).isSome then [c1, cw, cc]
    else [c1, cw, cc, cr]
  { create := (o.fault (log0 ++ [c1])).isSome
    write := (o.fault (log0 ++ [c1, cw])).isSome
    close := (o.fault (log0 ++ [c1, cw, cc])).isSome
    rename := (o.fault (log0 ++ [c1, cw, cc, cr])).isSome
    cleanupClose := (o.fault (log0 ++ main ++ [cc])).isSome
    cleanupRemove := (o.fault (log0 ++ main ++ [cc, .remove f.name])).isSome }

/-- **Every call is a step of the model's writer**, and the steps are `eventsFor` of the oracle's
answers: for every oracle the interpretation is defined (no call touches a name outside the
writer's own temp file and, by rename alone, the destination). -/
theorem protocol_calls_are_writer_steps (o : Oracle) (log0 : List Call) (tempDir path : String)
    (content : Bytes) (w t n : Nat) :
    eventsOf o log0 tempDir path content w t n =
      some (eventsFor (answersOf o log0 tempDir path content) w t content.length n) := by
  unfold eventsOf protocolCalls protocol answersOf eventsFor
  simp only []
  cases h1 : o.fault (log0 ++ [Call.createTemp tempDir "notation-*"]) with
  | some e => simp [interp, callEvent, h1]
  | none =>
    cases h2 : o.fault (log0 ++ [Call.createTemp tempDir "notation-*",
        Call.write ⟨o.tempName (log0 ++ [Call.createTemp tempDir "notation-*"])⟩ content]) with
    | some e =>
      cases h5 : o.fault (log0 ++ [Call.createTemp tempDir "notation-*",
          Call.write ⟨o.tempName (log0 ++ [Call.createTemp tempDir "notation-*"])⟩ content,
          Call.close ⟨o.tempName (log0 ++ [Call.createTemp tempDir "notation-*"])⟩]) <;>
      cases h6 : o.fault (log0 ++ [Call.createTemp tempDir "notation-*",
          Call.write ⟨o.tempName (log0 ++ [Call.createTemp tempDir "notation-*"])⟩ content,
          Call.close ⟨o.tempName (log0 ++ [Call.createTemp tempDir "notation-*"])⟩,
          Call.remove (o.tempName (log0 ++ [Call.createTemp tempDir "notation-*"]))]) <;>
      simp [interp, callEvent, h1, h2, h5, h6]
    | none =>
      cases h3 : o.fault (log0 ++ [Call.createTemp tempDir "notation-*",
          Call.write ⟨o.tempName (log0 ++ [Call.createTemp tempDir "notation-*"])⟩ content,
          Call.close ⟨o.tempName (log0 ++ [Call.createTemp tempDir "notation-*"])⟩]) with
      | some e =>
        cases h5 : o.fault (log0 ++ [Call.createTemp tempDir "notation-*",
            Call.write ⟨o.tempName (log0 ++ [Call.createTemp tempDir "notation-*"])⟩ content,
            Call.close ⟨o.tempName (log0 ++ [Call.createTemp tempDir "notation-*"])⟩,
            Call.close ⟨o.tempName (log0 ++ [Call.createTemp tempDir "notation-*"])⟩]) <;>
        cases h6 : o.fault (log0 ++ [Call.createTemp tempDir "notation-*",
            Call.write ⟨o.tempName (log0 ++ [Call.createTemp tempDir "notation-*"])⟩ content,
            Call.close ⟨o.tempName (log0 ++ [Call.createTemp tempDir "notation-*"])⟩,
            Call.close ⟨o.tempName (log0 ++ [Call.createTemp tempDir "notation-*"])⟩,
            Call.remove (o.tempName (log0 ++ [Call.createTemp tempDir "notation-*"]))]) <;>
        simp [interp, callEvent, h1, h2, h3, h5, h6]
      | none =>
        cases h4 : o.fault (log0 ++ [Call.createTemp tempDir "notation-*",
            Call.write ⟨o.tempName (log0 ++ [Call.createTemp tempDir "notation-*"])⟩ content,
            Call.close ⟨o.tempName (log0 ++ [Call.createTemp tempDir "notation-*"])⟩,
            Call.rename (o.tempName (log0 ++ [Call.createTemp tempDir "notation-*"])) path]) with
        | some e =>
          cases h5 : o.fault (log0 ++ [Call.createTemp tempDir "notation-*",
              Call.write ⟨o.tempName (log0 ++ [Call.createTemp tempDir "notation-*"])⟩ content,
              Call.close ⟨o.tempName (log0 ++ [Call.createTemp tempDir "notation-*"])⟩,
              Call.rename (o.tempName (log0 ++ [Call.createTemp tempDir "notation-*"])) path,
              Call.close ⟨o.tempName (log0 ++ [Call.createTemp tempDir "notation-*"])⟩]) <;>
          cases h6 : o.fault (log0 ++ [Call.createTemp tempDir "notation-*",
              Call.write ⟨o.tempName (log0 ++ [Call.createTemp tempDir "notation-*"])⟩ content,
              Call.close ⟨o.tempName (log0 ++ [Call.createTemp tempDir "notation-*"])⟩,
              Call.rename (o.tempName (log0 ++ [Call.createTemp tempDir "notation-*"])) path,
              Call.close ⟨o.tempName (log0 ++ [Call.createTemp tempDir "notation-*"])⟩,
              Call.remove (o.tempName (log0 ++ [Call.createTemp tempDir "notation-*"]))]) <;>
          simp [interp, callEvent, h1, h2, h3, h4, h5, h6]
        | none => simp [interp, callEvent, h1, h2, h3, h4]

/-- the result in terms of the answers -/
theorem source_WriteFile_result (o : Oracle) (log0 : List Call) (tempDir path : String) (content : Bytes) :
    ((runFS (WriteFile tempDir path content) o log0).1 = none) ↔
      (let a := answersOf o log0 tempDir path content
       a.create = false ∧ a.write = false ∧ a.close = false ∧ a.rename = false) := by
  rw [source_WriteFile_refines_protocol]
  cases h1 : o.fault (log0 ++ [Call.createTemp tempDir "notation-*"]) with
  | some e => simp [protocol, answersOf, *]
  | none =>
    cases h2 : o.fault (log0 ++ [Call.createTemp tempDir "notation-*",
        Call.write ⟨o.tempName (log0 ++ [Call.createTemp tempDir "notation-*"])⟩ content]) with
    | some e => simp [protocol, answersOf, *]
    | none =>
      cases h3 : o.fault (log0 ++ [Call.createTemp tempDir "notation-*",
          Call.write ⟨o.tempName (log0 ++ [Call.createTemp tempDir "notation-*"])⟩ content,
          Call.close ⟨o.tempName (log0 ++ [Call.createTemp tempDir "notation-*"])⟩]) with
      | some e => simp [protocol, answersOf, *]
      | none =>
        cases h4 : o.fault (log0 ++ [Call.createTemp tempDir "notation-*",
            Call.write ⟨o.tempName (log0 ++ [Call.createTemp tempDir "notation-*"])⟩ content,
            Call.close ⟨o.tempName (log0 ++ [Call.createTemp tempDir "notation-*"])⟩,
            Call.rename (o.tempName (log0 ++ [Call.createTemp tempDir "notation-*"])) path]) with
        | some e => simp [protocol, answersOf, *]
        | none => simp [protocol, answersOf, *]

/-! ### what the events are, per outcome -/

def succeeded (a : Answers) : Bool := !a.create && !a.write && !a.close && !a.rename

/-- success = the model's atomic protocol, nothing else -/
theorem success_events (a : Answers) (w t len n : Nat) (h : succeeded a = true) :
    eventsFor a w t len n = [.create w t, .write w len, .close w, .rename w] := by
  simp [succeeded] at h
  simp [eventsFor, h]

/-- a call that reports an error has never renamed -/
theorem failure_never_renames (a : Answers) (w t len n : Nat) (h : succeeded a = false) (w' : Nat) :
    Event.rename w' ∉ eventsFor a w t len n := by
  unfold eventsFor
  cases hc : a.create <;> cases hw : a.write <;> cases hcl : a.close <;> cases hr : a.rename <;>
    cases h5 : a.cleanupClose <;> cases h6 : a.cleanupRemove <;> simp_all [succeeded]

/-- a failure after the creation ends with the removal of the temp file, when that removal went through -/
theorem failure_removes_temp (a : Answers) (w t len n : Nat) (h : succeeded a = false)
    (hc : a.create = false) (hr : a.cleanupRemove = false) :
    (eventsFor a w t len n).getLast? = some (.giveup w) := by
  unfold eventsFor
  cases hw : a.write <;> cases hcl : a.close <;> cases hrn : a.rename <;>
    cases h5 : a.cleanupClose <;> simp_all [succeeded]

/-! ### the same, read off the state machine -/

/-- events other than `rename` leave every key name alone -/
theorem step_keeps_keys (p : Prog) (s : Sys) (e : Event) (h : ∀ w, e ≠ .rename w) (k : Nat) :
    (step p s e).dir (.key k) = s.dir (.key k) := by
  cases e with
  | rename w => exact absurd rfl (h w)
  | create w t => simp only [step]; split <;> simp [upd]
  | write w n => simp only [step]; split <;> simp [upd]
  | wfail w n => simp only [step]; split <;> simp [upd]
  | close w => simp only [step]; split <;> (try split) <;> simp [upd]
  | giveup w => simp only [step]; split <;> simp [upd]
  | crash w => simp only [step]; split <;> simp [upd]
  | ropen r => simp only [step]; split <;> (try split) <;> simp [upd]
  | rread r n => simp only [step]; split <;> (try split) <;> simp [upd]

theorem run_keeps_keys (p : Prog) (evs : List Event) (h : ∀ e ∈ evs, ∀ w, e ≠ .rename w) (k : Nat) :
    ∀ s, (runFrom p s evs).dir (.key k) = s.dir (.key k) := by
  induction evs with
  | nil => intro s; rfl
  | cons e es ih =>
    intro s
    simp only [runFrom, List.foldl_cons]
    have := ih (fun e' he' => h e' (List.mem_cons_of_mem _ he')) (step p s e)
    simp only [runFrom] at this
    rw [this]
    exact step_keeps_keys p s e (h e (List.mem_cons_self)) k

/-- **A `WriteFile` that reports an error has changed no key name**, whatever the oracle answered
and wherever it failed (from ANY state: no assumption on what other writers are doing). -/
theorem failure_keeps_every_key (p : Prog) (s : Sys) (a : Answers) (w t len n : Nat)
    (h : succeeded a = false) (k : Nat) :
    (runFrom p s (eventsFor a w t len n)).dir (.key k) = s.dir (.key k) := by
  apply run_keeps_keys
  intro e he w' heq
  subst heq
  exact failure_never_renames a w t len n h w' he

/-- **Success installs the complete entry**: from a state in which writer `w` is idle and its temp
name free, the key name of `w` points to a fresh inode holding all of `w`'s data, the temp name
is gone and the writer is done. -/
theorem success_installs_complete_entry (p : Prog) (s : Sys) (a : Answers) (w t n : Nat)
    (h : succeeded a = true) (hidle : s.wst w = .idle) (hfree : s.dir (.tmp t) = none) :
    let s' := runFrom p s (eventsFor a w t (p.wdata w).length n)
    s'.dir (.key (p.wkey w)) = some s.next ∧ s'.ino s.next = p.wdata w ∧
      s'.dir (.tmp t) = none ∧ s'.wst w = .done := by
  rw [success_events a w t _ n h]
  simp [runFrom, step, hidle, hfree, upd]

/-- **Failure leaves no temp file** when the cleanup's remove went through: the temp name is free
again and the writer has given up. -/
theorem failure_leaves_no_temp (p : Prog) (s : Sys) (a : Answers) (w t n : Nat)
    (h : succeeded a = false) (hc : a.create = false) (hr : a.cleanupRemove = false)
    (hidle : s.wst w = .idle) (hfree : s.dir (.tmp t) = none) :
    let s' := runFrom p s (eventsFor a w t (p.wdata w).length n)
    s'.dir (.tmp t) = none ∧ s'.wst w = .dead := by
  unfold eventsFor
  cases hw : a.write <;> cases hcl : a.close <;> cases hrn : a.rename <;>
    cases h5 : a.cleanupClose <;> simp_all [succeeded, runFrom, step, upd] <;>
    (repeat' split) <;> simp_all [upd]

/-- a failed creation changes nothing at all -/
theorem failed_create_is_noop (p : Prog) (s : Sys) (a : Answers) (w t len n : Nat) (hc : a.create = true) :
    runFrom p s (eventsFor a w t len n) = s := by
  simp [eventsFor, hc, runFrom]

/-- `wfail` (the event the trace replay uses for a write fault) is a partial write followed by the
cleanup (for a writer that has not already closed its temp file: a write cannot fail after the close) -/
theorem wfail_is_write_then_giveup (p : Prog) (s : Sys) (w n : Nat) (hnc : ∀ t i, s.wst w ≠ .closed t i) :
    step p s (.wfail w n) = runFrom p s [.write w n, .giveup w] := by
  have hupd : ∀ (f : Nat → WState) (a b : WState), upd (upd f w a) w b = upd f w b := by
    intro f a b; funext x; by_cases hx : x = w <;> simp [upd, hx]
  simp only [runFrom, List.foldl_cons, List.foldl_nil, step]
  cases hw : s.wst w <;> simp [upd_same, hupd, hw]
  exact absurd hw (hnc _ _)

/-! ### the cache's `Set` on top of it (composition with the tie of `crl.FileCache.Set`, Props/C15) -/

/-- the oracle environment of `crl.FileCache.Set` whose `file.WriteFile` IS the translated function,
run against the call oracle `o` from the log `log0` -/
def envWith (env : crl.Env) (o : Oracle) (log0 : List Call) : crl.Env :=
  { env with write := fun d pth b => (runFS (WriteFile d pth b) o log0).1 }

/-- **`Set` runs the protocol in the cache's own directory.** For every bundle `Set` accepts and
every oracle: the result of `Set` is the result of the protocol run with the temp file created in
the ROOT of the cache - the directory of the destination, so the rename never crosses a file
system - on the destination `root/hex(sha256(url))` with the marshalled entry as content. -/
theorem source_Set_runs_protocol (env : crl.Env) (o : Oracle) (log0 : List Call) (c : crl.FileCache)
    (ctx : context.Context) (url : String) (bundle : Option corecrl.Bundle) (b : Src.Bytes) (d : Option Src.Bytes)
    (bytes : Src.Bytes)
    (hop : C15.Tie.opOf url bundle = .set url (some b) d)
    (hm : env.marshal (C15.Tie.contentOf b d) = .ok bytes) :
    crl.FileCache.Set (envWith env o log0) c ctx url bundle =
      (protocol o log0 c.root (C15.Tie.pathOf env c url) bytes).1 := by
  rw [C15.Tie.source_Set_decision, hop]
  simp only [envWith, hm, source_WriteFile_refines_protocol]
  rfl

/-! ### non-vacuity: the translated function run on concrete oracles -/

def okOracle : Oracle := { fault := fun _ => none, tempName := fun _ => "notation-123" }

/-- fails the `k`-th call (0-based) of the run -/
def failAt (k : Nat) : Oracle :=
  { fault := fun l => if l.length = k + 1 then some ⟨"EIO"⟩ else none, tempName := fun _ => "notation-123" }

example : runFS (WriteFile "/c" "/c/k" [1, 2]) okOracle =
    (none, [.createTemp "/c" "notation-*", .write ⟨"notation-123"⟩ [1, 2], .close ⟨"notation-123"⟩,
            .rename "notation-123" "/c/k"]) := by decide

example : runFS (WriteFile "/c" "/c/k" [1, 2]) (failAt 0) = (some ⟨"EIO"⟩, [.createTemp "/c" "notation-*"]) := by
  decide

example : runFS (WriteFile "/c" "/c/k" [1, 2]) (failAt 1) =
    (some ⟨"EIO"⟩, [.createTemp "/c" "notation-*", .write ⟨"notation-123"⟩ [1, 2], .close ⟨"notation-123"⟩,
                    .remove "notation-123"]) := by decide

example : runFS (WriteFile "/c" "/c/k" [1, 2]) (failAt 3) =
    (some ⟨"EIO"⟩, [.createTemp "/c" "notation-*", .write ⟨"notation-123"⟩ [1, 2], .close ⟨"notation-123"⟩,
                    .rename "notation-123" "/c/k", .close ⟨"notation-123"⟩, .remove "notation-123"]) := by decide

example : eventsOf (failAt 2) [] "/c" "/c/k" [1, 2] 0 0 1 = some [.create 0 0, .write 0 2, .close 0, .giveup 0] := by
  decide

end NotationModel.C14.Tie

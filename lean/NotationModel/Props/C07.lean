/- C07 - property theorems (stub: not built yet) -/
import NotationModel.Model.C07

namespace NotationModel.C07

end NotationModel.C07

/-
C07 - What the library signs, it verifies - and it reports what was signed.
Property theorems only; the model is in `Model/C07.lean`, the tables are the regenerated
facts of `Generated/C07.lean`.

Structure: (1) the facts are what the model relies on (`facts_*`, table lemmas per key spec and
signer); (2) maps: `addUserMetadataToDescriptor` = legality check + merge, lookups of a merge;
(3) the signing API in closed form (`signModel_eq`) for every crypto scheme; (4) the verifying
API on what was signed (`runWith_eq`); (5) `model_holds` and the readable theorems.
-/
import NotationModel.Model.C07
import NotationModel.Props.C11
import NotationModel.Generated.SrcC07
import NotationModel.Generated.SrcC07b
import NotationModel.Generated.SrcC07c
import NotationModel.Generated.SrcC07d
set_option linter.unusedSimpArgs false
set_option linter.unusedVariables false
namespace NotationModel.C07
open NotationModel.Facts

/-! facts -/
theorem facts_sanitize : c07SanitizeFields = ["Annotations", "Digest", "MediaType", "Size"] ∧
    c07GenericSignSanitizes = true ∧ c07EnvelopePluginSanitizes = true := by decide

theorem facts_guards : guardPresent "signOpts.ExpiryDuration<0" = true ∧
    guardPresent "signOpts.ExpiryDuration%time.Second!=0" = true ∧
    c07SignOCIFirstCall = "validateSignArguments" ∧ c07SignBlobFirstCall = "validateSignArguments" := by decide

theorem facts_reserved : c07ReservedPrefixes = ["io.cncf.notary"] := by decide

theorem facts_returns : c07UserMetadataReturns = "payload.TargetArtifact.Annotations" := by decide

def specAlg : KeySpec → String
  | .rsa2048 => "PS256" | .rsa3072 => "PS384" | .rsa4096 => "PS512"
  | .ec256 => "ES256" | .ec384 => "ES384" | .ec521 => "ES512"

theorem signerKeySpec_eq (s : SignerKind) (k : KeySpec) : signerKeySpec s k = some k.core := by
  cases s <;> cases k <;> decide

theorem ociKeySpec_eq (s : SignerKind) (k : KeySpec) : ociKeySpec s k = some k.core := by
  cases s <;> cases k <;> decide

theorem headerAlg_eq (s : SignerKind) (k : KeySpec) : headerAlg s k k.core = some (specAlg k) := by
  cases s <;> cases k <;> decide

theorem primitiveHash_eq (s : SignerKind) (k : KeySpec) : primitiveHash s k k.core = some (specDigestAlg k) := by
  cases s <;> cases k <;> decide

theorem coreHash_specAlg (k : KeySpec) : coreHash (specAlg k) = some (specDigestAlg k) := by
  cases k <;> decide

theorem signerDigestAlg_eq (k : KeySpec) : signerDigestAlg k.core = some (specDigestAlg k) := by
  cases k <;> decide

theorem verifierDigestAlg_eq (k : KeySpec) : verifierDigestAlg (specAlg k) = some (specDigestAlg k) := by
  cases k <;> decide

theorem digestUnder_spec (b : Blob) (k : KeySpec) : b.digestUnder (specDigestAlg k) = some (b.specDigest k) := by
  cases k <;> rfl

/-! ### readers: io.Copy hashes the whole byte sequence, however it is delivered -/

theorem delivered_replicate (k n : Nat) (xs : List (Nat × Bool)) :
    delivered (List.replicate k (n, false) ++ xs) = n * k + delivered xs := by
  induction k with
  | zero => simp
  | succ k ih =>
    simp only [List.replicate_succ, List.cons_append, delivered, ih, Bool.false_eq_true, if_false]
    rw [Nat.mul_succ]; omega

/-- **Reader behaviour does not matter**: for every script of reads - any chunk sizes, one byte
at a time, zero-length reads with a nil error, the last bytes arriving together with io.EOF or
before it, any number of reads - the copy loop hashes exactly the byte sequence the reader
stands for (unbounded: induction over the script). -/
theorem copyLoop_eq_represented (steps : List ReadStep) :
    copyLoop steps = delivered (expandReads steps) := by
  induction steps with
  | nil => rfl
  | cons s rest ih =>
    simp only [copyLoop, expandReads]
    by_cases ht : s.times = 0
    · simp [ht, ih]
    · simp only [ht, if_false, List.append_assoc, delivered_replicate]
      have hk : s.n * (s.times - 1) + s.n = s.n * s.times := by
        have : s.times = (s.times - 1) + 1 := by omega
        conv => rhs; rw [this, Nat.mul_succ]
      cases he : s.eof
      · simp only [Bool.false_eq_true, if_false, List.cons_append, List.nil_append, delivered, ih]
        omega
      · simp only [if_true, List.cons_append, List.nil_append, delivered]
        omega

theorem wf_blob (i : Input) (hwf : wf i = true) (hk : i.kind = .blob) :
    ((copyLoop i.signReader.steps : Nat) : Int) = i.blob.size ∧
    ((copyLoop i.verifyReader.steps : Nat) : Int) = i.blob.size := by
  simp only [wf, hk, Bool.or_eq_true, beq_iff_eq, Bool.and_eq_true, decide_eq_true_eq, represented] at hwf
  rcases hwf with h | h
  · cases h
  · rw [copyLoop_eq_represented, copyLoop_eq_represented]
    exact ⟨of_decide_eq_true h.1, of_decide_eq_true h.2⟩

theorem digestOfFirst_all (b : Blob) (k : KeySpec) :
    b.digestOfFirst (specDigestAlg k) b.size = some (b.specDigest k) := by
  simp [Blob.digestOfFirst, digestUnder_spec]

/-- a truncated read is never mistaken for the blob: its digest is not the blob's (as long as
the digest strings are not of the marker's form - digests are `alg:hex`) -/
theorem digestOfFirst_truncated (b : Blob) (k : KeySpec) (n : Int) (hn : n ≠ b.size) :
    b.digestOfFirst (specDigestAlg k) n = some ("truncated:" ++ b.specDigest k) := by
  simp [Blob.digestOfFirst, digestUnder_spec, hn]

theorem kvLookup_insert (k v k' : String) (m : List KV) :
    kvLookup k' (kvInsert k v m) = if k = k' then some v else kvLookup k' m := by
  induction m with
  | nil => simp [kvInsert, kvLookup]
  | cons x xs ih =>
    simp only [kvInsert]
    split
    · simp [kvLookup]
    · split
      · rename_i h; subst h; simp only [kvLookup]; split <;> simp_all
      · rename_i h1 h2
        simp only [kvLookup, ih]
        by_cases h3 : x.k = k'
        · have : ¬ k = k' := by intro h; exact h2 (h ▸ h3)
          simp [h3, this]
        · simp [h3]

theorem kvHas_insert (k v k' : String) (m : List KV) :
    kvHas k' (kvInsert k v m) = (decide (k = k') || kvHas k' m) := by
  unfold kvHas
  rw [kvLookup_insert]
  by_cases h : k = k' <;> simp [h]

theorem reserved_eq (k : String) : reserved k = specReserved k := by
  simp [reserved, specReserved, facts_reserved]

theorem mergeKV_cons (a : List KV) (m : KV) (ms : List KV) :
    mergeKV a (m :: ms) = mergeKV (kvInsert m.k m.v a) ms := rfl

/-- the other entries stay clear of an inserted key iff they were clear before and differ from it -/
theorem all_clear_insert (m : KV) (a ms : List KV) :
    legalMetadata (kvInsert m.k m.v a) ms = (legalMetadata a ms && !ms.any (fun x => x.k == m.k)) := by
  induction ms with
  | nil => simp [legalMetadata]
  | cons x xs ih =>
    simp only [legalMetadata, ih, kvHas_insert, List.any_cons]
    by_cases h : m.k = x.k
    · simp [h]
    · have h1 : (x.k == m.k) = false := by simp; exact fun e => h e.symm
      have h2 : decide (m.k = x.k) = false := by simp [h]
      rw [h1, h2]
      generalize specReserved x.k = b1
      generalize kvHas x.k a = b2
      generalize (xs.any fun y => y.k == x.k) = b3
      generalize legalMetadata a xs = b4
      generalize (xs.any fun y => y.k == m.k) = b5
      cases b1 <;> cases b2 <;> cases b3 <;> cases b4 <;> cases b5 <;> rfl

/-- `addUserMetadataToDescriptor` succeeds exactly on legal metadata, and then yields the merge -/
theorem addUserMetadata_eq (a ms : List KV) :
    addUserMetadata a ms = if legalMetadata a ms then some (mergeKV a ms) else none := by
  induction ms generalizing a with
  | nil => simp [addUserMetadata, legalMetadata, mergeKV]
  | cons m ms ih =>
    simp only [addUserMetadata, legalMetadata, reserved_eq, mergeKV_cons, ih, all_clear_insert]
    by_cases h1 : specReserved m.k = true <;> by_cases h2 : kvHas m.k a = true <;>
      by_cases h3 : (ms.any fun x => x.k == m.k) = true <;> by_cases h4 : legalMetadata a ms = true <;> simp_all

theorem kvLookup_none_of_not_any (k : String) (ms : List KV) (h : ms.any (fun x => x.k == k) = false) :
    kvLookup k ms = none := by
  induction ms with
  | nil => rfl
  | cons x xs ih =>
    simp only [List.any_cons, Bool.or_eq_false_iff, beq_eq_false_iff_ne] at h
    simp [kvLookup, h.1, ih h.2]

/-- a legal merge is the union of the two maps, the metadata taking the keys it has -/
theorem kvLookup_merge (k : String) (a ms : List KV) (h : legalMetadata a ms = true) :
    kvLookup k (mergeKV a ms) = (kvLookup k ms).orElse (fun _ => kvLookup k a) := by
  induction ms generalizing a with
  | nil => simp [mergeKV, kvLookup]
  | cons m ms ih =>
    simp only [legalMetadata, Bool.and_eq_true, Bool.not_eq_true'] at h
    obtain ⟨⟨⟨h1, h2⟩, h3⟩, h4⟩ := h
    have hl : legalMetadata (kvInsert m.k m.v a) ms = true := by
      rw [all_clear_insert]; simp [h4, h3]
    rw [mergeKV_cons, ih _ hl, kvLookup_insert]
    by_cases hk : m.k = k
    · subst hk
      simp [kvLookup, kvLookup_none_of_not_any _ _ h3]
    · simp [kvLookup, hk]

theorem kvSubset_refl (a : List KV) : kvSubset a a = true := by
  simp [kvSubset]

/-- everything that was signed as user metadata can be required at verification -/
theorem kvSubset_merge (a ms : List KV) (h : legalMetadata a ms = true) :
    kvSubset ms (mergeKV a ms) = true := by
  simp only [kvSubset, List.all_eq_true, beq_iff_eq]
  intro x hx
  rw [kvLookup_merge _ _ _ h]
  have : (kvLookup x.k ms).isSome := by
    clear h
    induction ms with
    | nil => cases hx
    | cons y ys ih =>
      simp only [kvLookup]
      split
      · rfl
      · rename_i hne
        cases hx with
        | head => exact absurd rfl hne
        | tail _ h' => exact ih h'
  cases hl : kvLookup x.k ms with
  | none => simp [hl] at this
  | some v => simp

/-- a descriptor reduced to media type, digest, size and annotations -/
def sanitised (d : FullDesc) : DescObs :=
  { mediaType := d.mediaType, digest := d.digest, size := d.size, annotations := d.annotations, extraKeys := [] }

theorem payloadOf_sanitised (d : FullDesc) :
    payloadOf c07GenericSignSanitizes d = sanitised d ∧ payloadOf c07EnvelopePluginSanitizes d = sanitised d := by
  have hk : keep "MediaType" = true ∧ keep "Digest" = true ∧ keep "Size" = true ∧ keep "Annotations" = true ∧
      keep "ArtifactType" = false ∧ keep "Data" = false ∧ keep "Platform" = false ∧ keep "URLs" = false := by decide
  obtain ⟨h1, h2, h3, h4, h5, h6, h7, h8⟩ := hk
  simp [payloadOf, facts_sanitize.2.1, facts_sanitize.2.2, project, sanitised, h1, h2, h3, h4, h5, h6, h7, h8]

/-! ### envelope-generator plugins: only a faithful payload is accepted -/

theorem otherThan_ne (v a b : String) (hab : a ≠ b) : otherThan v a b ≠ v := by
  unfold otherThan
  split
  · rename_i h; rw [h]; exact fun e => hab e.symm
  · rename_i h; exact fun e => h e.symm

theorem kvLookup_filter_ne (k : String) (l : List KV) : kvLookup k (l.filter (fun x => x.k != k)) = none := by
  induction l with
  | nil => rfl
  | cons x xs ih =>
    simp only [List.filter_cons]
    by_cases h : x.k = k
    · simp [h, ih]
    · simp [h, kvLookup, ih]

theorem kvLookup_map_changed (k : String) (f : String → String) (l : List KV) :
    kvLookup k (l.map (fun x => if x.k = k then ⟨x.k, f x.v⟩ else x)) = (kvLookup k l).map f := by
  induction l with
  | nil => rfl
  | cons x xs ih =>
    simp only [List.map_cons, kvLookup]
    by_cases h : x.k = k
    · simp [h]
    · simp [h, ih]

theorem mem_kvLookup_isSome (x : KV) (l : List KV) (h : x ∈ l) : (kvLookup x.k l).isSome = true := by
  induction l with
  | nil => cases h
  | cons y ys ih =>
    simp only [kvLookup]
    split
    · rfl
    · rename_i hne
      cases h with
      | head => exact absurd rfl hne
      | tail _ h' => exact ih h'

theorem kvLookup_some_mem (k v : String) (l : List KV) (h : kvLookup k l = some v) : ∃ x ∈ l, x.k = k := by
  induction l with
  | nil => simp [kvLookup] at h
  | cons y ys ih =>
    simp only [kvLookup] at h
    split at h
    · rename_i hk; exact ⟨y, List.mem_cons_self, hk⟩
    · obtain ⟨x, hx, hxk⟩ := ih h
      exact ⟨x, List.mem_cons_of_mem _ hx, hxk⟩

/-- appending an annotation keeps every requested annotation iff it does not override one -/
theorem kvSubset_insert (k v : String) (l : List KV) :
    kvSubset l (kvInsert k v l) =
      (match kvLookup k l with
       | none => true
       | some v' => v' == v) := by
  cases hl : kvLookup k l with
  | none =>
    simp only [kvSubset, List.all_eq_true, beq_iff_eq]
    intro x hx
    rw [kvLookup_insert]
    have := mem_kvLookup_isSome x l hx
    by_cases hk : k = x.k
    · rw [← hk, hl] at this; simp at this
    · simp [hk]
  | some v' =>
    by_cases hv : v' = v
    · subst hv
      simp only [beq_self_eq_true, kvSubset, List.all_eq_true, beq_iff_eq]
      intro x _
      rw [kvLookup_insert]
      by_cases hk : k = x.k
      · simp [hk, ← hl]
      · simp [hk]
    · have hb : (v' == v) = false := by simpa using hv
      simp only [hb]
      obtain ⟨x, hx, hxk⟩ := kvLookup_some_mem k v' l hl
      simp only [kvSubset, List.all_eq_false, beq_iff_eq]
      refine ⟨x, hx, ?_⟩
      rw [hxk, kvLookup_insert, hl]
      simp only [if_true]
      intro h
      exact hv (Option.some.inj h).symm

theorem tolerated_unknown : c07PluginPayloadTolerated.contains "c07Unknown" = false := by decide

/-- **The envelope-plugin check, characterised**: the payload a plugin returns is accepted
exactly when the plugin was faithful to the requested payload (an appended annotation that
overrides nothing is allowed), for descriptors with any annotations -/
theorem plugin_check_eq (t : Tamper) (d : FullDesc) :
    (payloadDescriptorValid d (tamperPayload t (sanitised d)) &&
      !unknownAttributesAdded (tamperPayload t (sanitised d))) = !unfaithful t (sanitised d) := by
  cases t with
  | faithful => simp [tamperPayload, unfaithful, payloadDescriptorValid, sanitised, kvSubset_refl, unknownAttributesAdded]
  | reserialised => simp [tamperPayload, unfaithful, payloadDescriptorValid, sanitised, kvSubset_refl, unknownAttributesAdded]
  | dropAnnotation =>
    cases ha : d.annotations with
    | nil => simp [tamperPayload, unfaithful, payloadDescriptorValid, sanitised, ha, kvSubset, unknownAttributesAdded]
    | cons a rest =>
      have : kvSubset (a :: rest) ((a :: rest).filter (fun x => x.k != a.k)) = false := by
        simp only [kvSubset, List.all_eq_false, beq_iff_eq]
        exact ⟨a, List.mem_cons_self, by simp [kvLookup_filter_ne, kvLookup]⟩
      simp only [tamperPayload, unfaithful, payloadDescriptorValid, sanitised, ha, this]
      simp
  | addAnnotation =>
    simp only [tamperPayload, unfaithful, payloadDescriptorValid, sanitised, unknownAttributesAdded, kvSubset_insert,
      beq_self_eq_true, Bool.true_and, List.any_nil, Bool.not_false, Bool.and_true]
    cases kvLookup pluginAddedKey d.annotations with
    | none => simp
    | some v => cases h : (v == pluginAddedValue) <;> simp [bne, h]
  | changeAnnotation =>
    cases ha : d.annotations with
    | nil => simp [tamperPayload, unfaithful, payloadDescriptorValid, sanitised, ha, kvSubset, unknownAttributesAdded]
    | cons a rest =>
      have : kvSubset (a :: rest) ((a :: rest).map (fun x =>
          if x.k = a.k then ⟨x.k, otherThan x.v "c07-changed" "c07-changed-2"⟩ else x)) = false := by
        simp only [kvSubset, List.all_eq_false, beq_iff_eq]
        refine ⟨a, List.mem_cons_self, ?_⟩
        rw [kvLookup_map_changed a.k (fun v => otherThan v "c07-changed" "c07-changed-2")]
        simp only [kvLookup, if_true, Option.map_some]
        intro h
        exact otherThan_ne _ _ _ (by decide) (Option.some.inj h)
      simp only [tamperPayload, unfaithful, payloadDescriptorValid, sanitised, ha, this]
      simp
  | changeMediaType =>
    have : (d.mediaType == otherThan d.mediaType "application/x-c07-changed" "application/x-c07-changed-2") = false := by
      simp only [beq_eq_false_iff_ne, ne_eq]
      exact fun h => otherThan_ne _ _ _ (by decide) h.symm
    simp [tamperPayload, unfaithful, payloadDescriptorValid, sanitised, this]
  | changeSize =>
    have : (d.size == d.size + 1) = false := by
      simp only [beq_eq_false_iff_ne, ne_eq]; omega
    simp [tamperPayload, unfaithful, payloadDescriptorValid, sanitised, this]
  | addUnknownField =>
    have h : ¬ "c07Unknown" ∈ c07PluginPayloadTolerated := by decide
    simp [tamperPayload, unfaithful, unknownAttributesAdded, sanitised, h]

/-- a plugin that passes the check signed the requested payload, possibly with its own annotation appended -/
theorem tamperPayload_of_faithful (t : Tamper) (p : DescObs) (h : unfaithful t p = false) :
    tamperPayload t p =
      if t = .addAnnotation then { p with annotations := kvInsert pluginAddedKey pluginAddedValue p.annotations }
      else p := by
  cases t <;> simp [unfaithful] at h <;> simp [tamperPayload, h]

/-- with a whole number of seconds the expiry is the (truncated) signing time plus the duration,
whatever the sub-second part of the clock and whoever computes it -/
theorem protectedAttrs_eq (alg : String) (p : DescObs) (ep : Bool) (d nowNs : Int) (x : ExtAttrs)
    (hd : d % 1000000000 = 0) :
    protectedAttrs alg p ep d nowNs x =
      { alg := alg, payloadType := payloadTypeV1, payload := p, signingTime := nowNs / 1000000000,
        expiry := if d ≠ 0 then some (nowNs / 1000000000 + d / 1000000000) else none,
        ext := if ep then x else .none } := by
  have h1 : (d / 1000000000) * 1000000000 = d := by omega
  have h2 : (nowNs + d) / 1000000000 = nowNs / 1000000000 + d / 1000000000 := by omega
  cases ep <;> simp [protectedAttrs, h1, h2]

def envelopeOf (C : Crypto) (key : C.Key) (i : Input) (attrs : Protected) : Envelope C :=
  { format := i.format, attrs := attrs, agent := i.agent, signer := C.pub key,
    sig := C.sign key ⟨specDigestAlg i.keySpec, attrs⟩ }

theorem integrity_envelopeOf (C : Crypto) (key : C.Key) (i : Input) (attrs : Protected)
    (h : attrs.alg = specAlg i.keySpec) : (envelopeOf C key i attrs).integrity = true := by
  simp [Envelope.integrity, envelopeOf, h, coreHash_specAlg, C.correct]

theorem effectiveTamper_eq (i : Input) :
    effectiveTamper i = if (i.signer == .pluginEnvelope) = true then i.tamper else .faithful := rfl

theorem signDesc_eq (C : Crypto) (key : C.Key) (i : Input) (nowNs : Int) (d : FullDesc) :
    signDesc C key i i.keySpec.core nowNs d =
      if unfaithful (effectiveTamper i) (sanitised d) then none
      else some (envelopeOf C key i
        (protectedAttrs (specAlg i.keySpec) (tamperPayload (effectiveTamper i) (sanitised d))
          (i.signer == .pluginEnvelope) i.durationNs nowNs i.extAttrs)) := by
  unfold signDesc
  simp only [headerAlg_eq, primitiveHash_eq]
  have hp : payloadOf (if (i.signer == SignerKind.pluginEnvelope) = true then c07EnvelopePluginSanitizes
      else c07GenericSignSanitizes) d = sanitised d := by
    split
    · exact (payloadOf_sanitised d).2
    · exact (payloadOf_sanitised d).1
  rw [hp]
  have hpay : (if (i.signer == SignerKind.pluginEnvelope) = true then tamperPayload i.tamper (sanitised d)
      else sanitised d) = tamperPayload (effectiveTamper i) (sanitised d) := by
    rw [effectiveTamper_eq]; split <;> simp [tamperPayload]
  rw [hpay]
  have hi : ∀ ep : Bool, (envelopeOf C key i (protectedAttrs (specAlg i.keySpec)
      (tamperPayload (effectiveTamper i) (sanitised d)) ep i.durationNs nowNs i.extAttrs)).integrity = true :=
    fun ep => integrity_envelopeOf C key i _ (by simp [protectedAttrs])
  simp only [envelopeOf] at hi
  have h1 : ∀ ep : Bool, (protectedAttrs (specAlg i.keySpec) (tamperPayload (effectiveTamper i) (sanitised d))
      ep i.durationNs nowNs i.extAttrs).payloadType = payloadTypeV1 := fun _ => rfl
  have h2 : ∀ ep : Bool, (protectedAttrs (specAlg i.keySpec) (tamperPayload (effectiveTamper i) (sanitised d))
      ep i.durationNs nowNs i.extAttrs).payload = tamperPayload (effectiveTamper i) (sanitised d) := fun _ => rfl
  have hc := plugin_check_eq (effectiveTamper i) d
  by_cases hs : (i.signer == SignerKind.pluginEnvelope) = true
  · by_cases hu : unfaithful (effectiveTamper i) (sanitised d) = true
    · simp only [hu, Bool.not_true, Bool.and_eq_false_iff, Bool.not_eq_false'] at hc
      rcases hc with hc | hc <;> simp [hi, envelopeOf, h1, h2, hs, hu, hc]
    · have hu' : unfaithful (effectiveTamper i) (sanitised d) = false := by simpa using hu
      simp only [hu', Bool.not_false, Bool.and_eq_true, Bool.not_eq_true'] at hc
      simp [hi, envelopeOf, h1, h2, hs, hu', hc.1, hc.2]
  · have hf : effectiveTamper i = .faithful := by rw [effectiveTamper_eq]; simp [hs]
    have hu' : unfaithful (effectiveTamper i) (sanitised d) = false := by rw [hf]; rfl
    simp [hi, envelopeOf, h1, h2, hs, hu']

theorem signArgsOk_eq (d : Int) : signArgsOk d = (decide (0 ≤ d) && decide (d % 1000000000 = 0)) := by
  simp only [signArgsOk, facts_guards.1, facts_guards.2.1, Bool.true_and]
  by_cases h0 : 0 ≤ d <;> by_cases h1 : d % 1000000000 = 0 <;> simp [h0, h1] <;> omega

/-- the protected attributes of the envelope the signing API produces for legal arguments -/
def expectedAttrs (i : Input) (nowNs : Int) : Protected :=
  { alg := specAlg i.keySpec, payloadType := payloadTypeV1, payload := expectedPayload i,
    signingTime := nowNs / 1000000000,
    expiry := if i.durationNs ≠ 0 then some (nowNs / 1000000000 + i.durationNs / 1000000000) else none,
    ext := effectiveExt i }

/-- a plugin that passes the check signed what verification must report -/
theorem tamperPayload_expected (i : Input) (hu : unfaithful (effectiveTamper i) (requestedPayload i) = false) :
    tamperPayload (effectiveTamper i) (requestedPayload i) = expectedPayload i := by
  rw [tamperPayload_of_faithful _ _ hu]; rfl

/-- the tail of the signing path, once the descriptor to sign is the requested one -/
theorem signDesc_requested (C : Crypto) (key : C.Key) (i : Input) (nowNs : Int) (d : FullDesc)
    (h1 : i.durationNs % 1000000000 = 0) (hreq : sanitised d = requestedPayload i) :
    signDesc C key i i.keySpec.core nowNs d =
      if unfaithful (effectiveTamper i) (requestedPayload i) then none
      else some (envelopeOf C key i (expectedAttrs i nowNs)) := by
  rw [signDesc_eq, hreq, protectedAttrs_eq _ _ _ _ _ _ h1]
  by_cases hu : unfaithful (effectiveTamper i) (requestedPayload i) = true
  · simp [hu]
  · have hu' : unfaithful (effectiveTamper i) (requestedPayload i) = false := by simpa using hu
    simp only [hu', Bool.false_eq_true, if_false, tamperPayload_expected i hu']
    rfl

/-- **the signing API, characterised**: it refuses exactly the illegal arguments, and for legal
ones the envelope protects the sanitised descriptor with the metadata merged in, the truncated
signing time and signing time + duration - for every key spec, format, signer and crypto scheme -/
theorem signModel_eq (C : Crypto) (key : C.Key) (i : Input) (nowNs : Int) (hwf : wf i = true) :
    signModel C key i nowNs =
      if legal i then some (envelopeOf C key i (expectedAttrs i nowNs)) else none := by
  unfold signModel legal
  rw [signArgsOk_eq]
  by_cases h0 : 0 ≤ i.durationNs
  · by_cases h1 : i.durationNs % 1000000000 = 0
    · simp only [h0, h1, decide_true, Bool.and_self, Bool.not_true, Bool.false_eq_true, if_false, Bool.true_and]
      cases hk : i.kind with
      | oci =>
        simp only [ociKeySpec_eq, addUserMetadata_eq]
        by_cases hl : legalMetadata i.desc.annotations i.metadata = true
        · have hreq : sanitised { i.desc with annotations := mergeKV i.desc.annotations i.metadata } =
              requestedPayload i := by simp [sanitised, requestedPayload, hk]
          simp only [hl, if_true, signDesc_requested C key i nowNs _ h1 hreq, Bool.true_and]
          cases unfaithful (effectiveTamper i) (requestedPayload i) <;> simp
        · simp [hl]
      | blob =>
        by_cases hm : i.contentMediaType = ""
        · simp [hm]
        · by_cases hv : i.mediaTypeValid = true
          · have hsz := (wf_blob i hwf hk).1
            simp only [signerKeySpec_eq, signerDigestAlg_eq, hsz, digestOfFirst_all, addUserMetadata_eq]
            by_cases hl : legalMetadata [] i.metadata = true
            · have hreq : sanitised (blobDescriptor i (i.blob.specDigest i.keySpec) i.blob.size
                  (mergeKV [] i.metadata)) = requestedPayload i := by
                simp [sanitised, requestedPayload, hk, blobDescriptor]
              simp only [hl, if_true, signDesc_requested C key i nowNs _ h1 hreq]
              cases unfaithful (effectiveTamper i) (requestedPayload i) <;> simp [hm, hv]
            · simp [hl, hm, hv]
          · simp [hm, hv]
    · simp [h0, h1]
  · simp [h0]


/-! ### the verifying side on what the signing side produced -/

theorem processSignature_envelopeOf (C : Crypto) (key : C.Key) (i : Input) (attrs : Protected)
    (trust : C.Pub → Bool) (nowSec : Int) (halg : attrs.alg = specAlg i.keySpec)
    (hpt : attrs.payloadType = payloadTypeV1) (ht : trust (C.pub key) = true) :
    processSignature trust nowSec (envelopeOf C key i attrs) =
      ((match attrs.expiry with
        | some x => decide (nowSec < x)
        | none => true) && !attrs.ext.hasCritical) := by
  have hi := integrity_envelopeOf C key i attrs halg
  simp only [processSignature, hi, Bool.true_and]
  cases hx : attrs.expiry <;> simp [envelopeOf, hpt, ht, hx]

/-- processSignature refuses the library's own signature: it has expired, or it carries a critical extended
attribute nobody processes -/
def blocked (i : Input) : Bool := expiredAtVerify i || unprocessedCritical i

theorem notBlocked_eq (i : Input) (nowNs : Int) :
    ((match (expectedAttrs i nowNs).expiry with
      | some x => decide ((expectedAttrs i nowNs).signingTime + (i.lagSec : Int) < x)
      | none => true) && !(expectedAttrs i nowNs).ext.hasCritical) = !blocked i := by
  have hx : (expectedAttrs i nowNs).ext.hasCritical = unprocessedCritical i := rfl
  rw [hx, blocked, Bool.not_or]
  congr 1
  simp only [expectedAttrs, expiredAtVerify]
  by_cases hd : i.durationNs = 0
  · simp [hd]
  · simp only [hd, ne_eq, not_false_eq_true, if_true, decide_true, Bool.true_and]
    by_cases h : i.durationNs / 1000000000 ≤ (i.lagSec : Int)
    · simp [h] <;> omega
    · simp [h] <;> omega

/-- what the verification API answers on the envelope of a legal signing call -/
theorem expectedPayload_fields (i : Input) :
    (expectedPayload i).mediaType = (requestedPayload i).mediaType ∧
    (expectedPayload i).digest = (requestedPayload i).digest ∧
    (expectedPayload i).size = (requestedPayload i).size ∧
    (expectedPayload i).extraKeys = (requestedPayload i).extraKeys := by
  unfold expectedPayload; split <;> simp

theorem requestedPayload_oci (i : Input) (hk : i.kind = .oci) :
    requestedPayload i =
      { mediaType := i.desc.mediaType, digest := i.desc.digest, size := i.desc.size,
        annotations := mergeKV i.desc.annotations i.metadata, extraKeys := [] } := by
  simp [requestedPayload, hk]

theorem requestedPayload_blob (i : Input) (hk : i.kind = .blob) :
    requestedPayload i =
      { mediaType := i.contentMediaType, digest := i.blob.specDigest i.keySpec,
        size := i.blob.size, annotations := mergeKV [] i.metadata, extraKeys := [] } := by
  simp [requestedPayload, hk]

/-- an allowed appended annotation does not disturb what the caller requires -/
theorem kvSubset_insert_of_subset (w l : List KV) (k v : String) (h : kvSubset w l = true)
    (hacc : (match kvLookup k l with | none => true | some v' => v' == v) = true) :
    kvSubset w (kvInsert k v l) = true := by
  simp only [kvSubset, List.all_eq_true, beq_iff_eq] at h ⊢
  intro x hx
  rw [kvLookup_insert]
  by_cases hk : k = x.k
  · simp only [hk, if_true]
    have h1 := h x hx
    have h2 := mem_kvLookup_isSome x w hx
    rw [← h1] at h2
    rw [← hk] at h1 h2
    cases hl : kvLookup k l with
    | none => rw [hl] at h2; simp at h2
    | some v' =>
      rw [hl] at hacc h1
      simp only [beq_iff_eq] at hacc
      rw [← hk, ← h1, hacc]
  · simp only [hk, if_false]; exact h x hx

theorem unfaithful_of_legal (i : Input) (hl : legal i = true) :
    unfaithful (effectiveTamper i) (requestedPayload i) = false := by
  simp only [legal, Bool.and_eq_true, Bool.not_eq_true'] at hl
  exact hl.2

theorem kvSubset_expected (i : Input) (w : List KV) (hl : legal i = true)
    (h : kvSubset w (requestedPayload i).annotations = true) :
    kvSubset w (expectedPayload i).annotations = true := by
  unfold expectedPayload
  split
  · rename_i ht
    have hu := unfaithful_of_legal i hl
    rw [ht] at hu
    apply kvSubset_insert_of_subset _ _ _ _ h
    simp only [unfaithful] at hu
    cases hlk : kvLookup pluginAddedKey (requestedPayload i).annotations with
    | none => rfl
    | some v' =>
      rw [hlk] at hu
      simp only [bne_eq_false_iff_eq] at hu
      simp [hu]
  · exact h

def verifySpec (i : Input) : Bool :=
  !blocked i &&
  (match i.kind with
   | .oci => kvSubset (wantedMetadata i) (expectedPayload i).annotations
   | .blob =>
     (addUserMetadata [] (wantedMetadata i)).isSome &&
     (statedMediaType i == "" || statedMediaType i == i.contentMediaType) &&
     kvSubset (wantedMetadata i) (expectedPayload i).annotations)

/-- ... under the applicable policy statement: one that demands a timestamp rejects the un-timestamped signature -/
def verifySpecP (i : Input) : Bool := !timestampDemanded i && verifySpec i

theorem kvSubset_nil (a : List KV) : kvSubset [] a = true := rfl

/-- a verification call that asks for what was signed, before the expiry, succeeds -/
theorem verifySpec_of_consistent (i : Input) (hl : legal i = true) (hc : consistentVerify i = true)
    (he : blocked i = false) : verifySpec i = true := by
  have hlegal := hl
  simp only [legal, Bool.and_eq_true, decide_eq_true_eq] at hl
  simp only [consistentVerify, Bool.and_eq_true, bne_iff_ne, ne_eq, Bool.or_eq_true, beq_iff_eq] at hc
  obtain ⟨⟨⟨_, _⟩, hk⟩, _⟩ := hl
  obtain ⟨hmd, hmt⟩ := hc
  simp only [verifySpec, he, Bool.not_false, Bool.true_and]
  cases hkind : i.kind with
  | oci =>
    simp only [hkind] at hk
    apply kvSubset_expected i _ hlegal
    rw [requestedPayload_oci i hkind]
    cases hv : i.verifyMetadata with
    | nothing => simp [wantedMetadata, hv, kvSubset_nil]
    | all => simp [wantedMetadata, hv, kvSubset_merge _ _ hk]
    | wrong => exact absurd hv hmd
  | blob =>
    simp only [hkind, Bool.and_eq_true, bne_iff_ne, ne_eq] at hk
    obtain ⟨⟨_, _⟩, hlm⟩ := hk
    have hmt' : i.verifyMediaType ≠ .other := by
      rcases hmt with h | h
      · rw [hkind] at h; cases h
      · exact h
    have hst : (statedMediaType i == "" || statedMediaType i == i.contentMediaType) = true := by
      cases hv : i.verifyMediaType with
      | same => simp [statedMediaType, hv]
      | unstated => simp [statedMediaType, hv]
      | other => exact absurd hv hmt'
    simp only [hkind, hst, Bool.and_true, Bool.true_and, Bool.and_eq_true]
    refine ⟨?_, ?_⟩
    · cases hv : i.verifyMetadata with
      | nothing => simp [wantedMetadata, hv, addUserMetadata]
      | all => simp [wantedMetadata, hv, addUserMetadata_eq, hlm]
      | wrong => exact absurd hv hmd
    · apply kvSubset_expected i _ hlegal
      rw [requestedPayload_blob i hkind]
      cases hv : i.verifyMetadata with
      | nothing => simp [wantedMetadata, hv, kvSubset_nil]
      | all => simp [wantedMetadata, hv, kvSubset_merge _ _ hlm]
      | wrong => exact absurd hv hmd

theorem verifySpecP_of_consistent (i : Input) (hl : legal i = true) (hc : consistentVerify i = true)
    (he : blocked i = false) (hts : timestampDemanded i = false) : verifySpecP i = true := by
  simp [verifySpecP, hts, verifySpec_of_consistent i hl hc he]

/-- what is observed of a round trip, in closed form -/
def obsSpec (i : Input) : Obs :=
  if legal i then
    { signed := true, verified := verifySpecP i, payload := some (expectedPayload i),
      expirySec := if i.durationNs ≠ 0 then some (i.durationNs / 1000000000) else none,
      returned := if verifySpecP i then
          some (match i.kind with | .blob => expectedPayload i | .oci => fullObs i.desc) else none,
      userMetadata := if verifySpecP i then some (expectedPayload i).annotations else none }
  else noSignature

theorem userMetadataOf_eq (p : DescObs) : userMetadataOf p = p.annotations := by
  simp [userMetadataOf, facts_returns]

theorem runWith_eq (C : Crypto) (key : C.Key) (trust : C.Pub → Bool) (ht : trust (C.pub key) = true)
    (nowNs : Int) (i : Input) (hwf : wf i = true) : runWith C key trust nowNs i = obsSpec i := by
  unfold runWith obsSpec
  rw [signModel_eq C key i nowNs hwf]
  by_cases hl : legal i = true
  · simp only [hl, if_true]
    have hexp : Option.map (fun x => x - (envelopeOf C key i (expectedAttrs i nowNs)).attrs.signingTime)
        (envelopeOf C key i (expectedAttrs i nowNs)).attrs.expiry =
        if i.durationNs ≠ 0 then some (i.durationNs / 1000000000) else none := by
      simp only [envelopeOf, expectedAttrs]
      by_cases hd : i.durationNs = 0
      · simp [hd]
      · simp [hd] <;> omega
    have hps : processSignature trust
        ((envelopeOf C key i (expectedAttrs i nowNs)).attrs.signingTime + (i.lagSec : Int))
        (envelopeOf C key i (expectedAttrs i nowNs)) = !blocked i := by
      rw [processSignature_envelopeOf C key i _ trust _ rfl rfl ht]
      exact notBlocked_eq i nowNs
    cases hk : i.kind with
    | oci =>
      have hv : verifyOCI trust ((envelopeOf C key i (expectedAttrs i nowNs)).attrs.signingTime + (i.lagSec : Int))
          i.desc (wantedMetadata i) (envelopeOf C key i (expectedAttrs i nowNs)) = verifySpec i := by
        simp only [verifyOCI, hps, verifySpec, hk]
        have hf := expectedPayload_fields i
        have hr := requestedPayload_oci i hk
        simp [envelopeOf, expectedAttrs, hf.1, hf.2.1, hf.2.2.1, hr]
      simp only [hv, hexp, userMetadataOf_eq]
      simp [envelopeOf, expectedAttrs, verifySpecP]
    | blob =>
      have hv : verifyBlob trust ((envelopeOf C key i (expectedAttrs i nowNs)).attrs.signingTime + (i.lagSec : Int))
          i.blob (copyLoop i.verifyReader.steps) (statedMediaType i) (wantedMetadata i)
          (envelopeOf C key i (expectedAttrs i nowNs)) =
          if verifySpec i then some (expectedPayload i) else none := by
        have hsz := (wf_blob i hwf hk).2
        simp only [verifyBlob, hps, verifySpec, hk, hsz]
        have ha : (envelopeOf C key i (expectedAttrs i nowNs)).attrs.alg = specAlg i.keySpec := rfl
        have hp : (envelopeOf C key i (expectedAttrs i nowNs)).attrs.payload = expectedPayload i := rfl
        simp only [ha, hp, verifierDigestAlg_eq, digestOfFirst_all]
        by_cases he : blocked i = true
        · simp [he]
        · simp only [he, Bool.not_false, Bool.true_and, Bool.not_true, Bool.false_eq_true, if_false]
          cases hm : addUserMetadata [] (wantedMetadata i) with
          | none => simp
          | some r =>
            simp only [Option.isSome_some, Bool.true_and]
            have hf := expectedPayload_fields i
            have hr := requestedPayload_blob i hk
            have hd : (expectedPayload i).digest = i.blob.specDigest i.keySpec := by rw [hf.2.1, hr]
            have hs : (expectedPayload i).size = i.blob.size := by rw [hf.2.2.1, hr]
            have hmt : (expectedPayload i).mediaType = i.contentMediaType := by rw [hf.1, hr]
            simp only [hd, hs, hmt, bne_self_eq_false, Bool.false_or]
            by_cases h1 : (statedMediaType i == "" || statedMediaType i == i.contentMediaType) = true
            · have : (statedMediaType i != "" && statedMediaType i != i.contentMediaType) = false := by
                simp only [Bool.or_eq_true, beq_iff_eq] at h1
                rcases h1 with h | h <;> simp [h]
              simp only [this, h1, Bool.true_and, Bool.false_eq_true, if_false]
              by_cases h2 : kvSubset (wantedMetadata i) (expectedPayload i).annotations = true <;> simp [h2]
            · have : (statedMediaType i != "" && statedMediaType i != i.contentMediaType) = true := by
                simp only [Bool.or_eq_true, beq_iff_eq, not_or] at h1
                simp [h1.1, h1.2]
              simp [this, h1]
      rw [hv]
      by_cases hts : timestampDemanded i = true
      · simp only [hts, if_true, hexp, verifySpecP, Bool.not_true, Bool.false_and, Bool.false_eq_true, if_false]
        simp [envelopeOf, expectedAttrs]
      · have hts' : timestampDemanded i = false := by simpa using hts
        by_cases hvs : verifySpec i = true
        · simp only [hts', hvs, if_true, hexp, userMetadataOf_eq, verifySpecP, Bool.false_eq_true, if_false,
            Bool.not_false, Bool.and_self]
          simp [envelopeOf, expectedAttrs]
        · simp only [hts', hvs, Bool.false_eq_true, if_false, hexp, verifySpecP, Bool.and_false]
          simp [envelopeOf, expectedAttrs]
  · simp [hl]


/-! ### property theorems -/

theorem run_eq (i : Input) (hwf : wf i = true) : run i = obsSpec i := by
  unfold run
  apply runWith_eq _ _ _ _ _ _ hwf
  simp [toyTrust, toy]

/-- **C07, the whole property**: every clause of `Holds` is true of the model's behaviour, for
every well-formed input. `wf` is explicit and decidable: in a blob case both readers stand for
exactly the blob (the harness builds every reader script from the blob and checks it; the clause
`input_well_formed` makes the driver reject anything else). -/
theorem model_holds (i : Input) (hwf : wf i = true) : Holds i (run i) = true := by
  rw [run_eq i hwf]
  unfold Holds clauses obsSpec
  simp only [Clauses.holds_cons, Clauses.holds_nil, Bool.and_true, hwf, Bool.true_and]
  by_cases hl : legal i = true
  · simp only [hl, if_true]
    have hf := expectedPayload_fields i
    by_cases hv : verifySpecP i = true
    · have hx : unprocessedCritical i = false := by
        cases h3 : unprocessedCritical i
        · rfl
        · simp [verifySpecP, verifySpec, blocked, h3] at hv
      cases hk : i.kind with
      | oci => simp [hv, hk, hx]
      | blob => simp [hv, hk, hx, hf.2.1, requestedPayload_blob i hk]
    · have hne : ¬ (consistentVerify i = true ∧ blocked i = false ∧ timestampDemanded i = false) := by
        intro h
        exact hv (verifySpecP_of_consistent i hl h.1 h.2.1 h.2.2)
      have hv' : verifySpecP i = false := by simpa using hv
      have hc : (consistentVerify i && !expiredAtVerify i && !unprocessedCritical i && !timestampDemanded i) = false := by
        cases h1 : consistentVerify i <;> cases h2 : expiredAtVerify i <;> cases h3 : unprocessedCritical i <;>
          cases h4 : timestampDemanded i <;> simp_all [blocked]
      cases hk : i.kind with
      | oci => simp [hv', hk, hc]
      | blob => simp [hv', hk, hc, hf.2.1, requestedPayload_blob i hk]
  · have hl' : legal i = false := by simpa using hl
    simp [hl', noSignature]

/-- **What the library signs, it verifies**: for every crypto scheme, key, key spec, format,
signer kind, descriptor or blob, legal user metadata, legal duration, signing agent and clock,
the signature the signing API produces is accepted by the verification API under a policy
that trusts the signer, when the caller asks for what was signed before the expiry. -/
theorem sign_then_verify_ok (C : Crypto) (key : C.Key) (trust : C.Pub → Bool)
    (ht : trust (C.pub key) = true) (nowNs : Int) (i : Input)
    (hwf : wf i = true) (hl : legal i = true) (hc : consistentVerify i = true) (he : blocked i = false)
    (hts : timestampDemanded i = false) :
    (runWith C key trust nowNs i).signed = true ∧ (runWith C key trust nowNs i).verified = true := by
  rw [runWith_eq C key trust ht nowNs i hwf]
  simp [obsSpec, hl, verifySpecP_of_consistent i hl hc he hts]

/-- the same at the level of the two APIs: the envelope exists and the verifier accepts it -/
theorem sign_then_verify_ok_api (C : Crypto) (key : C.Key) (trust : C.Pub → Bool)
    (ht : trust (C.pub key) = true) (nowNs : Int) (i : Input)
    (hwf : wf i = true) (hl : legal i = true) (hc : consistentVerify i = true) (he : blocked i = false)
    (hts : timestampDemanded i = false) :
    ∃ e, signModel C key i nowNs = some e ∧
      (i.kind = .oci → verifyOCI trust (e.attrs.signingTime + (i.lagSec : Int)) i.desc (wantedMetadata i) e = true) ∧
      (i.kind = .blob → verifyBlob trust (e.attrs.signingTime + (i.lagSec : Int)) i.blob
          (copyLoop i.verifyReader.steps) (statedMediaType i) (wantedMetadata i) e = some (expectedPayload i)) := by
  have h := runWith_eq C key trust ht nowNs i hwf
  have hv := verifySpecP_of_consistent i hl hc he hts
  have hs := signModel_eq C key i nowNs hwf
  refine ⟨envelopeOf C key i (expectedAttrs i nowNs), by simp [hs, hl], ?_, ?_⟩
  · intro hk
    simp only [runWith, hs, hl, if_true, hk, obsSpec, hv, hts, Bool.not_false, Bool.true_and] at h
    have := congrArg Obs.verified h
    simpa using this
  · intro hk
    simp only [runWith, hs, hl, if_true, hk, obsSpec, hv, hts, Bool.false_eq_true, if_false] at h
    split at h
    · rename_i r hr
      rw [hr]
      have := congrArg Obs.returned h
      simpa using this
    · have := congrArg Obs.verified h
      simp at this

/-- illegal arguments are refused: the signing API produces nothing -/
theorem illegal_is_refused (C : Crypto) (key : C.Key) (nowNs : Int) (i : Input) (hwf : wf i = true)
    (hl : legal i = false) : signModel C key i nowNs = none := by
  simp [signModel_eq C key i nowNs hwf, hl]

theorem requestedPayload_extraKeys (i : Input) : (requestedPayload i).extraKeys = [] := by
  unfold requestedPayload; cases i.kind <;> rfl

/-- **The signed payload is the sanitised descriptor**: media type, digest, size and the
annotations with the user metadata merged in - nothing else (no urls, platform, data, artifact
type), for descriptors with any extra fields and whatever an envelope plugin tried: unless the
plugin appended an annotation of its own (which the plugin contract allows), the signed payload
is exactly the requested one. -/
theorem payload_is_sanitised_desc (C : Crypto) (key : C.Key) (nowNs : Int) (i : Input) (e : Envelope C)
    (hwf : wf i = true) (h : signModel C key i nowNs = some e) :
    e.attrs.payload = expectedPayload i ∧ e.attrs.payload.extraKeys = [] ∧
    e.attrs.payload.mediaType = (requestedPayload i).mediaType ∧
    e.attrs.payload.digest = (requestedPayload i).digest ∧
    e.attrs.payload.size = (requestedPayload i).size ∧
    (effectiveTamper i ≠ .addAnnotation → e.attrs.payload = requestedPayload i) ∧
    (i.kind = .oci → effectiveTamper i ≠ .addAnnotation →
        ∀ k, kvLookup k e.attrs.payload.annotations =
          (kvLookup k i.metadata).orElse (fun _ => kvLookup k i.desc.annotations)) := by
  rw [signModel_eq C key i nowNs hwf] at h
  by_cases hl : legal i = true
  · simp only [hl, if_true, Option.some.injEq] at h
    subst h
    have hf := expectedPayload_fields i
    have hp : (envelopeOf C key i (expectedAttrs i nowNs)).attrs.payload = expectedPayload i := rfl
    have hne : effectiveTamper i ≠ .addAnnotation → expectedPayload i = requestedPayload i := by
      intro hn; unfold expectedPayload; simp [hn]
    refine ⟨hp, ?_, ?_, ?_, ?_, ?_, ?_⟩
    · rw [hp, hf.2.2.2, requestedPayload_extraKeys]
    · rw [hp, hf.1]
    · rw [hp, hf.2.1]
    · rw [hp, hf.2.2.1]
    · intro hn; rw [hp, hne hn]
    · intro hk hn k
      rw [hp, hne hn, requestedPayload_oci i hk]
      apply kvLookup_merge
      have hl' := hl
      simp only [legal, hk, Bool.and_eq_true] at hl'
      exact hl'.1.2
  · simp [hl] at h

/-- **Expiry is exact**: the protected signing time is the clock truncated to seconds and the
protected expiry is that signing time plus the requested duration - `none` for a zero
duration -, whatever the sub-second part of the clock, and whether the library or an envelope
plugin computes it. It rests on the guard of `validateSignArguments` (whole seconds). -/
theorem expiry_exact (C : Crypto) (key : C.Key) (nowNs : Int) (i : Input) (e : Envelope C)
    (hwf : wf i = true) (h : signModel C key i nowNs = some e) :
    i.durationNs % 1000000000 = 0 ∧ 0 ≤ i.durationNs ∧
    e.attrs.signingTime = nowNs / 1000000000 ∧
    e.attrs.expiry = if i.durationNs = 0 then none else some (e.attrs.signingTime + i.durationNs / 1000000000) := by
  rw [signModel_eq C key i nowNs hwf] at h
  by_cases hl : legal i = true
  · simp only [hl, if_true, Option.some.injEq] at h
    subst h
    simp only [legal, Bool.and_eq_true, decide_eq_true_eq] at hl
    refine ⟨hl.1.1.2, hl.1.1.1, rfl, ?_⟩
    simp only [envelopeOf, expectedAttrs]
    by_cases hd : i.durationNs = 0 <;> simp [hd]
  · simp [hl] at h

/-- the guard is needed: with 1500 ms the truncated expiry would depend on the clock's
sub-second part (1 s after a signing time of xx.4, 2 s after xx.6) -/
theorem expiry_without_guard_depends_on_clock (p : DescObs) :
    (protectedAttrs "ES256" p false 1500000000 400000000 .none).expiry = some 1 ∧
    (protectedAttrs "ES256" p false 1500000000 600000000 .none).expiry = some 2 ∧
    signArgsOk 1500000000 = false := by
  refine ⟨by simp [protectedAttrs], by simp [protectedAttrs], by decide⟩

/-- the observation does not depend on the signing clock at all -/
theorem clock_independent (C : Crypto) (key : C.Key) (trust : C.Pub → Bool) (ht : trust (C.pub key) = true)
    (n₁ n₂ : Int) (i : Input) (hwf : wf i = true) : runWith C key trust n₁ i = runWith C key trust n₂ i := by
  rw [runWith_eq C key trust ht n₁ i hwf, runWith_eq C key trust ht n₂ i hwf]

/-- **The blob digest uses the hash bound to the key, on both sides** (regenerated tables):
for all six key specs and all four signers, the digest algorithm the signer derives from the
key spec is the one the verifier derives from the envelope's signature algorithm, and it is
the one the Notary specification binds to the key. -/
theorem blob_hash_consistent (k : KeySpec) (s : SignerKind) :
    (signerKeySpec s k).bind signerDigestAlg = some (specDigestAlg k) ∧
    (headerAlg s k k.core).bind verifierDigestAlg = some (specDigestAlg k) := by
  rw [signerKeySpec_eq, headerAlg_eq]
  exact ⟨signerDigestAlg_eq k, verifierDigestAlg_eq k⟩

/-- the raw-signature plugin is asked to hash with the hash the envelope is verified with -/
theorem plugin_hash_consistent (k : KeySpec) (s : SignerKind) :
    primitiveHash s k k.core = (headerAlg s k k.core).bind coreHash := by
  rw [primitiveHash_eq, headerAlg_eq]
  exact (coreHash_specAlg k).symm

theorem expectedPayload_of_not_added (i : Input) (hn : effectiveTamper i ≠ .addAnnotation) :
    expectedPayload i = requestedPayload i := by
  unfold expectedPayload; simp [hn]

/-- **Successful blob verification returns the descriptor of the blob that was verified**:
the content media type that was signed, the digest of the blob under the hash bound to the
key, its size, and exactly the signed metadata (plus the annotation an envelope plugin was
allowed to append, if it did). -/
theorem blob_returns_verified_descriptor (C : Crypto) (key : C.Key) (trust : C.Pub → Bool)
    (ht : trust (C.pub key) = true) (nowNs : Int) (i : Input) (hwf : wf i = true) (hk : i.kind = .blob)
    (hv : (runWith C key trust nowNs i).verified = true) :
    (runWith C key trust nowNs i).returned = (runWith C key trust nowNs i).payload ∧
    (runWith C key trust nowNs i).returned = some (expectedPayload i) ∧
    (expectedPayload i).mediaType = i.contentMediaType ∧
    (expectedPayload i).digest = i.blob.specDigest i.keySpec ∧
    (expectedPayload i).size = i.blob.size ∧
    (effectiveTamper i ≠ .addAnnotation → (expectedPayload i).annotations = mergeKV [] i.metadata) := by
  rw [runWith_eq C key trust ht nowNs i hwf] at hv ⊢
  unfold obsSpec at hv ⊢
  have hf := expectedPayload_fields i
  have hr := requestedPayload_blob i hk
  by_cases hl : legal i = true
  · simp only [hl, if_true] at hv ⊢
    refine ⟨by simp [hv, hk], by simp [hv, hk], by rw [hf.1, hr], by rw [hf.2.1, hr], by rw [hf.2.2.1, hr], ?_⟩
    intro hn
    rw [expectedPayload_of_not_added i hn, hr]
  · simp [hl, noSignature] at hv

/-- **The metadata read back is the metadata that was signed**: `UserMetadata()` of a
successful outcome returns the payload's annotations. For a blob that is exactly the signed
user metadata (as a map); for an OCI artifact it is the artifact's own annotations together
with the user metadata (the two are disjoint - colliding keys are refused at signing). An
envelope plugin that dropped or changed any of it was refused at signing (`legal`); one that
appended an annotation of its own contributes that one key and nothing else. -/
theorem metadata_read_back (C : Crypto) (key : C.Key) (trust : C.Pub → Bool)
    (ht : trust (C.pub key) = true) (nowNs : Int) (i : Input) (hwf : wf i = true)
    (hv : (runWith C key trust nowNs i).verified = true) :
    ∃ um, (runWith C key trust nowNs i).userMetadata = some um ∧
      ∀ k, (effectiveTamper i = .addAnnotation → k ≠ pluginAddedKey) →
        kvLookup k um =
        match i.kind with
        | .blob => kvLookup k i.metadata
        | .oci => (kvLookup k i.metadata).orElse (fun _ => kvLookup k i.desc.annotations) := by
  rw [runWith_eq C key trust ht nowNs i hwf] at hv ⊢
  unfold obsSpec at hv ⊢
  by_cases hl : legal i = true
  · simp only [hl, if_true] at hv ⊢
    refine ⟨(expectedPayload i).annotations, by simp [hv], ?_⟩
    intro k hkey
    have hreq : kvLookup k (expectedPayload i).annotations = kvLookup k (requestedPayload i).annotations := by
      unfold expectedPayload
      split
      · rename_i ht
        simp only [kvLookup_insert]
        have hne : ¬ pluginAddedKey = k := fun h => hkey ht h.symm
        simp [hne]
      · rfl
    rw [hreq]
    have hl' := hl
    cases hk : i.kind with
    | oci =>
      rw [requestedPayload_oci i hk]
      apply kvLookup_merge
      simp only [legal, hk, Bool.and_eq_true] at hl'
      exact hl'.1.2
    | blob =>
      have hlm : legalMetadata [] i.metadata = true := by
        simp only [legal, hk, Bool.and_eq_true] at hl'
        exact hl'.1.2.2
      rw [requestedPayload_blob i hk]
      simp only [kvLookup_merge k [] i.metadata hlm]
      cases kvLookup k i.metadata <;> simp [kvLookup]
  · simp [hl, noSignature] at hv

/-- **An unfaithful envelope plugin is refused at signing**: whatever it lost or changed of the
requested payload (an annotation dropped or changed, another media type or size, a member that
is not a descriptor field, an appended annotation that overrides a requested one), the signing
API returns no signature - for descriptors and metadata of any size. -/
theorem unfaithful_plugin_is_refused (C : Crypto) (key : C.Key) (nowNs : Int) (i : Input) (hwf : wf i = true)
    (hu : unfaithful (effectiveTamper i) (requestedPayload i) = true) : signModel C key i nowNs = none := by
  apply illegal_is_refused C key nowNs i hwf
  simp [legal, hu]

/-- only envelope-generator plugins can be unfaithful at all -/
theorem other_signers_are_faithful (i : Input) (hs : i.signer ≠ .pluginEnvelope) :
    effectiveTamper i = .faithful := by
  unfold effectiveTamper; simp [hs]

/-- a re-serialised payload (other member order, other white space) is the same payload -/
theorem reserialised_is_faithful (p : DescObs) :
    tamperPayload .reserialised p = p ∧ unfaithful .reserialised p = false := ⟨rfl, rfl⟩

/-- **The time zone of the signing process does not matter**: the stored expiry is the signing instant plus the
requested duration, as instants (`expiry_exact`); nothing is computed on the calendar. -/
theorem time_zone_irrelevant (i : Input) (z : String) : run { i with timeZone := z } = run i := rfl

theorem time_zone_irrelevant_holds (i : Input) (z : String) (o : Obs) :
    Holds { i with timeZone := z } o = Holds i o := rfl

/-- non-critical extended attributes an envelope plugin adds do not stand in the way of verification; only a
critical one nobody processes does, and then verification fails -/
theorem noncritical_attributes_do_not_block (i : Input)
    (h : i.extAttrs = .none ∨ i.extAttrs = .nonCritical ∨ i.extAttrs = .severalNonCritical) :
    unprocessedCritical i = false := by
  unfold unprocessedCritical effectiveExt
  rcases h with h | h | h <;> rw [h] <;> split <;> rfl

theorem other_signers_add_no_attributes (i : Input) (hs : i.signer ≠ .pluginEnvelope) :
    unprocessedCritical i = false := by
  unfold unprocessedCritical effectiveExt; simp [hs]; rfl

theorem critical_attribute_blocks_verification (i : Input) (hwf : wf i = true) (h : unprocessedCritical i = true) :
    (run i).verified = false := by
  rw [run_eq i hwf]
  unfold obsSpec
  split
  · simp [verifySpecP, verifySpec, blocked, h]
  · rfl

/-- **Which trusting statement applies does not matter** - wildcard, scoped, global or named, with or without a tsa
store - as long as it does not demand a timestamp: with `verifyTimestamp: afterCertExpiry` (or without a tsa store)
the fresh, un-timestamped signature of a signer whose certificates are valid verifies. -/
theorem timestamp_not_demanded (p : Policy) (h : p.tsaStore = false ∨ p.verifyTimestamp = .afterCertExpiry)
    (i : Input) : timestampDemanded { i with policy := p } = false := by
  unfold timestampDemanded
  rcases h with h | h <;> simp [h]

theorem policy_shape_irrelevant (i : Input) (p : Policy) (hwf : wf i = true)
    (h1 : timestampDemanded i = false) (h2 : timestampDemanded { i with policy := p } = false) :
    run { i with policy := p } = run i := by
  have hwf' : wf { i with policy := p } = true := hwf
  rw [run_eq _ hwf', run_eq _ hwf]
  unfold obsSpec verifySpecP
  rw [h1, h2]
  rfl

/-- **Where plugin-defined identities stand in the list, a stranger's signature on the same artifact (before or after,
same or other envelope format), and the validity bounds of a signing-authority certificate minted at signing time do
not matter** -/
theorem identity_list_irrelevant (i : Input) (l : IdentityList) : run { i with identities := l } = run i := rfl
theorem other_signature_irrelevant (i : Input) (x : OtherSignature) : run { i with otherSignature := x } = run i := rfl
theorem cert_window_irrelevant (i : Input) (w : CertWindow) : run { i with certWindow := w } = run i := rfl
theorem these_irrelevant_holds (i : Input) (l : IdentityList) (x : OtherSignature) (w : CertWindow) (o : Obs) :
    Holds { i with identities := l, otherSignature := x, certWindow := w } o = Holds i o := rfl

/-- under the signing-authority scheme no timestamp is ever demanded -/
theorem signingAuthority_needs_no_timestamp (i : Input) (h : effectiveScheme i = .signingAuthority) :
    timestampDemanded i = false := by
  simp [timestampDemanded, h]

/-- **Other calls in flight do not matter**: a round trip observes the same alone, interleaved with another blob
call in either role, or among many goroutines. -/
theorem in_flight_irrelevant (i : Input) (f : InFlight) : run { i with inFlight := f } = run i := rfl

theorem in_flight_irrelevant_holds (i : Input) (f : InFlight) (o : Obs) :
    Holds { i with inFlight := f } o = Holds i o := rfl

/-- the bytes the envelope happens to end in, and a line break after a JWS envelope, do not matter -/
theorem envelope_bytes_irrelevant (i : Input) (b : Option Nat) (nl : Bool) :
    run { i with envelopeLastByte := b, trailingNewline := nl } = run i := rfl

/-- **The payload's digest and size are those of the full byte sequence, regardless of reader
behaviour**: two well-formed inputs that differ only in how the readers deliver the blob (on
the signing side, the verifying side, or both) observe the same round trip. -/
theorem reader_behaviour_irrelevant (i : Input) (r₁ r₂ : Reader) (hwf : wf i = true)
    (hwf' : wf { i with signReader := r₁, verifyReader := r₂ } = true) :
    run { i with signReader := r₁, verifyReader := r₂ } = run i := by
  rw [run_eq _ hwf', run_eq _ hwf]
  rfl

/-- what the signed descriptor says about a blob: the digest under the key's hash and the size
of all the bytes the reader stands for -/
theorem blob_payload_covers_whole_stream (C : Crypto) (key : C.Key) (nowNs : Int) (i : Input) (e : Envelope C)
    (hwf : wf i = true) (hk : i.kind = .blob) (h : signModel C key i nowNs = some e) :
    e.attrs.payload.size = (represented i.signReader : Int) ∧
    e.attrs.payload.digest = i.blob.specDigest i.keySpec := by
  have hp := payload_is_sanitised_desc C key nowNs i e hwf h
  have hs := (wf_blob i hwf hk).1
  rw [copyLoop_eq_represented] at hs
  rw [hp.2.2.2.2.1, hp.2.2.2.1, requestedPayload_blob i hk]
  exact ⟨hs.symm, rfl⟩

/-! ### reused signer and verifier objects: the history does not matter -/

/-- the only thing a signer object remembers between calls is the plugin's manifest annotations
(regenerated: every write to a receiver field in signer/signer.go and signer/plugin.go) - in
particular no key spec, hash or descriptor is cached -/
theorem facts_signer_state :
    c07SignerFieldWrites = [("PluginSigner", "generateSignatureEnvelope", "manifestAnnotations")] := by decide

/-- **The history is irrelevant**: whatever was signed before on the same signer object (other
key behind the same key id, other key spec, OCI or blob, other format, any number of calls) and
however the key was selected, the round trip observes the same. -/
theorem history_irrelevant (C : Crypto) (key : C.Key) (trust : C.Pub → Bool) (nowNs : Int) (i : Input)
    (h : History) : runWith C key trust nowNs { i with history := h } = runWith C key trust nowNs i := rfl

theorem history_irrelevant_run (i : Input) (h : History) : run { i with history := h } = run i := rfl

theorem history_irrelevant_holds (i : Input) (h : History) (o : Obs) :
    Holds { i with history := h } o = Holds i o := rfl

/-- a sequence of round trips on shared objects is the sequence of the individual round trips,
from any object state -/
theorem runSeq_eq_map (C : Crypto) (key : KeySpec → C.Key) (trust : C.Pub → Bool) (st : ObjState)
    (xs : List (Int × Input)) :
    runSeqWith C key trust st xs = xs.map (fun x => runWith C (key x.2.keySpec) trust x.1 x.2) := by
  induction xs generalizing st with
  | nil => rfl
  | cons x rest ih =>
    obtain ⟨n, i⟩ := x
    simp only [runSeqWith, stepWith, List.map_cons, ih]

/-- **The sequence position does not matter**: under a policy that trusts every key the objects
sign with, the observation of a round trip at any position of any sequence, from any object
state and with any clocks, is `obsSpec` of its own input - so every legal round trip still
verifies and reports exactly what was signed (`model_holds`). -/
theorem sequence_position_irrelevant (C : Crypto) (key : KeySpec → C.Key) (trust : C.Pub → Bool)
    (ht : ∀ k, trust (C.pub (key k)) = true) (st : ObjState) (pre post : List (Int × Input))
    (nowNs : Int) (i : Input) (hwf : wf i = true) :
    (runSeqWith C key trust st (pre ++ (nowNs, i) :: post))[pre.length]? = some (obsSpec i) := by
  rw [runSeq_eq_map]
  simp [runWith_eq C (key i.keySpec) trust (ht i.keySpec) nowNs i hwf]

theorem sequence_holds (C : Crypto) (key : KeySpec → C.Key) (trust : C.Pub → Bool)
    (ht : ∀ k, trust (C.pub (key k)) = true) (st : ObjState) (xs : List (Int × Input))
    (hwf : ∀ x ∈ xs, wf x.2 = true) :
    ∀ p ∈ (xs.map (·.2)).zip (runSeqWith C key trust st xs), Holds p.1 p.2 = true := by
  rw [runSeq_eq_map]
  intro p hp
  have hmem : ∃ x ∈ xs, p = (x.2, runWith C (key x.2.keySpec) trust x.1 x.2) := by
    clear ht hwf
    induction xs with
    | nil => simp at hp
    | cons x rest ih =>
      simp only [List.map_cons, List.zip_cons_cons, List.mem_cons] at hp
      rcases hp with hp | hp
      · exact ⟨x, List.mem_cons_self, hp⟩
      · obtain ⟨y, hy, hy'⟩ := ih hp
        exact ⟨y, List.mem_cons_of_mem _ hy, hy'⟩
  obtain ⟨x, hx, rfl⟩ := hmem
  simp only
  rw [runWith_eq C (key x.2.keySpec) trust (ht x.2.keySpec) x.1 x.2 (hwf x hx), ← run_eq x.2 (hwf x hx)]
  exact model_holds x.2 (hwf x hx)

/-! ### codec round trips (regenerated tables of plugin/proto/algorithm.go) -/

/-- every key spec survives the plugin wire encoding, which is the name the specification gives it -/
theorem decodeKeySpec_encodeKeySpec (k : KeySpec) :
    c07ProtoEncodeKeySpec.lookup k.core = some k.protoName ∧
    c07ProtoDecodeKeySpec.lookup k.protoName = some k.core := by
  cases k <;> decide

/-- whatever name `DecodeKeySpec` accepts (any string at all), `EncodeKeySpec` gives it back -/
theorem encodeKeySpec_decodeKeySpec (name : String) (ks : String × Nat)
    (h : c07ProtoDecodeKeySpec.lookup name = some ks) : c07ProtoEncodeKeySpec.lookup ks = some name := by
  simp only [c07ProtoDecodeKeySpec, List.lookup] at h
  repeat' split at h
  all_goals first
    | (cases h; rename_i hb; simp at hb; subst hb; decide)
    | cases h

/-- whatever key spec `EncodeKeySpec` accepts, `DecodeKeySpec` gives it back -/
theorem decodeKeySpec_encodeKeySpec_any (ks : String × Nat) (name : String)
    (h : c07ProtoEncodeKeySpec.lookup ks = some name) : c07ProtoDecodeKeySpec.lookup name = some ks := by
  simp only [c07ProtoEncodeKeySpec, List.lookup] at h
  repeat' split at h
  all_goals first
    | (cases h; rename_i hb; simp at hb; subst hb; decide)
    | cases h

theorem decodeSigAlg_encodeSigAlg (alg name : String)
    (h : c07ProtoEncodeSigAlg.lookup alg = some name) : c07ProtoDecodeSigAlg.lookup name = some alg := by
  simp only [c07ProtoEncodeSigAlg, List.lookup] at h
  repeat' split at h
  all_goals first
    | (cases h; rename_i hb; simp at hb; subst hb; decide)
    | cases h

theorem encodeSigAlg_decodeSigAlg (name alg : String)
    (h : c07ProtoDecodeSigAlg.lookup name = some alg) : c07ProtoEncodeSigAlg.lookup alg = some name := by
  simp only [c07ProtoDecodeSigAlg, List.lookup] at h
  repeat' split at h
  all_goals first
    | (cases h; rename_i hb; simp at hb; subst hb; decide)
    | cases h

/-- every algorithm a supported key signs with has a wire name -/
theorem sigAlg_encodable (k : KeySpec) : (c07ProtoEncodeSigAlg.lookup (specAlg k)).isSome = true := by
  cases k <;> decide

/-! ### non-vacuity -/

/-- the toy scheme is a scheme in which forgery fails: another key's signature is rejected -/
example (m : ToSign) :
    toy.verify (toy.pub (toyKey .rsa2048)) m (toy.sign (toyKey .rsa3072) m) = false := by
  simp [toy, toyKey]

def exampleBlob : Input :=
  { kind := .blob, keySpec := .ec384, format := .cose, signer := .pluginSignature,
    desc := { mediaType := "", digest := "", size := 0, annotations := [], urls := [], platform := false,
              data := "", artifactType := "" },
    blob := { size := 3, sha256 := "sha256:aa", sha384 := "sha384:bb", sha512 := "sha512:cc" },
    -- signing: a zero-length read, one byte, then two bytes together with io.EOF; verifying: one byte at a time
    signReader := { direct := false, steps := [⟨0, 2, false⟩, ⟨1, 1, false⟩, ⟨2, 1, true⟩] },
    verifyReader := { direct := false, steps := [⟨1, 3, false⟩] },
    contentMediaType := "text/plain", mediaTypeValid := true,
    metadata := [⟨"commit", "1"⟩, ⟨"buildId", "7"⟩], durationNs := 2000000000, nowFracNs := 999999999,
    agent := "", verifyMediaType := .same, verifyMetadata := .all, lagSec := 1, exactIdentity := false, byTag := false,
    history := { position := 7, prevKeySpec := some .rsa2048, prevKind := some .oci, prevFormat := some .jws,
                 keyVia := .rotated },
    tamper := .reserialised, envelopeLastByte := some 32, trailingNewline := false,
    extAttrs := .nonCritical, timeZone := "Australia/Lord_Howe",
    policy := { tsaStore := true, verifyTimestamp := .afterCertExpiry, named := true }, inFlight := .pinnedFirst,
    identities := .foreignBefore, otherSignature := .strangerBeforeOtherFormat, scheme := .signingAuthority,
    certWindow := .notBeforeIsSigningTime }

/-- a concrete successful round trip (legal, verified, SHA-384 digest for an EC-384 key, 2 s expiry) -/
example : obsSpec exampleBlob =
    { signed := true, verified := true,
      payload := some { mediaType := "text/plain", digest := "sha384:bb", size := 3,
                        annotations := [⟨"buildId", "7"⟩, ⟨"commit", "1"⟩], extraKeys := [] },
      expirySec := some 2,
      returned := some { mediaType := "text/plain", digest := "sha384:bb", size := 3,
                         annotations := [⟨"buildId", "7"⟩, ⟨"commit", "1"⟩], extraKeys := [] },
      userMetadata := some [⟨"buildId", "7"⟩, ⟨"commit", "1"⟩] } := by decide

/-- the example's readers are well-formed, and the copy loop takes the bytes that come with io.EOF -/
example : wf exampleBlob = true := by decide
example : copyLoop exampleBlob.signReader.steps = 3 ∧ copyLoop exampleBlob.verifyReader.steps = 3 := by decide
/-- a reader that stands for fewer bytes than the blob is not well-formed -/
example : wf { exampleBlob with signReader := { direct := false, steps := [⟨1, 1, true⟩] } } = false := by decide
/-- `Holds` is false of a payload that describes a truncated blob (what a loop that drops the
bytes arriving with io.EOF would sign) -/
example : Holds exampleBlob { (obsSpec exampleBlob) with
    payload := some { mediaType := "text/plain", digest := "sha384:prefix", size := 1,
                      annotations := [⟨"buildId", "7"⟩, ⟨"commit", "1"⟩], extraKeys := [] } } = false := by decide

/-- an envelope plugin that drops or changes signed metadata is refused; one that appends an
annotation is accepted and the annotation is reported; other signers never see the payload -/
example : obsSpec { exampleBlob with signer := .pluginEnvelope, tamper := .dropAnnotation } = noSignature := by decide
example : obsSpec { exampleBlob with signer := .pluginEnvelope, tamper := .changeAnnotation } = noSignature := by decide
example : obsSpec { exampleBlob with signer := .pluginEnvelope, tamper := .changeMediaType } = noSignature := by decide
example : (obsSpec { exampleBlob with signer := .pluginEnvelope, tamper := .addAnnotation }).userMetadata =
    some [⟨"buildId", "7"⟩, ⟨"c07.plugin.added", "x"⟩, ⟨"commit", "1"⟩] := by decide
example : (obsSpec { exampleBlob with signer := .localKey, tamper := .dropAnnotation }).signed = true := by decide
/-- a non-critical extended attribute of an envelope plugin: signed and verified; a critical one: signed, not verified;
`Holds` is false if the non-critical one made verification fail -/
example : (obsSpec { exampleBlob with signer := .pluginEnvelope, extAttrs := .severalNonCritical }).verified = true := by decide
example : (obsSpec { exampleBlob with signer := .pluginEnvelope, extAttrs := .critical }).signed = true ∧
    (obsSpec { exampleBlob with signer := .pluginEnvelope, extAttrs := .critical }).verified = false := by decide
example : Holds { exampleBlob with signer := .pluginEnvelope, extAttrs := .nonCritical }
    { (obsSpec { exampleBlob with signer := .pluginEnvelope, extAttrs := .nonCritical }) with
      verified := false, returned := none, userMetadata := none } = false := by decide
/-- `Holds` is false of an expiry that is off by an hour (a validity that crossed a daylight-saving change on the calendar) -/
example : Holds { exampleBlob with durationNs := 8640000000000000 }
    { (obsSpec { exampleBlob with durationNs := 8640000000000000 }) with expirySec := some (8640000 + 3600) } = false := by decide

/-- tsa store + afterCertExpiry: verified; tsa store + always / unset: the un-timestamped signature is rejected;
`Holds` is false if afterCertExpiry behaved like always -/
example : (obsSpec exampleBlob).verified = true := by decide
example : (obsSpec { exampleBlob with policy := ⟨true, .always, false⟩ }).verified = false ∧
    (obsSpec { exampleBlob with policy := ⟨true, .unset, true⟩ }).verified = false ∧
    (obsSpec { exampleBlob with policy := ⟨false, .always, true⟩ }).verified = true := by decide
example : Holds exampleBlob { (obsSpec exampleBlob) with verified := false, returned := none, userMetadata := none } = false := by
  decide
/-- keys with white space at either end are keys like any other: signed, read back with the caller's spelling -/
example : (obsSpec { exampleBlob with metadata := [⟨" commit", "1"⟩, ⟨"build ", "7"⟩] }).userMetadata =
    some [⟨" commit", "1"⟩, ⟨"build ", "7"⟩] := by decide

/-- `Holds` is false when a plugin's dropped annotation goes unnoticed: signed, verified, metadata lost -/
example : Holds { exampleBlob with signer := .pluginEnvelope, tamper := .dropAnnotation, verifyMetadata := .nothing }
    { signed := true, verified := true,
      payload := some { mediaType := "text/plain", digest := "sha384:bb", size := 3,
                        annotations := [⟨"commit", "1"⟩], extraKeys := [] },
      expirySec := some 2,
      returned := some { mediaType := "text/plain", digest := "sha384:bb", size := 3,
                         annotations := [⟨"commit", "1"⟩], extraKeys := [] },
      userMetadata := some [⟨"commit", "1"⟩] } = false := by decide

/-- a reserved key, and a duration that is not a whole number of seconds, are refused -/
example : obsSpec { exampleBlob with metadata := [⟨"io.cncf.notary.x", "1"⟩] } = noSignature := by decide
example : obsSpec { exampleBlob with durationNs := 1500000000 } = noSignature := by decide

/-- verification after the expiry fails -/
example : (obsSpec { exampleBlob with lagSec := 2 }).verified = false := by decide

/-- `Holds` is false of wrong observations: a zero returned descriptor (the defect repaired by
d14a4b1), a digest under the wrong hash, lost metadata -/
example : Holds exampleBlob { (obsSpec exampleBlob) with returned := some zeroDesc } = false := by decide
example : Holds exampleBlob { (obsSpec exampleBlob) with
    payload := some { mediaType := "text/plain", digest := "sha256:aa", size := 3,
                      annotations := [⟨"buildId", "7"⟩, ⟨"commit", "1"⟩], extraKeys := [] } } = false := by decide
example : Holds exampleBlob { (obsSpec exampleBlob) with userMetadata := some [] } = false := by decide
example : Holds exampleBlob { (obsSpec exampleBlob) with verified := false, returned := none, userMetadata := none } = false := by
  decide

/-! ### tie to the translated source (docs/TIE_BRIEF.md)

`Generated/SrcC07*.lean` are translated from the Go source on every run (`extract/go2lean_c07.go`). The theorems
below say, for ALL inputs and EVERY choice of the oracles (Src/TypesC07.lean), that the translated functions accept
exactly the arguments the model accepts and compute the descriptor / digest algorithm the model computes.
`validateSignArguments` / `validateSigMediaType` are C11's translations and theorems (imported). -/

namespace Tie
open NotationModel.Src NotationModel.Src.«notation»

/-- closes what is left after the case analysis of a tie proof, whatever shape the translated text has: splits
every remaining `if` / `match`, simplifies with the hypotheses, discharges impossible list lengths -/
macro "tie_finish" : tactic =>
  `(tactic| repeat' (first
      | rfl | omega | (exfalso; omega) | (intros; exfalso; omega) | split
      | (simp_all [GoLite.deref, GoLite.idPure, GoLite.len, Option.isSome_iff_ne_none, Option.isNone_iff_eq_none]; done)
      | (intros; simp_all; done)
      | (simp_all [GoLite.deref, GoLite.idPure, GoLite.len, Option.isSome_iff_ne_none, Option.isNone_iff_eq_none])))

/-! #### `validateContentMediaType` -/

theorem source_validateContentMediaType_refines_model (env : BlobEnv) (s : String) :
    (validateContentMediaType env s).isNone = (s == "" || (env.parseMediaType s).isNone) := by
  unfold validateContentMediaType
  simp only [Id.run, BlobEnv.ParseMediaType]
  by_cases h : s = "" <;> by_cases hp : (env.parseMediaType s).isSome = true <;>
    simp [h, hp, GoLite.idPure] <;> (try rfl) <;> simp_all [GoLite.idPure]

/-! #### `SignBlob`: argument checks and what is handed to the signer -/

/-- what notation.SignBlob demands of its arguments, written out (`argsValid` is C11's characterisation of
`validateSignArguments`: signer not nil, expiry a non-negative whole number of seconds, one of the two envelope types) -/
def signBlobArgsLegal (env : BlobEnv) (signer : Option Signer) (reader : Option io.Reader) (o : SignBlobOptions) : Bool :=
  C11.Tie.argsValid signer o.SignerSignOptions && reader.isSome && o.ContentMediaType != "" &&
  (env.parseMediaType o.ContentMediaType).isNone

/-- TIE (translated source): for EVERY signer, reader, options and oracles, notation.SignBlob either refuses
(no signature, no signer info, an error - and the signer is not asked) or returns exactly what the signer's SignBlob
returns for the descriptor generator built from THIS reader, media type and metadata and for the embedded signer
options; it refuses exactly the illegal arguments. -/
theorem source_SignBlob_refines_model (env : BlobEnv) (signer : Option Signer) (reader : Option io.Reader)
    (o : SignBlobOptions) :
    (signBlobArgsLegal env signer reader o = true →
      SignBlob env signer reader o =
        env.signerSignBlob (getDescriptorFunc env reader o.ContentMediaType o.UserMetadata) o.SignerSignOptions) ∧
    (signBlobArgsLegal env signer reader o = false →
      (SignBlob env signer reader o).1 = none ∧ (SignBlob env signer reader o).2.1 = none ∧
      (SignBlob env signer reader o).2.2.isSome = true) := by
  have hv := C11.Tie.source_validateSignArguments_refines_model signer o.SignerSignOptions
  have hc := source_validateContentMediaType_refines_model env o.ContentMediaType
  unfold SignBlob signBlobArgsLegal
  simp only [Id.run, BlobEnv.SignerSignBlob]
  cases hva : validateSignArguments signer o.SignerSignOptions <;> rw [hva] at hv <;>
  cases reader <;>
  by_cases hm : o.ContentMediaType = "" <;>
  cases hvc : validateContentMediaType env o.ContentMediaType <;> rw [hvc] at hc <;>
  simp_all [GoLite.idPure] <;> (try rfl) <;> (try (intro h; simp_all))

/-- the options notation.SignBlob is called with in the model's round trip -/
def formatMediaType : Format → String
  | .jws => jws.MediaTypeEnvelope
  | .cose => cose.MediaTypeEnvelope

def kvPairs (m : List KV) : GoLite.Map String String := m.map (fun x => (x.k, x.v))

def signOptsOf (i : Input) : SignBlobOptions :=
  { SignerSignOptions := { SignatureMediaType := formatMediaType i.format, ExpiryDuration := i.durationNs },
    ContentMediaType := i.contentMediaType, UserMetadata := kvPairs i.metadata }

/-- the model's own argument checks of a blob signing call -/
def modelBlobArgsLegal (i : Input) : Bool :=
  signArgsOk i.durationNs && i.contentMediaType != "" && i.mediaTypeValid

/-- **The translated SignBlob accepts exactly the arguments the model accepts**: with a signer and a reader at
hand and `mime.ParseMediaType` answering what the input says (`mediaTypeValid`), for every input. -/
theorem source_SignBlob_accepts_iff_model (env : BlobEnv) (s : Signer) (r : io.Reader) (i : Input)
    (henv : (env.parseMediaType i.contentMediaType).isNone = i.mediaTypeValid) :
    signBlobArgsLegal env (some s) (some r) (signOptsOf i) = modelBlobArgsLegal i := by
  unfold signBlobArgsLegal modelBlobArgsLegal C11.Tie.argsValid signOptsOf
  rw [signArgsOk_eq]
  have hf : (formatMediaType i.format == jws.MediaTypeEnvelope || formatMediaType i.format == cose.MediaTypeEnvelope) = true := by
    cases i.format <;> decide
  simp only [henv, hf, Option.isSome_some, Bool.true_and, Bool.and_true, time.Second]
  by_cases h0 : 0 ≤ i.durationNs
  · simp [h0, Int.tmod_eq_emod_of_nonneg h0]
  · simp [h0]

/-- and the model refuses what fails these checks (so both refuse the same calls) -/
theorem model_refuses_illegal_blob_args (C : Crypto) (key : C.Key) (i : Input) (nowNs : Int) (hk : i.kind = .blob)
    (h : modelBlobArgsLegal i = false) : signModel C key i nowNs = none := by
  unfold modelBlobArgsLegal at h
  unfold signModel
  by_cases h1 : signArgsOk i.durationNs = true
  · by_cases h2 : i.contentMediaType = ""
    · simp [h1, hk, h2]
    · have h3 : i.mediaTypeValid = false := by simp_all
      simp [h1, hk, h2, h3]
  · simp [h1]

/-! #### the descriptor generator `getDescriptorFunc` returns -/

/-- TIE (translated source): for EVERY reader, media type, metadata, digest algorithm and oracles: if copying the
reader into the digester fails, that error comes back; otherwise the descriptor handed to
`addUserMetadataToDescriptor` (C11's translation) has the stated media type, the digester's digest, the number of
bytes `io.Copy` reports as its size, and NO annotations - and what the merge returns is returned. -/
theorem source_getDescriptorFunc_refines_model (env : BlobEnv) (reader : Option io.Reader) (cmt : String)
    (md : GoLite.Map String String) (alg : digest.Algorithm) :
    getDescriptorFunc env reader cmt md alg =
      if (env.Copy alg reader).2.isSome then (default, (env.Copy alg reader).2)
      else
        ((addUserMetadataToDescriptor
            { MediaType := cmt, Digest := env.digest alg reader, Size := (env.Copy alg reader).1, Annotations := [] } md).1,
         (addUserMetadataToDescriptor
            { MediaType := cmt, Digest := env.digest alg reader, Size := (env.Copy alg reader).1, Annotations := [] } md).2.1) := by
  unfold getDescriptorFunc
  simp only [Id.run, BlobEnv.Digest, GoLite.idPure]
  (try (repeat' split)) <;> first | rfl | simp_all

/-- `io.Copy`'s two results: the byte count and no error, or an error -/
theorem copy_results (env : BlobEnv) (alg : digest.Algorithm) (reader : Option io.Reader) :
    env.Copy alg reader = match env.copy alg reader with
      | .ok n => (n, none)
      | .error e => (0, some e) := rfl

/-- the descriptor the model hands to its metadata merge is that descriptor (media type, digest, size; no annotations) -/
theorem model_blobDescriptor_matches (i : Input) (dg : String) (n : Int) :
    let d := blobDescriptor i dg n []
    (d.mediaType, d.digest, d.size, d.annotations, d.urls, d.platform, d.data, d.artifactType) =
      (i.contentMediaType, dg, n, [], [], false, "", "") := rfl

/-! #### `notation.VerifyBlob`: argument checks, mapping of the options, what is returned -/

def verifyBlobArgsLegal (env : BlobEnv) (v : Option BlobVerifier) (reader : Option io.Reader) (sig : Bytes)
    (o : VerifyBlobOptions) : Bool :=
  v.isSome && reader.isSome && sig != [] &&
  (o.ContentMediaType == "" || (env.parseMediaType o.ContentMediaType).isNone) &&
  (o.SignatureMediaType == jws.MediaTypeEnvelope || o.SignatureMediaType == cose.MediaTypeEnvelope)

/-- what notation.VerifyBlob makes of the verifier's answer: an error is handed on; an outcome without envelope
content (verification skipped) comes back with the zero descriptor; otherwise the payload of the VERIFIED envelope is
decoded and its `TargetArtifact` is the descriptor returned (the repair d14a4b1) -/
def verifyBlobResult (env : BlobEnv) (r : Option BlobOutcome × Option GoLite.Err) :
    ocispec.Descriptor × Option BlobOutcome × Option GoLite.Err :=
  if r.2.isSome then (default, none, r.2)
  else if (GoLite.deref r.1).EnvelopeContent.isNone then (default, r.1, none)
  else
    let content := (GoLite.deref (GoLite.deref r.1).EnvelopeContent).Payload.Content
    if (env.unmarshalPayload content default).2.isSome then (default, none, (env.unmarshalPayload content default).2)
    else ((env.unmarshalPayload content default).1.TargetArtifact, r.1, none)

/-- TIE (translated source): for EVERY verifier, reader, signature, options and oracles, notation.VerifyBlob refuses
exactly the illegal arguments (without asking the verifier); otherwise it asks the verifier with the descriptor
generator built from THIS reader, the caller's content media type and required metadata, the signature and the embedded
verifier options, and returns `verifyBlobResult` of its answer. -/
theorem source_VerifyBlob_refines_model (env : BlobEnv) (v : Option BlobVerifier) (reader : Option io.Reader)
    (sig : Bytes) (o : VerifyBlobOptions) :
    (verifyBlobArgsLegal env v reader sig o = true →
      VerifyBlob env v reader sig o =
        verifyBlobResult env (env.verifierVerifyBlob
          (getDescriptorFunc env reader o.ContentMediaType o.BlobVerifierVerifyOptions.UserMetadata) sig
          o.BlobVerifierVerifyOptions)) ∧
    (verifyBlobArgsLegal env v reader sig o = false →
      (VerifyBlob env v reader sig o).1 = default ∧ (VerifyBlob env v reader sig o).2.1 = none ∧
      (VerifyBlob env v reader sig o).2.2.isSome = true) := by
  have hc : (validateContentMediaType env o.ContentMediaType).isSome =
      !(o.ContentMediaType == "" || (env.parseMediaType o.ContentMediaType).isNone) := by
    rw [← source_validateContentMediaType_refines_model]
    cases validateContentMediaType env o.ContentMediaType <;> rfl
  have hs : (validateSigMediaType o.SignatureMediaType).isSome =
      !(o.SignatureMediaType == jws.MediaTypeEnvelope || o.SignatureMediaType == cose.MediaTypeEnvelope) := by
    rw [← C11.Tie.source_validateSigMediaType_refines_model]
    cases validateSigMediaType o.SignatureMediaType <;> rfl
  unfold VerifyBlob verifyBlobArgsLegal verifyBlobResult
  simp only [Id.run, BlobEnv.VerifierVerifyBlob, BlobEnv.UnmarshalPayload, VerifyBlobOptions.SignatureMediaType,
    VerifyBlobOptions.UserMetadata, GoLite.idPure] at *
  refine ⟨fun hl => ?_, fun hl => ?_⟩
  · -- legal arguments: the verifier's answer and the decoding of its payload, whatever they are
    by_cases he : (env.verifierVerifyBlob
        (getDescriptorFunc env reader o.ContentMediaType o.BlobVerifierVerifyOptions.UserMetadata) sig
        o.BlobVerifierVerifyOptions).2 = none <;>
    by_cases hn : (GoLite.deref (env.verifierVerifyBlob
        (getDescriptorFunc env reader o.ContentMediaType o.BlobVerifierVerifyOptions.UserMetadata) sig
        o.BlobVerifierVerifyOptions).1).EnvelopeContent = none <;>
    by_cases hu : (env.unmarshalPayload (GoLite.deref (GoLite.deref (env.verifierVerifyBlob
        (getDescriptorFunc env reader o.ContentMediaType o.BlobVerifierVerifyOptions.UserMetadata) sig
        o.BlobVerifierVerifyOptions).1).EnvelopeContent).Payload.Content default).2 = none <;>
    (cases v <;> cases reader <;> cases sig <;>
     by_cases hvc : (validateContentMediaType env o.ContentMediaType).isSome = true <;>
     by_cases hvs : (validateSigMediaType o.BlobVerifierVerifyOptions.SignatureMediaType).isSome = true <;>
     simp_all [GoLite.idPure, GoLite.len] <;> tie_finish)
  · -- illegal arguments: refused before the verifier is asked
    cases v <;> cases reader <;> cases sig <;>
    by_cases hvc : (validateContentMediaType env o.ContentMediaType).isSome = true <;>
    by_cases hvs : (validateSigMediaType o.BlobVerifierVerifyOptions.SignatureMediaType).isSome = true <;>
    by_cases hcm : o.ContentMediaType = "" <;>
    by_cases hj : o.BlobVerifierVerifyOptions.SignatureMediaType = jws.MediaTypeEnvelope <;>
    simp_all [GoLite.idPure, GoLite.len] <;> tie_finish

/-- the model's blob verification returns the verified payload's descriptor too -/
theorem model_verifyBlob_returns_payload {C : Crypto} (trust : C.Pub → Bool) (nowSec : Int) (b : Blob) (n : Int)
    (stated : String) (want : List KV) (e : Envelope C) (r : DescObs)
    (h : verifyBlob trust nowSec b n stated want e = some r) : r = e.attrs.payload := by
  unfold verifyBlob at h
  repeat' split at h
  all_goals first | (cases h; rfl) | cases h | (simp at h; exact h.symm) | simp_all

/-! #### `envelope.SanitizeTargetArtifact` -/

/-- TIE (translated source): for EVERY descriptor exactly media type, digest, size and annotations survive. (The
result type has no other field: a version that copied `URLs`, `Data`, `Platform` or `ArtifactType`, or dropped one of
the four, does not even translate.) -/
theorem source_SanitizeTargetArtifact_refines_model (d : ocispec.FullDescriptor) :
    envelope.SanitizeTargetArtifact d =
      { MediaType := d.MediaType, Digest := d.Digest, Size := d.Size, Annotations := d.Annotations } := by
  unfold envelope.SanitizeTargetArtifact
  simp only [Id.run, GoLite.idPure]

/-- the two descriptor types seen from the model -/
def kvOfPairs (m : GoLite.Map String String) : List KV := m.map (fun p => ⟨p.1, p.2⟩)
def fullDescOf (d : ocispec.FullDescriptor) : FullDesc :=
  { mediaType := d.MediaType, digest := d.Digest, size := d.Size, annotations := kvOfPairs d.Annotations,
    urls := d.URLs, platform := d.Platform.isSome, data := d.Data, artifactType := d.ArtifactType }
def descObsOf (d : ocispec.Descriptor) : DescObs :=
  { mediaType := d.MediaType, digest := d.Digest, size := d.Size, annotations := kvOfPairs d.Annotations, extraKeys := [] }

/-- **the translated sanitiser computes the model's payload** (`payloadOf` over the regenerated field list), for
every descriptor whatever its extra fields -/
theorem source_SanitizeTargetArtifact_matches_model (d : ocispec.FullDescriptor) :
    descObsOf (envelope.SanitizeTargetArtifact d) = payloadOf Facts.c07GenericSignSanitizes (fullDescOf d) := by
  rw [source_SanitizeTargetArtifact_refines_model, (payloadOf_sanitised (fullDescOf d)).1]
  rfl

/-! #### digest algorithm from the key spec (signer) and from the signature algorithm (verifier) -/

def keyTypeName : signature.KeyType → String
  | .KeyTypeRSA => "RSA" | .KeyTypeEC => "EC" | .zero => ""
def algName : signature.Algorithm → String
  | .AlgorithmPS256 => "PS256" | .AlgorithmPS384 => "PS384" | .AlgorithmPS512 => "PS512"
  | .AlgorithmES256 => "ES256" | .AlgorithmES384 => "ES384" | .AlgorithmES512 => "ES512" | .zero => ""
def digestName : digest.Algorithm → String
  | .SHA256 => "SHA256" | .SHA384 => "SHA384" | .SHA512 => "SHA512" | .unknown => ""

/-- the key spec of the translated code for a key spec of the model -/
def srcKeySpec (k : KeySpec) : signature.KeySpec :=
  match k with
  | .rsa2048 => ⟨.KeyTypeRSA, 2048⟩ | .rsa3072 => ⟨.KeyTypeRSA, 3072⟩ | .rsa4096 => ⟨.KeyTypeRSA, 4096⟩
  | .ec256 => ⟨.KeyTypeEC, 256⟩ | .ec384 => ⟨.KeyTypeEC, 384⟩ | .ec521 => ⟨.KeyTypeEC, 521⟩

/-- the hand-written copies of notation-core-go's tables agree with the tables regenerated from the module's
source, on the six supported key specs and all their algorithms -/
theorem core_tables_agree (k : KeySpec) :
    coreSigAlg k.core = some (algName (srcKeySpec k).SignatureAlgorithm) ∧
    coreHash (algName (srcKeySpec k).SignatureAlgorithm) = some (specDigestAlg k) ∧
    (keyTypeName (srcKeySpec k).«Type», (srcKeySpec k).Size.toNat) = k.core := by
  cases k <;> decide

/-- TIE (translated source): signer.getDescriptor looks the hash of the key spec's signature algorithm up in
`algorithms` and hands the digest algorithm to the generator; an unavailable hash is an error and the generator is not
asked - for EVERY key spec (supported or not) and generator. -/
theorem source_getDescriptor_refines_model (ks : signature.KeySpec)
    (gen : digest.Algorithm → ocispec.Descriptor × Option GoLite.Err) :
    signer.getDescriptor ks gen =
      if (GoLite.Map.lookup signer.algorithms ks.SignatureAlgorithm.Hash).2
      then gen (GoLite.Map.lookup signer.algorithms ks.SignatureAlgorithm.Hash).1
      else (default, some ⟨"error"⟩) := by
  unfold signer.getDescriptor
  simp only [Id.run, GoLite.idPure]
  (try (repeat' split)) <;> first | rfl | simp_all

/-- **the translated table lookup is the model's**: for each of the six key specs the digest algorithm the
translated signer derives is the one the model derives from the regenerated tables, which is the hash bound to the key -/
theorem source_signer_digest_matches_model (k : KeySpec) :
    (GoLite.Map.lookup signer.algorithms (srcKeySpec k).SignatureAlgorithm.Hash).2 = true ∧
    some (digestName (GoLite.Map.lookup signer.algorithms (srcKeySpec k).SignatureAlgorithm.Hash).1) = signerDigestAlg k.core ∧
    signerDigestAlg k.core = some (specDigestAlg k) := by
  cases k <;> decide

/-- an unsupported key spec has no signature algorithm, hence no hash, hence no digest algorithm: signing a blob is refused -/
theorem source_getDescriptor_unsupported (ks : signature.KeySpec) (gen : digest.Algorithm → ocispec.Descriptor × Option GoLite.Err)
    (h : ks.SignatureAlgorithm = .zero) : (signer.getDescriptor ks gen).2.isSome = true := by
  rw [source_getDescriptor_refines_model, h]
  have : (GoLite.Map.lookup signer.algorithms signature.Algorithm.zero.Hash).2 = false := by decide
  simp [this]

/-- what the tail of verifier.VerifyBlob demands, written out -/
def tailAccepts (env : verifier.VEnv) (gen : digest.Algorithm → ocispec.Descriptor × Option GoLite.Err)
    (md : GoLite.Map String String) (alg : signature.Algorithm) (p : envelope.Payload) : Bool :=
  match GoLite.Map.get? verifier.algorithms alg.Hash with
  | none => false
  | some da =>
    (gen da).2.isNone &&
    !((gen da).1.Digest != p.TargetArtifact.Digest || (gen da).1.Size != p.TargetArtifact.Size ||
      ((gen da).1.MediaType != "" && (gen da).1.MediaType != p.TargetArtifact.MediaType)) &&
    (md.length == 0 || (env.verifyUserMetadata p md).isNone)

/-- TIE (translated source): after a successful processSignature and payload decoding, verifier.VerifyBlob accepts
exactly when the hash of the envelope's signature algorithm is available in `algorithms`, the generator yields a
descriptor for that digest algorithm, its digest and size equal the payload's, its media type - if the caller stated one -
equals the payload's, and the required metadata (if any) is verified; the returned error is the outcome's error.
For EVERY generator, options, outcome and payload. -/
theorem source_verifyBlobTail_refines_model (env : verifier.VEnv)
    (gen : digest.Algorithm → ocispec.Descriptor × Option GoLite.Err) (opts : verifier.BlobVerifierVerifyOptions)
    (outcome : verifier.BlobOutcome) (p : envelope.Payload) (h0 : outcome.Error = none) :
    (verifier.verifyBlobTail env gen opts none outcome p).2.isNone =
      tailAccepts env gen opts.UserMetadata outcome.EnvelopeContent.SignerInfo.SignatureAlgorithm p ∧
    (verifier.verifyBlobTail env gen opts none outcome p).1.Error = (verifier.verifyBlobTail env gen opts none outcome p).2 := by
  unfold verifier.verifyBlobTail tailAccepts
  simp only [Id.run, GoLite.idPure, GoLite.Map.lookup, fmt.Sprintf]
  cases hl : GoLite.Map.get? verifier.algorithms outcome.EnvelopeContent.SignerInfo.SignatureAlgorithm.Hash with
  | none => simp [GoLite.idPure]
  | some da =>
    cases hg : gen da with
    | mk desc gerr =>
      by_cases he : gerr.isSome = true
      · simp [GoLite.idPure, he, hg] <;> (try (intros; simp_all; done))
      · by_cases h1 : desc.Digest = p.TargetArtifact.Digest <;>
        by_cases h2 : desc.Size = p.TargetArtifact.Size <;>
        by_cases h3 : desc.MediaType = "" <;>
        by_cases h4 : desc.MediaType = p.TargetArtifact.MediaType <;>
        by_cases hlen : opts.UserMetadata = [] <;>
        by_cases hum : env.verifyUserMetadata p opts.UserMetadata = none <;>
        simp_all [GoLite.idPure, GoLite.len, bne_iff_ne, List.length_pos_iff, List.length_eq_zero_iff] <;>
        (try omega) <;> (try (repeat' split)) <;>
        (try (first | rfl | (simp_all [List.length_pos_iff, List.length_eq_zero_iff]; done) | omega | (intros; simp_all; done) |
          (refine ⟨?_, rfl⟩; cases hv : env.verifyUserMetadata p opts.UserMetadata <;>
            simp_all [List.length_pos_iff, List.length_eq_zero_iff])))

/-- **the translated table lookup is the model's** (verifier side): for every signature algorithm the digest
algorithm is the one the model derives from the regenerated tables -/
theorem source_verifier_digest_matches_model (k : KeySpec) :
    (GoLite.Map.get? verifier.algorithms (srcKeySpec k).SignatureAlgorithm.Hash).map digestName =
      verifierDigestAlg (algName (srcKeySpec k).SignatureAlgorithm) ∧
    verifierDigestAlg (algName (srcKeySpec k).SignatureAlgorithm) = some (specDigestAlg k) := by
  cases k <;> decide

/-- the availability guard: the zero algorithm (an envelope whose algorithm notation-core-go does not know) is refused -/
theorem source_verifyBlobTail_unknown_algorithm (env : verifier.VEnv)
    (gen : digest.Algorithm → ocispec.Descriptor × Option GoLite.Err) (md : GoLite.Map String String) (p : envelope.Payload) :
    tailAccepts env gen md .zero p = false := by
  have : GoLite.Map.get? verifier.algorithms signature.Algorithm.zero.Hash = none := by decide
  simp [tailAccepts, this]

/-! #### non-vacuity: the translated functions run -/

def exEnv : BlobEnv :=
  { parseMediaType := fun s => if s == "text/plain" then none else some ⟨"error"⟩,
    copy := fun _ _ => .ok 3, digest := fun a _ => digestName a ++ ":abc",
    signerSignBlob := fun gen _ => (some [1], none, (gen .SHA384).2),
    verifierVerifyBlob := fun _ _ _ => (some ⟨1, some ⟨⟨"payload"⟩, ⟨.AlgorithmES384⟩⟩⟩, none),
    unmarshalPayload := fun _ _ => (⟨⟨"text/plain", "SHA384:abc", 3, [("k", "v")]⟩⟩, none) }

example : getDescriptorFunc exEnv (some ⟨0⟩) "text/plain" [("k", "v")] .SHA384 =
    (⟨"text/plain", "SHA384:abc", 3, [("k", "v")]⟩, none) := by decide
example : (getDescriptorFunc exEnv (some ⟨0⟩) "text/plain" [("io.cncf.notary.x", "v")] .SHA384).2.isSome = true := by decide
example : SignBlob exEnv (some ⟨⟩) (some ⟨0⟩)
    ⟨⟨"application/cose", 2000000000⟩, "text/plain", [("k", "v")]⟩ = (some [1], none, none) := by decide
example : (SignBlob exEnv (some ⟨⟩) (some ⟨0⟩) ⟨⟨"application/cose", 1500000000⟩, "text/plain", []⟩).2.2.isSome = true := by decide
example : (SignBlob exEnv (some ⟨⟩) (some ⟨0⟩) ⟨⟨"application/cose", 0⟩, "application/", []⟩).2.2.isSome = true := by decide
example : VerifyBlob exEnv (some ⟨⟩) (some ⟨0⟩) [1] ⟨⟨"application/cose", [], ""⟩, ""⟩ =
    (⟨"text/plain", "SHA384:abc", 3, [("k", "v")]⟩, some ⟨1, some ⟨⟨"payload"⟩, ⟨.AlgorithmES384⟩⟩⟩, none) := by decide
example : (VerifyBlob exEnv (some ⟨⟩) (some ⟨0⟩) [] ⟨⟨"application/cose", [], ""⟩, ""⟩).2.2.isSome = true := by decide
example : envelope.SanitizeTargetArtifact ⟨"m", "d", 7, [("a", "b")], ["u"], "data", some "linux", "t"⟩ =
    ⟨"m", "d", 7, [("a", "b")]⟩ := by decide
example : signer.getDescriptor ⟨.KeyTypeEC, 384⟩ (fun a => (⟨"", digestName a, 0, []⟩, none)) =
    (⟨"", "SHA384", 0, []⟩, none) := by decide
example : (signer.getDescriptor ⟨.KeyTypeEC, 512⟩ (fun a => (⟨"", digestName a, 0, []⟩, none))).2.isSome = true := by decide
example : (verifier.verifyBlobTail ⟨fun _ _ => none⟩ (fun a => (⟨"", digestName a, 3, []⟩, none)) ⟨[]⟩ none
    ⟨⟨⟨"c"⟩, ⟨.AlgorithmPS512⟩⟩, none⟩ ⟨⟨"text/plain", "SHA512", 3, []⟩⟩).2 = none := by decide
example : (verifier.verifyBlobTail ⟨fun _ _ => none⟩ (fun a => (⟨"", digestName a, 2, []⟩, none)) ⟨[]⟩ none
    ⟨⟨⟨"c"⟩, ⟨.AlgorithmPS512⟩⟩, none⟩ ⟨⟨"text/plain", "SHA512", 3, []⟩⟩).2.isSome = true := by decide

end Tie
end NotationModel.C07

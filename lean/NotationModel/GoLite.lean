/-
GoLite - the run-time library of the Go-to-Lean translator (`/verif/extract/go2lean.go`).

The translator turns selected Go functions of /repo into Lean `Id.run do` blocks (mutable
locals become `let mut`, `for` loops become `for .. in ..`, early `return` stays `return`).
Everything the translated text may refer to that is not Go syntax lives here: integer ranges
for counting loops, indexing, association-list maps, `nil`-able values as `Option`, error values.

Conventions (part of the trusted base, DESIGN.md 10.5):
* Go `int` is `Int` (no overflow: none of the translated functions does arithmetic beyond
  counting list positions); Go `string` is `String` (compared and searched by Unicode scalar -
  the translated functions only compare whole strings or look for ASCII separators).
* a Go map is an association list; `Map.set` keeps one entry per key; iteration order is the
  list order, i.e. ONE of the orders Go may pick - theorems about translated loops over maps are
  stated for every list, hence for every order.
* a pointer that may be nil is an `Option`; dereferencing nil yields `default` here where Go
  would panic (absence of panics is property C12's business, not the translator's).
* an error value is `Err kind` - the translated functions are judged on whether and which kind
  of error they return, not on message texts (`errorf` forgets its format string).
-/
namespace GoLite

/-- `for i := hi; i >= lo; i--` -/
def downTo (hi lo : Int) : List Int :=
  (List.range (hi - lo + 1).toNat).reverse.map (fun (k : Nat) => lo + (k : Int))

/-- `for i := lo; i < hi; i++` -/
def upTo (lo hi : Int) : List Int :=
  (List.range (hi - lo).toNat).map (fun (k : Nat) => lo + (k : Int))

def idx [Inhabited α] (xs : List α) (i : Int) : α := xs[i.toNat]!

theorem idx_natCast [Inhabited α] (xs : List α) (k : Nat) : idx xs (k : Int) = xs[k]! := by
  simp [idx]

abbrev len (xs : List α) : Int := (xs.length : Int)

def contains [BEq α] (xs : List α) (x : α) : Bool := xs.contains x

/-- `for i, x := range xs` -/
def enum (xs : List α) : List (Int × α) := (List.range xs.length).map (fun (k : Nat) => (k : Int)) |>.zip xs

def deref [Inhabited α] (p : Option α) : α := p.getD default

/-- `*S[i] = v` for a slice of pointers kept as a list of values (translator option ptrSlice) -/
def setAt (xs : List α) (i : Int) (v : α) : List α := xs.set i.toNat v

/-- error values: only the kind is kept (the Go error type, or "error" for fmt.Errorf /
errors.New); message texts are not modelled, so a reworded message changes nothing here -/
structure Err where
  kind : String
  deriving DecidableEq, Repr, Inhabited

def errorf (_fmt : String) : Err := ⟨"error"⟩
def errT (kind _fmt : String) : Err := ⟨kind⟩
/-- `fmt.Errorf("..%w..", .., err)`: the new error wraps `err`, so `errors.Is` sees through it -
the kind of the wrapped error is kept (a nil `err` gives a plain error) -/
def wrapf (_fmt : String) (e : Option Err) : Err := e.getD ⟨"error"⟩

/-- `errors.Is(err, target)` for sentinel / typed errors: same kind -/
def errIs (e : Option Err) (target : Err) : Bool := e == some target
/-- `errors.Join(errs...)`: nil iff every element is nil -/
def errJoin (es : List (Option Err)) : Option Err := if es.all (·.isNone) then none else some ⟨"joined"⟩

/-- a Go map as an association list -/
abbrev Map (κ ν : Type) := List (κ × ν)

namespace Map
def get? [BEq κ] (m : Map κ ν) (k : κ) : Option ν := (m.find? (fun p => p.1 == k)).map (·.2)
/-- `v, ok := m[k]` -/
def lookup [BEq κ] [Inhabited ν] (m : Map κ ν) (k : κ) : ν × Bool :=
  match get? m k with
  | some v => (v, true)
  | none => (default, false)
/-- `m[k]` -/
def get [BEq κ] [Inhabited ν] (m : Map κ ν) (k : κ) : ν := (lookup m k).1
/-- `m[k] = v` -/
def set [BEq κ] (m : Map κ ν) (k : κ) (v : ν) : Map κ ν :=
  if m.any (fun p => p.1 == k) then m.map (fun p => if p.1 == k then (k, v) else p) else m ++ [(k, v)]
end Map

/-- `strings.Cut(s, sep)` for a one-character separator -/
def cut (s : String) (sep : Char) : String × String × Bool :=
  let cs := s.toList
  if cs.contains sep then
    (String.ofList (cs.takeWhile (· != sep)), String.ofList ((cs.dropWhile (· != sep)).drop 1), true)
  else (s, "", false)

/-- `strings.ContainsAny(s, chars)` -/
def containsAny (s chars : String) : Bool := s.toList.any (fun c => chars.toList.contains c)

/-- `strings.TrimSpace` (Unicode White_Space restricted to what Go's unicode.IsSpace knows in Latin-1) -/
def isSpace (c : Char) : Bool :=
  c == ' ' || c == '\t' || c == '\n' || c == '\x0b' || c == '\x0c' || c == '\r' || c == '\u0085' || c == '\u00a0'
def trimSpace (s : String) : String :=
  String.ofList ((s.toList.dropWhile isSpace).reverse.dropWhile isSpace).reverse

/-- `x[lo:hi]` / `x[:hi]` / `x[lo:]` (`hi = none`: up to the end). On strings positions count
characters where Go counts bytes: a translated function must obtain its positions from an operation
that counts the same way (e.g. an index-of oracle defined on characters), as noted at the target. -/
class Slice (α : Type) where
  slice : α → Int → Option Int → α

instance {β : Type} : Slice (List β) where
  slice xs lo hi := ((match hi with | some h => xs.take h.toNat | none => xs)).drop lo.toNat

instance : Slice String where
  slice s lo hi := String.ofList (((match hi with | some h => s.toList.take h.toNat | none => s.toList)).drop lo.toNat)

def slice {α : Type} [Slice α] (x : α) (lo : Int) (hi : Option Int) : α := Slice.slice x lo hi

/-! ### `Id` computations are plain values -/
theorem idPure {α : Type} (a : α) : (pure a : Id α) = a := rfl
theorem idBind {α β : Type} (x : Id α) (f : α → Id β) : x >>= f = f x := rfl

/-! ### counting loops as recursion (used by the tie proofs) -/

theorem downTo_succ (n : Nat) :
    downTo (n : Int) 0 = (n : Int) :: downTo ((n : Int) - 1) 0 := by
  unfold downTo
  have h1 : ((n : Int) - 0 + 1).toNat = n + 1 := by omega
  have h2 : ((n : Int) - 1 - 0 + 1).toNat = n := by omega
  rw [h1, h2, List.range_succ]
  simp

theorem downTo_neg : downTo (-1) 0 = [] := by
  unfold downTo; simp

/-- a counting-down loop as recursion: `step (n-1)` first, `step 0` last -/
def loopDown (step : Nat → σ → σ) : Nat → σ → σ
  | 0, s => s
  | n + 1, s => loopDown step n (step n s)

/-- `for i := n-1; i >= 0; i--` whose body always runs to its end (no break / return) is
`loopDown` of the body's state transformer -/
theorem forIn_downTo_eq_loopDown {σ : Type} (body : Int → σ → Id (ForInStep σ)) (step : Nat → σ → σ)
    (h : ∀ (k : Nat) s, body (k : Int) s = pure (ForInStep.yield (step k s))) (n : Nat) (s : σ) :
    forIn (downTo ((n : Int) - 1) 0) s body = pure (loopDown step n s) := by
  induction n generalizing s with
  | zero => simp [downTo_neg, loopDown]
  | succ n ih =>
    have e : (((n + 1 : Nat) : Int) - 1) = (n : Int) := by omega
    rw [e, downTo_succ, List.forIn_cons, h]
    simp only [pure_bind]
    exact ih (step n s)

/-- the state transformer of a loop body -/
def stepOf {σ : Type} (body : Int → σ → Id (ForInStep σ)) (k : Nat) (s : σ) : σ := (Id.run (body (k : Int) s)).value

/-- the same without naming the transformer: it is read off the body -/
theorem forIn_downTo_of_yields {σ : Type} (body : Int → σ → Id (ForInStep σ))
    (hy : ∀ (k : Nat) s, ∃ s', body (k : Int) s = pure (ForInStep.yield s')) (n : Nat) (s : σ) :
    forIn (downTo ((n : Int) - 1) 0) s body = pure (loopDown (stepOf body) n s) := by
  apply forIn_downTo_eq_loopDown
  intro k s
  obtain ⟨s', h⟩ := hy k s
  simp [stepOf, h, ForInStep.value]

/-- simulation: if every step of a loop commutes with an abstraction function, so does the loop -/
theorem loopDown_sim {σ τ : Type} (step : Nat → σ → σ) (abs : τ → σ) (mstep : Nat → τ → τ) (n : Nat)
    (h : ∀ k, k < n → ∀ t, step k (abs t) = abs (mstep k t)) (s : σ) (t : τ) (hs : s = abs t) :
    loopDown step n s = abs (loopDown mstep n t) := by
  induction n generalizing s t with
  | zero => simpa [loopDown] using hs
  | succ n ih =>
    rw [loopDown, loopDown]
    apply ih (fun k hk => h k (by omega))
    rw [hs, h n (by omega)]

/-! ### search loops -/

/-- `for _, x := range xs { if p(x) { r = &x } }`: the last match wins -/
theorem forIn_lastMatch {α : Type} (xs : List α) (p : α → Bool) (b : Option α) :
    (forIn xs b (fun x s => if p x = true then (pure (ForInStep.yield (some x)) : Id _) else pure (ForInStep.yield s))) =
      pure (match (xs.filter p).getLast? with
        | some x => some x
        | none => b) := by
  induction xs generalizing b with
  | nil => simp
  | cons x xs ih =>
    rw [List.forIn_cons]
    by_cases hp : p x = true
    · simp only [hp, if_true, pure_bind, ih, List.filter_cons_of_pos]
      cases h : (xs.filter p).getLast? with
      | none =>
        have : xs.filter p = [] := by simpa using h
        simp [this]
      | some y =>
        have hne : xs.filter p ≠ [] := by intro e; simp [e] at h
        simp [List.getLast?_cons_of_ne_nil hne, h] <;> simp [List.getLast?_eq_some_getLast hne] at h ⊢ <;> simp_all
    · simp only [hp, Bool.false_eq_true, if_false, pure_bind, ih]
      simp [List.filter_cons, hp]

/-- `for _, t := range xs { if t == k { r = t; break } }`: `k` if it occurs, else the start value -/
theorem forIn_firstEq {α : Type} [BEq α] [LawfulBEq α] (xs : List α) (k d : α) :
    (forIn xs d (fun t s => if (t == k) = true then (pure (ForInStep.done t) : Id _) else pure (ForInStep.yield s))) =
      pure (if xs.contains k then k else d) := by
  induction xs with
  | nil => simp
  | cons x xs ih =>
    rw [List.forIn_cons]
    by_cases hx : (x == k) = true
    · have : x = k := by simpa using hx
      simp [hx, this]
    · have hx' : (x == k) = false := by simpa using hx
      have hk : (k == x) = false := by
        cases h : (k == x) with
        | false => rfl
        | true => simp at h; simp [h] at hx
      simp only [hx', Bool.false_eq_true, if_false, pure_bind, ih, List.contains_cons, hk, Bool.false_or]

/-- `for _, x := range xs { if p(x) { r = append(r, x) } }` is `filter` -/
theorem forIn_appendIf {α : Type} (l : List α) (p : α → Bool) (acc : List α) :
    (forIn l acc (fun a r => if p a = true then (pure (ForInStep.yield (r ++ [a])) : Id _) else pure (ForInStep.yield r))) =
      pure (acc ++ l.filter p) := by
  induction l generalizing acc with
  | nil => simp
  | cons a l ih =>
    rw [List.forIn_cons]
    by_cases hp : p a = true
    · simp only [hp, if_true, pure_bind, ih, List.filter_cons_of_pos]; simp
    · simp only [hp, Bool.false_eq_true, if_false, pure_bind, ih]
      simp [List.filter_cons, hp]

/-! ### loops that may stop early (`return` / `break` inside `for .. range`) -/

/-- a fold that stops at the first error, remembering the state it stopped in -/
def foldE {α τ ε : Type} (step : τ → α → Except ε τ) : List α → τ → Except (τ × ε) τ
  | [], t => .ok t
  | a :: l, t =>
    match step t a with
    | .ok t' => foldE step l t'
    | .error e => .error (t, e)

/-- a `for .. range` loop whose body, seen through an abstraction of the loop state, either
continues with a new abstract state or stops: it is `foldE` of the abstract step -/
theorem forIn_eq_foldE {α S τ ε : Type} (body : α → S → Id (ForInStep S))
    (step : τ → α → Except ε τ) (abs : τ → S) (stop : τ → ε → S)
    (h : ∀ a t, body a (abs t) =
      pure (match step t a with
        | .ok t' => ForInStep.yield (abs t')
        | .error e => ForInStep.done (stop t e)))
    (l : List α) (t : τ) :
    forIn l (abs t) body =
      pure (match foldE step l t with
        | .ok t' => abs t'
        | .error (t', e) => stop t' e) := by
  induction l generalizing t with
  | nil => simp [foldE]
  | cons a l ih =>
    rw [List.forIn_cons, h]
    cases hs : step t a with
    | ok t' => simp [foldE, hs, ih]
    | error e => simp [foldE, hs]

/-- the same for a start state that is only known to be an abstraction -/
theorem forIn_eq_foldE' {α S τ ε : Type} (body : α → S → Id (ForInStep S))
    (step : τ → α → Except ε τ) (abs : τ → S) (stop : τ → ε → S)
    (h : ∀ a t, body a (abs t) =
      pure (match step t a with
        | .ok t' => ForInStep.yield (abs t')
        | .error e => ForInStep.done (stop t e)))
    (l : List α) (s : S) (t : τ) (hs : s = abs t) :
    forIn l s body =
      pure (match foldE step l t with
        | .ok t' => abs t'
        | .error (t', e) => stop t' e) := by
  subst hs; exact forIn_eq_foldE body step abs stop h l t

end GoLite

/-
Common definitions for the notation-go model: text as `List Char`, the clause-list form
of a property (`Holds`), and the JSON judge used by the driver.
Core Lean only (the driver is a compiled executable; nothing here may import Mathlib).
-/
import Lean.Data.Json
open Lean

namespace NotationModel

/-- Text whose structure matters is a list of characters. -/
abbrev Text := List Char

instance (priority := high) instFromJsonText : FromJson (List Char) :=
  ⟨fun j => do let s ← j.getStr?; pure s.toList⟩
instance (priority := high) instToJsonText : ToJson (List Char) :=
  ⟨fun t => Json.str (String.ofList t)⟩

/-- A property over observables is a list of named boolean clauses. -/
abbrev Clauses := List (String × Bool)

def Clauses.holds (c : Clauses) : Bool := c.all (·.2)
def Clauses.failed (c : Clauses) : List String := (c.filter (fun x => !x.2)).map (·.1)

theorem Clauses.holds_cons (n : String) (b : Bool) (c : Clauses) :
    Clauses.holds ((n, b) :: c) = (b && Clauses.holds c) := by
  simp [Clauses.holds]

theorem Clauses.holds_nil : Clauses.holds [] = true := rfl

/-- One line of the correspondence check: `{"input":…, "obs":…}` in, verdict out.
`agree`: the implementation's observation equals the model's;
`holds`: the property's clauses are all true of the implementation's observation. -/
def judgeWith {I O : Type} [FromJson I] [FromJson O] [ToJson O] [BEq O]
    (run : I → O) (clauses : I → O → Clauses) (j : Json) : Except String Json := do
  let i ← (j.getObjVal? "input") >>= fromJson? (α := I)
  let o ← (j.getObjVal? "obs") >>= fromJson? (α := O)
  let m := run i
  let cl := clauses i o
  let agree := m == o
  let base : List (String × Json) := [("agree", toJson agree), ("holds", toJson cl.holds)]
  let extra : List (String × Json) :=
    (if agree then [] else [("model", toJson m)]) ++
    (if cl.holds then [] else [("failed", toJson cl.failed)])
  return Json.mkObj (base ++ extra)

end NotationModel

/-
Lean counterparts of the Go types and library calls that the translated functions of
registry/repository.go (`Generated/SrcC19.lean`) mention.

Everything lives in `NotationModel.Src.registry` (the namespace of the translated package), so that
`ocispec.Descriptor` in the translated text is the descriptor declared HERE (with `ArtifactType`;
the shared `Src/Types.lean` one has no such field).

Oracles (`World`): the content store behind the `oras.GraphTarget` (`Predecessors`, `Exists`, `Push`,
`content.FetchAll` through a chosen fetcher), JSON decoding (`json.Unmarshal`, one decoder per target
type), `oras.PushBytes` and `oras.PackManifest`. The tie theorems hold for EVERY world. Constants come from the
fact file regenerated on every run (`Generated/C19.lean`).
`content.Equal` is oras-go's three-field comparison, copied by hand (trusted; oras-go is not translated).
-/
import NotationModel.Src.Types
import NotationModel.Generated.C19

namespace NotationModel.Src.registry
open NotationModel

/-- which fetcher / pusher a call goes through: the target itself, or (remote repositories
only) its manifest / blob stores -/
inductive Via | direct | manifests | blobs
  deriving DecidableEq, Repr, Inhabited

/-- fetched / pushed content, opaque -/
structure Bytes where
  id : Nat
  deriving DecidableEq, Repr, Inhabited

namespace ocispec
structure Descriptor where
  MediaType : String
  Digest : String
  Size : Int
  ArtifactType : String := ""
  Annotations : GoLite.Map String String := []
  deriving DecidableEq, Repr, Inhabited

/-- `ocispec.Manifest` (image manifest) as far as the code reads it -/
structure Manifest where
  MediaType : String
  ArtifactType : String
  Config : Descriptor
  Layers : List Descriptor
  Subject : Option Descriptor
  Annotations : GoLite.Map String String
  deriving DecidableEq, Repr, Inhabited

def MediaTypeImageManifest : String := Facts.c19MediaTypeImageManifest

/-- `ocispec.DescriptorEmptyJSON` (the `{}` blob) -/
structure EmptyJSON where
  Digest : String
  Size : Int
  Data : Bytes
  deriving DecidableEq, Repr, Inhabited
def DescriptorEmptyJSON : EmptyJSON :=
  { Digest := "sha256:44136fa355b3678a1146ad16f7e8649e94fb4fc21fe77e8310c060f61caaff8a", Size := 2, Data := ⟨0⟩ }
end ocispec

namespace artifactspec
/-- the legacy OCI artifact manifest (registry/internal/artifactspec) -/
structure Artifact where
  MediaType : String
  ArtifactType : String
  Blobs : List ocispec.Descriptor
  Subject : Option ocispec.Descriptor
  Annotations : GoLite.Map String String
  deriving DecidableEq, Repr, Inhabited
def MediaTypeArtifactManifest : String := Facts.c19MediaTypeArtifactManifest
end artifactspec

/-- package-level constants of package registry, from the fact file -/
def maxBlobSizeLimit : Int := Facts.c19MaxBlobSizeLimit
def maxManifestSizeLimit : Int := Facts.c19MaxManifestSizeLimit
def ArtifactTypeNotation : String := Facts.c19ArtifactTypeNotation

/-- `notationEmptyConfigData = ocispec.DescriptorEmptyJSON.Data` (a selector: go2lean's declaration
translator cannot type it; `notationEmptyConfigDesc` is translated) -/
def notationEmptyConfigData : Bytes := ocispec.DescriptorEmptyJSON.Data

namespace content
abbrev Fetcher := Via
abbrev Pusher := Via
abbrev Storage := Via
/-- oras-go `content.Equal`: size, digest and media type -/
def Equal (a b : ocispec.Descriptor) : Bool := a.Size == b.Size && a.Digest == b.Digest && a.MediaType == b.MediaType
end content

namespace errdef
def ErrAlreadyExists : GoLite.Err := ⟨"ErrAlreadyExists"⟩
end errdef


namespace oras
inductive PackManifestVersion | PackManifestVersion1_0 | PackManifestVersion1_1
  deriving DecidableEq, Repr, Inhabited
export PackManifestVersion (PackManifestVersion1_0 PackManifestVersion1_1)
structure PackManifestOptions where
  Subject : Option ocispec.Descriptor
  ManifestAnnotations : GoLite.Map String String
  Layers : List ocispec.Descriptor
  ConfigDescriptor : Option ocispec.Descriptor
  deriving DecidableEq, Repr, Inhabited
end oras

/-- the world outside the decision code -/
structure World where
  /-- `target.Predecessors(ctx, desc)` -/
  Predecessors : ocispec.Descriptor → List ocispec.Descriptor × Option GoLite.Err
  /-- `content.FetchAll(ctx, fetcher, desc)` -/
  FetchAll : Via → ocispec.Descriptor → Bytes × Option GoLite.Err
  /-- `json.Unmarshal(data, &x)` for an artifact manifest: new value of `x` (given its old one) and the error -/
  decodeArtifact : Bytes → artifactspec.Artifact → artifactspec.Artifact × Option GoLite.Err
  /-- ... for an image manifest -/
  decodeManifest : Bytes → ocispec.Manifest → ocispec.Manifest × Option GoLite.Err
  /-- `c.GraphTarget.(registry.Repository)` succeeds (remote repository) -/
  isRepository : Bool
  /-- `pusher.Exists(ctx, desc)` -/
  Exists : ocispec.Descriptor → Bool × Option GoLite.Err
  /-- `pusher.Push(ctx, desc, bytes.NewReader(data))` -/
  Push : ocispec.Descriptor → Bytes → Option GoLite.Err
  /-- `oras.PushBytes(ctx, pusher, mediaType, blob)` -/
  PushBytes : Via → String → Bytes → ocispec.Descriptor × Option GoLite.Err
  /-- `oras.PackManifest(ctx, target, version, artifactType, opts)` -/
  PackManifest : Via → oras.PackManifestVersion → String → oras.PackManifestOptions → ocispec.Descriptor × Option GoLite.Err

instance : Inhabited World := ⟨⟨fun _ => default, fun _ _ => default, fun _ a => (a, none), fun _ a => (a, none), false,
  fun _ => default, fun _ _ => none, fun _ _ _ => default, fun _ _ _ _ => default⟩⟩

/-- `json.Unmarshal` picks its decoder by the type of the target -/
class Decode (α : Type) where
  decode : World → Bytes → α → α × Option GoLite.Err
instance : Decode artifactspec.Artifact := ⟨fun w => w.decodeArtifact⟩
instance : Decode ocispec.Manifest := ⟨fun w => w.decodeManifest⟩
def World.Unmarshal {α : Type} [Decode α] (w : World) (b : Bytes) (cur : α) : α × Option GoLite.Err := Decode.decode w b cur

/-- the remote referrers API of a target (`registry.ReferrerLister`), when the assertion succeeds: an oracle -/
structure ReferrerLister where
  Referrers : ocispec.Descriptor → String → (List ocispec.Descriptor → Option GoLite.Err) → Option GoLite.Err
instance : Inhabited ReferrerLister := ⟨⟨fun _ _ _ => none⟩⟩
/-- `x, ok := target.(registry.ReferrerLister)`; an OCI layout is none -/
def World.asReferrerLister (w : World) (_ : Via) : ReferrerLister × Bool := (default, w.isRepository)

/-- the remote view of a target (`registry.Repository`), when the assertion succeeds -/
structure RemoteRepo where
  deriving DecidableEq, Repr, Inhabited
def RemoteRepo.Manifests (_ : RemoteRepo) : Via := .manifests
def RemoteRepo.Blobs (_ : RemoteRepo) : Via := .blobs
/-- `x, ok := target.(registry.Repository)` -/
def World.asRepository (w : World) (_ : Via) : RemoteRepo × Bool := (⟨⟩, w.isRepository)

/-- `repositoryClient`: only the target matters, and only through the world -/
structure repositoryClient where
  GraphTarget : Via := .direct
  deriving DecidableEq, Repr, Inhabited

end NotationModel.Src.registry

/-
Types for `Generated/SrcAttrs.lean` (the helpers of verifier/helpers.go that read the
verification-plugin attributes). Kept apart from Src/Types.lean: other properties' type modules
define their own view of `signature.SignerInfo`.
-/
import NotationModel.Src.Types

namespace NotationModel.Src

/- notation-core-go/signature: signer info with its extended attributes -/
namespace signature
/-- an attribute key or value: a string, or something else (a number, an object, ...) -/
inductive AVal | str (s : String) | other (tag : Nat)
  deriving DecidableEq, Repr, Inhabited
/-- the checked assertion `v, ok := x.(string)` -/
def AVal.asString : AVal → String × Bool
  | .str s => (s, true)
  | .other _ => ("", false)
structure Attribute where
  Key : AVal
  Critical : Bool
  Value : AVal
  deriving DecidableEq, Repr, Inhabited
structure SignedAttributes where
  ExtendedAttributes : List Attribute
  SigningScheme : String := ""
  deriving DecidableEq, Repr, Inhabited
structure SignerInfo where
  SignedAttributes : SignedAttributes
  CertificateChain : List x509.Certificate := []
  deriving DecidableEq, Repr, Inhabited
/-- `SignerInfo.ExtendedAttribute(key)`: the first extended attribute with that (string) key, else an error -/
def SignerInfo.ExtendedAttribute (si : SignerInfo) (key : String) : Attribute × Option GoLite.Err :=
  match si.SignedAttributes.ExtendedAttributes.find? (fun a => a.Key == .str key) with
  | some a => (a, none)
  | none => (default, some ⟨"error"⟩)
end signature

namespace verifier
/-- the sentinel `errExtendedAttributeNotExist` -/
def errExtendedAttributeNotExist : GoLite.Err := ⟨"errExtendedAttributeNotExist"⟩
end verifier

end NotationModel.Src

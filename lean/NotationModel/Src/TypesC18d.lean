/-
Hand-written Lean counterparts of what the translated `(*pluginPrimitiveSigner).Sign`
(`Generated/SrcC18d.lean`) mentions beyond `Src/TypesC18.lean` (key specs, wire constants).

ORACLES, carried by the signer value: the plugin's `GenerateSignature` (any answer: a response or
an error), `parseCertChain` (x509 parsing of the DER list). Signature, payload and certificates
are opaque byte strings; a nil `[]byte` / `[]*x509.Certificate` is `none`.
Core Lean only.
-/
import NotationModel.Src.TypesC18

namespace NotationModel.Src

namespace x509
/-- a parsed certificate of the plugin's chain: only handed through -/
structure Certificate18 where
  der : List Nat
  deriving DecidableEq, Repr, Inhabited
end x509

namespace c18d

abbrev Bytes := List Nat
abbrev Cert := x509.Certificate18

namespace plugin
def ContractVersion : String := "1.0"
structure GenerateSignatureRequest where
  ContractVersion : String
  KeyID : String
  KeySpec : String
  Hash : String
  Payload : Bytes
  PluginConfig : GoLite.Map String String
  deriving DecidableEq, Repr, Inhabited
structure GenerateSignatureResponse where
  KeyID : String
  Signature : Option Bytes
  SigningAlgorithm : String
  CertificateChain : List Bytes
  deriving DecidableEq, Repr, Inhabited
end plugin

namespace x509
abbrev Certificate := Src.x509.Certificate18
end x509

/-- `pluginPrimitiveSigner` with its two oracles -/
structure pluginPrimitiveSigner where
  ctx : Unit := ()
  keyID : String
  keySpec : signature.KeySpec
  pluginConfig : GoLite.Map String String
  /-- `s.plugin.GenerateSignature(ctx, req)`: a response or an error -/
  generate : plugin.GenerateSignatureRequest → Option plugin.GenerateSignatureResponse × Option GoLite.Err
  /-- `parseCertChain(ders)` -/
  parse : List Bytes → List Cert × Option GoLite.Err

def pluginPrimitiveSigner.GenerateSignature (s : pluginPrimitiveSigner) (_ctx : Unit)
    (req : plugin.GenerateSignatureRequest) : Option plugin.GenerateSignatureResponse × Option GoLite.Err :=
  s.generate req

def pluginPrimitiveSigner.parseCertChain (s : pluginPrimitiveSigner) (ders : List Bytes) :
    List Cert × Option GoLite.Err := s.parse ders

end c18d
end NotationModel.Src

/-
Hand-written Lean counterparts of what the translated `notation.SignOCI`
(`Generated/SrcSignOCI.lean`, written by extract/go2lean_fs.go on every run) mentions.

The translated function is a program in the monad `SO`: it reads an ORACLE and extends a LOG of the
calls it makes on the repository and on the signer, in order, with their arguments. The oracle
answers every call looking at the whole log (so it may answer differently the second time), and
also stands for the library functions that only read: `orasRegistry.ParseReference`,
`digest.Parse`, and the oracles of `generateAnnotations` (`AnnEnv`, Src/TypesC11.lean). The decision
functions `validateSignArguments`, `addUserMetadataToDescriptor`, `generateAnnotations` are the
TRANSLATED ones of `Generated/SrcC11.lean` (tied to the model in Props/C11.lean).

Conventions: a digest is its string (`Digest.String` is the identity); the `ctx` argument is dropped;
logging is dropped; `ErrorPushSignatureFailed{Msg: ..}` is an error kind (the message is not
modelled); `errors.As(err, &referrerError)` is decided by the KIND of the error
(`asReferrersError`), so the push oracle can return a referrers error of either sort or any other.
Core Lean only.
-/
import NotationModel.Generated.SrcC11

namespace NotationModel.Src
namespace signoci

abbrev AnnMap := GoLite.Map String String
abbrev Sig := List Nat
abbrev Signer := «notation».Signer
abbrev SignerSignOptions := «notation».SignerSignOptions

/-- a non-nil `registry.Repository` (opaque: what it answers is the oracle's business) -/
structure Repository where
  deriving DecidableEq, Repr, Inhabited

/-- `notation.SignOptions`; `SignatureMediaType` is the promoted field of the embedded struct -/
structure SignOptions where
  SignerSignOptions : SignerSignOptions
  ArtifactReference : String
  UserMetadata : AnnMap
  deriving Repr, Inhabited

def SignOptions.SignatureMediaType (o : SignOptions) : String := o.SignerSignOptions.SignatureMediaType

/-- oras-go `registry.Reference` as far as SignOCI reads it -/
structure Reference where
  Reference : String
  deriving Repr, Inhabited

/-- oras-go `remote.ReferrersError` as far as SignOCI asks -/
structure ReferrersError where
  indexDelete : Bool
  deriving DecidableEq, Repr, Inhabited

def errReferrersIndexDelete : GoLite.Err := ⟨"remote.ReferrersError/index-delete"⟩
def errReferrersOther : GoLite.Err := ⟨"remote.ReferrersError/other"⟩

/-- `errors.As(err, &referrerError)`: decided by the kind of the error -/
def asReferrersError (e : Option GoLite.Err) : Option ReferrersError :=
  if e = some errReferrersIndexDelete then some ⟨true⟩
  else if e = some errReferrersOther then some ⟨false⟩
  else none

def ReferrersError.IsReferrersIndexDelete (e : Option ReferrersError) : Bool :=
  match e with
  | some r => r.indexDelete
  | none => false

def ErrorPushSignatureFailed : GoLite.Err := ⟨"notation.ErrorPushSignatureFailed"⟩

def Digest.String (d : String) : String := d

/-- the value a signer that implements `signerAnnotation` is seen as -/
structure SignerAnnotation where
  deriving Repr, Inhabited

/-- one call on the repository or the signer, with its arguments -/
inductive Call
  | resolve (ref : String)
  | sign (desc : ocispec.Descriptor) (opts : SignerSignOptions)
  | pluginAnnotations
  | push (mediaType : String) (sig : Sig) (subject : ocispec.Descriptor) (annotations : AnnMap)
  deriving DecidableEq, Repr

structure Oracle where
  /-- `orasRegistry.ParseReference(s)` succeeds: the `Reference` field (tag or digest) of the full reference -/
  parseRef : String → Option String
  /-- `digest.Parse(s)` succeeds -/
  isDigest : String → Bool
  /-- `repo.Resolve`, given the log including this call -/
  resolve : List Call → Except GoLite.Err ocispec.Descriptor
  /-- `signer.Sign` -/
  sign : List Call → Except GoLite.Err (Sig × Option signature.SignerInfo)
  /-- the signer's dynamic type implements `signerAnnotation` -/
  implementsAnnotations : Bool
  /-- `PluginAnnotations()`: nil or a map -/
  pluginAnnotations : List Call → Option AnnMap
  /-- `repo.PushSignature`: blob descriptor, manifest descriptor, error (a failing push may hand back anything) -/
  push : List Call → ocispec.Descriptor × ocispec.Descriptor × Option GoLite.Err
  /-- the oracles of `generateAnnotations` -/
  annEnv : «notation».AnnEnv

def SO (α : Type) : Type := Oracle → List Call → α × List Call

instance : Monad SO where
  pure a := fun _ l => (a, l)
  bind m f := fun o l => f (m o l).1 o (m o l).2
  map f m := fun o l => (f (m o l).1, (m o l).2)

@[simp] theorem SO.pure_apply {α : Type} (a : α) (o : Oracle) (l : List Call) :
    (pure a : SO α) o l = (a, l) := rfl
@[simp] theorem SO.bind_apply {α β : Type} (m : SO α) (f : α → SO β) (o : Oracle) (l : List Call) :
    (m >>= f) o l = f (m o l).1 o (m o l).2 := rfl
@[simp] theorem SO.map_apply {α β : Type} (f : α → β) (m : SO α) (o : Oracle) (l : List Call) :
    (f <$> m) o l = (f (m o l).1, (m o l).2) := rfl
@[simp] theorem SO.ite_apply {α : Type} (c : Prop) [Decidable c] (a b : SO α) (o : Oracle) (l : List Call) :
    (if c then a else b) o l = if c then a o l else b o l := by split <;> rfl

def runSO {α : Type} (m : SO α) (o : Oracle) (log : List Call := []) : α × List Call := m o log

/-! the callees -/

def validateSignArguments (signer : Option Signer) (opts : SignerSignOptions) : Option GoLite.Err :=
  «notation».validateSignArguments signer opts

/-- the translated `addUserMetadataToDescriptor` without its ghost result -/
def addUserMetadataToDescriptor (desc : ocispec.Descriptor) (md : AnnMap) : ocispec.Descriptor × Option GoLite.Err :=
  ((«notation».addUserMetadataToDescriptor desc md).1, («notation».addUserMetadataToDescriptor desc md).2.1)

/-- the translated `generateAnnotations` on a nil or non-nil plugin map, without its ghost result -/
def genAnn (env : «notation».AnnEnv) (si : Option signature.SignerInfo) (pa : Option AnnMap) : AnnMap × Option GoLite.Err :=
  ((«notation».generateAnnotations env si (pa.getD []) pa.isNone).1,
   («notation».generateAnnotations env si (pa.getD []) pa.isNone).2.1)

def generateAnnotations (si : Option signature.SignerInfo) (pa : Option AnnMap) : SO (AnnMap × Option GoLite.Err) :=
  fun o l => (genAnn o.annEnv si pa, l)

def parseReference (s : String) : SO (Reference × Option GoLite.Err) := fun o l =>
  match o.parseRef s with
  | some r => ((⟨r⟩, none), l)
  | none => ((default, some (GoLite.errorf "invalid reference")), l)

def digestParse (s : String) : SO (String × Option GoLite.Err) := fun o l =>
  if o.isDigest s then ((s, none), l) else (("", some (GoLite.errorf "invalid digest")), l)

def Repository.Resolve (_repo : Option Repository) (ref : String) : SO (ocispec.Descriptor × Option GoLite.Err) := fun o l =>
  let l' := l ++ [.resolve ref]
  match o.resolve l' with
  | .ok d => ((d, none), l')
  | .error e => ((default, some e), l')

def Signer.Sign (_signer : Option Signer) (desc : ocispec.Descriptor) (opts : SignerSignOptions) :
    SO (Sig × Option signature.SignerInfo × Option GoLite.Err) := fun o l =>
  let l' := l ++ [.sign desc opts]
  match o.sign l' with
  | .ok (s, si) => ((s, si, none), l')
  | .error e => (([], none, some e), l')

def asSignerAnnotation (_signer : Option Signer) : SO (SignerAnnotation × Bool) := fun o l =>
  ((default, o.implementsAnnotations), l)

def SignerAnnotation.PluginAnnotations (_s : SignerAnnotation) : SO (Option AnnMap) := fun o l =>
  (o.pluginAnnotations (l ++ [.pluginAnnotations]), l ++ [.pluginAnnotations])

def Repository.PushSignature (_repo : Option Repository) (mediaType : String) (sig : Sig)
    (subject : ocispec.Descriptor) (annotations : AnnMap) :
    SO (ocispec.Descriptor × ocispec.Descriptor × Option GoLite.Err) := fun o l =>
  (o.push (l ++ [.push mediaType sig subject annotations]), l ++ [.push mediaType sig subject annotations])

end signoci
end NotationModel.Src

/-
C20 - Lean counterparts of what the translated `internal/semver` mentions.
Oracles (not translated): the regular-expression engine applied to `semVerRegEx` (its pattern
text is pinned by `Facts.semverRegex`) and `golang.org/x/mod/semver.Compare`.
-/
import NotationModel.Src.Types

namespace NotationModel.Src
namespace semver

/-- Go's `+` on strings (only inside this namespace; a candidate for GoLite) -/
scoped instance : Add String := ⟨String.append⟩

theorem add_eq_append (a b : String) : a + b = a ++ b := rfl

structure Env where
  /-- `semVerRegEx.MatchString` -/
  MatchString : String → Bool
  /-- `golang.org/x/mod/semver.Compare` -/
  Compare : String → String → Int

end semver

namespace os
/-- the sentinel `os.ErrNotExist` (`errors.Is` looks at the kind only) -/
def ErrNotExist : GoLite.Err := ⟨"os.ErrNotExist"⟩
end os

/-! `plugin`: both the package `notation-go/plugin` (CLIManager) and the framework package it
imports under the same name (GetMetadataRequest / GetMetadataResponse). -/
namespace plugin

/-- of the metadata only the version is looked at by the installation decision -/
structure GetMetadataResponse where
  Version : String
  deriving DecidableEq, Repr, Inhabited

structure GetMetadataRequest where
  deriving DecidableEq, Repr, Inhabited

structure CLIInstallOptions where
  PluginPath : String
  Overwrite : Bool
  deriving DecidableEq, Repr, Inhabited

/-- an existing plugin as returned by `CLIManager.Get` (opaque) -/
structure Plugin where
  id : Nat
  deriving DecidableEq, Repr, Inhabited

/-- oracles: the plugin root and the file system behind the manager, and the version
comparison of `internal/semver` (tied separately, `Generated/SrcC20.lean`) -/
structure Env where
  /-- `m.Get(ctx, name)` -/
  Get : String → Option Plugin × Option GoLite.Err
  /-- `existingPlugin.GetMetadata(ctx, req)` -/
  GetMetadata : Option Plugin → GetMetadataRequest → Option GetMetadataResponse × Option GoLite.Err
  /-- `semver.ComparePluginVersion` -/
  ComparePluginVersion : String → String → Int × Option GoLite.Err
  /-- `m.Uninstall(ctx, name)` -/
  Uninstall : String → Option GoLite.Err
  /-- `file.CopyToDir(src, dst)` -/
  CopyToDir : String → String → Option GoLite.Err
  /-- `file.CopyDirToDir(src, dst)` -/
  CopyDirToDir : String → String → Option GoLite.Err

end plugin
end NotationModel.Src

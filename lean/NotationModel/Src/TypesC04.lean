/-
Lean counterparts of the Go types and library functions the translated C04 functions mention
(`Generated/SrcC04*.lean`): go-ldap's parsed distinguished name and `strings.Contains`.
`ldap.ParseDN` itself is an oracle: a parameter of the translated `ParseDistinguishedName`.
-/
import NotationModel.Src.Types

namespace NotationModel.Src

/- github.com/go-ldap/ldap/v3 (imported as ldapv3): only what ParseDistinguishedName reads -/
namespace ldapv3
structure AttributeTypeAndValue where
  «Type» : String
  Value : String
  deriving DecidableEq, Repr, Inhabited
structure RelativeDN where
  Attributes : List AttributeTypeAndValue
  deriving DecidableEq, Repr, Inhabited
structure DN where
  RDNs : List RelativeDN
  deriving DecidableEq, Repr, Inhabited
end ldapv3

namespace strings
/-- a list occurs as a contiguous block of another one -/
def hasInfixL (p : List Char) : List Char → Bool
  | [] => p.isEmpty
  | c :: r => p.isPrefixOf (c :: r) || hasInfixL p r
/-- `strings.Contains(s, substr)` -/
def Contains (s substr : String) : Bool := hasInfixL substr.toList s.toList
end strings

end NotationModel.Src

/-
Hand-written Lean counterparts of what the translated `(*verifier).setRevocation` and the deprecated
`NewWithOptions` (`Generated/SrcC06c.lean`) mention. Checkers, documents, trust store and plugin manager
are opaque identities: the functions only move them around. ORACLES (fields of `Env`):
notation-core-go's `revocation.NewWithOptions(options)` - the stock checker for a purpose, or an
error - and `NewVerifierWithOptions` (for the deprecated constructor that forwards to it).
Core Lean only.
-/
import NotationModel.GoLite

namespace NotationModel.Src

namespace c06c
namespace time
def Second : Int := 1000000000
end time
namespace http
structure Client where
  Timeout : Int
  deriving DecidableEq, Repr, Inhabited
end http
namespace purpose
inductive Purpose | CodeSigning | Timestamping
  deriving DecidableEq, Repr, Inhabited
export Purpose (CodeSigning Timestamping)
end purpose
namespace revocation
structure Options where
  OCSPHTTPClient : http.Client
  CertChainPurpose : purpose.Purpose
  deriving DecidableEq, Repr, Inhabited
end revocation

/-- a `revocation.Validator` value, by identity -/
structure Validator where
  id : Nat
  deriving DecidableEq, Repr, Inhabited
/-- a deprecated `revocation.Revocation` value, by identity -/
structure Client where
  id : Nat
  deriving DecidableEq, Repr, Inhabited
structure OCIDocument where
  id : Nat
  deriving DecidableEq, Repr, Inhabited
structure BlobDocument where
  id : Nat
  deriving DecidableEq, Repr, Inhabited
structure TrustStore where
  id : Nat
  deriving DecidableEq, Repr, Inhabited
structure PluginManager where
  id : Nat
  deriving DecidableEq, Repr, Inhabited

/-- `VerifierOptions` -/
structure VerifierOptions where
  RevocationClient : Option Client
  RevocationCodeSigningValidator : Option Validator
  RevocationTimestampingValidator : Option Validator
  OCITrustPolicy : Option OCIDocument
  BlobTrustPolicy : Option BlobDocument
  PluginManager : Option PluginManager
  deriving DecidableEq, Repr, Inhabited

/-- the fields of `verifier` -/
structure verifier where
  ociTrustPolicyDoc : Option OCIDocument := none
  blobTrustPolicyDoc : Option BlobDocument := none
  trustStore : Option TrustStore := none
  pluginManager : Option PluginManager := none
  revocationClient : Option Client := none
  revocationCodeSigningValidator : Option Validator := none
  revocationTimestampingValidator : Option Validator := none
  deriving DecidableEq, Repr, Inhabited

structure Env where
  NewWithOptions : revocation.Options → Option Validator × Option GoLite.Err
  NewVerifierWithOptions : Option TrustStore → VerifierOptions → Option verifier × Option GoLite.Err

end c06c
end NotationModel.Src

/-
Hand-written Lean counterparts of what the translated functions of C06 (`Generated/SrcC06.lean`:
`verifyExpiry`, `verifyAuthenticTimestamp`, `verifyTimestamp` of verifier/verifier.go) mention.

Time.  A Go `time.Time` is an `Int` number of nanoseconds on the axis whose origin is Go's zero time
(January 1, year 1, 00:00:00 UTC), so `IsZero` is "= 0"; `Before` / `After` are the strict integer
comparisons (Go compares instants; locations and monotonic readings do not take part).  `time.Now()`
is an ORACLE: the field `Now` of `Env`.

Oracles (every call that leaves the function for a library; the tie theorems quantify over all of
them, i.e. over every possible answer):
  time.Now                                   Env.Now
  isTSATrustStoreInPolicy                    Env.isTSATrustStoreInPolicy   (translated and tied by C03)
  loadX509TSATrustStores                     Env.loadX509TSATrustStores    (translated and tied by C03)
  tspclient.ParseSignedToken                 Env.ParseSignedToken
  (*SignedToken).Info / (*TSTInfo).Validate / (*SignedToken).Verify    function fields of the token
  nx509.ValidateTimestampingCertChain        Env.ValidateTimestampingCertChain
  revocation.Validator.ValidateContext       function field of the validator `r`
Concretely modelled library code: `x509.NewCertPool` / `AddCert` (the pool is the list of the
certificates added), tspclient's `Timestamp.BoundedAfter` / `BoundedBefore`
(`Value - Accuracy >= u`, `Value + Accuracy <= u`), `revocationFinalResult` (the translation tied in C05).
A result the Go code only uses after checking `err == nil` is `default` here when the oracle
reports an error.
-/
import NotationModel.Src.Types

namespace NotationModel.Src

abbrev Bytes := List Nat

namespace context
abbrev Context := Unit
end context

namespace time
/-- `time.Time` as nanoseconds since Go's zero time -/
structure Time where
  ns : Int
  deriving DecidableEq, Repr, Inhabited
abbrev Time.IsZero (t : Time) : Bool := t.ns == 0
abbrev Time.Before (t u : Time) : Bool := decide (t.ns < u.ns)
abbrev Time.After (t u : Time) : Bool := decide (t.ns > u.ns)
end time

/- notation-core-go/signature -/
namespace signature
abbrev SigningScheme := String
def SigningSchemeX509 : SigningScheme := "notary.x509"
def SigningSchemeX509SigningAuthority : SigningScheme := "notary.x509.signingAuthority"
end signature

/- verifier/trustpolicy: the option type (its constants are regenerated into Generated/SrcC06b.lean) -/
namespace trustpolicy
abbrev TimestampOption := String
end trustpolicy

/- what the three functions read of `*notation.VerificationOutcome` (the certificates of the signing
chain carry their validity window; `x509.Certificate` of Src/Types.lean, used for the TSA chain, does not) -/
namespace c06
structure Certificate where
  Subject : pkix.Name
  NotBefore : time.Time
  NotAfter : time.Time
  deriving DecidableEq, Repr, Inhabited
structure SignedAttributes where
  SigningScheme : signature.SigningScheme
  SigningTime : time.Time
  Expiry : time.Time
  deriving DecidableEq, Repr, Inhabited
structure UnsignedAttributes where
  TimestampSignature : Bytes
  deriving DecidableEq, Repr, Inhabited
structure SignerInfo where
  SignedAttributes : SignedAttributes
  UnsignedAttributes : UnsignedAttributes
  CertificateChain : List Certificate
  Signature : Bytes
  deriving DecidableEq, Repr, Inhabited
structure EnvelopeContent where
  SignerInfo : SignerInfo
  deriving DecidableEq, Repr, Inhabited
structure VerificationOutcome where
  EnvelopeContent : EnvelopeContent
  VerificationLevel : trustpolicy.VerificationLevel
  deriving DecidableEq, Repr, Inhabited
/-- what is read of `trustpolicy.SignatureVerification` -/
structure SignatureVerification where
  VerifyTimestamp : trustpolicy.TimestampOption
  deriving DecidableEq, Repr, Inhabited
end c06

/- crypto/x509: certificate pools and the options of a chain verification -/
namespace x509
structure CertPool where
  certs : List Certificate
  deriving DecidableEq, Repr, Inhabited
abbrev NewCertPool : CertPool := ⟨[]⟩
abbrev CertPool.AddCert (p : CertPool) (c : Certificate) : CertPool := ⟨p.certs ++ [c]⟩
structure VerifyOptions where
  CurrentTime : time.Time
  Roots : CertPool
  deriving DecidableEq, Repr, Inhabited
end x509

/- github.com/notaryproject/tspclient-go -/
namespace tspclient
structure Timestamp where
  Value : time.Time
  Accuracy : Int            -- a `time.Duration`: nanoseconds
  deriving DecidableEq, Repr, Inhabited
/-- `BoundedAfter(u)`: `Value - Accuracy` is after or equal to `u` -/
abbrev Timestamp.BoundedAfter (t : Timestamp) (u : time.Time) : Bool := decide (t.Value.ns - t.Accuracy ≥ u.ns)
/-- `BoundedBefore(u)`: `Value + Accuracy` is before or equal to `u` -/
abbrev Timestamp.BoundedBefore (t : Timestamp) (u : time.Time) : Bool := decide (t.Value.ns + t.Accuracy ≤ u.ns)
/-- `*TSTInfo`: `Validate(message)` is an oracle -/
structure TSTInfo where
  validate : Bytes → Timestamp × Option GoLite.Err
  deriving Inhabited
def TSTInfo.Validate (i : TSTInfo) (message : Bytes) : Timestamp × Option GoLite.Err := i.validate message
/-- `*SignedToken`: `Info()` and `Verify(ctx, opts)` are oracles -/
structure SignedToken where
  info : TSTInfo × Option GoLite.Err
  verify : x509.VerifyOptions → List x509.Certificate × Option GoLite.Err
  deriving Inhabited
def SignedToken.Info (t : SignedToken) : TSTInfo × Option GoLite.Err := t.info
def SignedToken.Verify (t : SignedToken) (opts : x509.VerifyOptions) : List x509.Certificate × Option GoLite.Err := t.verify opts
end tspclient

/- notation-core-go/revocation -/
namespace revocation
structure ValidateContextOptions where
  CertChain : List x509.Certificate
  AuthenticSigningTime : time.Time := ⟨0⟩      -- the zero time unless the caller sets it
  deriving DecidableEq, Repr, Inhabited
/-- the interface `revocation.Validator`: `ValidateContext` as an oracle -/
structure Validator where
  validate : ValidateContextOptions → List (Option revocationresult.CertRevocationResult) × Option GoLite.Err
  deriving Inhabited
def Validator.ValidateContext (r : Validator) (opts : ValidateContextOptions) :
    List (Option revocationresult.CertRevocationResult) × Option GoLite.Err := r.validate opts
end revocation

/- verifier/truststore: the trust store is only handed on to the loader oracle -/
namespace truststore
structure X509TrustStore where
  id : Nat
  deriving DecidableEq, Repr, Inhabited
end truststore

namespace verifier
/-- the oracles of the three functions -/
structure Env where
  Now : time.Time
  isTSATrustStoreInPolicy : String → List String → Bool × Option GoLite.Err
  loadX509TSATrustStores : signature.SigningScheme → String → List String → truststore.X509TrustStore →
    List x509.Certificate × Option GoLite.Err
  ParseSignedToken : Bytes → tspclient.SignedToken × Option GoLite.Err
  ValidateTimestampingCertChain : List x509.Certificate → Option GoLite.Err
end verifier

end NotationModel.Src

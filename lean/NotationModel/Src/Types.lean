/-
Hand-written Lean counterparts of the Go types the translated functions
(`Generated/Src*.lean`, produced by `/verif/extract/go2lean.go`) mention: one structure per Go
struct with the fields the translated bodies read, one inductive per enumeration, in a
namespace named like the Go package so that `pkg.Name` in the source is `pkg.Name` here.
Opaque library values (certificates, distinguished names) carry just what is looked at.
-/
import NotationModel.GoLite

namespace NotationModel.Src

namespace pkix
structure Name where
  text : String
  deriving DecidableEq, Repr, Inhabited
/-- `pkix.Name.String()` -/
def Name.String (n : Name) : String := n.text
end pkix

namespace x509
structure Certificate where
  Subject : pkix.Name
  deriving DecidableEq, Repr, Inhabited
end x509

/- notation-core-go/revocation/result -/
namespace revocationresult
inductive Result | ResultUnknown | ResultOK | ResultNonRevokable | ResultRevoked
  deriving DecidableEq, Repr, Inhabited
export Result (ResultUnknown ResultOK ResultNonRevokable ResultRevoked)
inductive RevocationMethod | RevocationMethodUnknown | RevocationMethodOCSP | RevocationMethodCRL | RevocationMethodOCSPFallbackCRL
  deriving DecidableEq, Repr, Inhabited
export RevocationMethod (RevocationMethodUnknown RevocationMethodOCSP RevocationMethodCRL RevocationMethodOCSPFallbackCRL)
structure ServerResult where
  Result : Result
  Server : String
  Error : Option GoLite.Err
  RevocationMethod : RevocationMethod
  deriving DecidableEq, Repr, Inhabited
structure CertRevocationResult where
  Result : Result
  ServerResults : List (Option ServerResult)   -- []*ServerResult: an entry may be nil
  RevocationMethod : RevocationMethod
  deriving DecidableEq, Repr, Inhabited
end revocationresult

/- verifier/trustpolicy -/
namespace trustpolicy
abbrev ValidationType := String
abbrev ValidationAction := String
structure VerificationLevel where
  Name : String
  Enforcement : GoLite.Map ValidationType ValidationAction
  deriving DecidableEq, Repr, Inhabited
structure SignatureVerification where
  VerificationLevel : String
  Override : GoLite.Map ValidationType ValidationAction
  deriving DecidableEq, Repr, Inhabited
end trustpolicy

/- opencontainers image-spec descriptor, notation-core-go envelope payload, notation results -/
namespace ocispec
structure Descriptor where
  MediaType : String
  Digest : String
  Size : Int
  Annotations : GoLite.Map String String
  deriving DecidableEq, Repr, Inhabited
end ocispec

namespace envelope
structure Payload where
  TargetArtifact : ocispec.Descriptor
  deriving DecidableEq, Repr, Inhabited
end envelope

namespace «notation»
/-- the bytes of a signature envelope (opaque) -/
structure SigBlob where
  id : Nat
  deriving DecidableEq, Repr, Inhabited
structure VerifierVerifyOptions where
  ArtifactReference : String
  SignatureMediaType : String
  deriving DecidableEq, Repr, Inhabited
structure VerificationOutcome where
  id : Nat                       -- which signature this outcome belongs to (opaque otherwise)
  Error : Option GoLite.Err
  deriving DecidableEq, Repr, Inhabited
/-- the sentinel `errDoneVerification` -/
def errDoneVerification : GoLite.Err := ⟨"errDoneVerification"⟩
structure ValidationResult where
  «Type» : trustpolicy.ValidationType
  Action : trustpolicy.ValidationAction
  Error : Option GoLite.Err
  deriving DecidableEq, Repr, Inhabited
end «notation»

end NotationModel.Src

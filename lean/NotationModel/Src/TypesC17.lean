/-
Lean counterparts of what the translated functions of the C17 tie mention
(`Generated/SrcC17.lean`: package plugin; `Generated/SrcC17b.lean`: package internal/io).

ORACLES (the tie theorems hold for EVERY choice of them):
* `io.Writer.Write` - the underlying writer of a `LimitedWriter`: a field holding any function from the
  bytes it is handed to (count, error);
* `json.Target α` - `json.Unmarshal(data, &v)` for a value of type α: any function from the bytes and the
  old value to the new value and an error (so also `proto.RequestError.UnmarshalJSON`, which decides
  what an "incomplete" error object is, is inside this oracle);
* `runO` (parameter of the translated `CLIPlugin.GetMetadata`) - `run`: process, pipes, decoding into
  `&metadata`.
Error values carry their kind only (GoLite.Err); a `proto.RequestError` handed back as an error keeps
its code in the kind (`RequestError:<code>`), see the coercion below.
`plugin.ContractVersion` (notation-plugin-framework-go, same Go package name as the repository's
package plugin) is the constant the fact extractor reads from the framework's source.
-/
import NotationModel.Src.Types
import NotationModel.Src.TypesC16
import NotationModel.Generated.C17

/-! GENERIC run-time additions for the translator (slice expressions with bounds, int64 conversions).
They belong into `GoLite.lean` (offered as /tmp/tie-C17/golite-C17.diff); they live here so that nothing
outside C17's files has to change for this tie to build. WHEN THE DIFF IS MERGED, DELETE THIS BLOCK
(down to the line `end GoLite`). -/
namespace GoLite

/-- `x[:hi]` (Go panics for hi outside 0..cap; here the bound is clamped) -/
def sliceTo (xs : List α) (hi : Int) : List α := xs.take hi.toNat
/-- `x[lo:]` -/
def sliceFrom (xs : List α) (lo : Int) : List α := xs.drop lo.toNat
/-- `int64(n)` for an int (no overflow in the translated functions: lengths and byte counts) -/
abbrev int64 (n : Int) : Int := n

@[simp] theorem sliceFrom_zero (xs : List α) : sliceFrom xs 0 = xs := by simp [sliceFrom]
@[simp] theorem sliceFrom_zero' (xs : List α) : sliceFrom xs (0 : Int) = xs := sliceFrom_zero xs

theorem len_sliceTo (xs : List α) (hi : Int) (h0 : 0 ≤ hi) (h1 : hi ≤ len xs) : len (sliceTo xs hi) = hi := by
  unfold len at *
  simp only [sliceTo, List.length_take]
  omega

end GoLite

namespace NotationModel.Src

/- internal/io -/
namespace io
/-- `io.Writer` (the underlying writer): an oracle -/
structure Writer where
  Write : List UInt8 → Int × Option GoLite.Err

structure LimitedWriter where
  W : Writer
  N : Int

/-- `var ErrLimitExceeded = errors.New("write limit exceeded")` -/
def ErrLimitExceeded : GoLite.Err := ⟨"ErrLimitExceeded"⟩
end io

/- encoding/json -/
namespace json
/-- `json.Unmarshal(data, &v)` for a `v : α`: an oracle -/
class Target (α : Type) where
  decode : List UInt8 → α → α × Option GoLite.Err
def Unmarshal {α : Type} [Target α] (data : List UInt8) (v : α) : α × Option GoLite.Err := Target.decode data v
end json

/- plugin/proto -/
namespace proto
structure RequestError where
  Code : String
  Message : String
  Metadata : Option (GoLite.Map String String)
  deriving DecidableEq, Repr, Inhabited

/-- a `RequestError` handed back as an `error`: its kind keeps the code -/
def RequestError.toErr (e : RequestError) : GoLite.Err := ⟨"RequestError:" ++ e.Code⟩
instance : Coe RequestError GoLite.Err := ⟨RequestError.toErr⟩
end proto

/- package plugin of the repository AND of notation-plugin-framework-go (same package name) -/
namespace plugin
/-- `plugin.ContractVersion` of the framework -/
def ContractVersion : String := Facts.contractVersion

structure GetMetadataRequest where
  PluginConfig : GoLite.Map String String
  deriving DecidableEq, Repr, Inhabited

structure GetMetadataResponse where
  Name : String
  Description : String
  Version : String
  URL : String
  SupportedContractVersions : List String
  Capabilities : List String
  deriving DecidableEq, Repr, Inhabited
end plugin

end NotationModel.Src

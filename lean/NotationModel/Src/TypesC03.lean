/-
Hand-written Lean counterparts of the Go types the translated functions of C03
(`Generated/SrcC03.lean`, `Generated/SrcC03b.lean`) mention.

Oracles / abstractions (part of the trusted reading of the translation):
* `truststore.X509TrustStore` is the Go interface; its one method `GetCertificates` is an
  ORACLE: an arbitrary function (context, type, name) -> (certificates, error or nil). The tie
  theorems are stated for every such function. (A pure function: the translated text cannot
  speak about the order or number of calls - that is what the correspondence run observes.)
* `set.Set` is `internal/container.Set[string]` (a Go map used as a set), modelled as the list of
  the values added so far; `Contains` is membership.
* `signature.SigningScheme` and its two constants are notation-core-go's (outside /repo, pinned
  by go.mod); only their being different strings matters to the translated switch.
* `context.Context` carries nothing the translated code looks at.
-/
import NotationModel.Src.Types

namespace NotationModel.Src

namespace context
abbrev Context := Unit
end context

/- internal/container (imported as `set`) -/
namespace set
structure Set where
  items : List String
  deriving Repr, Inhabited
/-- `set.New[string]()` -/
def New : Set := ⟨[]⟩
def Set.Contains (s : Set) (x : String) : Bool := s.items.contains x
def Set.Add (s : Set) (x : String) : Set := ⟨x :: s.items⟩
end set

/- notation-core-go/signature -/
namespace signature
abbrev SigningScheme := String
def SigningSchemeX509 : SigningScheme := "notary.x509"
def SigningSchemeX509SigningAuthority : SigningScheme := "notary.x509.signingAuthority"
end signature

/- verifier/truststore -/
namespace truststore
/-- `truststore.Type` (a named string type) -/
abbrev «Type» := String
/-- the interface `X509TrustStore`: `GetCertificates` as an oracle -/
structure X509TrustStore where
  GetCertificates : context.Context → «Type» → String → List x509.Certificate × Option GoLite.Err
end truststore

end NotationModel.Src

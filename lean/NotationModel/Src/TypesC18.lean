/-
Lean counterparts of what the translated functions of the C18 tie mention
(`Generated/SrcC18.lean` package signer, `SrcC18b.lean` package envelope, `SrcC18c.lean` package proto).

ORACLES (everything that is a library call or I/O; the tie theorems hold for EVERY choice):
* `signer.World.UnmarshalMap`     - `json.Unmarshal(content, &map[string]interface{})` (old value, new value + error)
* `signer.World.UnmarshalPayload` - `json.Unmarshal(content, &envelope.Payload)`       (old value, new value + error)
* `signer.World.ParseEnvelope`    - `signature.ParseEnvelope` of notation-core-go; the parsed envelope carries its
                                     `Verify` result as a field
* `signer.World.findDuplicateKey` - the token walk of signer/plugin.go (a loop over json.Decoder tokens; modelled as
                                     `JVal.dupDeep`, tied by the correspondence run, not by translation)
* `content.Equal` (oras-go/v2/content) is hand-written here as its three field comparisons (library, trusted).
* `signature.KeyTypeRSA/EC`, `signature.KeySpec`, `signature.Payload` (notation-core-go) and the names of
  notation-plugin-framework-go's wire constants are hand-written; the VALUES of the latter are checked against the
  constants regenerated from the framework's source (`Facts.c18WireConstants`, theorem `Tie.wire_constants_fact`).
-/
import NotationModel.Src.Types
import NotationModel.Generated.C18

/-! GENERIC run-time addition for the translator (`delete(m, k)`). It belongs into `GoLite.lean` (offered as
/tmp/golite-C18.diff); it lives here so that nothing outside C18's files has to change for this tie to build.
WHEN THE DIFF IS MERGED, DELETE THIS BLOCK (down to the line `end GoLite`). -/
namespace GoLite
namespace Map
/-- `delete(m, k)` -/
def erase [BEq κ] (m : Map κ ν) (k : κ) : Map κ ν := m.filter (fun p => !(p.1 == k))
theorem mem_erase [BEq κ] (m : Map κ ν) (k : κ) (p : κ × ν) : p ∈ erase m k ↔ p ∈ m ∧ (p.1 == k) = false := by
  simp [erase]
end Map
end GoLite

namespace NotationModel.Src

/- oras.land/oras-go/v2/content -/
namespace content
/-- `content.Equal`: same size, digest and media type (annotations are NOT compared) -/
def Equal (a b : ocispec.Descriptor) : Bool := a.Size == b.Size && a.Digest == b.Digest && a.MediaType == b.MediaType
end content

/- notation-core-go/signature -/
namespace signature
inductive KeyType | none | KeyTypeRSA | KeyTypeEC
  deriving DecidableEq, Repr, Inhabited
export KeyType (KeyTypeRSA KeyTypeEC)
instance : Inhabited KeyType := ⟨KeyType.none⟩
structure KeySpec where
  «Type» : KeyType
  Size : Int
  deriving DecidableEq, Repr
instance : Inhabited KeySpec := ⟨⟨KeyType.none, 0⟩⟩
end signature

/- notation-plugin-framework-go/plugin (named string types) -/
namespace plugin
def KeySpecRSA2048 : String := "RSA-2048"
def KeySpecRSA3072 : String := "RSA-3072"
def KeySpecRSA4096 : String := "RSA-4096"
def KeySpecEC256 : String := "EC-256"
def KeySpecEC384 : String := "EC-384"
def KeySpecEC521 : String := "EC-521"
def HashAlgorithmSHA256 : String := "SHA-256"
def HashAlgorithmSHA384 : String := "SHA-384"
def HashAlgorithmSHA512 : String := "SHA-512"
/-- the hand-written constants by name, to be compared with `Facts.c18WireConstants` -/
def wireConstants : List (String × String) :=
  [("KeySpecRSA2048", KeySpecRSA2048), ("KeySpecRSA3072", KeySpecRSA3072), ("KeySpecRSA4096", KeySpecRSA4096),
   ("KeySpecEC256", KeySpecEC256), ("KeySpecEC384", KeySpecEC384), ("KeySpecEC521", KeySpecEC521),
   ("HashAlgorithmSHA256", HashAlgorithmSHA256), ("HashAlgorithmSHA384", HashAlgorithmSHA384),
   ("HashAlgorithmSHA512", HashAlgorithmSHA512)]
end plugin

namespace signer

/-- payload / envelope bytes (opaque: only handed to oracles and back) -/
abbrev Bytes := String

/-- what `json.Unmarshal` puts behind an `interface{}` -/
inductive JAny where
  | null | bool (b : Bool) | num (n : Int) | str (s : String)
  | arr (xs : List JAny) | obj (m : List (String × JAny))
  deriving Repr, Inhabited

/-- `v.(map[string]interface{})` in its checked two-value form -/
def JAny.asObj : JAny → GoLite.Map String JAny × Bool
  | .obj m => (m, true)
  | _ => ([], false)

end signer

namespace signature
structure Payload where
  ContentType : String
  Content : signer.Bytes
  deriving DecidableEq, Repr, Inhabited
/-- opaque but for an identity -/
structure SignerInfo where
  id : Nat
  deriving DecidableEq, Repr, Inhabited
structure EnvelopeContent where
  Payload : Payload
  SignerInfo : SignerInfo
  deriving DecidableEq, Repr, Inhabited
/-- a parsed envelope: `Verify()` is a field (oracle) -/
structure Envelope where
  Verify : EnvelopeContent × Option GoLite.Err
  deriving Inhabited
end signature

namespace «notation»
structure SignerSignOptions where
  SignatureMediaType : String
  deriving DecidableEq, Repr, Inhabited
end «notation»

namespace plugin
structure GenerateEnvelopeRequest where
  SignatureEnvelopeType : String
  deriving DecidableEq, Repr, Inhabited
structure GenerateEnvelopeResponse where
  SignatureEnvelope : signer.Bytes
  SignatureEnvelopeType : String
  Annotations : GoLite.Map String String
  deriving DecidableEq, Repr, Inhabited
end plugin

namespace signer
/-- the oracles of the signer's checks -/
structure World where
  UnmarshalMap : Bytes → GoLite.Map String JAny → GoLite.Map String JAny × Option GoLite.Err
  UnmarshalPayload : Bytes → envelope.Payload → envelope.Payload × Option GoLite.Err
  ParseEnvelope : String → Bytes → signature.Envelope × Option GoLite.Err
  findDuplicateKey : Bytes → String × Bool
end signer

end NotationModel.Src

/-
Hand-written Lean counterparts of what the translated `file.CopyToDir` (`Generated/SrcC20c.lean`,
written by extract/go2lean_fs.go on every run) mentions. As in `Src/TypesC14.lean` the translated
function is a program over a LOG of operating-system calls answered by an arbitrary oracle that
sees the whole log: whether the call fails, what `os.Stat` reports (a mode: `regular` flag and
permission bits). File handles are their names. Core Lean only.
-/
import NotationModel.GoLite

namespace NotationModel.Src
namespace copyproto

/-- `fs.FileMode` as far as `CopyToDir` looks: is it a regular file, and the permission bits -/
structure FileMode where
  regular : Bool
  perm : Nat
  deriving DecidableEq, Repr, Inhabited

structure FileInfo where
  mode : FileMode
  deriving DecidableEq, Repr, Inhabited

def FileInfo.Mode (i : FileInfo) : FileMode := i.mode
def FileMode.IsRegular (m : FileMode) : Bool := m.regular

/-- `m & os.FileMode(bits)`: the permission bits masked (type bits are above 0777 and are cleared by a mask below it) -/
def bitAnd (m mask : FileMode) : FileMode := { regular := false, perm := m.perm &&& mask.perm }

structure File where
  name : String
  deriving DecidableEq, Repr, Inhabited

inductive Call
  | stat (path : String)
  | open_ (path : String)
  | mkdirAll (path : String) (perm : Int)
  | create (path : String)
  | chmod (f : File) (mode : FileMode)
  | copy (dst src : File)
  | close (f : File)
  deriving DecidableEq, Repr

structure Oracle where
  fault : List Call → Option GoLite.Err
  statMode : List Call → FileMode

def CP (α : Type) : Type := Oracle → List Call → α × List Call

instance : Monad CP where
  pure a := fun _ l => (a, l)
  bind m f := fun o l => f (m o l).1 o (m o l).2
  map f m := fun o l => (f (m o l).1, (m o l).2)

@[simp] theorem CP.pure_apply {α : Type} (a : α) (o : Oracle) (l : List Call) :
    (pure a : CP α) o l = (a, l) := rfl
@[simp] theorem CP.bind_apply {α β : Type} (m : CP α) (f : α → CP β) (o : Oracle) (l : List Call) :
    (m >>= f) o l = f (m o l).1 o (m o l).2 := rfl
@[simp] theorem CP.map_apply {α β : Type} (f : α → β) (m : CP α) (o : Oracle) (l : List Call) :
    (f <$> m) o l = (f (m o l).1, (m o l).2) := rfl
@[simp] theorem CP.ite_apply {α : Type} (c : Prop) [Decidable c] (a b : CP α) (o : Oracle) (l : List Call) :
    (if c then a else b) o l = if c then a o l else b o l := by split <;> rfl
@[simp] theorem CP.discard_apply {α : Type} (m : CP α) (o : Oracle) (l : List Call) :
    (discard m) o l = ((), (m o l).2) := rfl

def perform (c : Call) : CP (Option GoLite.Err) := fun o l => (o.fault (l ++ [c]), l ++ [c])

def ErrNotRegularFile : GoLite.Err := ⟨"file.ErrNotRegularFile"⟩

namespace os
def FileMode (bits : Int) : copyproto.FileMode := { regular := false, perm := bits.toNat }
def Stat (path : String) : CP (FileInfo × Option GoLite.Err) := fun o l =>
  let l' := l ++ [.stat path]
  match o.fault l' with
  | some e => ((default, some e), l')
  | none => ((⟨o.statMode l'⟩, none), l')
def Open (path : String) : CP (File × Option GoLite.Err) := fun o l =>
  let l' := l ++ [.open_ path]
  match o.fault l' with
  | some e => ((default, some e), l')
  | none => ((⟨path⟩, none), l')
def MkdirAll (path : String) (perm : Int) : CP (Option GoLite.Err) := perform (.mkdirAll path perm)
def Create (path : String) : CP (File × Option GoLite.Err) := fun o l =>
  let l' := l ++ [.create path]
  match o.fault l' with
  | some e => ((default, some e), l')
  | none => ((⟨path⟩, none), l')
end os

namespace io
def Copy (dst src : File) : CP (Int × Option GoLite.Err) := fun o l =>
  ((0, o.fault (l ++ [.copy dst src])), l ++ [.copy dst src])
end io

namespace filepath
/-- `filepath.Base` as an uninterpreted-but-fixed function of the path: the last element -/
def Base (p : String) : String := String.ofList ((p.toList.reverse.takeWhile (· != '/')).reverse)
def Join (a b : String) : String := String.ofList (a.toList ++ '/' :: b.toList)
end filepath

def File.Close (f : File) : CP (Option GoLite.Err) := perform (.close f)
def File.Chmod (f : File) (m : FileMode) : CP (Option GoLite.Err) := perform (.chmod f m)

def runCP {α : Type} (m : CP α) (o : Oracle) (log : List Call := []) : α × List Call := m o log

end copyproto
end NotationModel.Src

/-
Hand-written Lean counterparts of the Go types and library calls that the translated trust
policy validation functions (`Generated/SrcC09*.lean`) mention.

ORACLES (library code that is not translated):
* `regexp.MustCompile(text).MatchString(s)`: Go's regexp on the three expressions of the code is
  taken to be the derivative matcher of `Model/C09.lean` on the syntax trees whose rendering is
  proved equal to the source texts (`domainRx_pinned`, ... in `Props/C09.lean`); any other
  expression text matches nothing here, so a changed expression breaks the ties. The
  correspondence run compares the matcher with Go's regexp on every run.
* `strings.Contains`: sub-list test on the characters.
* `pkix.ParseDistinguishedName` (go-ldap's `ParseDN` inside) is a PARAMETER `parseDN` of the
  translated functions that reach it.
-/
import NotationModel.Src.Types
import NotationModel.Model.C09
import NotationModel.Generated.C09

namespace NotationModel.Src

/-- Go's `+` on strings (only message texts are built with it in the translated functions) -/
instance : Add String := ⟨String.append⟩

namespace regexp
structure Regexp where
  text : String
  deriving Repr, Inhabited
def MustCompile (text : String) : Regexp := ⟨text⟩
/-- ORACLE, see the head of this file -/
def specMatch (r t : List Char) : Bool :=
  if r = C09.domainRx.anchored then C09.domainRx.matches t
  else if r = C09.repositoryRx.anchored then C09.repositoryRx.matches t
  else if r = C09.fileNameRx.anchored then C09.fileNameRx.matches t
  else false
def Regexp.MatchString (r : Regexp) (s : String) : Bool := specMatch r.text.toList s.toList
end regexp

namespace strings
/-- `len(s)` of a string. Go counts bytes, this counts characters: the translated code uses it only
in `len(scope) > 1 && strings.Contains(scope, "*")`, and a text that contains `*` has more than one
byte exactly when it has more than one character. -/
def Len (s : String) : Int := (s.toList.length : Int)
/-- `strings.Contains` -/
def Contains (s sub : String) : Bool := C09.hasInfix sub.toList s.toList
end strings

/- internal/container/set -/
namespace set
structure Set where
  elems : List String
  deriving Repr, Inhabited
def New : Set := ⟨[]⟩
def Set.Contains (s : Set) (x : String) : Bool := s.elems.contains x
def Set.Add (s : Set) (x : String) : Set := ⟨x :: s.elems⟩
end set

/- verifier/trustpolicy -/
namespace trustpolicy
abbrev TimestampOption := String
def OptionAlways : TimestampOption := NotationModel.Facts.optionAlways
def OptionAfterCertExpiry : TimestampOption := NotationModel.Facts.optionAfterCertExpiry

/-- `SignatureVerification` with the field `Src/Types.lean` leaves out -/
structure SignatureVerificationFull extends SignatureVerification where
  VerifyTimestamp : TimestampOption
  deriving Repr, Inhabited

structure parsedDN where
  RawString : String
  ParsedMap : GoLite.Map String String
  deriving Repr, Inhabited

structure OCITrustPolicy where
  Name : String
  SignatureVerification : SignatureVerificationFull
  TrustStores : List String
  TrustedIdentities : List String
  RegistryScopes : List String
  deriving Repr, Inhabited

structure OCIDocument where
  Version : String
  TrustPolicies : List OCITrustPolicy
  deriving Repr, Inhabited

structure BlobTrustPolicy where
  Name : String
  SignatureVerification : SignatureVerificationFull
  TrustStores : List String
  TrustedIdentities : List String
  GlobalPolicy : Bool
  deriving Repr, Inhabited

structure BlobDocument where
  Version : String
  TrustPolicies : List BlobTrustPolicy
  deriving Repr, Inhabited
end trustpolicy

end NotationModel.Src

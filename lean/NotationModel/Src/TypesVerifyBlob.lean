/-
Types for `Generated/SrcVerifyBlobV.lean`: `(*verifier).VerifyBlob` (verifier/verifier.go) translated as a
whole. What it calls that is not translated elsewhere is an oracle here: the blob policy document's two
statement lookups (by name, global), `processSignature` (tied on its own in Props/C02_Process.lean),
`json.Unmarshal` of the payload; the descriptor generator is the caller's. `verifyUserMetadata`,
`GetVerificationLevel` and the table `algorithms` are the translated ones.
-/
import NotationModel.Src.TypesC07
import NotationModel.Src.TypesVerify
import NotationModel.Generated.SrcC07d
import NotationModel.Generated.SrcVerifier

namespace NotationModel.Src
namespace verifier.blob

namespace «notation»
/-- `notation.VerificationOutcome`, the fields `VerifyBlob` touches -/
structure VerificationOutcome where
  RawSignature : NotationModel.Src.«notation».SigBlob
  VerificationLevel : Option NotationModel.Src.trustpolicy.VerificationLevel
  EnvelopeContent : signature.EnvelopeContent
  Error : Option GoLite.Err
  deriving DecidableEq, Repr, Inhabited
end «notation»

namespace trustpolicy
/-- `trustpolicy.BlobTrustPolicy` as far as `VerifyBlob` reads it -/
structure BlobTrustPolicy where
  Name : String
  TrustedIdentities : List String
  TrustStores : List String
  SignatureVerification : NotationModel.Src.trustpolicy.SignatureVerification
  deriving DecidableEq, Repr, Inhabited
end trustpolicy

/-- `trustpolicy.BlobDocument`: its two lookups; each answers with a POINTER to a statement and an error -/
structure DocB where
  GetGlobalTrustPolicy : Option trustpolicy.BlobTrustPolicy × Option GoLite.Err
  GetApplicableTrustPolicy : String → Option trustpolicy.BlobTrustPolicy × Option GoLite.Err
  deriving Inhabited

structure VerifierB where
  blobTrustPolicyDoc : Option DocB
  deriving Inhabited

/-- `notation.BlobVerifierVerifyOptions` -/
structure OptsB where
  SignatureMediaType : String
  PluginConfig : GoLite.Map String String
  UserMetadata : GoLite.Map String String
  TrustPolicyName : String
  deriving DecidableEq, Repr, Inhabited

structure EnvB where
  processSignature : NotationModel.Src.«notation».SigBlob → String → String → List String → List String →
    NotationModel.Src.trustpolicy.SignatureVerification → GoLite.Map String String → «notation».VerificationOutcome →
    Option GoLite.Err × «notation».VerificationOutcome
  unmarshal : String → envelope.Payload → Option GoLite.Err × envelope.Payload

end verifier.blob
end NotationModel.Src

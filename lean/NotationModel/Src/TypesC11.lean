/-
Hand-written Lean counterparts of what the translated functions of notation.go that C11 rests on
(`Generated/SrcC11.lean`: `addUserMetadataToDescriptor`, `validateSignArguments`,
`validateSigMediaType`, `generateAnnotations`) mention, beyond `Src/Types.lean`
(`ocispec.Descriptor` with `Annotations : GoLite.Map String String` is there).

Library code modelled concretely: `strings.HasPrefix` (prefix of the character lists), `time.Second`
(nanoseconds), the two envelope media types of notation-core-go (constants copied from
signature/jws and signature/cose - trusted).
-/
import NotationModel.Src.Types

namespace NotationModel.Src

namespace strings
/-- `strings.HasPrefix(s, prefix)` -/
def HasPrefix (s «prefix» : String) : Bool := «prefix».toList.isPrefixOf s.toList
end strings

namespace time
/-- `time.Second` as a `time.Duration` (nanoseconds) -/
def Second : Int := 1000000000
end time

namespace jws
/-- notation-core-go signature/jws `MediaTypeEnvelope` -/
def MediaTypeEnvelope : String := "application/jose+json"
end jws

namespace cose
/-- notation-core-go signature/cose `MediaTypeEnvelope` -/
def MediaTypeEnvelope : String := "application/cose"
end cose

namespace envelope
/-- `envelope.AnnotationX509ChainThumbprint` (internal/envelope/envelope.go); `Props/C11.lean` (`Tie.keys_agree`) proves
this copy equal to the value the fact extractor reads from the source on every run -/
def AnnotationX509ChainThumbprint : String := "io.cncf.notary.x509chain.thumbprint#S256"
end envelope

namespace ocispec
/-- image-spec `AnnotationCreated`; tied to the extracted value like the key above -/
def AnnotationCreated : String := "org.opencontainers.image.created"
end ocispec

namespace time
/-- an instant as `generateAnnotations` sees it: opaque; how it prints under a layout is an ORACLE carried by the
value (`fmt`), so `t.Format(layout)` needs no knowledge of the variable's name -/
structure Time where
  unix : Int
  fmt : String → String
  deriving Inhabited
/-- `Time.Format(layout)` -/
def Time.Format (t : Time) (layout : String) : String := t.fmt layout
/-- the layout constant (only passed on to the formatting oracle) -/
def RFC3339 : String := "2006-01-02T15:04:05Z07:00"
end time

namespace signature
/-- a certificate of the signing chain as far as `generateAnnotations` looks: its DER bytes -/
structure Cert where
  Raw : List Nat
  deriving DecidableEq, Repr, Inhabited
/-- notation-core-go `signature.SignerInfo` as far as `generateAnnotations` looks at it -/
structure SignerInfo where
  CertificateChain : List Cert
  deriving DecidableEq, Repr, Inhabited
end signature

namespace «notation»

/-- the ORACLES of `generateAnnotations`: SHA-256, hex encoding, `json.Marshal` of the thumbprint list (as a
string), `envelope.SigningTime` (an instant - carrying its own formatting oracle - or an error) -/
structure AnnEnv where
  sum256 : List Nat → List Nat
  hex : List Nat → String
  marshal : List String → Except GoLite.Err String
  signingTime : Option signature.SignerInfo → Except GoLite.Err time.Time

def AnnEnv.Marshal (env : AnnEnv) (v : List String) : String × Option GoLite.Err :=
  match env.marshal v with
  | .ok s => (s, none)
  | .error e => ("", some e)
def AnnEnv.SigningTime (env : AnnEnv) (si : Option signature.SignerInfo) : time.Time × Option GoLite.Err :=
  match env.signingTime si with
  | .ok t => (t, none)
  | .error e => (default, some e)

/-- a non-nil `Signer` / `BlobSigner` value (opaque: `validateSignArguments` only asks whether it is nil) -/
structure Signer where
  deriving DecidableEq, Repr, Inhabited

/-- `SignerSignOptions` as far as `validateSignArguments` reads it; `ExpiryDuration` in nanoseconds -/
structure SignerSignOptions where
  SignatureMediaType : String
  ExpiryDuration : Int
  deriving DecidableEq, Repr, Inhabited

end «notation»

/- round 5: signer/plugin.go and internal/envelope/envelope.go, in namespaces of C11's own -/
namespace c11.content
/-- oras-go `content.Equal`: size, digest and media type -/
def Equal (a b : ocispec.Descriptor) : Bool := a.Size == b.Size && a.Digest == b.Digest && a.MediaType == b.MediaType
end c11.content

namespace c11.signer
/-- `signer.PluginSigner` as far as `mergeConfig` reads it -/
structure PluginSigner where
  pluginConfig : GoLite.Map String String
  deriving DecidableEq, Repr, Inhabited
end c11.signer

end NotationModel.Src

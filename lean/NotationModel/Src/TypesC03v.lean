/-
Hand-written Lean counterparts of what the translated `verifyAuthenticity` (`Generated/SrcC03v.lean`)
mentions. ORACLE, carried by the signer info: notation-core-go's
`signature.VerifyAuthenticity(&signerInfo, trustCerts)` - for every list of trust certificates, the
error it reports (`none`: some certificate of the list authenticates the chain). The type switch on
the error is decided by the error's kind. Core Lean only.
-/
import NotationModel.Src.Types

namespace NotationModel.Src
namespace c03v

structure SignerInfo where
  verify : List x509.Certificate → Option GoLite.Err
  deriving Inhabited

structure EnvelopeContent where
  SignerInfo : SignerInfo
  deriving Inhabited

structure VerificationOutcome where
  EnvelopeContent : EnvelopeContent
  VerificationLevel : trustpolicy.VerificationLevel
  deriving Inhabited

/-- `signature.VerifyAuthenticity`: the trust anchor found (not used by the caller) and the error -/
def VerifyAuthenticity (si : SignerInfo) (trustCerts : List x509.Certificate) :
    Option x509.Certificate × Option GoLite.Err := (none, si.verify trustCerts)

def errAuthenticity : GoLite.Err := ⟨"signature.SignatureAuthenticityError"⟩

/-- `case *signature.SignatureAuthenticityError` -/
def isAuthenticityError (e : Option GoLite.Err) : Bool := e == some errAuthenticity

end c03v
end NotationModel.Src

/-
Lean counterparts of what the translated functions of package `plugin` (C16 tie,
`Generated/SrcC16.lean`) mention. Everything that is I/O or a library call is an ORACLE:
* `SysFS.SysPath` - a field of the manager value (dir.SysFS is an interface in Go);
* `World.pathJoin` (`path.Join` with two elements), `World.NewCLIPlugin` (os.Stat + regular-file
  test + construction), `World.Stat`, `World.RemoveAll` - parameters of the translated functions.
The tie theorems hold for EVERY choice of these oracles; the corollaries instantiate them with the
model's lexical `join` / `sysPath`.
`plugin.BinaryPrefix` (notation-plugin-framework-go) is the constant the fact extractor reads from
the framework's source (`Facts.c16BinaryPrefix`).
-/
import NotationModel.Src.Types
import NotationModel.Generated.C16

/-! GENERIC run-time additions for the translator (`strings.HasPrefix` / `TrimPrefix` / `CutPrefix`,
Go's `+` on strings). They belong into `GoLite.lean` (offered as /tmp/golite-C16.diff); they live here
so that nothing outside C16's files has to change for this tie to build. WHEN THE DIFF IS MERGED,
DELETE THIS BLOCK (down to the line `end GoLite`). -/
namespace GoLite

/-- Go's `+` on strings -/
instance : HAdd String String String := ⟨String.append⟩
theorem add_toList (a b : String) : (a + b).toList = a.toList ++ b.toList := by
  show (a ++ b).toList = _
  simp

/-- `strings.HasPrefix(s, pre)` -/
def hasPrefix (s pre : String) : Bool := pre.toList.isPrefixOf s.toList
/-- `strings.TrimPrefix(s, pre)` -/
def trimPrefix (s pre : String) : String :=
  if hasPrefix s pre then String.ofList (s.toList.drop pre.toList.length) else s
/-- `strings.CutPrefix(s, pre)` -/
def cutPrefix (s pre : String) : String × Bool :=
  if hasPrefix s pre then (String.ofList (s.toList.drop pre.toList.length), true) else (s, false)

end GoLite

namespace NotationModel.Src
namespace plugin

/-- `plugin.BinaryPrefix` of the plugin framework (same Go package name) -/
def BinaryPrefix : String := String.ofList Facts.c16BinaryPrefix

structure SysFS where
  SysPath : String → String × Option GoLite.Err

structure CLIManager where
  pluginFS : SysFS

structure CLIPlugin where
  name : String
  path : String
  deriving DecidableEq, Repr, Inhabited

structure World where
  pathJoin : String → String → String
  NewCLIPlugin : Unit → String → String → Option CLIPlugin × Option GoLite.Err
  Stat : String → Unit × Option GoLite.Err
  RemoveAll : String → Option GoLite.Err

end plugin
end NotationModel.Src

/-
Types for `Generated/SrcProcess.lean`: `processSignature` and `processPluginResponse`
(verifier/verifier.go) translated as a whole. Everything these two functions CALL that is not
itself translated (`Generated/SrcAttrs.lean`, `Generated/SrcVerifier.lean`) is a field of a
structure here - an oracle: the individual validations (integrity, trust stores, authenticity,
identities, expiry, authentic timestamp, revocation), the plugin manager, the installed plugin.
The tie theorem quantifies over all of them.

Pointers: `outcome` is the caller's object, updated in place - the translation hands its final
value back (target option `captures`). `outcome.VerificationResults` is a slice of POINTERS that
the functions also hold in locals and update through them; the translator tracks that (target
option `ptrSlice`, see go2lean.go). Results of calls are taken to be non-nil where the Go code
dereferences them without a check, and fresh (not already stored in the outcome).
-/
import NotationModel.Src.TypesAttrs

namespace NotationModel.Src

/- github.com/notaryproject/notation-plugin-framework-go/plugin (imported as pluginframework) -/
namespace pluginframework
abbrev Capability := String
def CapabilityTrustedIdentityVerifier : Capability := "SIGNATURE_VERIFIER.TRUSTED_IDENTITY"
def CapabilityRevocationCheckVerifier : Capability := "SIGNATURE_VERIFIER.REVOCATION_CHECK"
structure VerificationResult where
  Success : Bool
  Reason : String
  deriving DecidableEq, Repr, Inhabited
structure VerifySignatureResponse where
  VerificationResults : GoLite.Map Capability (Option VerificationResult)
  ProcessedAttributes : List signature.AVal
  deriving DecidableEq, Repr, Inhabited
structure GetMetadataRequest where
  PluginConfig : GoLite.Map String String
  deriving DecidableEq, Repr, Inhabited
structure GetMetadataResponse where
  Version : String
  Capabilities : List Capability
  deriving DecidableEq, Repr, Inhabited
/-- an installed plugin: what it answers to get-plugin-metadata -/
structure VerifyPlugin where
  GetMetadata : GetMetadataRequest → GetMetadataResponse × Option GoLite.Err
  deriving Inhabited
end pluginframework

namespace signature
structure EnvelopeContent where
  SignerInfo : SignerInfo
  deriving DecidableEq, Repr, Inhabited
end signature

namespace slices
/-- internal/slices.ContainsAny -/
def ContainsAny (s : List signature.AVal) (v : signature.AVal) : Bool := s.contains v
end slices

namespace verifier
open «notation»

/-- `notation.VerificationOutcome`, the fields processSignature touches -/
structure Outcome where
  EnvelopeContent : Option signature.EnvelopeContent
  VerificationLevel : trustpolicy.VerificationLevel
  VerificationResults : List ValidationResult
  deriving DecidableEq, Repr, Inhabited

structure PluginManager where
  Get : String → Option pluginframework.VerifyPlugin × Option GoLite.Err
  deriving Inhabited

/-- the verifier `v`: its plugin manager (nil-able), its own revocation step, and two members it only hands on -/
structure Verifier where
  pluginManager : Option PluginManager
  verifyRevocation : Outcome → ValidationResult
  trustStore : Nat
  revocationTimestampingValidator : Nat
  deriving Inhabited

/-- the free functions processSignature calls that are not translated here, with the argument lists of the Go
functions (contexts left out) -/
structure Env where
  verifyIntegrity : SigBlob → String → Outcome → Option signature.EnvelopeContent × ValidationResult
  isValidSemver : String → Bool
  isRequiredVerificationPluginVer : String → String → Bool
  loadX509TrustStores : String → String → List String → Nat → List x509.Certificate × Option GoLite.Err
  verifyAuthenticity : List x509.Certificate → Outcome → ValidationResult
  verifyX509TrustedIdentities : String → List String → List x509.Certificate → Option GoLite.Err
  verifyExpiry : Outcome → ValidationResult
  verifyAuthenticTimestamp : String → List String → trustpolicy.SignatureVerification → Nat → Nat → Outcome → ValidationResult
  executePlugin : Option pluginframework.VerifyPlugin → List pluginframework.Capability → Option signature.EnvelopeContent →
    List String → GoLite.Map String String → pluginframework.VerifySignatureResponse × Option GoLite.Err
  deriving Inhabited

end verifier
end NotationModel.Src

/-
Hand-written Lean counterparts of what the translated functions C07 rests on mention
(`Generated/SrcC07*.lean`), beyond `Src/Types.lean` and `Src/TypesC11.lean` (`notation.Signer`,
`notation.SignerSignOptions`, the two envelope media types, `time.Second`).

ORACLES - everything that is a library call, I/O or another component; every tie theorem holds for
EVERY choice of them:
* `notation.BlobEnv.parseMediaType`   - `mime.ParseMediaType` (accepted or error)
* `notation.BlobEnv.copy` / `.digest` - `io.Copy(digester.Hash(), reader)`: the number of bytes written into the
                                        digester's hash (or an error), and `digester.Digest()` afterwards. The digester is
                                        a mutable object; the translation names the two observations instead.
* `notation.BlobEnv.signerSignBlob`   - `signer.SignBlob(ctx, genDesc, opts)` of the `BlobSigner` handed in
* `notation.BlobEnv.verifierVerifyBlob` - `blobVerifier.VerifyBlob(ctx, genDesc, signature, opts)`
* `notation.BlobEnv.unmarshalPayload` - `json.Unmarshal(content, &envelope.Payload)` (old value, new value + error)
* `verifier.VEnv.verifyUserMetadata`  - verifier.verifyUserMetadata (translated for C01 in SrcVerifier.lean)
* the descriptor generator parameters (`genDesc`, `descGenFunc`) are arbitrary functions.
Hand-written copies of notation-core-go (trusted, but CHECKED against the tables the fact extractor regenerates
from the module's source on every run - `Tie.core_tables_agree` in Props/C07.lean): `signature.KeySpec.SignatureAlgorithm`,
`signature.Algorithm.Hash`.
-/
import NotationModel.Src.Types
import NotationModel.Src.TypesC11

namespace NotationModel.Src

namespace crypto
/-- Go's `crypto.Hash` as far as notation uses it; `zero` is the zero value `Algorithm.Hash()` returns for an unknown algorithm -/
inductive Hash | zero | SHA256 | SHA384 | SHA512
  deriving DecidableEq, Repr, Inhabited
export Hash (SHA256 SHA384 SHA512)
end crypto

namespace digest
/-- go-digest `digest.Algorithm` (a string type); `unknown` is the zero value -/
inductive Algorithm | unknown | SHA256 | SHA384 | SHA512
  deriving DecidableEq, Repr, Inhabited
export Algorithm (SHA256 SHA384 SHA512)
end digest

namespace signature
inductive KeyType | zero | KeyTypeRSA | KeyTypeEC
  deriving DecidableEq, Repr, Inhabited
export KeyType (KeyTypeRSA KeyTypeEC)
inductive Algorithm | zero | AlgorithmPS256 | AlgorithmPS384 | AlgorithmPS512 | AlgorithmES256 | AlgorithmES384 | AlgorithmES512
  deriving DecidableEq, Repr, Inhabited
export Algorithm (AlgorithmPS256 AlgorithmPS384 AlgorithmPS512 AlgorithmES256 AlgorithmES384 AlgorithmES512)
/-- notation-core-go `Algorithm.Hash()` (hand-written copy, checked against the regenerated table) -/
def Algorithm.Hash : Algorithm → crypto.Hash
  | .AlgorithmPS256 | .AlgorithmES256 => .SHA256
  | .AlgorithmPS384 | .AlgorithmES384 => .SHA384
  | .AlgorithmPS512 | .AlgorithmES512 => .SHA512
  | .zero => .zero
structure KeySpec where
  «Type» : KeyType
  Size : Int
  deriving DecidableEq, Repr, Inhabited
/-- notation-core-go `KeySpec.SignatureAlgorithm()` (hand-written copy, checked against the regenerated table) -/
def KeySpec.SignatureAlgorithm (k : KeySpec) : Algorithm :=
  match k.«Type» with
  | .KeyTypeEC => if k.Size = 256 then .AlgorithmES256 else if k.Size = 384 then .AlgorithmES384
                  else if k.Size = 521 then .AlgorithmES512 else .zero
  | .KeyTypeRSA => if k.Size = 2048 then .AlgorithmPS256 else if k.Size = 3072 then .AlgorithmPS384
                   else if k.Size = 4096 then .AlgorithmPS512 else .zero
  | .zero => .zero
/-- the payload of an envelope as far as it is looked at: its content bytes (opaque) -/
structure Payload where
  Content : String
  deriving DecidableEq, Repr, Inhabited
/-- the signer info of a parsed envelope as far as verifier.VerifyBlob looks at it -/
structure SignerInfoV where
  SignatureAlgorithm : Algorithm
  deriving DecidableEq, Repr, Inhabited
/-- `signature.EnvelopeContent` as far as it is looked at -/
structure EnvelopeContent where
  Payload : Payload
  SignerInfo : SignerInfoV
  deriving DecidableEq, Repr, Inhabited
end signature

namespace fmt
/-- `fmt.Sprintf` building an error message: messages are not modelled -/
def Sprintf (f : String) (_ : Option GoLite.Err) : String := f
end fmt

namespace io
/-- an `io.Reader` value (opaque; what reading it yields is the oracle `BlobEnv.copy`) -/
structure Reader where
  id : Nat
  deriving DecidableEq, Repr, Inhabited
end io

namespace ocispec
/-- `ocispec.Descriptor` with ALL its fields, as a caller or a repository hands it over (the shared
`ocispec.Descriptor` of Src/Types.lean has the four fields of the Notary payload) -/
structure FullDescriptor where
  MediaType : String
  Digest : String
  Size : Int
  Annotations : GoLite.Map String String
  URLs : List String
  Data : String
  Platform : Option String
  ArtifactType : String
  deriving DecidableEq, Repr, Inhabited
end ocispec

namespace «notation»

/-- the bytes of a signature envelope -/
abbrev Bytes := List Nat

/-- a non-nil `BlobVerifier` (opaque: VerifyBlob only asks whether it is nil) -/
structure BlobVerifier where
  deriving DecidableEq, Repr, Inhabited

/-- `SignBlobOptions` (embeds `SignerSignOptions`) -/
structure SignBlobOptions where
  SignerSignOptions : SignerSignOptions
  ContentMediaType : String
  UserMetadata : GoLite.Map String String
  deriving DecidableEq, Repr, Inhabited

/-- `BlobVerifierVerifyOptions` as far as it is passed on -/
structure BlobVerifierVerifyOptions where
  SignatureMediaType : String
  UserMetadata : GoLite.Map String String
  TrustPolicyName : String
  deriving DecidableEq, Repr, Inhabited

/-- `VerifyBlobOptions` (embeds `BlobVerifierVerifyOptions`: its fields are promoted) -/
structure VerifyBlobOptions where
  BlobVerifierVerifyOptions : BlobVerifierVerifyOptions
  ContentMediaType : String
  deriving DecidableEq, Repr, Inhabited
def VerifyBlobOptions.SignatureMediaType (o : VerifyBlobOptions) : String := o.BlobVerifierVerifyOptions.SignatureMediaType
def VerifyBlobOptions.UserMetadata (o : VerifyBlobOptions) : GoLite.Map String String := o.BlobVerifierVerifyOptions.UserMetadata

/-- `*VerificationOutcome` as far as notation.VerifyBlob looks at it -/
structure BlobOutcome where
  id : Nat
  EnvelopeContent : Option signature.EnvelopeContent
  deriving DecidableEq, Repr, Inhabited

abbrev DescGen := digest.Algorithm → ocispec.Descriptor × Option GoLite.Err

/-- the ORACLES of notation.SignBlob / VerifyBlob / getDescriptorFunc -/
structure BlobEnv where
  parseMediaType : String → Option GoLite.Err
  copy : digest.Algorithm → Option io.Reader → Except GoLite.Err Int
  digest : digest.Algorithm → Option io.Reader → String
  signerSignBlob : DescGen → SignerSignOptions → Option Bytes × Option signature.SignerInfo × Option GoLite.Err
  verifierVerifyBlob : DescGen → Bytes → BlobVerifierVerifyOptions → Option BlobOutcome × Option GoLite.Err
  unmarshalPayload : String → envelope.Payload → envelope.Payload × Option GoLite.Err

def BlobEnv.ParseMediaType (env : BlobEnv) (s : String) : String × GoLite.Map String String × Option GoLite.Err :=
  ("", [], env.parseMediaType s)
def BlobEnv.Copy (env : BlobEnv) (a : digest.Algorithm) (r : Option io.Reader) : Int × Option GoLite.Err :=
  match env.copy a r with
  | .ok n => (n, none)
  | .error e => (0, some e)
def BlobEnv.Digest (env : BlobEnv) (a : digest.Algorithm) (r : Option io.Reader) : String := env.digest a r
def BlobEnv.SignerSignBlob (env : BlobEnv) := env.signerSignBlob
def BlobEnv.VerifierVerifyBlob (env : BlobEnv) := env.verifierVerifyBlob
def BlobEnv.UnmarshalPayload (env : BlobEnv) := env.unmarshalPayload

end «notation»

namespace verifier
/-- `notation.BlobVerifierVerifyOptions` as far as the tail of verifier.VerifyBlob reads it -/
structure BlobVerifierVerifyOptions where
  UserMetadata : GoLite.Map String String
  deriving DecidableEq, Repr, Inhabited
/-- the outcome object verifier.VerifyBlob builds; after processSignature succeeded its envelope content is there -/
structure BlobOutcome where
  EnvelopeContent : signature.EnvelopeContent
  Error : Option GoLite.Err
  deriving DecidableEq, Repr, Inhabited
/-- the ORACLE of the tail of verifier.VerifyBlob -/
structure VEnv where
  verifyUserMetadata : envelope.Payload → GoLite.Map String String → Option GoLite.Err
end verifier

end NotationModel.Src

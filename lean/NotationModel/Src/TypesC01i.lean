/-
Hand-written Lean counterparts of what the translated `verifyIntegrity` (`Generated/SrcC01i.lean`)
mentions beyond `Src/TypesC18.lean` (payload, envelope content). ORACLES: notation-core-go's
`signature.ParseEnvelope(mediaType, bytes)` (a field of `Env`) and the parsed envelope's `Verify()`
(a field of the envelope value). The type switch on the error of `Verify` is decided by the
error's kind. Core Lean only.
-/
import NotationModel.Src.TypesC18

namespace NotationModel.Src
namespace c01i

/-- a parsed envelope: `Verify()` answers with the content (nil on error) and the error -/
structure Envelope where
  Verify : Option signature.EnvelopeContent × Option GoLite.Err
  deriving Inhabited

structure Env where
  ParseEnvelope : String → signer.Bytes → Option Envelope × Option GoLite.Err

structure VerificationOutcome where
  VerificationLevel : trustpolicy.VerificationLevel
  deriving Inhabited

def errEnvelopeNotFound : GoLite.Err := ⟨"signature.SignatureEnvelopeNotFoundError"⟩
def errInvalidSignature : GoLite.Err := ⟨"signature.InvalidSignatureError"⟩
def errIntegrity : GoLite.Err := ⟨"signature.SignatureIntegrityError"⟩

def isEnvelopeNotFound (e : Option GoLite.Err) : Bool := e == some errEnvelopeNotFound
def isInvalidSignature (e : Option GoLite.Err) : Bool := e == some errInvalidSignature
def isIntegrityError (e : Option GoLite.Err) : Bool := e == some errIntegrity

end c01i
end NotationModel.Src

/-
Hand-written Lean counterparts of what the translated `(*verifier).verifyRevocation`
(`Generated/SrcC05b.lean`) mentions, beyond `Src/Types.lean` and `Src/TypesC06.lean` (time,
signing schemes, `revocation.Validator` with `ValidateContext` as an oracle).

ORACLES, each carried by the value it belongs to: `revocation.Validator.ValidateContext` (the
context-aware checker, TypesC06), `Client.Validate` (the deprecated `revocation.Revocation`),
`SignerInfo.AuthenticSigningTime()` (a field holding the method's answer).
Core Lean only.
-/
import NotationModel.Src.TypesC06

namespace NotationModel.Src
namespace c05

structure SignedAttributes where
  SigningScheme : signature.SigningScheme
  deriving DecidableEq, Repr, Inhabited

structure SignerInfo where
  SignedAttributes : SignedAttributes
  CertificateChain : List x509.Certificate
  /-- `SignerInfo.AuthenticSigningTime()`: what the method answers for this signer info -/
  AuthenticSigningTime : time.Time × Option GoLite.Err
  deriving Inhabited

structure EnvelopeContent where
  SignerInfo : SignerInfo
  deriving Inhabited

/-- `*notation.VerificationOutcome` as far as `verifyRevocation` reads it -/
structure VerificationOutcome where
  EnvelopeContent : EnvelopeContent
  VerificationLevel : trustpolicy.VerificationLevel
  deriving Inhabited

/-- the deprecated `revocation.Revocation`: `Validate(chain, signingTime)` as an oracle -/
structure Client where
  validate : List x509.Certificate → time.Time → List (Option revocationresult.CertRevocationResult) × Option GoLite.Err
  deriving Inhabited

def Client.Validate (c : Client) (chain : List x509.Certificate) (t : time.Time) :
    List (Option revocationresult.CertRevocationResult) × Option GoLite.Err := c.validate chain t

/-- the two fields of `verifier` the function reads (both nil-able interfaces) -/
structure verifier where
  revocationCodeSigningValidator : Option revocation.Validator
  revocationClient : Option Client
  deriving Inhabited

end c05
end NotationModel.Src

/-
Hand-written Lean counterparts of what the translated functions of verifier/crl/crl.go
(`Generated/SrcC15.lean`: `FileCache.fileName`, `checkExpiry`, `FileCache.Get`, `FileCache.Set`)
mention. Everything that leaves the process or calls into a library is an ORACLE: a field of
`crl.Env`, quantified over in the tie theorems (Props/C15.lean, `namespace Tie`):

  os.ReadFile, json.Unmarshal, json.Marshal, x509.ParseRevocationList, file.WriteFile,
  sha256.Sum256, time.Now.

The oracles are typed by the Go convention "a result or an error, never both / neither"
(`Except`), and re-packed into the `(value, err)` pairs the translated text destructures.
Concretely modelled library code: `hex.EncodeToString` (table lookup), `filepath.Join` of a clean
root and a separator-free name, `errors.Is` as equality of error kinds (`GoLite.Err` keeps the kind
through `%w` wrapping, see `GoLite.wrapf`), `time.Time` as "zero or an instant in seconds".
-/
import NotationModel.Src.Types

namespace NotationModel.Src

abbrev Bytes := List Nat

namespace context
abbrev Context := Unit
end context

namespace log
structure Logger where
  deriving Inhabited
/-- logging has no effect on results -/
def GetLogger (_ctx : context.Context) : Logger := {}
end log

namespace fs
def ErrNotExist : GoLite.Err := ⟨"fs.ErrNotExist"⟩
end fs

/- notation-core-go/revocation/crl, imported as corecrl -/
namespace corecrl
def ErrCacheMiss : GoLite.Err := ⟨"corecrl.ErrCacheMiss"⟩
end corecrl

namespace errors
/-- `errors.Is(err, target)` for sentinel targets: the kind survives wrapping -/
def Is (e : Option GoLite.Err) (target : GoLite.Err) : Bool := e == some target
end errors

namespace time
/-- `time.Time`: the zero time (`none`) or an instant in seconds -/
structure Time where
  instant : Option Int
  deriving DecidableEq, Repr, Inhabited
def Time.IsZero (t : Time) : Bool := t.instant.isNone
/-- `t.After(u)`; every instant is after the zero time -/
def Time.After (t u : Time) : Bool :=
  match t.instant, u.instant with
  | some a, some b => decide (a > b)
  | some _, none => true
  | none, _ => false
/-- the wall clock reading `n` (never the zero time) -/
def atUnix (n : Int) : Time := ⟨some n⟩
end time

namespace x509
/-- what the cache looks at in a parsed CRL -/
structure RevocationList where
  Raw : Bytes
  NextUpdate : time.Time
  deriving DecidableEq, Repr, Inhabited
end x509

namespace corecrl
structure Bundle where
  BaseCRL : Option x509.RevocationList := none
  DeltaCRL : Option x509.RevocationList := none
  deriving DecidableEq, Repr, Inhabited
end corecrl

namespace filepath
/-- `filepath.Join(root, name)` for a clean root and a separator-free, dot-free name -/
def Join (a b : String) : String := String.ofList (a.toList ++ '/' :: b.toList)
end filepath

namespace hex
def hextable : List Char := "0123456789abcdef".toList
/-- `hex.EncodeToString`: `hextable[v>>4]`, `hextable[v&0x0f]` per byte -/
def EncodeToString (src : Bytes) : String :=
  String.ofList (src.flatMap (fun v => [hextable.getD (v / 16 % 16) '0', hextable.getD (v % 16) '0']))
end hex

namespace crl

/-- `fileCacheContent`; both fields are nil-able byte slices (`content.DeltaCRL != nil`) -/
structure fileCacheContent where
  BaseCRL : Option Bytes := none
  DeltaCRL : Option Bytes := none
  deriving DecidableEq, Repr, Inhabited

structure FileCache where
  root : String
  deriving DecidableEq, Repr, Inhabited

/-- the oracles -/
structure Env where
  now : Int                                          -- time.Now()
  sum256 : String → Bytes                            -- sha256.Sum256([]byte(url))
  read : String → Except GoLite.Err Bytes            -- os.ReadFile
  unmarshal : Bytes → Except GoLite.Err fileCacheContent   -- json.Unmarshal into fileCacheContent
  marshal : fileCacheContent → Except GoLite.Err Bytes     -- json.Marshal
  parse : Option Bytes → Except GoLite.Err x509.RevocationList  -- x509.ParseRevocationList
  write : String → String → Bytes → Option GoLite.Err      -- file.WriteFile(tempDir, path, content)

def pair {α : Type} (d : α) : Except GoLite.Err α → α × Option GoLite.Err
  | .ok a => (a, none)
  | .error e => (d, some e)

def Env.ReadFile (env : Env) (path : String) : Bytes × Option GoLite.Err := pair [] (env.read path)
/-- `json.Unmarshal(data, &content)`: the new value of `content` and the error -/
def Env.Unmarshal (env : Env) (data : Bytes) (old : fileCacheContent) : fileCacheContent × Option GoLite.Err :=
  pair old (env.unmarshal data)
def Env.Marshal (env : Env) (c : fileCacheContent) : Bytes × Option GoLite.Err := pair [] (env.marshal c)
def Env.ParseRevocationList (env : Env) (der : Option Bytes) : Option x509.RevocationList × Option GoLite.Err :=
  match env.parse der with
  | .ok rl => (some rl, none)
  | .error e => (none, some e)
def Env.WriteFile (env : Env) (tempDir path : String) (content : Bytes) : Option GoLite.Err := env.write tempDir path content
def Env.Now (env : Env) : time.Time := time.atUnix env.now

end crl

end NotationModel.Src

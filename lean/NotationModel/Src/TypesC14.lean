/-
Hand-written Lean counterparts of what the translated `file.WriteFile`
(`Generated/SrcC14.lean`, written by extract/go2lean_fs.go on every run) mentions.

The translated function is a program in the state monad `FS`. The state is the WORLD as the
function can see it: the log of operating-system calls it has made so far, with their arguments,
and an ORACLE that decides - looking at the whole log, so with full knowledge of the history -
what each call answers: whether it fails, with which error, and which name `os.CreateTemp` hands
out. Tie theorems (Props/C14.lean, `namespace Tie`) quantify over every oracle, hence over every
pattern of failures, including failures of the cleanup calls themselves.

Modelled, not verified (trusted base): that these five calls are the only way `WriteFile` touches
the file system (`fmt.Errorf` and `(*os.File).Name` are pure), that `(*os.File).Write` either
reports an error or has written the whole slice (its documented contract), and that each call is
one atomic step as far as other processes are concerned EXCEPT `Write`, which the model splits
into any number of partial writes (Model/C14 `Event.write`).
Core Lean only.
-/
import NotationModel.GoLite

namespace NotationModel.Src
namespace fsproto

abbrev Bytes := List Nat

/-- `*os.File` as far as `WriteFile` uses it: the name it was created under -/
structure File where
  name : String
  deriving DecidableEq, Repr, Inhabited

/-- one operating-system call, with its arguments -/
inductive Call
  | createTemp (dir pattern : String)
  | write (f : File) (b : Bytes)
  | close (f : File)
  | remove (name : String)
  | rename (old new : String)
  deriving DecidableEq, Repr

/-- the oracle: given the log INCLUDING the call being answered -/
structure Oracle where
  /-- `some e`: the last call of the log fails with `e` -/
  fault : List Call → Option GoLite.Err
  /-- the name `os.CreateTemp` hands out when it is the last call of the log and succeeds -/
  tempName : List Call → String

/-- a program over the world: reads the oracle, extends the log of calls. (A plain function type
with its own `Monad` instance rather than `ReaderT Oracle (StateM ..)`, so that the tie proofs
unfold it with three equations.) -/
def FS (α : Type) : Type := Oracle → List Call → α × List Call

instance : Monad FS where
  pure a := fun _ l => (a, l)
  bind m f := fun o l => f (m o l).1 o (m o l).2
  map f m := fun o l => (f (m o l).1, (m o l).2)

@[simp] theorem FS.pure_apply {α : Type} (a : α) (o : Oracle) (l : List Call) :
    (pure a : FS α) o l = (a, l) := rfl
@[simp] theorem FS.bind_apply {α β : Type} (m : FS α) (f : α → FS β) (o : Oracle) (l : List Call) :
    (m >>= f) o l = f (m o l).1 o (m o l).2 := rfl
@[simp] theorem FS.map_apply {α β : Type} (f : α → β) (m : FS α) (o : Oracle) (l : List Call) :
    (f <$> m) o l = (f (m o l).1, (m o l).2) := rfl

@[simp] theorem FS.ite_apply {α : Type} (c : Prop) [Decidable c] (a b : FS α) (o : Oracle) (l : List Call) :
    (if c then a else b) o l = if c then a o l else b o l := by split <;> rfl
@[simp] theorem FS.mapConst_apply {α β : Type} (b : β) (m : FS α) (o : Oracle) (l : List Call) :
    (Functor.mapConst b m) o l = (b, (m o l).2) := rfl
@[simp] theorem FS.discard_apply {α : Type} (m : FS α) (o : Oracle) (l : List Call) :
    (discard m) o l = ((), (m o l).2) := rfl

/-- perform one call: log it, ask the oracle -/
def perform (c : Call) : FS (Option GoLite.Err) := fun o l => (o.fault (l ++ [c]), l ++ [c])

namespace os

/-- `os.CreateTemp(dir, pattern)`: a file and no error, or no file and an error -/
def CreateTemp (dir pattern : String) : FS (File × Option GoLite.Err) := fun o l =>
  let l' := l ++ [.createTemp dir pattern]
  match o.fault l' with
  | some e => ((default, some e), l')
  | none => ((⟨o.tempName l'⟩, none), l')

def Remove (name : String) : FS (Option GoLite.Err) := perform (.remove name)

def Rename (old new : String) : FS (Option GoLite.Err) := perform (.rename old new)

end os

/-- `f.Write(b)`: the count (not used by the translated text) and the error -/
def File.Write (f : File) (b : Bytes) : FS (Int × Option GoLite.Err) := fun o l =>
  let l' := l ++ [.write f b]
  match o.fault l' with
  | some e => ((0, some e), l')
  | none => ((b.length, none), l')

def File.Close (f : File) : FS (Option GoLite.Err) := perform (.close f)

def File.Name (f : File) : String := f.name

/-- run a program: its result and the log afterwards -/
def runFS {α : Type} (m : FS α) (o : Oracle) (log : List Call := []) : α × List Call := m o log

end fsproto
end NotationModel.Src

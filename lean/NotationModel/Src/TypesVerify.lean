/-
Types for `Generated/SrcVerifyOCI.lean`: `(*verifier).Verify` (verifier/verifier.go) translated as a
whole. What it calls that is not translated elsewhere is an oracle here: the policy document's
statement selection, `processSignature` (tied on its own in Props/C02_Process.lean), `json.Unmarshal`
of the payload. `content.Equal` (oras) is written out: size, digest and media type are compared.
-/
import NotationModel.Src.Types
import NotationModel.Generated.SrcLevels

namespace NotationModel.Src

namespace reflect
/-- `reflect.DeepEqual(level, trustpolicy.LevelSkip)` on a pointer to a level -/
def DeepEqual (a : Option trustpolicy.VerificationLevel) (b : trustpolicy.VerificationLevel) : Bool := a == some b
end reflect

namespace verifier

/-- the envelope content as far as `Verify` looks into it: the payload bytes (opaque) -/
structure PayloadBytes where
  id : Nat
  deriving DecidableEq, Repr, Inhabited
structure EnvPayload where
  Content : PayloadBytes
  deriving DecidableEq, Repr, Inhabited
structure EnvContent where
  Payload : EnvPayload
  deriving DecidableEq, Repr, Inhabited

namespace «notation»
/-- `notation.VerificationOutcome`, the fields `Verify` touches (shadows the two-field view of Src/Types.lean
inside namespace `verifier`) -/
structure VerificationOutcome where
  RawSignature : NotationModel.Src.«notation».SigBlob
  VerificationLevel : Option trustpolicy.VerificationLevel
  EnvelopeContent : EnvContent
  Error : Option GoLite.Err
  deriving DecidableEq, Repr, Inhabited
end «notation»

/-- `content.Equal` (oras-go): same size, digest and media type -/
def contentEqual (a b : ocispec.Descriptor) : Bool :=
  a.Size == b.Size && a.Digest == b.Digest && a.MediaType == b.MediaType

structure TrustPolicyV where
  Name : String
  TrustedIdentities : List String
  TrustStores : List String
  SignatureVerification : trustpolicy.SignatureVerification
  deriving DecidableEq, Repr, Inhabited

structure DocV where
  GetApplicableTrustPolicy : String → TrustPolicyV × Option GoLite.Err
  deriving Inhabited

structure VerifierV where
  ociTrustPolicyDoc : Option DocV
  deriving Inhabited

structure OptsV where
  ArtifactReference : String
  SignatureMediaType : String
  PluginConfig : GoLite.Map String String
  UserMetadata : GoLite.Map String String
  deriving DecidableEq, Repr, Inhabited

structure EnvV where
  processSignature : NotationModel.Src.«notation».SigBlob → String → String → List String → List String →
    trustpolicy.SignatureVerification → GoLite.Map String String → «notation».VerificationOutcome →
    Option GoLite.Err × «notation».VerificationOutcome
  unmarshal : PayloadBytes → envelope.Payload → Option GoLite.Err × envelope.Payload

end verifier
end NotationModel.Src

/-
Hand-written Lean counterparts of what the translated trust policy SELECTION functions
(`Generated/SrcC08.lean`) mention beyond `Src/TypesC09.lean` (whose document and statement
structures are reused).

ORACLES / ABSTRACTIONS (library code and aliasing that is not translated):
* `validateRegistryScopeFormat` (two regular expressions, tied to its own model by C09) is a
  PARAMETER `validFmt` of the translated functions that reach it; the tie theorems assume it
  accepts exactly what the C08 model's `validFormat` accepts.
* `strings.LastIndex(s, sep)` is `C08lib.LastIndex`: position of the last occurrence of a
  one-character separator, -1 if there is none (any other separator: -1). Positions count
  CHARACTERS where Go counts bytes; so does `GoLite.slice`, and the translated code only uses the
  position to slice the same string, so the text cut off is the same.
* `strings.TrimSpace` is `C08lib.TrimSpace`: trimming by the model's `isSpace` (all of Unicode
  White_Space, as `unicode.IsSpace`; `GoLite.trimSpace` knows Latin-1 only).
* `(&stmt).clone()` is the IDENTITY here: in value semantics a copy is the value. That the copy
  shares no memory with the document is not visible at this level - it is the business of the clone
  facts (`Facts.ociCloneFields`, ...) and of `copy_is_private`.
-/
import NotationModel.Src.TypesC09
import NotationModel.Generated.C08
import NotationModel.Model.C08

namespace NotationModel.Src

namespace C08lib

/-- position of the last `c` -/
def lastIdx (c : Char) : List Char → Option Nat
  | [] => none
  | x :: r =>
    match lastIdx c r with
    | some k => some (k + 1)
    | none => if x = c then some 0 else none

/-- ORACLE `strings.LastIndex`, see the head of this file -/
def LastIndex (s sep : String) : Int :=
  match sep.toList with
  | [c] => match lastIdx c s.toList with
    | some k => (k : Int)
    | none => -1
  | _ => -1

/-- ORACLE `strings.TrimSpace`, see the head of this file -/
def TrimSpace (s : String) : String :=
  String.ofList ((s.toList.dropWhile C08.isSpace).reverse.dropWhile C08.isSpace).reverse

end C08lib

namespace trustpolicy
/-- `(*OCITrustPolicy).clone`: a non-nil pointer to a statement with the same value - the identity in
value semantics, see the head of this file -/
def OCITrustPolicy.clone (t : OCITrustPolicy) : Option OCITrustPolicy := some t
/-- `(*BlobTrustPolicy).clone` -/
def BlobTrustPolicy.clone (t : BlobTrustPolicy) : Option BlobTrustPolicy := some t
end trustpolicy

end NotationModel.Src

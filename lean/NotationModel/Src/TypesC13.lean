/-
Hand-written Lean counterparts of the Go types and library calls that the translated trust
store functions (`Generated/SrcC13*.lean`) mention. Everything lives BELOW the namespace
`NotationModel.Src.truststore` (also the helper packages `file`, `dir`, `fs`, `os`, `x509`, ...):
inside the translated text of package truststore the Go spelling `pkg.Name` then resolves to
`truststore.pkg.Name` first, and nothing here can meet the type module of another property.

ORACLES (library code that is not translated):
* the file system: `os.Lstat`, `os.ReadDir`, `corex509.ReadCertificateFile` are the fields of the
  parameter `w : World` of the translated `GetCertificates`; `SysFS.SysPath` is a field of the trust
  store value. Each returns its Go results (value × error-or-nil) and is otherwise arbitrary: the tie
  theorem holds for EVERY such world. (`os.ReadDir` is documented to return the entries sorted by
  file name - that is a hypothesis of the theorem, not part of the oracle.)
* `fs.FileMode` is a bit set of which two bits have names here (directory, symlink); `m&fs.ModeSymlink != 0`
  is `GoLite.hasBits m fs.ModeSymlink` (class `GoLite.HasBits`, declared below for the translator).
* crypto/x509 on a certificate: `c.CheckSignature(c.SignatureAlgorithm, c.RawTBSCertificate, c.Signature)`
  is the field `selfSigErr` (any error or nil); `c.CheckSignatureFrom(c)` first applies the
  basic-constraints / key-usage test to the parent - the field `signOk` -, then refuses SHA-1 and
  MD5 based algorithms outright (`x509.InsecureAlgorithmError`, the field `weakSig`) and then checks
  the same signature under the same key. (This reading of `CheckSignatureFrom` is what the correspondence
  harness re-measures on every pool certificate.) Applied to other arguments both fail: the
  translated code makes no other call, and if it started to, the ties would break.
* `regexp.MustCompile(text).MatchString(s)`: Go's regexp on the one expression of
  `file.IsValidFileName` is taken to be `C13.matchesFileNameRegex` (compared with Go's regexp on
  every correspondence run); any other expression text matches nothing, so a changed expression
  breaks the tie.
* `path.Join` is the model's `joinComponents` / `renderPath` (compared with Go's on every
  correspondence run, op `storePath`); `filepath.Join(dir, name)` only feeds the
  `ReadCertificateFile` oracle; `bytes.Equal` is equality; `os.IsNotExist` looks at the error kind;
  `internal/slices.Contains` is list membership (`GoLite.contains`).
-/
import NotationModel.Src.Types
import NotationModel.Model.C13

namespace GoLite
/-- the bit test `a&b != 0` of a flag type -/
class HasBits (α : Type) where
  hasBits : α → α → Bool
export HasBits (hasBits)
end GoLite

namespace NotationModel.Src
namespace truststore

/-- `type Type string` -/
abbrev «Type» := String

namespace fs
/-- `fs.FileMode`: the directory bit, the symlink bit, all other bits -/
structure FileMode where
  dir : Bool
  symlink : Bool
  other : Nat
  deriving DecidableEq, Repr, Inhabited
def ModeDir : FileMode := ⟨true, false, 0⟩
def ModeSymlink : FileMode := ⟨false, true, 0⟩
def FileMode.IsDir (m : FileMode) : Bool := m.dir
instance : GoLite.HasBits FileMode :=
  ⟨fun a b => (a.dir && b.dir) || (a.symlink && b.symlink) || (a.other &&& b.other) != 0⟩
/-- `fs.FileInfo` as far as it is looked at -/
structure FileInfo where
  Mode : FileMode
  deriving Repr, Inhabited
/-- `fs.DirEntry` as far as it is looked at -/
structure DirEntry where
  Name : String
  IsDir : Bool
  «Type» : FileMode
  deriving Repr, Inhabited
end fs

namespace x509
/-- `*x509.Certificate` as far as the trust store looks at it -/
structure Certificate where
  id : Nat                         -- identity (not looked at by the code)
  IsCA : Bool
  RawSubject : List Nat
  RawIssuer : List Nat
  SignatureAlgorithm : Nat
  RawTBSCertificate : List Nat
  Signature : List Nat
  signOk : Bool                    -- ORACLE: own key admitted to sign certificates
  weakSig : Bool                   -- ORACLE: signature algorithm refused by CheckSignatureFrom (SHA-1, MD5)
  selfSigErr : Option GoLite.Err   -- ORACLE: result of checking the signature under the own key
  deriving DecidableEq, Repr, Inhabited
/-- ORACLE, see the head of this file -/
def Certificate.CheckSignature (c : Certificate) (alg : Nat) (tbs sig : List Nat) : Option GoLite.Err :=
  if alg = c.SignatureAlgorithm ∧ tbs = c.RawTBSCertificate ∧ sig = c.Signature then c.selfSigErr
  else some ⟨"x509: not the certificate's own signature"⟩
/-- ORACLE, see the head of this file -/
def Certificate.CheckSignatureFrom (c parent : Certificate) : Option GoLite.Err :=
  if parent.id = c.id then
    (if c.signOk then (if c.weakSig then some ⟨"x509.InsecureAlgorithmError"⟩ else c.selfSigErr)
     else some ⟨"x509.ConstraintViolationError"⟩)
  else some ⟨"x509: not the certificate itself"⟩
end x509

namespace bytes
def Equal (a b : List Nat) : Bool := a == b
end bytes

namespace os
def IsNotExist (e : Option GoLite.Err) : Bool := e == some ⟨"fs.ErrNotExist"⟩
end os

namespace filepath
def Join (a b : String) : String := a ++ "/" ++ b
end filepath

namespace path
/-- ORACLE: `path.Join` is the model's lexical join -/
def Join (items : List String) : String :=
  String.ofList (C13.renderPath (C13.joinComponents (items.map String.toList)))
end path

namespace regexp
structure Regexp where
  text : String
  deriving Repr, Inhabited
def MustCompile (text : String) : Regexp := ⟨text⟩
/-- ORACLE, see the head of this file -/
def Regexp.MatchString (r : Regexp) (s : String) : Bool :=
  if r.text = "^[a-zA-Z0-9_.-]+$" then C13.matchesFileNameRegex s.toList else false
end regexp

namespace dir
/-- `dir.SysFS` as far as it is used: `SysPath(items...)` with one item -/
structure SysFS where
  SysPath : String → String × Option GoLite.Err
end dir

/-- `x509TrustStore` -/
structure x509TrustStore where
  trustStorefs : dir.SysFS

/-- ORACLE: the file system as `GetCertificates` consults it -/
structure World where
  Lstat : String → fs.FileInfo × Option GoLite.Err
  ReadDir : String → List fs.DirEntry × Option GoLite.Err
  ReadCertificateFile : String → List x509.Certificate × Option GoLite.Err

end truststore
end NotationModel.Src

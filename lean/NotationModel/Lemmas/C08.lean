/-
C08 - helper lemmas: "last match" loops, uniqueness from `Nodup`, the selection functions in
closed form, the clone reference model under all-fresh facts. Core Lean only.
-/
import NotationModel.Model.C08
set_option linter.unusedSimpArgs false
set_option linter.unusedVariables false

namespace NotationModel.C08

/-! ### generic list facts -/

/-- one pass keeping the last element that satisfies `p` -/
def lastMatch {α : Type} (p : α → Bool) : List α → Option α → Option α
  | [], acc => acc
  | x :: r, acc => lastMatch p r (if p x then some x else acc)

theorem lastMatch_none {α : Type} (p : α → Bool) : ∀ (l : List α) (acc : Option α),
    (∀ x ∈ l, p x = false) → lastMatch p l acc = acc := by
  intro l
  induction l with
  | nil => intro acc _; rfl
  | cons x r ih =>
    intro acc h
    have hx : p x = false := h x (by simp)
    simp only [lastMatch, hx]
    exact ih acc (fun y hy => h y (by simp [hy]))

/-- whatever comes out of the loop satisfied the test (or was there before) -/
theorem lastMatch_sound {α : Type} (p : α → Bool) : ∀ (l : List α) (acc : Option α) (y : α),
    lastMatch p l acc = some y → (y ∈ l ∧ p y = true) ∨ acc = some y := by
  intro l
  induction l with
  | nil => intro acc y h; exact Or.inr h
  | cons x r ih =>
    intro acc y h
    simp only [lastMatch] at h
    rcases ih _ y h with ⟨hm, hp⟩ | hacc
    · exact Or.inl ⟨by simp [hm], hp⟩
    · by_cases hx : p x = true
      · simp only [hx, if_true] at hacc
        cases hacc
        exact Or.inl ⟨by simp, hx⟩
      · simp only [hx] at hacc
        exact Or.inr hacc

/-- when all elements satisfying `p` are one and the same `s`, the loop ends with `s` -/
theorem lastMatch_unique {α : Type} (p : α → Bool) : ∀ (l : List α) (acc : Option α) (s : α),
    s ∈ l → p s = true → (∀ t ∈ l, p t = true → t = s) → lastMatch p l acc = some s := by
  intro l
  induction l with
  | nil => intro acc s hs; cases hs
  | cons x r ih =>
    intro acc s hs hp hall
    simp only [lastMatch]
    by_cases hr : ∃ t ∈ r, p t = true
    · obtain ⟨t, ht, hpt⟩ := hr
      have : t = s := hall t (by simp [ht]) hpt
      subst this
      exact ih _ t ht hpt (fun u hu hpu => hall u (by simp [hu]) hpu)
    · have hnone : ∀ t ∈ r, p t = false := by
        intro t ht
        cases hpt : p t with
        | false => rfl
        | true => exact absurd ⟨t, ht, hpt⟩ hr
      rw [lastMatch_none p r _ hnone]
      have hsx : s = x := by
        rcases List.mem_cons.1 hs with h | h
        · exact h
        · rw [hnone s h] at hp; cases hp
      subst hsx
      simp [hp]

/-- if anything satisfies `p`, the loop ends with something that does -/
theorem lastMatch_some {α : Type} (p : α → Bool) : ∀ (l : List α) (acc : Option α),
    (∃ x ∈ l, p x = true) → ∃ y, y ∈ l ∧ p y = true ∧ lastMatch p l acc = some y := by
  intro l
  induction l with
  | nil => intro acc ⟨x, hx, _⟩; cases hx
  | cons x r ih =>
    intro acc hex
    simp only [lastMatch]
    by_cases hr : ∃ t ∈ r, p t = true
    · obtain ⟨y, hy, hpy, hl⟩ := ih (if p x = true then some x else acc) hr
      exact ⟨y, List.mem_cons_of_mem _ hy, hpy, hl⟩
    · have hnone : ∀ t ∈ r, p t = false := by
        intro t ht
        cases hpt : p t with
        | false => rfl
        | true => exact absurd ⟨t, ht, hpt⟩ hr
      obtain ⟨w, hw, hpw⟩ := hex
      have hwx : w = x := by
        rcases List.mem_cons.1 hw with h | h
        · exact h
        · rw [hnone w h] at hpw; cases hpw
      subst hwx
      rw [lastMatch_none p r _ hnone]
      exact ⟨w, List.mem_cons_self, hpw, by simp [hpw]⟩

theorem filter_le_one_unique {α : Type} (p : α → Bool) (l : List α)
    (h : (l.filter p).length ≤ 1) (s t : α) (hs : s ∈ l) (ht : t ∈ l) (hps : p s = true) (hpt : p t = true) :
    s = t := by
  have hs' : s ∈ l.filter p := List.mem_filter.2 ⟨hs, hps⟩
  have ht' : t ∈ l.filter p := List.mem_filter.2 ⟨ht, hpt⟩
  match hf : l.filter p, h with
  | [], _ => rw [hf] at hs'; cases hs'
  | [x], _ =>
    rw [hf] at hs' ht'
    simp at hs' ht'
    rw [hs', ht']
  | _ :: _ :: _, h => simp at h

theorem le_one_cases {α : Type} (l : List α) (h : l.length ≤ 1) : l = [] ∨ ∃ x, l = [x] := by
  match l, h with
  | [], _ => exact Or.inl rfl
  | [x], _ => exact Or.inr ⟨x, rfl⟩
  | _ :: _ :: _, h => simp at h

/-- no value occurs in the `f`-lists of two elements -/
theorem nodup_flatMap_filter {α β : Type} [BEq β] [LawfulBEq β] (f : α → List β) (x : β) : ∀ (d : List α),
    (d.flatMap f).Nodup → (d.filter (fun a => (f a).contains x)).length ≤ 1 := by
  intro d
  induction d with
  | nil => intro _; simp
  | cons a r ih =>
    intro h
    rw [List.flatMap_cons, List.nodup_append] at h
    obtain ⟨_, hr, hdis⟩ := h
    by_cases hx : (f a).contains x = true
    · have : r.filter (fun a => (f a).contains x) = [] := by
        apply List.filter_eq_nil_iff.2
        intro b hb hbx
        have h1 : x ∈ f a := List.contains_iff_mem.1 hx
        have h2 : x ∈ r.flatMap f := List.mem_flatMap.2 ⟨b, hb, List.contains_iff_mem.1 hbx⟩
        exact hdis x h1 x h2 rfl
      rw [List.filter_cons, if_pos hx, this]
      exact Nat.le_refl 1
    · rw [List.filter_cons, if_neg hx]
      exact ih hr

theorem nodup_map_filter {α β : Type} [BEq β] [LawfulBEq β] (g : α → β) (n : β) : ∀ (l : List α),
    (l.map g).Nodup → (l.filter (fun a => g a == n)).length ≤ 1 := by
  intro l
  induction l with
  | nil => intro _; simp
  | cons a r ih =>
    intro h
    rw [List.map_cons, List.nodup_cons] at h
    obtain ⟨hna, hr⟩ := h
    by_cases hx : (g a == n) = true
    · have hga : g a = n := eq_of_beq hx
      have : r.filter (fun a => g a == n) = [] := by
        apply List.filter_eq_nil_iff.2
        intro b hb hbx
        have : g b = n := eq_of_beq hbx
        exact hna (List.mem_map.2 ⟨b, hb, by rw [this, hga]⟩)
      rw [List.filter_cons, if_pos hx, this]
      exact Nat.le_refl 1
    · rw [List.filter_cons, if_neg hx]
      exact ih hr

/-- `find?` through the filter: exactly-one and none -/
theorem find?_of_filter_single {α : Type} (p : α → Bool) (l : List α) (s : α) (h : l.filter p = [s]) :
    l.find? p = some s := by
  rw [← List.head?_filter, h]; rfl

theorem find?_of_filter_nil {α : Type} (p : α → Bool) (l : List α) (h : l.filter p = []) :
    l.find? p = none := by
  rw [← List.head?_filter, h]; rfl

theorem forall₂_map {α β : Type} (p : α → β → Bool) (f : α → β) : ∀ (l : List α),
    forall₂ p l (l.map f) = l.all (fun a => p a (f a)) := by
  intro l
  induction l with
  | nil => rfl
  | cons a r ih => simp [forall₂, ih]

/-! ### the OCI loop -/

def isW (s : Stmt) : Bool := s.scopes.contains wildcard
def isE (path : Text) (s : Stmt) : Bool := !s.scopes.contains wildcard && s.scopes.contains path

theorem scan_eq (path : Text) : ∀ (d : List Stmt) (w a : Option Stmt),
    scan path d w a = (lastMatch isW d w, lastMatch (isE path) d a) := by
  intro d
  induction d with
  | nil => intro w a; rfl
  | cons s r ih =>
    intro w a
    simp only [scan, lastMatch, isW, isE]
    by_cases h1 : s.scopes.contains wildcard = true
    · simp only [h1, ↓reduceIte, Bool.not_true, Bool.false_and, Bool.false_eq_true, ih]
    · have h1' : s.scopes.contains wildcard = false := Bool.eq_false_iff.2 h1
      by_cases h2 : s.scopes.contains path = true
      · simp only [h1', h2, ↓reduceIte, Bool.not_false, Bool.true_and, Bool.false_eq_true, ih]
      · have h2' : s.scopes.contains path = false := Bool.eq_false_iff.2 h2
        simp only [h1', h2', ↓reduceIte, Bool.not_false, Bool.true_and, Bool.false_eq_true, ih]

theorem wildcard_eq : wildcard = ['*'] := by decide

/-- a repository path is never the wildcard -/
theorem artifactPath_ne_wildcard (ref path : Text) (h : artifactPath ref = some path) : path ≠ wildcard := by
  intro hw
  unfold artifactPath at h
  split at h
  · cases h
  · rename_i p _
    split at h
    · rename_i hv
      cases h
      rw [hw, wildcard_eq] at hv
      exact absurd hv (by decide)
    · cases h

/-- the two consequences of validity the OCI selection uses -/
theorem scopesUnique_filter (d : List Stmt) (h : scopesUnique d = true) (x : Text) :
    (d.filter (fun s => s.scopes.contains x)).length ≤ 1 := by
  simp only [scopesUnique, Bool.and_eq_true, decide_eq_true_eq] at h
  exact nodup_flatMap_filter (fun s : Stmt => s.scopes) x d h.1

theorem scopesUnique_wild (d : List Stmt) (h : scopesUnique d = true) (s : Stmt) (hs : s ∈ d)
    (hw : s.scopes.contains wildcard = true) : s.scopes = [wildcard] := by
  simp only [scopesUnique, Bool.and_eq_true, List.all_eq_true] at h
  have := h.2 s hs
  simp only [hw, Bool.not_true, Bool.false_or] at this
  simpa using this

/-- in a valid document the code's test for an exact match (`else if`, after the wildcard test)
is plain membership of the path -/
theorem isE_eq_contains (d : List Stmt) (h : scopesUnique d = true) (path : Text) (hp : path ≠ wildcard)
    (s : Stmt) (hs : s ∈ d) : isE path s = s.scopes.contains path := by
  unfold isE
  cases hw : s.scopes.contains wildcard with
  | false => simp only [Bool.not_false, Bool.true_and]
  | true =>
    have hsc := scopesUnique_wild d h s hs hw
    have : s.scopes.contains path = false := by
      apply Bool.eq_false_iff.2
      intro hc
      have hm := List.contains_iff_mem.1 hc
      rw [hsc] at hm
      exact hp (List.mem_singleton.1 hm)
    simp only [Bool.not_true, Bool.false_and, this]

theorem classOf_eq (r : Except SelErr Stmt) : classOf r = classOfExpected (nameOf r) := by
  cases r <;> rfl

theorem selectOCI_some (d : List Stmt) (ref path : Text) (hp : artifactPath ref = some path) :
    selectOCI d ref =
      match lastMatch (isE path) d none, lastMatch isW d none with
      | some a, _ => .ok a
      | none, some w => .ok w
      | none, none => .error .noApplicablePolicy := by
  unfold selectOCI
  simp only [hp, scan_eq]
  cases lastMatch (isE path) d none <;> cases lastMatch isW d none <;> rfl

/-- whatever is selected is a statement of the document -/
theorem selectOCI_mem (d : List Stmt) (ref : Text) (s : Stmt) (h : selectOCI d ref = .ok s) : s ∈ d := by
  cases hp : artifactPath ref with
  | none => simp [selectOCI, hp] at h
  | some path =>
    rw [selectOCI_some d ref path hp] at h
    cases h1 : lastMatch (isE path) d none with
    | some a =>
      simp only [h1] at h
      cases h
      rcases lastMatch_sound _ _ _ _ h1 with ⟨hm, _⟩ | h0
      · exact hm
      · cases h0
    | none =>
      cases h2 : lastMatch isW d none with
      | some w =>
        simp only [h1, h2] at h
        cases h
        rcases lastMatch_sound _ _ _ _ h2 with ⟨hm, _⟩ | h0
        · exact hm
        · cases h0
      | none => simp [h1, h2] at h

theorem selectBlob_mem (d : List Stmt) (name : Text) (s : Stmt) (h : selectBlob d name = .ok s) : s ∈ d := by
  unfold selectBlob at h
  split at h
  · cases h
  · split at h
    · rename_i hf
      cases h
      exact List.mem_of_find?_eq_some hf
    · cases h

theorem selectGlobal_mem (d : List Stmt) (s : Stmt) (h : selectGlobal d = .ok s) : s ∈ d := by
  unfold selectGlobal at h
  split at h
  · rename_i hf
    cases h
    exact List.mem_of_find?_eq_some hf
  · cases h

theorem selectQ_mem (d : List Stmt) (q : Query) (s : Stmt) (h : selectQ d q = .ok s) : s ∈ d := by
  cases q with
  | oci ref => exact selectOCI_mem d ref s h
  | blob name => exact selectBlob_mem d name s h
  | global => exact selectGlobal_mem d s h

/-- the OCI selection of a valid document in closed, order-free form -/
theorem nameOf_selectOCI (d : List Stmt) (h : scopesUnique d = true) (ref : Text) :
    nameOf (selectOCI d ref) = expectedOCI d ref := by
  cases hp : artifactPath ref with
  | none => simp only [selectOCI, expectedOCI, hp, nameOf]
  | some path =>
    have hne := artifactPath_ne_wildcard ref path hp
    have hcongr : d.filter (fun s => s.scopes.contains path) = d.filter (isE path) :=
      List.filter_congr (fun s hs => (isE_eq_contains d h path hne s hs).symm)
    rw [selectOCI_some d ref path hp]
    simp only [expectedOCI, hp]
    rcases le_one_cases _ (scopesUnique_filter d h path) with hf | ⟨s, hf⟩
    · have hnoE : ∀ s ∈ d, isE path s = false := by
        intro s hs
        exact Bool.eq_false_iff.2 (List.filter_eq_nil_iff.1 (hcongr ▸ hf) s hs)
      rw [lastMatch_none _ _ _ hnoE, hf]
      simp only []
      rcases le_one_cases _ (scopesUnique_filter d h wildcard) with hw | ⟨w, hw⟩
      · have hnoW : ∀ s ∈ d, isW s = false := by
          intro s hs
          exact Bool.eq_false_iff.2 (List.filter_eq_nil_iff.1 hw s hs)
        rw [lastMatch_none _ _ _ hnoW, hw]
        rfl
      · have hwm : w ∈ d.filter (fun s => s.scopes.contains wildcard) := by rw [hw]; exact List.mem_singleton.2 rfl
        have hwd := (List.mem_filter.1 hwm)
        have : lastMatch isW d none = some w := by
          apply lastMatch_unique isW d none w hwd.1 hwd.2
          intro t ht hpt
          have : t ∈ d.filter (fun s => s.scopes.contains wildcard) := List.mem_filter.2 ⟨ht, hpt⟩
          rw [hw] at this
          exact List.mem_singleton.1 this
        rw [this, hw]
        rfl
    · have hsm : s ∈ d.filter (isE path) := by rw [← hcongr, hf]; exact List.mem_singleton.2 rfl
      have hsd := List.mem_filter.1 hsm
      have : lastMatch (isE path) d none = some s := by
        apply lastMatch_unique (isE path) d none s hsd.1 hsd.2
        intro t ht hpt
        have : t ∈ d.filter (isE path) := List.mem_filter.2 ⟨ht, hpt⟩
        rw [← hcongr, hf] at this
        exact List.mem_singleton.1 this
      rw [this, hf]
      rfl

theorem namesUnique_filter (d : List Stmt) (h : namesUnique d = true) (n : Text) :
    (d.filter (fun s => s.name == n)).length ≤ 1 := by
  simp only [namesUnique, decide_eq_true_eq] at h
  exact nodup_map_filter (fun s : Stmt => s.name) n d h

theorem nameOf_selectBlob (d : List Stmt) (h : namesUnique d = true) (name : Text) :
    nameOf (selectBlob d name) = expectedBlob d name := by
  unfold selectBlob expectedBlob
  by_cases hb : isBlank name = true
  · simp only [hb, ↓reduceIte, nameOf]
  · simp only [hb, ↓reduceIte, Bool.false_eq_true]
    rcases le_one_cases _ (namesUnique_filter d h name) with hf | ⟨s, hf⟩
    · rw [find?_of_filter_nil _ _ hf, hf]; rfl
    · rw [find?_of_filter_single _ _ s hf, hf]; rfl

theorem nameOf_selectGlobal (d : List Stmt) (h : oneGlobal d = true) :
    nameOf (selectGlobal d) = expectedGlobal d := by
  unfold selectGlobal expectedGlobal
  have hle : (d.filter (fun s => s.isGlobal)).length ≤ 1 := by
    simpa [oneGlobal] using h
  rcases le_one_cases _ hle with hf | ⟨s, hf⟩
  · rw [find?_of_filter_nil _ _ hf, hf]; rfl
  · rw [find?_of_filter_single _ _ s hf, hf]; rfl

/-! ### clone under all-fresh facts, writes through private copies -/

def SliceCell.isOwn : SliceCell → Bool
  | .own _ => true
  | .shared _ _ => false

def MapCell.isOwn : MapCell → Bool
  | .own _ => true
  | .shared _ => false

/-- every reference-typed field of the copy has storage of its own -/
def Copy.isPrivate (c : Copy) : Bool :=
  c.scopes.isOwn && c.stores.isOwn && c.identities.isOwn && c.override.isOwn

theorem cloneFresh_lookups (fields : List (String × String)) (mm blob : Bool) (h : CloneFresh fields mm blob = true) :
    fields.lookup "Name" = some "copied:t.Name" ∧
    fields.lookup "SignatureVerification" = some "deep-clone" ∧ mm = true ∧
    fields.lookup "TrustStores" = some "fresh-slice" ∧
    fields.lookup "TrustedIdentities" = some "fresh-slice" ∧
    (blob = true → fields.lookup "GlobalPolicy" = some "copied:t.GlobalPolicy") ∧
    (blob = false → fields.lookup "RegistryScopes" = some "fresh-slice") := by
  unfold CloneFresh at h
  simp only [Bool.and_eq_true, beq_iff_eq] at h
  obtain ⟨⟨⟨⟨⟨h1, h2⟩, h3⟩, h4⟩, h5⟩, h6⟩ := h
  refine ⟨h1, h2, h3, h4, h5, ?_, ?_⟩
  · intro hb; simpa [hb] using h6
  · intro hb; simpa [hb] using h6

/-- with all-fresh facts `clone` yields a private copy whose contents are the statement's,
whatever the document looks like -/
theorem clone_fresh (F : CloneFacts) (hF : F.fresh = true) (blob : Bool) (s : Stmt) (doc : List Stmt) :
    (clone F blob s).isPrivate = true ∧ (clone F blob s).read doc = s := by
  unfold CloneFacts.fresh at hF
  simp only [Bool.and_eq_true] at hF
  cases blob with
  | false =>
    obtain ⟨h1, h2, h3, h4, h5, _, h7⟩ := cloneFresh_lookups _ _ _ hF.1
    have h7 := h7 rfl
    constructor
    · simp [clone, sliceCell, SliceField.goName, Copy.isPrivate, SliceCell.isOwn, MapCell.isOwn, h1, h2, h3, h4, h5, h7]
    · simp [clone, sliceCell, SliceField.goName, Copy.read, readSlice, readMap, Stmt.get, h1, h2, h3, h4, h5, h7]
  | true =>
    obtain ⟨h1, h2, h3, h4, h5, h6, _⟩ := cloneFresh_lookups _ _ _ hF.2
    have h6 := h6 rfl
    constructor
    · simp [clone, sliceCell, SliceField.goName, Copy.isPrivate, SliceCell.isOwn, MapCell.isOwn, h1, h2, h3, h4, h5, h6]
    · simp [clone, sliceCell, SliceField.goName, Copy.read, readSlice, readMap, Stmt.get, h1, h2, h3, h4, h5, h6]

def Inv (st : State) : Prop := ∀ c ∈ st.handles, c.isPrivate = true

theorem isPrivate_cell (c : Copy) (h : c.isPrivate = true) (f : SliceField) : ∃ v, c.cell f = .own v := by
  simp only [Copy.isPrivate, Bool.and_eq_true] at h
  obtain ⟨⟨⟨h1, h2⟩, h3⟩, _⟩ := h
  cases f with
  | scopes =>
    simp only [Copy.cell]
    cases hc : c.scopes with
    | own v => exact ⟨v, rfl⟩
    | shared o g => rw [hc] at h1; cases h1
  | stores =>
    simp only [Copy.cell]
    cases hc : c.stores with
    | own v => exact ⟨v, rfl⟩
    | shared o g => rw [hc] at h2; cases h2
  | identities =>
    simp only [Copy.cell]
    cases hc : c.identities with
    | own v => exact ⟨v, rfl⟩
    | shared o g => rw [hc] at h3; cases h3

theorem isPrivate_override (c : Copy) (h : c.isPrivate = true) : ∃ v, c.override = .own v := by
  simp only [Copy.isPrivate, Bool.and_eq_true] at h
  obtain ⟨_, h4⟩ := h
  cases hc : c.override with
  | own v => exact ⟨v, rfl⟩
  | shared o => rw [hc] at h4; cases h4

theorem isPrivate_setCell (c : Copy) (h : c.isPrivate = true) (f : SliceField) (v : List Text) :
    (c.setCell f (.own v)).isPrivate = true := by
  simp only [Copy.isPrivate, Bool.and_eq_true] at h ⊢
  obtain ⟨⟨⟨h1, h2⟩, h3⟩, h4⟩ := h
  cases f with
  | scopes => exact ⟨⟨⟨rfl, h2⟩, h3⟩, h4⟩
  | stores => exact ⟨⟨⟨h1, rfl⟩, h3⟩, h4⟩
  | identities => exact ⟨⟨⟨h1, h2⟩, rfl⟩, h4⟩

theorem inv_set (st : State) (hI : Inv st) (h : Nat) (c : Copy) (hc : c.isPrivate = true) :
    Inv { st with handles := st.handles.set h c } := by
  intro x hx
  rcases List.mem_or_eq_of_mem_set hx with hx | hx
  · exact hI x hx
  · rw [hx]; exact hc

/-- a write through a private copy, or a new selection, leaves the document alone -/
theorem step_fresh (F : CloneFacts) (hF : F.fresh = true) (st : State) (hI : Inv st) (op : Op) :
    (step F st op).doc = st.doc ∧ Inv (step F st op) := by
  cases op with
  | select q =>
    simp only [step]
    cases hs : selectQ st.doc q with
    | error e => exact ⟨rfl, hI⟩
    | ok s =>
      refine ⟨rfl, ?_⟩
      intro c hc
      simp only [List.mem_append, List.mem_singleton] at hc
      rcases hc with hc | hc
      · exact hI c hc
      · rw [hc]; exact (clone_fresh F hF _ s st.doc).1
  | writeSlice h f v =>
    simp only [step]
    cases hh : st.handles[h]? with
    | none => exact ⟨rfl, hI⟩
    | some c =>
      have hc : c.isPrivate = true := hI c (List.mem_of_getElem? hh)
      obtain ⟨v0, hv0⟩ := isPrivate_cell c hc f
      simp only [hv0]
      exact ⟨by first | rfl | trivial, inv_set st hI h _ (isPrivate_setCell c hc f v)⟩
  | writeMap h v =>
    simp only [step]
    cases hh : st.handles[h]? with
    | none => exact ⟨rfl, hI⟩
    | some c =>
      have hc : c.isPrivate = true := hI c (List.mem_of_getElem? hh)
      obtain ⟨v0, hv0⟩ := isPrivate_override c hc
      simp only [hv0]
      refine ⟨by first | rfl | trivial, inv_set st hI h _ ?_⟩
      simp only [Copy.isPrivate, Bool.and_eq_true] at hc ⊢
      exact ⟨hc.1, rfl⟩
  | writeScalars h name level g =>
    simp only [step]
    cases hh : st.handles[h]? with
    | none => exact ⟨rfl, hI⟩
    | some c =>
      have hc : c.isPrivate = true := hI c (List.mem_of_getElem? hh)
      refine ⟨by first | rfl | trivial, inv_set st hI h _ ?_⟩
      simp only [Copy.isPrivate, Bool.and_eq_true] at hc ⊢
      exact hc

theorem exec_fresh (F : CloneFacts) (hF : F.fresh = true) : ∀ (ops : List Op) (st : State), Inv st →
    (exec F st ops).doc = st.doc ∧ Inv (exec F st ops) := by
  intro ops
  induction ops with
  | nil => intro st hI; exact ⟨rfl, hI⟩
  | cons op r ih =>
    intro st hI
    have h1 := step_fresh F hF st hI op
    have h2 := ih (step F st op) h1.2
    simp only [exec, List.foldl_cons] at h2 ⊢
    exact ⟨h2.1.trans h1.1, h2.2⟩

/-! ### the experiment in closed form -/

def pureQ (d : List Stmt) (q : Query) (rej : Bool) (viaV viaS : Text) : QObs :=
  match selectQ d q with
  | .error _ => { selected := none, reversedSelected := nameOf (selectQ d.reverse q), refRejected := rej, viaVerify := viaV, viaSkip := viaS, copyEqual := true, intact := true, independent := true }
  | .ok s => { selected := some s.name, reversedSelected := nameOf (selectQ d.reverse q), refRejected := rej, viaVerify := viaV, viaSkip := viaS, copyEqual := true, intact := true, independent := true }

/-- which handed-out copy an operation writes through -/
def Op.onHandle : Op → Option Nat
  | .select _ => none
  | .writeSlice h _ _ => some h
  | .writeMap h _ => some h
  | .writeScalars h _ _ _ => some h

/-- no copy is ever taken back -/
theorem step_length_le (F : CloneFacts) (st : State) (op : Op) :
    st.handles.length ≤ (step F st op).handles.length := by
  cases op with
  | select q =>
    simp only [step]
    cases selectQ st.doc q with
    | error e => exact Nat.le_refl _
    | ok s => simp
  | writeSlice h f v =>
    simp only [step]
    cases st.handles[h]? with
    | none => exact Nat.le_refl _
    | some c =>
      simp only []
      cases c.cell f with
      | own v0 => simp
      | shared o g => exact Nat.le_refl _
  | writeMap h v =>
    simp only [step]
    cases st.handles[h]? with
    | none => exact Nat.le_refl _
    | some c =>
      simp only []
      cases c.override with
      | own v0 => simp
      | shared o => exact Nat.le_refl _
  | writeScalars h name level g =>
    simp only [step]
    cases st.handles[h]? with
    | none => exact Nat.le_refl _
    | some c => simp

theorem exec_length_le (F : CloneFacts) : ∀ (ops : List Op) (st : State),
    st.handles.length ≤ (exec F st ops).handles.length := by
  intro ops
  induction ops with
  | nil => intro st; exact Nat.le_refl _
  | cons op r ih =>
    intro st
    have h2 := ih (step F st op)
    simp only [exec, List.foldl_cons] at h2 ⊢
    exact Nat.le_trans (step_length_le F st op) h2

/-- an operation that does not write through copy `k` leaves the cells of copy `k` as they are
(whatever the clone facts) -/
theorem step_other (F : CloneFacts) (st : State) (op : Op) (k : Nat) (hk : k < st.handles.length)
    (hne : op.onHandle ≠ some k) : (step F st op).handles[k]? = st.handles[k]? := by
  cases op with
  | select q =>
    simp only [step]
    cases selectQ st.doc q with
    | error e => rfl
    | ok s => exact List.getElem?_append_left hk
  | writeSlice h f v =>
    have hhk : h ≠ k := fun e => hne (by rw [Op.onHandle, e])
    simp only [step]
    cases st.handles[h]? with
    | none => rfl
    | some c =>
      simp only []
      cases c.cell f with
      | own v0 => exact List.getElem?_set_ne hhk
      | shared o g => rfl
  | writeMap h v =>
    have hhk : h ≠ k := fun e => hne (by rw [Op.onHandle, e])
    simp only [step]
    cases st.handles[h]? with
    | none => rfl
    | some c =>
      simp only []
      cases c.override with
      | own v0 => exact List.getElem?_set_ne hhk
      | shared o => rfl
  | writeScalars h name level g =>
    have hhk : h ≠ k := fun e => hne (by rw [Op.onHandle, e])
    simp only [step]
    cases st.handles[h]? with
    | none => rfl
    | some c => exact List.getElem?_set_ne hhk

theorem exec_other (F : CloneFacts) (k : Nat) : ∀ (ops : List Op) (st : State), k < st.handles.length →
    (∀ op ∈ ops, op.onHandle ≠ some k) → (exec F st ops).handles[k]? = st.handles[k]? := by
  intro ops
  induction ops with
  | nil => intro st _ _; rfl
  | cons op r ih =>
    intro st hk hall
    have h1 := step_other F st op k hk (hall op (by simp))
    have h2 := ih (step F st op) (Nat.lt_of_lt_of_le hk (step_length_le F st op)) (fun o ho => hall o (by simp [ho]))
    simp only [exec, List.foldl_cons] at h2 ⊢
    exact h2.trans h1

theorem scramble_onHandle (mark : Text) (markS : String) (doc : List Stmt) (h : Nat) (c : Copy) :
    ∀ op ∈ scrambleOpsWith mark markS doc h c, op.onHandle = some h := by
  intro op hop
  simp only [scrambleOpsWith, List.mem_cons, List.not_mem_nil, or_false] at hop
  rcases hop with rfl | rfl | rfl | rfl | rfl <;> rfl

theorem step_select_length (F : CloneFacts) (st : State) (q : Query) (s : Stmt) (hs : selectQ st.doc q = .ok s) :
    (step F st (.select q)).handles.length = st.handles.length + 1 := by
  simp [step, hs]

theorem runQuery_fresh (F : CloneFacts) (hF : F.fresh = true) (d : List Stmt) (st : State) (hI : Inv st)
    (hd : st.doc = d) (q : Query) (rej : Bool) (viaV viaS : Text) :
    (runQuery F d st q rej viaV viaS).1 = pureQ d q rej viaV viaS ∧
    (runQuery F d st q rej viaV viaS).2.doc = d ∧ Inv (runQuery F d st q rej viaV viaS).2 := by
  unfold runQuery pureQ
  rw [hd]
  cases hs : selectQ d q with
  | error e => exact ⟨rfl, hd, hI⟩
  | ok s =>
    simp only []
    have hs0 : selectQ st.doc q = .ok s := by rw [hd]; exact hs
    have h1 := step_fresh F hF st hI (.select q)
    have h2 := exec_fresh F hF (scrambleOps (step F st (.select q)).doc st.handles.length (clone F q.isBlob s))
      (step F st (.select q)) h1.2
    have hlen1 : (step F st (.select q)).handles.length = st.handles.length + 1 := step_select_length F st q s hs0
    have hlen2 := exec_length_le F (scrambleOps (step F st (.select q)).doc st.handles.length (clone F q.isBlob s))
      (step F st (.select q))
    have hdoc2 : (exec F (step F st (.select q)) (scrambleOps (step F st (.select q)).doc st.handles.length
        (clone F q.isBlob s))).doc = d := by rw [h2.1, h1.1, hd]
    rw [hdoc2, hs]
    simp only []
    generalize exec F (step F st (.select q)) (scrambleOps (step F st (.select q)).doc st.handles.length
        (clone F q.isBlob s)) = st2 at h2 hlen2 hdoc2 ⊢
    have h3 := step_fresh F hF st2 h2.2 (.select q)
    have hlen3 := step_length_le F st2 (.select q)
    generalize step F st2 (.select q) = st3 at h3 hlen3 ⊢
    have h4 := exec_fresh F hF (scrambleOpsWith mutated2 "y-mutated" st3.doc st2.handles.length (clone F q.isBlob s)) st3 h3.2
    have hk : st.handles.length < st3.handles.length := by omega
    have h5 := exec_other F st.handles.length
      (scrambleOpsWith mutated2 "y-mutated" st3.doc st2.handles.length (clone F q.isBlob s)) st3 hk
      (fun op hop => by
        rw [scramble_onHandle _ _ _ _ _ op hop]
        intro e
        injection e with e
        omega)
    refine ⟨?_, by rw [h4.1, h3.1, hdoc2], h4.2⟩
    have hind : readHandle (exec F st3 (scrambleOpsWith mutated2 "y-mutated" st3.doc st2.handles.length (clone F q.isBlob s)))
        st.handles.length = readHandle st3 st.handles.length := by
      unfold readHandle
      rw [h5, h4.1]
    simp only [(clone_fresh F hF q.isBlob s _).2, hind]
    have hmem : s ∈ d := selectQ_mem d q s hs
    simp [hmem]

end NotationModel.C08

namespace NotationModel.C08

/-- the observation of one query when nothing is shared -/
def pureT (i : Input) (t : Text) : QObs :=
  match i.kind with
  | .oci => pureQ i.stmts (.oci t) (artifactPath t).isNone (classOf (selectOCI i.stmts t)) (classOf (selectOCI i.stmts t))
  | .blob => pureQ i.stmts (.blob t) false (classOf (selectQ i.stmts (blobVerifyQuery t))) []

theorem runQueries_fresh (F : CloneFacts) (hF : F.fresh = true) (i : Input) : ∀ (ts : List Text) (st : State),
    Inv st → st.doc = i.stmts →
    (runQueries F i ts st).1 = ts.map (pureT i) ∧ (runQueries F i ts st).2.doc = i.stmts ∧
      Inv (runQueries F i ts st).2 := by
  intro ts
  induction ts with
  | nil => intro st hI hd; exact ⟨rfl, hd, hI⟩
  | cons t r ih =>
    intro st hI hd
    cases hk : i.kind with
    | oci =>
      have h1 := runQuery_fresh F hF i.stmts st hI hd (.oci t) (artifactPath t).isNone
        (classOf (selectOCI i.stmts t)) (classOf (selectOCI i.stmts t))
      have h2 := ih _ h1.2.2 h1.2.1
      simp only [runQueries, hk, mkQuery, List.map_cons, pureT]
      exact ⟨by rw [h1.1, h2.1], h2.2.1, h2.2.2⟩
    | blob =>
      have h1 := runQuery_fresh F hF i.stmts st hI hd (.blob t) false
        (classOf (selectQ i.stmts (blobVerifyQuery t))) []
      have h2 := ih _ h1.2.2 h1.2.1
      simp only [runQueries, hk, mkQuery, List.map_cons, pureT]
      exact ⟨by rw [h1.1, h2.1], h2.2.1, h2.2.2⟩

/-- the whole experiment in closed form: with all-fresh clone facts nothing a caller does to a
handed-out statement shows up anywhere -/
theorem runValid_fresh (F : CloneFacts) (hF : F.fresh = true) (i : Input) :
    runValid F i =
      { validated := true, verifierAccepts := true, queries := i.queries.map (pureT i)
        globalSel := match i.kind with
          | .oci => none
          | .blob => some (pureQ i.stmts .global false (classOf (selectGlobal i.stmts)) [])
        registry := i.registryQueries.map (regObs i.stmts) } := by
  have h0 : Inv { doc := i.stmts, handles := [] } := by intro c hc; cases hc
  have h := runQueries_fresh F hF i i.queries { doc := i.stmts, handles := [] } h0 rfl
  unfold runValid
  cases hk : i.kind with
  | oci => simp only [h.1]
  | blob =>
    have hg := runQuery_fresh F hF i.stmts _ h.2.2 h.2.1 .global false (classOf (selectGlobal i.stmts)) []
    simp only [h.1, hg.1]

theorem pureQ_selected (d : List Stmt) (q : Query) (rej : Bool) (v s : Text) :
    (pureQ d q rej v s).selected = nameOf (selectQ d q) ∧ (pureQ d q rej v s).refRejected = rej ∧
    (pureQ d q rej v s).reversedSelected = nameOf (selectQ d.reverse q) ∧
    (pureQ d q rej v s).viaVerify = v ∧ (pureQ d q rej v s).viaSkip = s ∧
    (pureQ d q rej v s).copyEqual = true ∧ (pureQ d q rej v s).intact = true ∧
    (pureQ d q rej v s).independent = true := by
  unfold pureQ
  cases selectQ d q <;> simp [nameOf]

end NotationModel.C08

/-
C20 - lemmas about the orderings of the model: `cmpNat`, `cmpChar`, `lex`, `cmpText`,
`cmpIdent`, `cmpPre`, `cmpVersion` are all "good" comparisons (reflexive, equality-reflecting,
antisymmetric, transitive), and sorted insertion (`putBy`) keeps strictly sorted lists sorted.
-/
import NotationModel.Model.C20
set_option linter.unusedSimpArgs false
set_option linter.unusedVariables false

namespace NotationModel.C20

/-- a comparison function that is a strict total order with `.eq` exactly on equal arguments -/
structure Good {α : Type} (c : α → α → Ordering) : Prop where
  refl : ∀ a, c a a = .eq
  eq_imp : ∀ a b, c a b = .eq → a = b
  swap : ∀ a b, c b a = (c a b).swap
  trans : ∀ a b d, c a b = .lt → c b d = .lt → c a d = .lt

theorem Good.gt_iff {α : Type} {c : α → α → Ordering} (g : Good c) (a b : α) :
    c a b = .gt ↔ c b a = .lt := by
  rw [g.swap a b]; cases c a b <;> simp [Ordering.swap]

theorem Good.eq_iff {α : Type} {c : α → α → Ordering} (g : Good c) (a b : α) :
    c a b = .eq ↔ a = b :=
  ⟨g.eq_imp a b, fun h => h ▸ g.refl a⟩

theorem cmpNat_lt (a b : Nat) : cmpNat a b = .lt ↔ a < b := by
  unfold cmpNat
  by_cases h1 : a < b
  · simp [h1]
  · by_cases h2 : a = b <;> simp [h1, h2]

theorem cmpNat_eq (a b : Nat) : cmpNat a b = .eq ↔ a = b := by
  unfold cmpNat
  by_cases h1 : a < b
  · simp [h1]; omega
  · by_cases h2 : a = b <;> simp [h1, h2]

theorem cmpNat_gt (a b : Nat) : cmpNat a b = .gt ↔ b < a := by
  unfold cmpNat
  by_cases h1 : a < b
  · simp [h1]; omega
  · by_cases h2 : a = b <;> simp [h1, h2] <;> omega

theorem good_cmpNat : Good cmpNat where
  refl a := (cmpNat_eq a a).2 rfl
  eq_imp a b := (cmpNat_eq a b).1
  swap a b := by
    rcases Nat.lt_trichotomy a b with h | h | h
    · rw [(cmpNat_lt a b).2 h, (cmpNat_gt b a).2 h]; rfl
    · rw [(cmpNat_eq a b).2 h, (cmpNat_eq b a).2 h.symm]; rfl
    · rw [(cmpNat_gt a b).2 h, (cmpNat_lt b a).2 h]; rfl
  trans a b d h1 h2 := (cmpNat_lt a d).2 (Nat.lt_trans ((cmpNat_lt a b).1 h1) ((cmpNat_lt b d).1 h2))

/-- pulling a good comparison back along an injective function -/
theorem Good.comap {α β : Type} {c : β → β → Ordering} (g : Good c) (f : α → β)
    (inj : ∀ a b, f a = f b → a = b) : Good (fun a b => c (f a) (f b)) where
  refl a := g.refl _
  eq_imp a b h := inj a b (g.eq_imp _ _ h)
  swap a b := g.swap _ _
  trans a b d := g.trans _ _ _

theorem charToNat_inj (a b : Char) (h : a.toNat = b.toNat) : a = b := by
  apply Char.ext
  apply UInt32.toNat_inj.1
  exact h

theorem good_cmpChar : Good cmpChar := good_cmpNat.comap Char.toNat charToNat_inj

section lex
variable {α : Type} {c : α → α → Ordering}

theorem lex_cons_cons (a b : α) (as bs : List α) :
    lex c (a :: as) (b :: bs) = andThen (c a b) (lex c as bs) := by
  simp only [lex, andThen]

theorem good_lex (g : Good c) : Good (lex c) where
  refl := by
    intro l; induction l with
    | nil => rfl
    | cons a as ih => rw [lex_cons_cons, g.refl, andThen]; exact ih
  eq_imp := by
    intro l; induction l with
    | nil => intro bs h; cases bs <;> simp_all [lex]
    | cons a as ih =>
      intro bs h
      cases bs with
      | nil => simp [lex] at h
      | cons b bs =>
        rw [lex_cons_cons] at h
        cases hab : c a b <;> rw [hab] at h <;> simp [andThen] at h
        rw [g.eq_imp a b hab, ih bs h]
  swap := by
    intro l; induction l with
    | nil => intro bs; cases bs <;> rfl
    | cons a as ih =>
      intro bs
      cases bs with
      | nil => rfl
      | cons b bs =>
        rw [lex_cons_cons, lex_cons_cons, g.swap a b, ih bs]
        cases c a b <;> simp [andThen, Ordering.swap]
  trans := by
    intro l; induction l with
    | nil => intro bs ds h1 h2; cases bs <;> cases ds <;> simp_all [lex]
    | cons a as ih =>
      intro bs ds h1 h2
      cases bs with
      | nil => simp [lex] at h1
      | cons b bs =>
        cases ds with
        | nil => simp [lex] at h2
        | cons d ds =>
          rw [lex_cons_cons] at h1 h2 ⊢
          cases hab : c a b <;> rw [hab] at h1 <;> simp [andThen] at h1
          · cases hbd : c b d <;> rw [hbd] at h2 <;> simp [andThen] at h2
            · rw [g.trans a b d hab hbd]; rfl
            · rw [← g.eq_imp b d hbd, hab]; rfl
          · have := g.eq_imp a b hab; subst this
            cases hbd : c a d <;> rw [hbd] at h2 <;> simp [andThen] at h2 ⊢
            exact ih bs ds h1 h2

end lex

theorem good_cmpText : Good cmpText := good_lex good_cmpChar

theorem good_cmpIdent : Good cmpIdent where
  refl a := by cases a <;> simp [cmpIdent, good_cmpNat.refl, good_cmpText.refl]
  eq_imp a b h := by
    cases a <;> cases b <;> simp [cmpIdent] at h ⊢
    · exact good_cmpNat.eq_imp _ _ h
    · exact good_cmpText.eq_imp _ _ h
  swap a b := by
    cases a <;> cases b <;> simp [cmpIdent, Ordering.swap]
    · exact good_cmpNat.swap _ _
    · exact good_cmpText.swap _ _
  trans a b d h1 h2 := by
    cases a <;> cases b <;> cases d <;> simp [cmpIdent] at h1 h2 ⊢
    · exact good_cmpNat.trans _ _ _ h1 h2
    · exact good_cmpText.trans _ _ _ h1 h2

theorem good_cmpPre : Good cmpPre where
  refl a := by
    cases a with
    | nil => rfl
    | cons x xs => simp only [cmpPre]; exact (good_lex good_cmpIdent).refl _
  eq_imp a b h := by
    cases a <;> cases b <;> simp [cmpPre] at h ⊢
    exact List.cons_eq_cons.1 ((good_lex good_cmpIdent).eq_imp _ _ h)
  swap a b := by
    cases a <;> cases b <;> simp [cmpPre, Ordering.swap]
    exact (good_lex good_cmpIdent).swap _ _
  trans a b d h1 h2 := by
    cases a <;> cases b <;> cases d <;> simp [cmpPre] at h1 h2 ⊢
    exact (good_lex good_cmpIdent).trans _ _ _ h1 h2

/-- "first difference decides" composition of two good comparisons -/
theorem good_andThen {α β : Type} {c1 : α → α → Ordering} {c2 : β → β → Ordering}
    (g1 : Good c1) (g2 : Good c2) :
    Good (fun (p q : α × β) => andThen (c1 p.1 q.1) (c2 p.2 q.2)) where
  refl p := by simp [g1.refl, g2.refl, andThen]
  eq_imp p q h := by
    cases h1 : c1 p.1 q.1 <;> rw [h1] at h <;> simp [andThen] at h
    exact Prod.ext (g1.eq_imp _ _ h1) (g2.eq_imp _ _ h)
  swap p q := by
    show andThen (c1 q.1 p.1) (c2 q.2 p.2) = _
    rw [g1.swap p.1 q.1, g2.swap p.2 q.2]
    cases c1 p.1 q.1 <;> simp [andThen, Ordering.swap]
  trans p q r h1 h2 := by
    show andThen (c1 p.1 r.1) (c2 p.2 r.2) = _
    cases hab : c1 p.1 q.1 <;> rw [hab] at h1 <;> simp [andThen] at h1
    · cases hbd : c1 q.1 r.1 <;> rw [hbd] at h2 <;> simp [andThen] at h2
      · rw [g1.trans _ _ _ hab hbd]; rfl
      · rw [← g1.eq_imp _ _ hbd, hab]; rfl
    · rw [← g1.eq_imp _ _ hab] at h2
      cases hbd : c1 p.1 r.1 <;> rw [hbd] at h2 <;> simp [andThen] at h2 ⊢
      exact g2.trans _ _ _ h1 h2

def Version.tuple (v : Version) : Nat × Nat × Nat × List Ident := (v.major, v.minor, v.patch, v.pre)

theorem good_cmpVersion : Good cmpVersion := by
  have g := good_andThen good_cmpNat (good_andThen good_cmpNat (good_andThen good_cmpNat good_cmpPre))
  have := g.comap Version.tuple (by
    intro a b h; cases a; cases b; simp [Version.tuple] at h ⊢; exact h)
  exact this

end NotationModel.C20

/-
C16 - `Clean` is compositional, hence a relative plugin root behaves as `Join(cwd, root)`
(lemmas for `Props/C16.lean`; the model's `absRoot` / `eff` rest on `relative_root_resolves_as_absolute`).
-/
import NotationModel.Lemmas.C16Path
set_option linter.unusedSimpArgs false
namespace NotationModel.C16

/-- what `step` keeps on its stack -/
def Kept (c : Text) : Prop := c ≠ [] ∧ c ≠ dot

theorem step_kept (r : Bool) (stk : List Text) (c : Text) (hs : ∀ x ∈ stk, Kept x) : ∀ x ∈ step r stk c, Kept x := by
  unfold step
  split
  · exact hs
  · rename_i h1
    split
    · cases stk with
      | nil =>
        cases r <;> simp
        exact ⟨by decide, by decide⟩
      | cons t rest =>
        simp only []
        split
        · intro x hx
          rcases List.mem_cons.1 hx with e | e
          · subst e; exact ⟨by decide, by decide⟩
          · exact hs x e
        · intro x hx; exact hs x (by simp [hx])
    · intro x hx
      rcases List.mem_cons.1 hx with e | e
      · subst e; exact ⟨fun e => h1 (Or.inl e), fun e => h1 (Or.inr e)⟩
      · exact hs x e

theorem step_push (r : Bool) (stk : List Text) (c : Text) (h : Kept c) (hd : c ≠ dotdot) : step r stk c = c :: stk := by
  unfold step
  have : ¬ (c = [] ∨ c = dot) := fun e => e.elim h.1 h.2
  simp [this, hd]

theorem dotdot_not_dropped : ¬ (dotdot = [] ∨ dotdot = dot) := by decide

theorem step_dotdot_cons (r : Bool) (t : Text) (rest : List Text) :
    step r (t :: rest) dotdot = if t = dotdot then dotdot :: t :: rest else rest := by
  unfold step
  simp only [dotdot_not_dropped, if_false, if_true]

theorem step_dotdot_nil (r : Bool) : step r [] dotdot = if r then [] else [dotdot] := by
  unfold step
  simp only [dotdot_not_dropped, if_false, if_true]

theorem step_drop (r : Bool) (stk : List Text) (c : Text) (h : c = [] ∨ c = dot) : step r stk c = stk := by
  unfold step
  simp only [h, if_true]

/-- one component: first on the relative stack `T`, then the stack replayed on `S` - or replayed first and
the component applied to the result -/
theorem replay_step (S T : List Text) (c : Text) (hT : ∀ x ∈ T, Kept x) :
    List.foldl (step true) S (step false T c).reverse = step true (List.foldl (step true) S T.reverse) c := by
  by_cases h0 : c = [] ∨ c = dot
  · rw [step_drop _ _ _ h0, step_drop _ _ _ h0]
  · by_cases hd : c = dotdot
    · subst hd
      cases T with
      | nil =>
        rw [step_dotdot_nil]
        simp only [Bool.false_eq_true, if_false, List.reverse_cons, List.reverse_nil, List.nil_append, List.foldl_cons,
          List.foldl_nil]
      | cons t rest =>
        rw [step_dotdot_cons]
        by_cases ht : t = dotdot
        · simp only [ht, if_true, List.reverse_cons, List.foldl_append, List.foldl_cons, List.foldl_nil]
        · have hk := hT t (by simp)
          simp only [ht, if_false, List.reverse_cons, List.foldl_append, List.foldl_cons, List.foldl_nil]
          rw [step_push true _ t hk ht, step_dotdot_cons]
          simp only [ht, if_false]
    · have hk : Kept c := ⟨fun e => h0 (Or.inl e), fun e => h0 (Or.inr e)⟩
      rw [step_push false T c hk hd]
      simp only [List.reverse_cons, List.foldl_append, List.foldl_cons, List.foldl_nil]

theorem replay (S : List Text) : ∀ (b T : List Text), (∀ x ∈ T, Kept x) →
    List.foldl (step true) S (List.foldl (step false) T b).reverse =
      List.foldl (step true) (List.foldl (step true) S T.reverse) b
  | [], T, _ => by simp
  | c :: b, T, hT => by
    simp only [List.foldl_cons]
    rw [replay S b (step false T c) (step_kept false T c hT), replay_step S T c hT]

/-- `Clean` is compositional: cleaning a relative path first and resolving the result against an
absolute directory gives what resolving the raw path gives -/
theorem normComps_abs_rel (a b : List Text) :
    normComps true (a ++ normComps false b) = normComps true (a ++ b) := by
  simp only [normComps, List.foldl_append]
  congr 1
  have := replay (List.foldl (step true) [] a) b [] (by simp)
  simpa using this

theorem step_true_no_dotdot (stk : List Text) (c : Text) (hs : ∀ x ∈ stk, x ≠ dotdot) : ∀ x ∈ step true stk c, x ≠ dotdot := by
  by_cases h0 : c = [] ∨ c = dot
  · rw [step_drop _ _ _ h0]; exact hs
  · by_cases hd : c = dotdot
    · subst hd
      cases stk with
      | nil => rw [step_dotdot_nil]; simp
      | cons t rest =>
        rw [step_dotdot_cons]
        have ht := hs t (by simp)
        simp only [ht, if_false]
        intro x hx; exact hs x (by simp [hx])
    · rw [step_push true stk c ⟨fun e => h0 (Or.inl e), fun e => h0 (Or.inr e)⟩ hd]
      intro x hx
      rcases List.mem_cons.1 hx with e | e
      · exact e ▸ hd
      · exact hs x e

theorem foldl_true_no_dotdot : ∀ (cs stk : List Text), (∀ x ∈ stk, x ≠ dotdot) → ∀ x ∈ cs.foldl (step true) stk, x ≠ dotdot
  | [], stk, hs => by simpa using hs
  | c :: cs, stk, hs => by
    simp only [List.foldl_cons]
    exact foldl_true_no_dotdot cs _ (step_true_no_dotdot stk c hs)

theorem foldl_kept (r : Bool) : ∀ (cs stk : List Text), (∀ x ∈ stk, Kept x) → ∀ x ∈ cs.foldl (step r) stk, Kept x
  | [], stk, hs => by simpa using hs
  | c :: cs, stk, hs => by
    simp only [List.foldl_cons]
    exact foldl_kept r cs _ (step_kept r stk c hs)

/-- the components of a cleaned ABSOLUTE path are ordinary components (no `.`, no `..`) -/
theorem normComps_true_good (cs : List Text) (hc : ∀ c ∈ cs, '/' ∉ c) : ∀ x ∈ normComps true cs, Good x := by
  intro x hx
  have hp := normComps_plain true cs hc x hx
  simp only [normComps, List.mem_reverse] at hx
  have hk := foldl_kept true cs [] (by simp) x hx
  have hd := foldl_true_no_dotdot cs [] (by simp) x hx
  exact ⟨hk.1, hk.2, hd, hp.2⟩

theorem normComps_true_idem (cs : List Text) (h : ∀ x ∈ cs, Good x) : normComps true cs = cs := by
  have := normComps_append_good true [] cs h
  simpa [normComps] using this

theorem normComps_nil_cons (r : Bool) (cs : List Text) : normComps r ([] :: cs) = normComps r cs := by
  simp [normComps, step_drop r [] [] (Or.inl rfl)]

theorem normComps_append_nil (r : Bool) (cs : List Text) : normComps r (cs ++ [[]]) = normComps r cs := by
  simp [normComps, List.foldl_append, step_drop r _ [] (Or.inl rfl)]

theorem joinSlash_ne_nil : ∀ (cs : List Text), cs ≠ [] → (∀ x ∈ cs, x ≠ []) → joinSlash cs ≠ []
  | [], h, _ => absurd rfl h
  | [a], _, h => by simpa [joinSlash] using h a (by simp)
  | a :: b :: r, _, h => by simp [joinSlash]

/-- the text of a cleaned absolute path, and its components -/
theorem clean_rooted (p : Text) (hp : isRooted p = true) :
    clean p = '/' :: joinSlash (normComps true (splitSlash p)) := by
  have : p ≠ [] := by intro e; subst e; simp [isRooted] at hp
  simp [clean, this, hp]

theorem rootComps_clean_rooted (p : Text) (hp : isRooted p = true) :
    rootComps (clean p) = normComps true (splitSlash p) := by
  rw [clean_rooted p hp]
  have hg := normComps_true_good (splitSlash p) (splitSlash_slashfree p)
  generalize normComps true (splitSlash p) = C at hg
  have hr : isRooted ('/' :: joinSlash C) = true := by simp [isRooted]
  simp only [rootComps, hr]
  have hs : splitSlash ('/' :: joinSlash C) = [] :: splitSlash (joinSlash C) := by simp [splitSlash]
  rw [hs, normComps_nil_cons]
  cases hC : C with
  | nil => simp [joinSlash, splitSlash, normComps, step]
  | cons a r =>
    rw [← hC, splitSlash_joinSlash C (by simp [hC]) (fun x hx => (hg x hx).2.2.2)]
    exact normComps_true_idem C hg

/-- the text `SysPath` yields for a RELATIVE root: the cleaned relative path -/
theorem sysPath_relative_text (root : Text) (items : List Text) (hne : items ≠ []) (h : ∀ x ∈ items, Good x)
    (hr : isRooted root = false) :
    sysPath root [joinSlash items] = joinSlash (rootComps root ++ items) := by
  have hq := joinSlash_good_ne_nil items hne h
  have hrq := joinSlash_good_not_rooted items hne h
  have hs := splitSlash_joinSlash items hne (fun x hx => (h x hx).2.2.2)
  have hqe : (joinSlash items).isEmpty = false := by
    cases hj : joinSlash items with
    | nil => exact absurd hj hq
    | cons => rfl
  cases root with
  | nil =>
    have hn : normComps false items = items := by
      have := normComps_append_good false [] items h
      simpa [normComps] using this
    have hi : items = [] ↔ False := ⟨hne, False.elim⟩
    simp only [sysPath, join, List.filter, List.isEmpty_nil, Bool.not_true, hqe, Bool.not_false, joinSlash,
      clean, hq, if_false, hrq, hs, hn, rootComps_nil, List.nil_append, hi, Bool.false_eq_true]
  | cons c root =>
    have hP : (c :: root) ++ '/' :: joinSlash items ≠ [] := by simp
    have hroot : isRooted ((c :: root) ++ '/' :: joinSlash items) = isRooted (c :: root) := by
      simp [isRooted]
    have hcs : normComps (isRooted (c :: root)) (splitSlash ((c :: root) ++ '/' :: joinSlash items)) =
        rootComps (c :: root) ++ items := by
      rw [splitSlash_append, hs, normComps_append_good _ _ _ h]
      rfl
    have hne' : (rootComps (c :: root) ++ items = []) ↔ False :=
      ⟨fun e => hne (List.append_eq_nil_iff.1 e).2, False.elim⟩
    rw [hr] at hcs hroot
    simp only [sysPath, join, List.filter, List.isEmpty_cons, Bool.not_false, hqe, joinSlash, clean, hP, if_false,
      hroot, hcs, hne', Bool.false_eq_true]

/-- **relative plugin roots**: for a root that is a relative path, the path the manager builds for a
validated name, resolved against the (absolute) working directory, is the path it builds for the
root `Join(cwd, root)` - for every working directory, every relative root, with any number of `..`.
This is what `eff` / `absRoot` of the model rest on. -/
theorem relative_root_resolves_as_absolute (cwd root : Text) (items : List Text) (hne : items ≠ [])
    (h : ∀ x ∈ items, Good x) (hc : isRooted cwd = true) (hr : isRooted root = false) :
    comps (join [cwd, sysPath root [joinSlash items]]) = comps (sysPath (join [cwd, root]) [joinSlash items]) := by
  have hcwd : cwd ≠ [] := by intro e; subst e; simp [isRooted] at hc
  have hcwde : cwd.isEmpty = false := by cases cwd <;> simp_all
  -- the right-hand side
  have hX : rootComps (join [cwd, root]) = normComps true (splitSlash cwd ++ splitSlash root) := by
    cases root with
    | nil =>
      have : join [cwd, []] = clean cwd := by simp [join, List.filter, hcwde, joinSlash]
      rw [this, rootComps_clean_rooted cwd hc]
      simp only [splitSlash]
      rw [normComps_append_nil]
    | cons c r =>
      have : join [cwd, c :: r] = clean (cwd ++ '/' :: (c :: r)) := by simp [join, List.filter, hcwde, joinSlash]
      have hr' : isRooted (cwd ++ '/' :: (c :: r)) = true := by
        cases cwd with
        | nil => exact absurd rfl hcwd
        | cons a t => simpa [isRooted] using hc
      rw [this, rootComps_clean_rooted _ hr', splitSlash_append]
  rw [comps_sysPath _ items hne h, hX]
  -- the left-hand side
  rw [sysPath_relative_text root items hne h hr]
  have hplainR : ∀ x ∈ rootComps root ++ items, Plain x := by
    intro x hx
    rcases List.mem_append.1 hx with e | e
    · exact rootComps_plain root x e
    · exact (h x e).plain
  have hneR : rootComps root ++ items ≠ [] := fun e => hne (List.append_eq_nil_iff.1 e).2
  have hP : joinSlash (rootComps root ++ items) ≠ [] := joinSlash_ne_nil _ hneR (fun x hx => (hplainR x hx).1)
  have hPe : (joinSlash (rootComps root ++ items)).isEmpty = false := by
    cases hj : joinSlash (rootComps root ++ items) with
    | nil => exact absurd hj hP
    | cons => rfl
  have hj : join [cwd, joinSlash (rootComps root ++ items)] = clean (cwd ++ '/' :: joinSlash (rootComps root ++ items)) := by
    simp [join, List.filter, hcwde, hPe, joinSlash]
  have hr' : isRooted (cwd ++ '/' :: joinSlash (rootComps root ++ items)) = true := by
    cases cwd with
    | nil => exact absurd rfl hcwd
    | cons a t => simpa [isRooted] using hc
  rw [hj, clean_rooted _ hr', comps_cons_slash, splitSlash_append,
    splitSlash_joinSlash _ hneR (fun x hx => (hplainR x hx).2)]
  have hD : normComps true (splitSlash cwd ++ (rootComps root ++ items)) =
      normComps true (splitSlash cwd ++ splitSlash root) ++ items := by
    rw [← List.append_assoc, normComps_append_good _ _ _ h]
    simp only [rootComps, hr]
    rw [normComps_abs_rel]
  rw [hD]
  apply comps_joinSlash
  intro x hx
  rcases List.mem_append.1 hx with e | e
  · exact (normComps_true_good _ (by
      intro c hc'
      rcases List.mem_append.1 hc' with e' | e'
      · exact splitSlash_slashfree cwd c e'
      · exact splitSlash_slashfree root c e') x e).plain
  · exact (h x e).plain

end NotationModel.C16

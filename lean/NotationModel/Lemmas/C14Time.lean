/-
C14 - the time part of the invariant: renames are stamped by a logical clock (`now` = number of
renames so far, `stamp w` = value of the clock when writer `w` renamed, `openAt r` = value when
reader `r` opened), the current writer of a key carries the latest stamp, and what a reader
pinned at open is at least as new as every rename that preceded the open.
-/
import NotationModel.Lemmas.C14Inv
set_option linter.unusedSimpArgs false
set_option linter.unusedVariables false

namespace NotationModel.C14

/-- what reader `r` pinned (the entry renamed by `w0`) is not older than any rename of its key
that happened before `r` opened -/
def FreshAt (p : Prog) (s : Sys) (r w0 : Nat) : Prop :=
  s.wst w0 = .done ∧
  ∀ w, s.wst w = .done → p.wkey w = p.rkey r → s.stamp w < s.openAt r → s.stamp w ≤ s.stamp w0

structure InvT (p : Prog) (s : Sys) : Prop where
  done_stamp : ∀ w, s.wst w = .done → s.stamp w < s.now ∧ s.dir (.key (p.wkey w)) ≠ none
  cur_latest : ∀ k w0, s.cur k = some w0 → ∀ w, s.wst w = .done → p.wkey w = k → s.stamp w ≤ s.stamp w0
  read_time : ∀ r i buf snap, s.rst r = .reading i buf snap →
      s.openAt r ≤ s.now ∧ ∀ w0, snap = some w0 → FreshAt p s r w0
  fin_time : ∀ r b snap, s.rst r = .finished (some b) snap →
      s.openAt r ≤ s.now ∧ ∀ w0, snap = some w0 → FreshAt p s r w0
  miss_time : ∀ r snap, s.rst r = .finished none snap →
      s.openAt r ≤ s.now ∧ ∀ w, s.wst w = .done → p.wkey w = p.rkey r → s.openAt r ≤ s.stamp w

theorem invT_init (p : Prog) : InvT p init := by
  constructor <;> simp [init]

/-- events that neither rename nor touch readers leave the time invariant alone -/
theorem invT_frame (p : Prog) (s s' : Sys) (h : InvT p s)
    (hnow : s'.now = s.now) (hst : s'.stamp = s.stamp) (hop : s'.openAt = s.openAt)
    (hcur : s'.cur = s.cur) (hrst : s'.rst = s.rst)
    (hdir : ∀ k, s'.dir (.key k) = s.dir (.key k))
    (hd : ∀ w, s'.wst w = .done ↔ s.wst w = .done) : InvT p s' := by
  have hfresh : ∀ r w0, FreshAt p s r w0 → FreshAt p s' r w0 := by
    intro r w0 ⟨f1, f2⟩
    refine ⟨(hd w0).2 f1, ?_⟩
    intro w hw hk hlt
    rw [hst, hop] at *
    exact f2 w ((hd w).1 hw) hk hlt
  constructor
  · intro w hw
    rw [hst, hnow, hdir]
    exact h.done_stamp w ((hd w).1 hw)
  · intro k w0 hc w hw hk
    rw [hcur] at hc
    rw [hst]
    exact h.cur_latest k w0 hc w ((hd w).1 hw) hk
  · intro r i buf snap hr
    rw [hrst] at hr
    obtain ⟨a, b⟩ := h.read_time r i buf snap hr
    exact ⟨by rw [hop, hnow]; exact a, fun w0 e => hfresh r w0 (b w0 e)⟩
  · intro r b snap hr
    rw [hrst] at hr
    obtain ⟨a, b'⟩ := h.fin_time r b snap hr
    exact ⟨by rw [hop, hnow]; exact a, fun w0 e => hfresh r w0 (b' w0 e)⟩
  · intro r snap hr
    rw [hrst] at hr
    obtain ⟨a, b⟩ := h.miss_time r snap hr
    refine ⟨by rw [hop, hnow]; exact a, ?_⟩
    intro w hw hk
    rw [hop, hst]
    exact b w ((hd w).1 hw) hk

theorem invT_create (p : Prog) (s : Sys) (w t : Nat) (h : InvT p s) : InvT p (step p s (.create w t)) := by
  simp only [step]
  split
  · rename_i hw ht
    refine invT_frame p s _ h rfl rfl rfl rfl rfl (by intro k; simp [upd]) ?_
    intro w'
    by_cases hww : w' = w
    · subst hww; simp [hw]
    · simp [upd, hww]
  · exact h

theorem invT_write (p : Prog) (s : Sys) (w n : Nat) (h : InvT p s) : InvT p (step p s (.write w n)) := by
  simp only [step]
  split
  · rename_i t i off hw
    refine invT_frame p s _ h rfl rfl rfl rfl rfl (by intro k; rfl) ?_
    intro w'
    by_cases hww : w' = w
    · subst hww; simp [hw]
    · simp [upd, hww]
  · exact h

theorem invT_wfail (p : Prog) (s : Sys) (w n : Nat) (h : InvT p s) : InvT p (step p s (.wfail w n)) := by
  simp only [step]
  split
  · rename_i t i off hw
    refine invT_frame p s _ h rfl rfl rfl rfl rfl (by intro k; simp [upd]) ?_
    intro w'
    by_cases hww : w' = w
    · subst hww; simp [hw]
    · simp [upd, hww]
  · exact h

theorem invT_giveup (p : Prog) (s : Sys) (w : Nat) (h : InvT p s) : InvT p (step p s (.giveup w)) := by
  simp only [step]
  split
  · rename_i t i off hw
    refine invT_frame p s _ h rfl rfl rfl rfl rfl (by intro k; simp [upd]) ?_
    intro w'
    by_cases hww : w' = w
    · subst hww; simp [hw]
    · simp [upd, hww]
  · rename_i t i hw
    refine invT_frame p s _ h rfl rfl rfl rfl rfl (by intro k; simp [upd]) ?_
    intro w'
    by_cases hww : w' = w
    · subst hww; simp [hw]
    · simp [upd, hww]
  · exact h

theorem invT_close (p : Prog) (s : Sys) (w : Nat) (h : InvT p s) : InvT p (step p s (.close w)) := by
  simp only [step]
  split
  · rename_i t i off hw
    split
    · refine invT_frame p s _ h rfl rfl rfl rfl rfl (by intro k; rfl) ?_
      intro w'
      by_cases hww : w' = w
      · subst hww; simp [hw]
      · simp [upd, hww]
    · exact h
  · exact h

theorem invT_crash (p : Prog) (s : Sys) (w : Nat) (h : InvT p s) : InvT p (step p s (.crash w)) := by
  simp only [step]
  split
  · exact h
  · rename_i hnd
    refine invT_frame p s _ h rfl rfl rfl rfl rfl (by intro k; rfl) ?_
    intro w'
    by_cases hww : w' = w
    · subst hww
      simp
      intro hd
      exact hnd hd
    · simp [upd, hww]

theorem invT_rread (p : Prog) (s : Sys) (r n : Nat) (h : InvT p s) : InvT p (step p s (.rread r n)) := by
  simp only [step]
  split
  · rename_i i buf snap hr
    obtain ⟨a, b⟩ := h.read_time r i buf snap hr
    split
    · constructor
      · exact h.done_stamp
      · exact h.cur_latest
      · intro r' j buf' snap' hr'
        by_cases hrr : r' = r
        · subst hrr; simp at hr'
        · simp [upd, hrr] at hr'; exact h.read_time r' j buf' snap' hr'
      · intro r' b' snap' hr'
        by_cases hrr : r' = r
        · subst hrr
          simp at hr'
          obtain ⟨_, e⟩ := hr'
          exact ⟨a, fun w0 e' => b w0 (by rw [e, e'])⟩
        · simp [upd, hrr] at hr'; exact h.fin_time r' b' snap' hr'
      · intro r' snap' hr'
        by_cases hrr : r' = r
        · subst hrr; simp at hr'
        · simp [upd, hrr] at hr'; exact h.miss_time r' snap' hr'
    · constructor
      · exact h.done_stamp
      · exact h.cur_latest
      · intro r' j buf' snap' hr'
        by_cases hrr : r' = r
        · subst hrr
          simp at hr'
          obtain ⟨_, _, e⟩ := hr'
          exact ⟨a, fun w0 e' => b w0 (by rw [e, e'])⟩
        · simp [upd, hrr] at hr'; exact h.read_time r' j buf' snap' hr'
      · intro r' b' snap' hr'
        by_cases hrr : r' = r
        · subst hrr; simp at hr'
        · simp [upd, hrr] at hr'; exact h.fin_time r' b' snap' hr'
      · intro r' snap' hr'
        by_cases hrr : r' = r
        · subst hrr; simp at hr'
        · simp [upd, hrr] at hr'; exact h.miss_time r' snap' hr'
  · exact h

theorem invT_rename (p : Prog) (s : Sys) (w : Nat) (h : InvT p s) : InvT p (step p s (.rename w)) := by
  simp only [step]
  split
  · rename_i t i hw
    have hnd : s.wst w ≠ .done := by rw [hw]; simp
    -- a writer that is done afterwards is `w` (stamped now) or was done before (stamped earlier)
    have hdone : ∀ w', upd s.wst w .done w' = .done → w' = w ∨ (w' ≠ w ∧ s.wst w' = .done) := by
      intro w' hd
      by_cases hww : w' = w
      · exact Or.inl hww
      · exact Or.inr ⟨hww, by simpa [upd, hww] using hd⟩
    have hfresh : ∀ r w0, s.openAt r ≤ s.now → FreshAt p s r w0 →
        FreshAt p { s with dir := upd (upd s.dir (.tmp t) none) (.key (p.wkey w)) (some i),
                           wst := upd s.wst w .done, cur := upd s.cur (p.wkey w) (some w),
                           now := s.now + 1, stamp := upd s.stamp w s.now } r w0 := by
      intro r w0 hle ⟨f1, f2⟩
      have hw0 : w0 ≠ w := fun e => hnd (e ▸ f1)
      refine ⟨by simp [upd, hw0, f1], ?_⟩
      intro w' hd hk hlt
      simp only at hd hlt ⊢
      rcases hdone w' hd with e | ⟨hne, hd'⟩
      · subst e
        simp [upd] at hlt
        omega
      · simp only [upd, hne, hw0, if_false] at hlt ⊢
        exact f2 w' hd' hk hlt
    constructor
    · intro w' hd
      simp only at hd ⊢
      rcases hdone w' hd with e | ⟨hne, hd'⟩
      · subst e
        simp [upd]
      · obtain ⟨a, b⟩ := h.done_stamp w' hd'
        refine ⟨by simp [upd, hne]; omega, ?_⟩
        by_cases hk : p.wkey w' = p.wkey w
        · simp [upd, hk]
        · have : (FName.key (p.wkey w')) ≠ FName.key (p.wkey w) := by simpa using hk
          simpa [upd, this] using b
    · intro k w0 hc w' hd hk
      simp only at hc hd ⊢
      by_cases hw0 : w0 = w
      · subst hw0
        rcases hdone w' hd with e | ⟨hne, hd'⟩
        · subst e; simp
        · have := (h.done_stamp w' hd').1
          simp [upd, hne]; omega
      · have hkk : k ≠ p.wkey w := by
          intro e
          subst e
          simp [upd] at hc
          exact hw0 hc.symm
        have hc' : s.cur k = some w0 := by simpa [upd, hkk] using hc
        rcases hdone w' hd with e | ⟨hne, hd'⟩
        · subst e; exact absurd hk.symm hkk
        · simp only [upd, hne, hw0, if_false]
          exact h.cur_latest k w0 hc' w' hd' hk
    · intro r j buf snap hr
      obtain ⟨a, b⟩ := h.read_time r j buf snap hr
      exact ⟨by simp; omega, fun w0 e => hfresh r w0 a (b w0 e)⟩
    · intro r b snap hr
      obtain ⟨a, b'⟩ := h.fin_time r b snap hr
      exact ⟨by simp; omega, fun w0 e => hfresh r w0 a (b' w0 e)⟩
    · intro r snap hr
      obtain ⟨a, b⟩ := h.miss_time r snap hr
      refine ⟨by simp; omega, ?_⟩
      intro w' hd hk
      simp only at hd ⊢
      rcases hdone w' hd with e | ⟨hne, hd'⟩
      · subst e; simpa [upd] using a
      · simp only [upd, hne, if_false]
        exact b w' hd' hk
  · exact h

theorem invT_ropen (p : Prog) (s : Sys) (r : Nat) (hi : Inv p s) (h : InvT p s) :
    InvT p (step p s (.ropen r)) := by
  simp only [step]
  split
  · rename_i hr
    have hfresh : ∀ r' w0 x, r' ≠ r → FreshAt p s r' w0 →
        FreshAt p { s with rst := upd s.rst r x, openAt := upd s.openAt r s.now } r' w0 := by
      intro r' w0 x hrr ⟨f1, f2⟩
      refine ⟨f1, ?_⟩
      intro w' hd hk hlt
      simp only [upd, hrr, if_false] at hd hlt ⊢
      exact f2 w' hd hk hlt
    split
    · rename_i hk
      constructor
      · exact h.done_stamp
      · exact h.cur_latest
      · intro r' j buf snap hr'
        by_cases hrr : r' = r
        · subst hrr; simp at hr'
        · simp [upd, hrr] at hr'
          obtain ⟨a, b⟩ := h.read_time r' j buf snap hr'
          exact ⟨by simpa [upd, hrr] using a, fun w0 e => hfresh r' w0 _ hrr (b w0 e)⟩
      · intro r' b snap hr'
        by_cases hrr : r' = r
        · subst hrr; simp at hr'
        · simp [upd, hrr] at hr'
          obtain ⟨a, b'⟩ := h.fin_time r' b snap hr'
          exact ⟨by simpa [upd, hrr] using a, fun w0 e => hfresh r' w0 _ hrr (b' w0 e)⟩
      · intro r' snap hr'
        by_cases hrr : r' = r
        · subst hrr
          refine ⟨by simp [upd], ?_⟩
          intro w' hd hkk
          simp only at hd
          have := (h.done_stamp w' hd).2
          rw [hkk] at this
          exact absurd hk this
        · simp [upd, hrr] at hr'
          obtain ⟨a, b⟩ := h.miss_time r' snap hr'
          refine ⟨by simpa [upd, hrr] using a, ?_⟩
          intro w' hd hkk
          simp only [upd, hrr, if_false]
          exact b w' hd hkk
    · rename_i i hk
      constructor
      · exact h.done_stamp
      · exact h.cur_latest
      · intro r' j buf snap hr'
        by_cases hrr : r' = r
        · subst hrr
          simp at hr'
          obtain ⟨_, _, e⟩ := hr'
          refine ⟨by simp [upd], ?_⟩
          intro w0 e'
          obtain ⟨w1, k1, k2, k3, k4, k5, k6⟩ := hi.key_sealed _ _ hk
          have hc : s.cur (p.rkey r') = some w0 := by rw [e, e']
          have hw : w1 = w0 := by rw [k1] at hc; exact Option.some.inj hc
          subst hw
          refine ⟨k4, ?_⟩
          intro w' hd hkk _
          exact h.cur_latest _ _ k1 w' hd hkk
        · simp [upd, hrr] at hr'
          obtain ⟨a, b⟩ := h.read_time r' j buf snap hr'
          exact ⟨by simpa [upd, hrr] using a, fun w0 e => hfresh r' w0 _ hrr (b w0 e)⟩
      · intro r' b snap hr'
        by_cases hrr : r' = r
        · subst hrr; simp at hr'
        · simp [upd, hrr] at hr'
          obtain ⟨a, b'⟩ := h.fin_time r' b snap hr'
          exact ⟨by simpa [upd, hrr] using a, fun w0 e => hfresh r' w0 _ hrr (b' w0 e)⟩
      · intro r' snap hr'
        by_cases hrr : r' = r
        · subst hrr; simp at hr'
        · simp [upd, hrr] at hr'
          obtain ⟨a, b⟩ := h.miss_time r' snap hr'
          refine ⟨by simpa [upd, hrr] using a, ?_⟩
          intro w' hd hkk
          simp only [upd, hrr, if_false]
          exact b w' hd hkk
  · exact h

theorem invT_step (p : Prog) (s : Sys) (e : Event) (hi : Inv p s) (h : InvT p s) : InvT p (step p s e) := by
  cases e with
  | create w t => exact invT_create p s w t h
  | write w n => exact invT_write p s w n h
  | wfail w n => exact invT_wfail p s w n h
  | close w => exact invT_close p s w h
  | rename w => exact invT_rename p s w h
  | giveup w => exact invT_giveup p s w h
  | crash w => exact invT_crash p s w h
  | ropen r => exact invT_ropen p s r hi h
  | rread r n => exact invT_rread p s r n h

end NotationModel.C14

/-
C02 - lemmas for the tie of `processSignature` / `processPluginResponse` (translated as a whole,
`Generated/SrcProcess.lean`) to the model: positions in a pointer slice, the search for the
authenticity result, Go maps against the model's enforcement lists, and a functional reading
(`respSpec`) of the translated `processPluginResponse` proved equal to it for all inputs.
-/
import NotationModel.Model.C02
import NotationModel.Generated.SrcProcess

namespace GoLite

theorem enum_nil' {α : Type} : enum ([] : List α) = [] := by simp [enum]

theorem enum_cons' {α : Type} (x : α) (xs : List α) :
    enum (x :: xs) = (0, x) :: (enum xs).map (fun p => (p.1 + 1, p.2)) := by
  simp only [enum, List.length_cons, List.range_succ_eq_map, List.map_cons, List.zip_cons_cons, List.map_map]
  congr 1
  apply List.ext_getElem
  · simp
  · intro i h1 h2
    simp

/-- `for i, x := range l { if p(x) { k, r = i, x; break } }` -/
theorem forIn_findPair {α : Type} (l : List (Int × α)) (p : α → Bool) (init : Int × Option α)
    (body : Int × α → Int × Option α → Id (ForInStep (Int × Option α)))
    (h : ∀ x s, body x s = pure (if p x.2 = true then ForInStep.done (x.1, some x.2) else ForInStep.yield s)) :
    forIn l init body = pure (match l.find? (fun x => p x.2) with
      | some x => (x.1, some x.2)
      | none => init) := by
  induction l with
  | nil => simp
  | cons x l ih =>
    rw [List.forIn_cons, h]
    by_cases hp : p x.2 = true
    · simp [hp]
    · simp [hp, ih]

/-- the first element satisfying `p` replaced by its image under `f` -/
def markFirst {α : Type} (p : α → Bool) (f : α → α) : List α → List α
  | [] => []
  | x :: xs => if p x then f x :: xs else x :: markFirst p f xs

theorem find_enum_none {α : Type} (p : α → Bool) (xs : List α) :
    (enum xs).find? (fun x => p x.2) = none ↔ xs.find? p = none := by
  induction xs with
  | nil => simp [enum_nil']
  | cons x xs ih =>
    rw [enum_cons']
    by_cases hp : p x = true
    · simp [hp]
    · simp only [List.find?_cons, hp]
      rw [List.find?_map]
      simp only [Option.map_eq_none_iff]
      exact ih

theorem find_enum_some {α : Type} (p : α → Bool) (f : α → α) (xs : List α) (k : Int) (y : α)
    (h : (enum xs).find? (fun x => p x.2) = some (k, y)) :
    0 ≤ k ∧ xs.find? p = some y ∧ setAt xs k (f y) = markFirst p f xs := by
  induction xs generalizing k with
  | nil => simp [enum_nil'] at h
  | cons x xs ih =>
    rw [enum_cons'] at h
    by_cases hp : p x = true
    · simp [hp] at h
      obtain ⟨rfl, rfl⟩ := h
      simp [hp, setAt, markFirst]
    · simp only [List.find?_cons, hp] at h
      rw [List.find?_map] at h
      cases hq : (enum xs).find? ((fun x => p x.2) ∘ fun p => (p.1 + 1, p.2)) with
      | none => simp [hq] at h
      | some q =>
        simp [hq] at h
        obtain ⟨hk, hy⟩ := h
        have hq' : (enum xs).find? (fun x => p x.2) = some (q.1, y) := by
          have : ((fun x => p x.2) ∘ fun (p : Int × α) => (p.1 + 1, p.2)) = (fun x => p x.2) := by funext z; rfl
          rw [this] at hq
          rw [hq, ← hy]
        obtain ⟨h0, hf, hs⟩ := ih q.1 hq'
        refine ⟨by omega, by simp [hp, hf], ?_⟩
        subst hk
        have : (q.1 + 1).toNat = q.1.toNat + 1 := by omega
        simp only [setAt, this, List.set_cons_succ, markFirst, hp]
        simp only [setAt] at hs
        simp [hs]

end GoLite

namespace GoLite
/-- `for _, a := range l { if q(a) { return v } }` -/
theorem forIn_anyReturn {α ρ : Type} (l : List α) (q : α → Bool) (v : ρ)
    (body : α → Option ρ × Unit → Id (ForInStep (Option ρ × Unit)))
    (h : ∀ a s, body a s = pure (if q a = true then ForInStep.done (some v, ()) else ForInStep.yield (none, ()))) :
    forIn l (none, ()) body = pure (if l.any q = true then (some v, ()) else (none, ())) := by
  induction l with
  | nil => simp
  | cons a l ih =>
    rw [List.forIn_cons, h]
    by_cases hq : q a = true
    · simp [hq]
    · simp [hq, ih]
end GoLite

namespace NotationModel.C02.Process
open NotationModel.Src NotationModel.Src.verifier NotationModel.Src.«notation» NotationModel.Src.pluginframework
open NotationModel.C02

/-- a Go map read with `m[k]` and the model's enforcement list read with `Enf.get` agree -/
theorem mapGet_eq_enfGet (m : List (String × String)) (k : String) : GoLite.Map.get m k = Enf.get m k := by
  unfold GoLite.Map.get GoLite.Map.lookup GoLite.Map.get? Enf.get
  induction m with
  | nil => rfl
  | cons p m ih =>
    by_cases h : p.1 = k
    · subst h; simp [List.lookup]
    · have h1 : (p.1 == k) = false := by simpa using h
      have h2 : (k == p.1) = false := by simpa using (fun e => h e.symm)
      simp only [List.find?_cons, h1, List.lookup, h2]
      exact ih

/-- a validation result as the model's observation records it -/
def resOf (r : ValidationResult) : Result := { type := r.«Type», action := r.Action, failed := r.Error.isSome }

def isAuth (r : ValidationResult) : Bool := r.«Type» == trustpolicy.TypeAuthenticity

def setErr (e : GoLite.Err) (r : ValidationResult) : ValidationResult := { r with Error := some e }

/-- one capability of the loop in `processPluginResponse`, read functionally: the new outcome, or
the error returned together with the outcome as it is left behind -/
def stepCap (resp : VerifySignatureResponse) (o : Outcome) (cap : String) : Except (Option GoLite.Err × Outcome) Outcome :=
  match GoLite.Map.get resp.VerificationResults cap with
  | none => .error (some (GoLite.errT "notation.ErrorVerificationInconclusive" ""), o)
  | some pr =>
    if cap == CapabilityTrustedIdentityVerifier then
      if !pr.Success then
        match o.VerificationResults.find? isAuth with
        | none => .error (none, o)       -- Go: nil dereference (no authenticity result recorded)
        | some r =>
          let o' := { o with VerificationResults := GoLite.markFirst isAuth (setErr (GoLite.errorf "")) o.VerificationResults }
          if isCriticalFailure (setErr (GoLite.errorf "") r) then .error (some (GoLite.errorf ""), o') else .ok o'
      else .ok o
    else if cap == CapabilityRevocationCheckVerifier then
      let r : ValidationResult :=
        { «Type» := trustpolicy.TypeRevocation,
          Action := GoLite.Map.get o.VerificationLevel.Enforcement trustpolicy.TypeRevocation,
          Error := if !pr.Success then some (GoLite.errorf "") else none }
      let o' := { o with VerificationResults := o.VerificationResults ++ [r] }
      if isCriticalFailure r then .error (r.Error, o') else .ok o'
    else .ok o


def stepCapG (resp : VerifySignatureResponse) (t : Outcome × Int) (cap : String) :
    Except ((Option GoLite.Err × Outcome) × Int) (Outcome × Int) :=
  match GoLite.Map.get resp.VerificationResults cap with
  | none => .error ((some (GoLite.errT "notation.ErrorVerificationInconclusive" ""), t.1), t.2)
  | some pr =>
    if cap == CapabilityTrustedIdentityVerifier then
      if !pr.Success then
        match (GoLite.enum t.1.VerificationResults).find? (fun x => isAuth x.2) with
        | none => .ok (t.1, -1)
        | some x =>
          let o' := { t.1 with VerificationResults := GoLite.setAt t.1.VerificationResults x.1 (setErr (GoLite.errorf "") x.2) }
          if isCriticalFailure (setErr (GoLite.errorf "") x.2) then .error ((some (GoLite.errorf ""), o'), x.1) else .ok (o', x.1)
      else .ok t
    else if cap == CapabilityRevocationCheckVerifier then
      let r : ValidationResult :=
        { «Type» := trustpolicy.TypeRevocation,
          Action := GoLite.Map.get t.1.VerificationLevel.Enforcement trustpolicy.TypeRevocation,
          Error := if !pr.Success then some (GoLite.errorf "") else none }
      let o' := { t.1 with VerificationResults := t.1.VerificationResults ++ [r] }
      if isCriticalFailure r then .error ((r.Error, o'), t.2) else .ok (o', t.2)
    else .ok t

theorem defaultError : (default : ValidationResult).Error = none := rfl
theorem defaultNotEnforced : ((default : ValidationResult).Action == trustpolicy.ActionEnforce) = false := by decide

/-- `processPluginResponse` read functionally -/
def respSpec (caps : List String) (resp : VerifySignatureResponse) (o : Outcome) : Option GoLite.Err × Outcome :=
  if (getVerificationPlugin (GoLite.deref o.EnvelopeContent).SignerInfo).2.isSome then
    ((getVerificationPlugin (GoLite.deref o.EnvelopeContent).SignerInfo).2, o)
  else if (getNonPluginExtendedCriticalAttributes (GoLite.deref o.EnvelopeContent).SignerInfo).any
      (fun a => !slices.ContainsAny resp.ProcessedAttributes a.Key) then (some (GoLite.errorf ""), o)
  else match GoLite.foldE (stepCapG resp) caps (o, -1) with
    | .ok t' => (none, t'.1)
    | .error (_, e) => e.1

theorem processPluginResponse_eq_spec (caps : List String) (resp) (o : Outcome) : processPluginResponse caps resp o = respSpec caps resp o := by
  unfold processPluginResponse
  simp only [Id.run]
  rw [GoLite.forIn_anyReturn _ (fun a => !slices.ContainsAny resp.ProcessedAttributes a.Key) _ _ (by intro a s; rfl)]
  rw [GoLite.forIn_eq_foldE' _ (stepCapG resp) (fun t => (none, t.1, t.2)) (fun _ e => (some e.1, e.1.2, e.2)) ?h _ _ (o, -1) rfl]
  case h =>
    intro a t
    rw [GoLite.forIn_findPair _ isAuth _ _ (by intro x s; by_cases h : isAuth x.2 = true <;> simp_all [isAuth])]
    simp only [pure_bind]
    cases hpr : GoLite.Map.get resp.VerificationResults a with
    | none => simp [stepCapG, hpr]
    | some pr =>
      by_cases h1 : (a == CapabilityTrustedIdentityVerifier) = true
      · -- whichever capability the source tests first: the other test is false here
        have h3 : (a == CapabilityRevocationCheckVerifier) = false := by
          have ha : a = CapabilityTrustedIdentityVerifier := by simpa using h1
          rw [ha]; decide
        by_cases h2 : pr.Success = true
        · simp [stepCapG, hpr, h1, h3, h2, GoLite.deref]
        · cases hf : List.find? (fun x => isAuth x.2) (GoLite.enum t.1.VerificationResults) with
          | none =>
            simp [stepCapG, hpr, h1, h3, h2, GoLite.deref, hf, isCriticalFailure, defaultNotEnforced, Id.run]
          | some x =>
            have hx := (GoLite.find_enum_some isAuth id t.1.VerificationResults x.1 x.2 hf).1
            by_cases hc : isCriticalFailure (setErr (GoLite.errorf "") x.2) = true
            · have hc' := hc
              simp only [setErr, GoLite.errorf] at hc'
              simp [stepCapG, hpr, h1, h3, h2, GoLite.deref, hf, hx, hc', setErr, GoLite.errorf]
            · have hc' := hc
              simp only [setErr, GoLite.errorf] at hc'
              simp [stepCapG, hpr, h1, h3, h2, GoLite.deref, hf, hx, hc', setErr, GoLite.errorf]
      · by_cases h3 : (a == CapabilityRevocationCheckVerifier) = true
        · by_cases h2 : pr.Success = true
          · by_cases hc : isCriticalFailure { «Type» := trustpolicy.TypeRevocation, Action := GoLite.Map.get t.1.VerificationLevel.Enforcement trustpolicy.TypeRevocation, Error := none } = true
            · simp [stepCapG, hpr, h1, h2, h3, GoLite.deref, defaultError, hc, GoLite.errorf]
            · simp [stepCapG, hpr, h1, h2, h3, GoLite.deref, defaultError, hc, GoLite.errorf]
          · by_cases hc : isCriticalFailure { «Type» := trustpolicy.TypeRevocation, Action := GoLite.Map.get t.1.VerificationLevel.Enforcement trustpolicy.TypeRevocation, Error := some ⟨"error"⟩ } = true
            · simp [stepCapG, hpr, h1, h2, h3, GoLite.deref, defaultError, hc, GoLite.errorf]
            · simp [stepCapG, hpr, h1, h2, h3, GoLite.deref, defaultError, hc, GoLite.errorf]
        · simp [stepCapG, hpr, h1, h3, GoLite.deref]
  unfold respSpec
  by_cases hp : (getVerificationPlugin (GoLite.deref o.EnvelopeContent).SignerInfo).2.isSome = true
  · simp [hp, GoLite.idPure]
  · by_cases ha : (getNonPluginExtendedCriticalAttributes (GoLite.deref o.EnvelopeContent).SignerInfo).any
      (fun a => !slices.ContainsAny resp.ProcessedAttributes a.Key) = true
    · simp only [hp, ha, ↓reduceIte, pure_bind, Bool.false_eq_true]
      simp [GoLite.idPure, GoLite.errorf]
    · simp only [hp, ha, ↓reduceIte, pure_bind, Bool.false_eq_true]
      cases hf : GoLite.foldE (stepCapG resp) caps (o, -1) with
      | ok t' => simp only [pure_bind]; rfl
      | error p => obtain ⟨t', e⟩ := p; simp only [pure_bind]; rfl


def verdictOf (resp : VerifySignatureResponse) (cap : String) : Verdict :=
  match GoLite.Map.get resp.VerificationResults cap with
  | none => .missing
  | some pr => if pr.Success then .success else .failure

/-- the outcome's results, after a prefix the model does not record, are the model's results -/
def Rel (pre : List ValidationResult) (o : Outcome) (s : St) : Prop :=
  ∃ rs, o.VerificationResults = pre ++ rs ∧ s.results = rs.map resOf

theorem typeAuth_eq : trustpolicy.TypeAuthenticity = Facts.typeAuthenticity := by decide
theorem typeRev_eq : trustpolicy.TypeRevocation = Facts.typeRevocation := by decide
theorem actEnforce_eq : trustpolicy.ActionEnforce = Facts.actionEnforce := by decide

theorem isCriticalFailure_eq (r : ValidationResult) : isCriticalFailure r = isCritical (resOf r) := by
  simp [isCriticalFailure, isCritical, resOf, Id.run, GoLite.idPure, actEnforce_eq]

theorem failAuthenticity_map (e : GoLite.Err) (rs : List ValidationResult) :
    failAuthenticity (rs.map resOf) = (GoLite.markFirst isAuth (setErr e) rs).map resOf := by
  induction rs with
  | nil => rfl
  | cons r rs ih =>
    by_cases h : isAuth r = true
    · have h' : (r.«Type» == Facts.typeAuthenticity) = true := by simpa [isAuth, typeAuth_eq] using h
      simp [failAuthenticity, GoLite.markFirst, h, resOf, h', setErr]
    · have h' : (r.«Type» == Facts.typeAuthenticity) = false := by simpa [isAuth, typeAuth_eq] using h
      simp [failAuthenticity, GoLite.markFirst, h, resOf, h', ih]

theorem markFirst_append_pre {α : Type} (p : α → Bool) (f : α → α) (pre rs : List α) (h : pre.all (fun r => !p r) = true) :
    GoLite.markFirst p f (pre ++ rs) = pre ++ GoLite.markFirst p f rs := by
  induction pre with
  | nil => rfl
  | cons a pre ih =>
    simp only [List.all_cons, Bool.and_eq_true, Bool.not_eq_true'] at h
    simp [GoLite.markFirst, h.1, ih h.2]

theorem find_append_pre {α : Type} (p : α → Bool) (pre rs : List α) (h : pre.all (fun r => !p r) = true) :
    (pre ++ rs).find? p = rs.find? p := by
  induction pre with
  | nil => rfl
  | cons a pre ih =>
    simp only [List.all_cons, Bool.and_eq_true, Bool.not_eq_true'] at h
    simp [List.find?_cons, h.1, ih h.2]

theorem authResult_fail (e : GoLite.Err) (rs : List ValidationResult) (r : ValidationResult) (h : rs.find? isAuth = some r) :
    authResult ((GoLite.markFirst isAuth (setErr e) rs).map resOf) = some (resOf (setErr e r)) := by
  induction rs with
  | nil => simp at h
  | cons a rs ih =>
    by_cases ha : isAuth a = true
    · simp [List.find?_cons, ha] at h
      subst h
      have h' : (a.«Type» == Facts.typeAuthenticity) = true := by simpa [isAuth, typeAuth_eq] using ha
      simp [GoLite.markFirst, ha, authResult, resOf, setErr, h']
    · have h' : (a.«Type» == Facts.typeAuthenticity) = false := by simpa [isAuth, typeAuth_eq] using ha
      simp [List.find?_cons, ha] at h
      have := ih h
      simp [GoLite.markFirst, ha, authResult, resOf, h'] at this ⊢
      exact this


theorem capId_eq : CapabilityTrustedIdentityVerifier = capIdentity := rfl
theorem capRev_eq : CapabilityRevocationCheckVerifier = capRevocation := rfl

def hasAuth (s : St) : Prop := ∃ r ∈ s.results, (r.type == Facts.typeAuthenticity) = true

theorem stepCap_sim (i : Input) (resp : VerifySignatureResponse) (pre : List ValidationResult) (o : Outcome) (s : St)
    (k : Int) (cap : String)
    (hrel : Rel pre o s) (hpre : pre.all (fun r => !isAuth r) = true)
    (hvi : i.verdictIdentity = verdictOf resp CapabilityTrustedIdentityVerifier)
    (hvr : i.verdictRevocation = verdictOf resp CapabilityRevocationCheckVerifier)
    (hcap : cap = CapabilityTrustedIdentityVerifier ∨ cap = CapabilityRevocationCheckVerifier)
    (hauth : hasAuth s) :
    match stepCapG resp (o, k) cap, respondCap i o.VerificationLevel.Enforcement s cap with
    | .ok t', .ok s' => Rel pre t'.1 s' ∧ t'.1.VerificationLevel = o.VerificationLevel ∧
        t'.1.EnvelopeContent = o.EnvelopeContent ∧ hasAuth s'
    | .error e, .error s' => e.1.1.isSome = true ∧ Rel pre e.1.2 s'
    | _, _ => False := by
  obtain ⟨rs, ho, hs⟩ := hrel
  rcases hcap with rfl | rfl
  · -- trusted identity
    have hne : (CapabilityTrustedIdentityVerifier == capRevocation) = false := by decide
    cases hpr : GoLite.Map.get resp.VerificationResults CapabilityTrustedIdentityVerifier with
    | none =>
      have : i.verdictIdentity = .missing := by rw [hvi]; simp [verdictOf, hpr]
      simp [stepCapG, respondCap, hpr, this, capId_eq.symm]
      exact ⟨rs, ho, hs⟩
    | some pr =>
      by_cases h2 : pr.Success = true
      · have : i.verdictIdentity = .success := by rw [hvi]; simp [verdictOf, hpr, h2]
        simp [stepCapG, respondCap, hpr, this, capId_eq.symm, h2]
        exact ⟨⟨rs, ho, hs⟩, hauth⟩
      · have hv : i.verdictIdentity = .failure := by rw [hvi]; simp [verdictOf, hpr, h2]
        -- the first authenticity result exists in rs
        obtain ⟨r0, hr0m, hr0⟩ := hauth
        have hfind : ∃ r, rs.find? isAuth = some r := by
          rw [hs] at hr0m
          obtain ⟨r1, hr1m, rfl⟩ := List.mem_map.1 hr0m
          cases hf : rs.find? isAuth with
          | some r => exact ⟨r, rfl⟩
          | none =>
            have := List.find?_eq_none.1 hf r1 hr1m
            simp [isAuth, typeAuth_eq] at this
            simp [resOf] at hr0
            exact absurd hr0 this
        obtain ⟨r, hfr⟩ := hfind
        have hfo : o.VerificationResults.find? isAuth = some r := by rw [ho, find_append_pre _ _ _ hpre, hfr]
        cases hfe : (GoLite.enum o.VerificationResults).find? (fun x => isAuth x.2) with
        | none => rw [GoLite.find_enum_none] at hfe; rw [hfe] at hfo; cases hfo
        | some x =>
          obtain ⟨hx0, hxf, hset⟩ := GoLite.find_enum_some isAuth (setErr (GoLite.errorf "")) o.VerificationResults x.1 x.2 hfe
          have hxr : x.2 = r := by rw [hfo] at hxf; cases hxf; rfl
          have hmark : GoLite.setAt o.VerificationResults x.1 (setErr (GoLite.errorf "") x.2) =
              pre ++ GoLite.markFirst isAuth (setErr (GoLite.errorf "")) rs := by
            rw [hset, ho, markFirst_append_pre _ _ _ _ hpre]
          have hfa := failAuthenticity_map (GoLite.errorf "") rs
          have har := authResult_fail (GoLite.errorf "") rs r hfr
          have hcrit := isCriticalFailure_eq (setErr (GoLite.errorf "") r)
          by_cases hc : isCriticalFailure (setErr (GoLite.errorf "") r) = true
          · have hc' : isCritical (resOf (setErr (GoLite.errorf "") r)) = true := by rw [← hcrit]; exact hc
            simp [stepCapG, respondCap, hpr, hv, capId_eq.symm, h2, hfe, hxr, hc, hs, hfa, har, hc']
            exact ⟨_, by rw [← hxr]; exact hmark, rfl⟩
          · have hc' : isCritical (resOf (setErr (GoLite.errorf "") r)) = false := by rw [← hcrit]; simpa using hc
            simp [stepCapG, respondCap, hpr, hv, capId_eq.symm, h2, hfe, hxr, hc, hs, hfa, har, hc']
            refine ⟨⟨_, by rw [← hxr]; exact hmark, rfl⟩, ?_⟩
            -- an authenticity result still exists
            have : resOf (setErr (GoLite.errorf "") r) ∈ List.map resOf (GoLite.markFirst isAuth (setErr (GoLite.errorf "")) rs) := by
              have := har
              unfold authResult at this
              exact List.mem_of_find?_eq_some this
            refine ⟨_, this, ?_⟩
            have := List.find?_some hfr
            simpa [resOf, setErr, isAuth, typeAuth_eq] using this
  · -- revocation
    have hne : (CapabilityRevocationCheckVerifier == capIdentity) = false := by decide
    cases hpr : GoLite.Map.get resp.VerificationResults CapabilityRevocationCheckVerifier with
    | none =>
      have : i.verdictRevocation = .missing := by rw [hvr]; simp [verdictOf, hpr]
      simp [stepCapG, respondCap, hpr, this, capRev_eq.symm, hne]
      exact ⟨rs, ho, hs⟩
    | some pr =>
      have hget := mapGet_eq_enfGet o.VerificationLevel.Enforcement Facts.typeRevocation
      have hne2 : (CapabilityRevocationCheckVerifier == CapabilityTrustedIdentityVerifier) = false := by decide
      have hsf : (Verdict.success == Verdict.failure) = false := by decide
      have hff : (Verdict.failure == Verdict.failure) = true := by decide
      by_cases h2 : pr.Success = true
      · have hv : i.verdictRevocation = .success := by rw [hvr]; simp [verdictOf, hpr, h2]
        have hnc' : isCritical { type := Facts.typeRevocation, action := Enf.get o.VerificationLevel.Enforcement Facts.typeRevocation, failed := false } = false := by
          simp [isCritical]
        have hnc : isCriticalFailure { «Type» := Facts.typeRevocation, Action := Enf.get o.VerificationLevel.Enforcement Facts.typeRevocation, Error := none } = false := by
          rw [isCriticalFailure_eq]; simpa [resOf] using hnc'
        simp only [stepCapG, respondCap, hpr, hv, capRev_eq.symm, hne, hne2, h2, typeRev_eq, hget, hsf, hnc, hnc',
          Bool.false_eq_true, if_false, Bool.not_true, if_true, BEq.rfl]
        refine ⟨⟨rs ++ [⟨Facts.typeRevocation, Enf.get o.VerificationLevel.Enforcement Facts.typeRevocation, none⟩], by simp [ho, List.append_assoc], ?_⟩, trivial, trivial, ?_⟩
        · simp [hs, resOf]
        · obtain ⟨r0, hm, h0⟩ := hauth
          exact ⟨r0, by simp [hm], h0⟩
      · have hv : i.verdictRevocation = .failure := by rw [hvr]; simp [verdictOf, hpr, h2]
        have hcrit := isCriticalFailure_eq { «Type» := Facts.typeRevocation, Action := Enf.get o.VerificationLevel.Enforcement Facts.typeRevocation, Error := some (GoLite.errorf "") }
        simp only [resOf, Option.isSome_some] at hcrit
        have h2' : pr.Success = false := by simpa using h2
        by_cases hc : isCritical { type := Facts.typeRevocation, action := Enf.get o.VerificationLevel.Enforcement Facts.typeRevocation, failed := true } = true
        · simp only [stepCapG, respondCap, hpr, hv, capRev_eq.symm, hne, hne2, h2', typeRev_eq, hget, hff, hcrit, hc,
            Bool.false_eq_true, if_false, Bool.not_false, if_true, BEq.rfl]
          refine ⟨rfl, rs ++ [⟨Facts.typeRevocation, Enf.get o.VerificationLevel.Enforcement Facts.typeRevocation, some (GoLite.errorf "")⟩], by simp [ho, List.append_assoc], ?_⟩
          simp [hs, resOf]
        · simp only [stepCapG, respondCap, hpr, hv, capRev_eq.symm, hne, hne2, h2', typeRev_eq, hget, hff, hcrit, hc,
            Bool.false_eq_true, if_false, Bool.not_false, if_true, BEq.rfl]
          refine ⟨⟨rs ++ [⟨Facts.typeRevocation, Enf.get o.VerificationLevel.Enforcement Facts.typeRevocation, some (GoLite.errorf "")⟩], by simp [ho, List.append_assoc], ?_⟩, trivial, trivial, ?_⟩
          · simp [hs, resOf]
          · obtain ⟨r0, hm, h0⟩ := hauth
            exact ⟨r0, by simp [hm], h0⟩


theorem foldCaps_sim (i : Input) (resp : VerifySignatureResponse) (pre : List ValidationResult) (caps : List String)
    (o : Outcome) (s : St) (k : Int)
    (hrel : Rel pre o s) (hpre : pre.all (fun r => !isAuth r) = true)
    (hvi : i.verdictIdentity = verdictOf resp CapabilityTrustedIdentityVerifier)
    (hvr : i.verdictRevocation = verdictOf resp CapabilityRevocationCheckVerifier)
    (hcaps : ∀ c ∈ caps, c = CapabilityTrustedIdentityVerifier ∨ c = CapabilityRevocationCheckVerifier)
    (hauth : hasAuth s) :
    match GoLite.foldE (stepCapG resp) caps (o, k), respondCaps i o.VerificationLevel.Enforcement caps s with
    | .ok t', .ok s' => Rel pre t'.1 s'
    | .error e, .error s' => e.2.1.1.isSome = true ∧ Rel pre e.2.1.2 s'
    | _, _ => False := by
  induction caps generalizing o s k with
  | nil => simpa [GoLite.foldE, respondCaps] using hrel
  | cons c caps ih =>
    have hstep := stepCap_sim i resp pre o s k c hrel hpre hvi hvr (hcaps c (by simp)) hauth
    simp only [GoLite.foldE, respondCaps]
    cases h1 : stepCapG resp (o, k) c with
    | ok t' =>
      cases h2 : respondCap i o.VerificationLevel.Enforcement s c with
      | ok s' =>
        rw [h1, h2] at hstep
        obtain ⟨hr, hl, _, ha⟩ := hstep
        have := ih t'.1 s' t'.2 hr (fun c hc => hcaps c (by simp [hc])) ha
        rw [hl] at this
        exact this
      | error s' => rw [h1, h2] at hstep; exact hstep.elim
    | error e =>
      cases h2 : respondCap i o.VerificationLevel.Enforcement s c with
      | ok s' => rw [h1, h2] at hstep; exact hstep.elim
      | error s' => rw [h1, h2] at hstep; exact hstep

/-- `processPluginResponse` (through its functional reading) against the model's `processResponse` -/
theorem respSpec_sim (i : Input) (resp : VerifySignatureResponse) (pre : List ValidationResult) (caps : List String)
    (o : Outcome) (s : St)
    (hrel : Rel pre o s) (hpre : pre.all (fun r => !isAuth r) = true)
    (hvi : i.verdictIdentity = verdictOf resp CapabilityTrustedIdentityVerifier)
    (hvr : i.verdictRevocation = verdictOf resp CapabilityRevocationCheckVerifier)
    (hcaps : ∀ c ∈ caps, c = CapabilityTrustedIdentityVerifier ∨ c = CapabilityRevocationCheckVerifier)
    (hauth : hasAuth s)
    (hplug : (getVerificationPlugin (GoLite.deref o.EnvelopeContent).SignerInfo).2 = none)
    (hext : i.extAttrs.any (fun a => !i.processed.contains a.key) =
      (getNonPluginExtendedCriticalAttributes (GoLite.deref o.EnvelopeContent).SignerInfo).any
        (fun a => !slices.ContainsAny resp.ProcessedAttributes a.Key)) :
    match processResponse i o.VerificationLevel.Enforcement caps s with
    | .ok s' => (respSpec caps resp o).1 = none ∧ Rel pre (respSpec caps resp o).2 s'
    | .error s' => (respSpec caps resp o).1.isSome = true ∧ Rel pre (respSpec caps resp o).2 s' := by
  unfold processResponse respSpec
  simp only [hplug, Option.isSome_none, Bool.false_eq_true, if_false, hext]
  by_cases ha : (getNonPluginExtendedCriticalAttributes (GoLite.deref o.EnvelopeContent).SignerInfo).any
        (fun a => !slices.ContainsAny resp.ProcessedAttributes a.Key) = true
  · simp only [ha, if_true]
    exact ⟨rfl, hrel⟩
  · simp only [ha, Bool.false_eq_true, if_false]
    have := foldCaps_sim i resp pre caps o s (-1) hrel hpre hvi hvr hcaps hauth
    cases h1 : GoLite.foldE (stepCapG resp) caps (o, -1) with
    | ok t' =>
      cases h2 : respondCaps i o.VerificationLevel.Enforcement caps s with
      | ok s' => rw [h1, h2] at this; exact ⟨rfl, this⟩
      | error s' => rw [h1, h2] at this; exact this.elim
    | error e =>
      obtain ⟨t', e⟩ := e
      cases h2 : respondCaps i o.VerificationLevel.Enforcement caps s with
      | ok s' => rw [h1, h2] at this; exact this.elim
      | error s' => rw [h1, h2] at this; exact this

/-- plugin discovery goes through -/
def discOK (i : Input) : Bool :=
  i.pluginAttr == .absent ||
  (i.pluginAttr == .named && (i.minVerAttr == .absent || i.minVerAttr == .valid) &&
    i.pluginState == .installed && i.pluginVersion != .invalidSemver &&
    !(i.minVerAttr == .valid && i.pluginVersion == .tooOld) && !(capsOf i).isEmpty)

theorem discover_spec (i : Input) :
    ∃ s, s.results = [] ∧ discover i {} = (if discOK i then .ok s else .error s) := by
  unfold discover discOK
  cases i.pluginAttr <;> cases i.minVerAttr <;> cases i.pluginState <;> cases i.pluginVersion <;>
    cases (capsOf i).isEmpty <;> simp <;> exact ⟨_, rfl, rfl⟩

end NotationModel.C02.Process

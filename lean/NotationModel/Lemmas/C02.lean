/-
C02 - helper lemmas: closed forms of the stages of `processE`.
-/
import NotationModel.Model.C02
set_option linter.unusedSimpArgs false
set_option linter.unusedVariables false

namespace NotationModel.C02

/-! ### canonical results and states -/

def nativeId (i : Input) : Bool := !(capsOf i).contains capIdentity
def nativeRev (i : Input) (enf : Enf) : Bool := !revSkippedBy enf && !(capsOf i).contains capRevocation

def authR (i : Input) (enf : Enf) : Result :=
  { type := Facts.typeAuthenticity, action := enf.get Facts.typeAuthenticity,
    failed := i.trust != .found || (nativeId i && !i.identityMatch) }
def expR (i : Input) (enf : Enf) : Result :=
  { type := Facts.typeExpiry, action := enf.get Facts.typeExpiry, failed := i.expired }
def tsR (i : Input) (enf : Enf) : Result :=
  { type := Facts.typeAuthenticTimestamp, action := enf.get Facts.typeAuthenticTimestamp, failed := !i.timestampOk }
def revR (i : Input) (enf : Enf) : Result :=
  { type := Facts.typeRevocation, action := enf.get Facts.typeRevocation, failed := i.revocation != .ok }

@[simp] theorem authR_type (i : Input) (enf : Enf) : (authR i enf).type = Facts.typeAuthenticity := rfl
@[simp] theorem expR_type (i : Input) (enf : Enf) : (expR i enf).type = Facts.typeExpiry := rfl
@[simp] theorem tsR_type (i : Input) (enf : Enf) : (tsR i enf).type = Facts.typeAuthenticTimestamp := rfl
@[simp] theorem revR_type (i : Input) (enf : Enf) : (revR i enf).type = Facts.typeRevocation := rfl
@[simp] theorem authR_action (i : Input) (enf : Enf) : (authR i enf).action = enf.get Facts.typeAuthenticity := rfl
@[simp] theorem expR_action (i : Input) (enf : Enf) : (expR i enf).action = enf.get Facts.typeExpiry := rfl
@[simp] theorem tsR_action (i : Input) (enf : Enf) : (tsR i enf).action = enf.get Facts.typeAuthenticTimestamp := rfl
@[simp] theorem revR_action (i : Input) (enf : Enf) : (revR i enf).action = enf.get Facts.typeRevocation := rfl
@[simp] theorem authR_failed (i : Input) (enf : Enf) :
    (authR i enf).failed = (i.trust != .found || (nativeId i && !i.identityMatch)) := rfl
@[simp] theorem expR_failed (i : Input) (enf : Enf) : (expR i enf).failed = i.expired := rfl
@[simp] theorem tsR_failed (i : Input) (enf : Enf) : (tsR i enf).failed = !i.timestampOk := rfl
@[simp] theorem revR_failed (i : Input) (enf : Enf) : (revR i enf).failed = (i.revocation != .ok) := rfl

def S0 (i : Input) : St := { managerGets := if i.pluginAttr == .named then 1 else 0 }
def S1 (i : Input) (enf : Enf) : St := { S0 i with storeLoads := 1, results := [authR i enf] }
def S2 (i : Input) (enf : Enf) : St := { S1 i enf with results := [authR i enf, expR i enf] }
def S3 (i : Input) (enf : Enf) : St := { S1 i enf with results := [authR i enf, expR i enf, tsR i enf] }
def S4 (i : Input) (enf : Enf) : St :=
  if nativeRev i enf then
    { S1 i enf with results := [authR i enf, expR i enf, tsR i enf, revR i enf], validatorCalls := 1 }
  else S3 i enf

/-- authenticity stage from the state after discovery -/
theorem authStage_closed (i : Input) (enf : Enf) :
    authStage i enf (S0 i) = if isCritical (authR i enf) then .error (S1 i enf) else .ok (S1 i enf) := by
  unfold authStage St.push S1 S0 authR nativeId
  generalize (capsOf i).contains capIdentity = c
  generalize enf.get Facts.typeAuthenticity = a
  by_cases ha : a = Facts.actionEnforce <;> cases c <;> cases hm : i.identityMatch <;>
    by_cases ht : i.trust = .found <;> simp [*, isCritical, failAuthenticity]

theorem expiryStage_closed (i : Input) (enf : Enf) :
    expiryStage i enf (S1 i enf) = if isCritical (expR i enf) then .error (S2 i enf) else .ok (S2 i enf) := by
  rfl

theorem timestampStage_closed (i : Input) (enf : Enf) :
    timestampStage i enf (S2 i enf) = if isCritical (tsR i enf) then .error (S3 i enf) else .ok (S3 i enf) := by
  rfl

theorem revocationStage_closed (i : Input) (enf : Enf) :
    revocationStage i enf (S3 i enf) =
      if nativeRev i enf && isCritical (revR i enf) then .error (S4 i enf) else .ok (S4 i enf) := by
  unfold revocationStage S4 nativeRev
  generalize (!revSkippedBy enf && !(capsOf i).contains capRevocation) = b
  cases b
  · simp
  · simp only [if_true, Bool.true_and]
    rfl

/-- the four validations after a successful discovery, in closed form -/
theorem validations_closed (i : Input) (enf : Enf) :
    (authStage i enf (S0 i) >>= expiryStage i enf >>= timestampStage i enf >>= revocationStage i enf) =
      if isCritical (authR i enf) then .error (S1 i enf)
      else if isCritical (expR i enf) then .error (S2 i enf)
      else if isCritical (tsR i enf) then .error (S3 i enf)
      else if nativeRev i enf && isCritical (revR i enf) then .error (S4 i enf)
      else .ok (S4 i enf) := by
  rw [authStage_closed]
  by_cases h1 : isCritical (authR i enf) = true
  · simp [h1, bind, Except.bind]
  · rw [if_neg h1, if_neg h1]
    simp only [bind, Except.bind]
    rw [expiryStage_closed]
    by_cases h2 : isCritical (expR i enf) = true
    · simp [h2]
    · rw [if_neg h2, if_neg h2]
      simp only []
      rw [timestampStage_closed]
      by_cases h3 : isCritical (tsR i enf) = true
      · simp [h3]
      · rw [if_neg h3, if_neg h3]
        simp only []
        rw [revocationStage_closed]

end NotationModel.C02

namespace NotationModel.C02

theorem nativeId_eq (i : Input) : nativeId i = !askedIdentity i := by
  unfold nativeId askedIdentity named capsOf
  cases i.pluginAttr <;> cases i.capIdentity <;> cases i.capRevocation <;> simp [capIdentity, capRevocation]

theorem nativeRev_eq (i : Input) (enf : Enf) :
    nativeRev i enf = (!revSkippedBy enf && !(named i && i.capRevocation)) := by
  unfold nativeRev named capsOf
  cases i.pluginAttr <;> cases i.capIdentity <;> cases i.capRevocation <;> simp [capIdentity, capRevocation]

theorem processE_ok (i : Input) (enf : Enf) (h : discover i {} = .ok (S0 i)) :
    processE i enf =
      ((authStage i enf (S0 i) >>= expiryStage i enf >>= timestampStage i enf >>= revocationStage i enf)
        >>= pluginStage i enf) := by
  unfold processE; rw [h]; rfl

theorem processE_err (i : Input) (enf : Enf) (s : St) (h : discover i {} = .error s) :
    processE i enf = .error s := by
  unfold processE; rw [h]; rfl

/-- plugin discovery either passes into the canonical state `S0`, or fails with no result
and at most one manager call -/
theorem discover_cases (i : Input) :
    discover i {} = .ok (S0 i) ∨ discover i {} = .error {} ∨ discover i {} = .error { managerGets := 1 } := by
  unfold discover S0
  cases i.pluginAttr <;> simp
  cases i.minVerAttr <;> simp
  all_goals
    cases i.pluginState <;> simp
    all_goals
      cases i.pluginVersion <;> simp
      all_goals split <;> simp [*]

/-- inside the property's domain, discovery fails exactly when a plugin is named and unusable -/
theorem discover_ok_iff (i : Input) (hpa : i.pluginAttr = .absent ∨ i.pluginAttr = .named)
    (hmv : i.minVerAttr = .absent ∨ i.minVerAttr = .valid) :
    discover i {} = .ok (S0 i) ↔ (named i = false ∨ pluginUsable i = true) := by
  unfold discover S0 named pluginUsable capsOf
  rcases hpa with hpa | hpa <;> rcases hmv with hmv | hmv <;> simp [hpa, hmv]
  all_goals
    cases i.pluginState <;> simp
    all_goals
      cases i.pluginVersion <;> simp
      all_goals cases i.capIdentity <;> cases i.capRevocation <;> simp

end NotationModel.C02

/-
C16 - lemmas about the lexical path functions of `Model/C16.lean` (used by `Props/C16.lean`).
-/
import NotationModel.Model.C16
set_option linter.unusedSimpArgs false
namespace NotationModel.C16

theorem splitSlash_ne_nil (p : Text) : splitSlash p ≠ [] := by
  cases p with
  | nil => simp [splitSlash]
  | cons c cs =>
    simp only [splitSlash]
    split
    · simp
    · split <;> simp

theorem splitSlash_append (a b : Text) : splitSlash (a ++ '/' :: b) = splitSlash a ++ splitSlash b := by
  induction a with
  | nil => simp [splitSlash]
  | cons c a ih =>
    simp only [List.cons_append, splitSlash]
    by_cases hc : c = '/'
    · simp [hc, ih]
    · simp only [hc, if_false, ih]
      cases h : splitSlash a with
      | nil => exact absurd h (splitSlash_ne_nil a)
      | cons x t => simp

theorem splitSlash_noslash (n : Text) (h : '/' ∉ n) : splitSlash n = [n] := by
  induction n with
  | nil => rfl
  | cons c n ih =>
    have hc : c ≠ '/' := fun e => h (by simp [e])
    have hn : '/' ∉ n := fun e => h (by simp [e])
    simp [splitSlash, hc, ih hn]

theorem splitSlash_slashfree (p : Text) : ∀ c ∈ splitSlash p, '/' ∉ c := by
  induction p with
  | nil => simp [splitSlash]
  | cons a p ih =>
    simp only [splitSlash]
    by_cases ha : a = '/'
    · simp only [ha, if_true]
      intro c hc
      rcases List.mem_cons.1 hc with h | h
      · simp [h]
      · exact ih c h
    · simp only [ha, if_false]
      cases h : splitSlash p with
      | nil => exact absurd h (splitSlash_ne_nil p)
      | cons x t =>
        rw [h] at ih
        intro c hc
        rcases List.mem_cons.1 hc with h' | h'
        · subst h'
          have := ih x (by simp)
          intro hm
          rcases List.mem_cons.1 hm with e | e
          · exact ha e.symm
          · exact this e
        · exact ih c (by simp [h'])


/-- a proper path component: not empty, no separator -/
def Plain (c : Text) : Prop := c ≠ [] ∧ '/' ∉ c

/-- a component `Clean` keeps as it is -/
def Good (c : Text) : Prop := c ≠ [] ∧ c ≠ dot ∧ c ≠ dotdot ∧ '/' ∉ c

theorem Good.plain {c : Text} (h : Good c) : Plain c := ⟨h.1, h.2.2.2⟩

theorem plain_dotdot : Plain dotdot := by
  refine ⟨by decide, ?_⟩
  decide

theorem comps_append_slash (a b : Text) : comps (a ++ '/' :: b) = comps a ++ comps b := by
  simp [comps, splitSlash_append]

theorem comps_cons_slash (b : Text) : comps ('/' :: b) = comps b := by
  simp [comps, splitSlash]

theorem comps_plain (c : Text) (h : Plain c) : comps c = [c] := by
  have : c.isEmpty = false := by
    cases c with
    | nil => exact absurd rfl h.1
    | cons => rfl
  simp [comps, splitSlash_noslash c h.2, this]

theorem comps_joinSlash : ∀ (cs : List Text), (∀ x ∈ cs, Plain x) → comps (joinSlash cs) = cs
  | [], _ => by simp [joinSlash, comps, splitSlash]
  | [a], h => by simpa [joinSlash] using comps_plain a (h a (by simp))
  | a :: b :: r, h => by
    have ih := comps_joinSlash (b :: r) (fun x hx => h x (by simp [hx]))
    simp only [joinSlash, comps_append_slash, ih, comps_plain a (h a (by simp))]
    rfl

theorem splitSlash_joinSlash : ∀ (cs : List Text), cs ≠ [] → (∀ x ∈ cs, '/' ∉ x) → splitSlash (joinSlash cs) = cs
  | [], h, _ => absurd rfl h
  | [a], _, h => by simpa [joinSlash] using splitSlash_noslash a (h a (by simp))
  | a :: b :: r, _, h => by
    have ih := splitSlash_joinSlash (b :: r) (by simp) (fun x hx => h x (by simp [hx]))
    simp only [joinSlash, splitSlash_append, ih, splitSlash_noslash a (h a (by simp))]
    rfl

theorem step_plain (r : Bool) (stk : List Text) (c : Text) (hs : ∀ x ∈ stk, Plain x) (hc : '/' ∉ c) :
    ∀ x ∈ step r stk c, Plain x := by
  unfold step
  split
  · exact hs
  · split
    · cases stk with
      | nil =>
        cases r
        · intro x hx
          simp at hx
          subst hx
          exact plain_dotdot
        · simp
      | cons t rest =>
        simp only []
        split
        · intro x hx
          rcases List.mem_cons.1 hx with e | e
          · subst e; exact plain_dotdot
          · exact hs x e
        · intro x hx
          exact hs x (by simp [hx])
    · rename_i h1 h2
      intro x hx
      rcases List.mem_cons.1 hx with e | e
      · subst e
        exact ⟨fun e => h1 (Or.inl e), hc⟩
      · exact hs x e

theorem foldl_step_plain (r : Bool) : ∀ (cs : List Text) (stk : List Text), (∀ x ∈ stk, Plain x) → (∀ c ∈ cs, '/' ∉ c) →
    ∀ x ∈ cs.foldl (step r) stk, Plain x
  | [], stk, hs, _ => by simpa using hs
  | c :: cs, stk, hs, hc => by
    simp only [List.foldl_cons]
    exact foldl_step_plain r cs _ (step_plain r stk c hs (hc c (by simp))) (fun c' h' => hc c' (by simp [h']))

theorem normComps_plain (r : Bool) (cs : List Text) (hc : ∀ c ∈ cs, '/' ∉ c) : ∀ x ∈ normComps r cs, Plain x := by
  intro x hx
  simp only [normComps, List.mem_reverse] at hx
  exact foldl_step_plain r cs [] (by simp) hc x hx

theorem rootComps_plain (root : Text) : ∀ x ∈ rootComps root, Plain x :=
  normComps_plain _ _ (splitSlash_slashfree root)

theorem step_good (r : Bool) (stk : List Text) (c : Text) (h : Good c) : step r stk c = c :: stk := by
  unfold step
  have h1 : ¬ (c = [] ∨ c = dot) := fun e => e.elim h.1 h.2.1
  simp [h1, h.2.2.1]

theorem foldl_step_good (r : Bool) : ∀ (items stk : List Text), (∀ x ∈ items, Good x) →
    items.foldl (step r) stk = items.reverse ++ stk
  | [], stk, _ => by simp
  | c :: cs, stk, h => by
    simp only [List.foldl_cons, step_good r stk c (h c (by simp))]
    rw [foldl_step_good r cs _ (fun x hx => h x (by simp [hx]))]
    simp

theorem normComps_append_good (r : Bool) (cs items : List Text) (h : ∀ x ∈ items, Good x) :
    normComps r (cs ++ items) = normComps r cs ++ items := by
  simp [normComps, List.foldl_append, foldl_step_good r items _ h]


theorem joinSlash_good_ne_nil (items : List Text) (hne : items ≠ []) (h : ∀ x ∈ items, Good x) :
    joinSlash items ≠ [] := by
  intro e
  have := splitSlash_joinSlash items hne (fun x hx => (h x hx).2.2.2)
  rw [e] at this
  simp only [splitSlash] at this
  have h0 := h [] (by rw [← this]; simp)
  exact h0.1 rfl

theorem joinSlash_good_not_rooted (items : List Text) (hne : items ≠ []) (h : ∀ x ∈ items, Good x) :
    isRooted (joinSlash items) = false := by
  have hs := splitSlash_joinSlash items hne (fun x hx => (h x hx).2.2.2)
  cases hq : joinSlash items with
  | nil => rfl
  | cons c t =>
    by_cases hc : c = '/'
    · subst hc
      rw [hq] at hs
      simp only [splitSlash, if_true] at hs
      have h0 := h [] (by rw [← hs]; simp)
      exact absurd rfl h0.1
    · simp [isRooted, hc]

theorem rootComps_nil : rootComps [] = [] := by
  simp [rootComps, normComps, splitSlash, step, isRooted]

/-- **the path the manager works on**: for components that `Clean` keeps, `SysPath` is the
cleaned root followed by exactly these components - for every root string. -/
theorem comps_sysPath (root : Text) (items : List Text) (hne : items ≠ []) (h : ∀ x ∈ items, Good x) :
    comps (sysPath root [joinSlash items]) = rootComps root ++ items := by
  have hq := joinSlash_good_ne_nil items hne h
  have hr := joinSlash_good_not_rooted items hne h
  have hs := splitSlash_joinSlash items hne (fun x hx => (h x hx).2.2.2)
  have hqe : (joinSlash items).isEmpty = false := by
    cases hj : joinSlash items with
    | nil => exact absurd hj hq
    | cons => rfl
  have hplain : ∀ x ∈ rootComps root ++ items, Plain x := by
    intro x hx
    rcases List.mem_append.1 hx with e | e
    · exact rootComps_plain root x e
    · exact (h x e).plain
  have hitems : ∀ x ∈ items, Plain x := fun x hx => (h x hx).plain
  cases root with
  | nil =>
    have hn : normComps false items = items := by
      have := normComps_append_good false [] items h
      simpa [normComps] using this
    have hi : items = [] ↔ False := ⟨hne, False.elim⟩
    simp only [sysPath, join, List.filter, List.isEmpty_nil, Bool.not_true, hqe, Bool.not_false, joinSlash,
      clean, hq, if_false, hr, hs, hn, rootComps_nil, List.nil_append, hi, Bool.false_eq_true]
    exact comps_joinSlash items hitems
  | cons c root =>
    have hP : (c :: root) ++ '/' :: joinSlash items ≠ [] := by simp
    have hroot : isRooted ((c :: root) ++ '/' :: joinSlash items) = isRooted (c :: root) := by
      simp [isRooted]
    have hcs : normComps (isRooted (c :: root)) (splitSlash ((c :: root) ++ '/' :: joinSlash items)) =
        rootComps (c :: root) ++ items := by
      rw [splitSlash_append, hs, normComps_append_good _ _ _ h]
      rfl
    have hne' : rootComps (c :: root) ++ items ≠ [] := by
      intro e
      exact hne (List.append_eq_nil_iff.1 e).2
    have hne'' : (rootComps (c :: root) ++ items = []) ↔ False := ⟨hne', False.elim⟩
    simp only [sysPath, join, List.filter, List.isEmpty_cons, Bool.not_false, hqe, joinSlash, clean, hP, if_false,
      hroot, hcs]
    by_cases hrt : isRooted (c :: root) = true
    · simp only [hrt, if_true, comps_cons_slash]
      exact comps_joinSlash _ hplain
    · simp only [hrt, hne'', if_false, Bool.false_eq_true]
      exact comps_joinSlash _ hplain

end NotationModel.C16
